(* Proofs about the counter abstraction of bigbuff.Exclusive (one key, one tagged call): Model/ExclusiveAbs.v.
   C09 (no two work functions of a key overlap) and the counting / ordering clauses of C10. *)
From Coq Require Import List Arith Lia Bool ZifyBool.
From BB Require Import Model.ExclusiveAbs.
Import ListNotations.
Arguments Nat.sub : simpl never. Arguments Nat.ltb : simpl never. Arguments Nat.leb : simpl never.
Arguments Nat.eqb : simpl never. Arguments Nat.mul : simpl never.

(* ========================================================================================================== *)
(* 1. The invariant (DESIGN.md A.6)                                                                           *)

Definition isSleep (r : rpc) : nat := match r with RSleep => 1 | _ => 0 end.
(* the runner has not yet delivered its own outcome *)
Definition owes (r : rpc) : nat := match r with RSleep | RWork => 1 | _ => 0 end.

Definition phase (r : rpc) (f : var -> nat) : Prop :=
  match r with
  | RNone => f mm <= 1 /\ f execa = 0 /\ f gwxc = 0 /\ f gwxs = 0
  | RSleep => f mm = 2 /\ f execa = 0 /\ f gwxc = 0 /\ f gwxs = 0 /\ f mcount >= 1
  | RWork => f mm = 2 /\ f execa = 1
  | RWorkRes => f mm = 2 /\ f execa = 1 /\ f gwxc = 0 /\ f gwxs = 0
  | RDone => f mm = 2 /\ f execa = 0 /\ f gwxc = 0 /\ f gwxs = 0
  end.

Definition Invc (r : rpc) (f : var -> nat) : Prop :=
  f overlap = 0 /\
  (f mm = 0 -> f c2mc = 0 /\ f c2ms = 0 /\ f gwmc = 0 /\ f gwms = 0 /\ f mcount = 0) /\
  f gwmc + f gwms <= f mcount /\
  (* an unattached idle item exists only between a fetch and its attach *)
  (f mm = 1 -> f mcount = 0 -> f c2mc + f c2ms >= 1) /\
  (* the start-style escape never strands an item: whoever incremented the count first is still there *)
  (f mcount >= 1 -> f gwmc + f gwms + isSleep r >= 1) /\
  f mm <= 2 /\ f rown <= 1 /\
  phase r f /\
  f issuedc = f answered + f c2mc + f c2sc + f gwmc + f gwxc + f gdc + owes r * f rown /\
  f started + f c2mc + f c2ms + f c2sc + f c2ss + f gwmc + f gwms + isSleep r <= f issuedc + f issueds.

Definition Inv (s : st) : Prop := Invc (rp s) (v s).

(* invariant of the tagged call: where it is counted, and what its ghost fields record *)
Definition TInvc (r : rpc) (f : var -> nat) (t : tagst) : Prop :=
  tcall t <= f started /\
  match tpc t with
  | TNone => tans t = 0
  | TC2M => f c2mc >= 1 /\ tans t = 0
  | TC2S => f c2sc >= 1 /\ tans t = 0
  | TGWM => f gwmc >= 1 /\ tans t = 0
  | TGWX => f gwxc >= 1 /\ tans t = 0 /\
            tag_started_after t = true /\ tcall t < texec t /\ texec t = f started
  | TGD => f gdc >= 1 /\ tans t = 0 /\
           tag_started_after t = true /\ tcall t < texec t /\ texec t <= f started /\ tres t = texec t
  | TRun => f rown = 1 /\ tans t = 0 /\
            match r with
            | RSleep => True
            | RWork => tag_started_after t = true /\ tcall t < texec t /\ texec t = f started
            | _ => False
            end
  | TDone => tans t = 1 /\
             tag_started_after t = true /\ tcall t < texec t /\ texec t <= f started /\ tres t = texec t
  end.

Definition TInv (s : st) : Prop := TInvc (rp s) (v s) (tg s).

(* ========================================================================================================== *)
(* 2. Preservation at the counter level                                                                       *)

Ltac split_ifs H :=
  repeat match type of H with
  | context [if ?c then _ else _] => let E := fresh "E" in destruct c eqn:E
  end.
Ltac split_goal_ifs :=
  repeat match goal with
  | |- context [if ?c then _ else _] => let E := fresh "E" in destruct c eqn:E
  end.
Ltac open_cstep H :=
  unfold cstep, become_runner, fetch, complete, replace, mk, pos in H;
  cbn [good clear_in_resolve no_forced_resolve escape_always orb] in H; cbv zeta in H;
  cbn [set var_beq] in H.
Ltac open_tag :=
  unfold TInvc, Invc, phase, tag_eff, guard, tag_pre, with_tpc, bound, resolved in *;
  cbn [tpc tag_started_after tcall texec tres tans set var_beq isSleep owes] in *.

Lemma Invc_cstep r f b e r' f' : Invc r f -> cstep good r f b = Some (e, r', f') -> Invc r' f'.
Proof.
  intros HI HS.
  destruct b as [k|k|k sl|k sl| | | | |k]; try destruct k; try destruct sl; destruct r;
    open_cstep HS; split_ifs HS; try discriminate HS;
    injection HS as <- <- <-;
    unfold Invc, phase in *; cbn [set var_beq isSleep owes] in *; split_goal_ifs; lia.
Qed.

Lemma TInvc_base r f t b e r' f' :
  Invc r f -> TInvc r f t -> guard (tpc t) f b = true -> cstep good r f b = Some (e, r', f') ->
  TInvc r' f' (tag_eff e f' t).
Proof.
  intros HI HT HG HS. destruct t as [tp sa tc te tr ta].
  destruct b as [k|k|k sl|k sl| | | | |k]; try destruct k; try destruct sl; destruct r;
    open_cstep HS; split_ifs HS; try discriminate HS;
    injection HS as <- <- <-;
    destruct tp; open_tag; lia.
Qed.

Lemma TInvc_tagged r f t p t1 e r' f' :
  Invc r f -> TInvc r f t -> tag_pre f p t = Some t1 -> cstep good r f (base_of p) = Some (e, r', f') ->
  TInvc r' f' (tag_eff e f' t1).
Proof.
  intros HI HT HP HS. destruct t as [tp sa tc te tr ta].
  destruct p as [| |sl|sl|]; try destruct sl; destruct tp;
    cbn [tag_pre tpc] in HP; try discriminate HP; injection HP as <-;
    cbn [base_of] in HS; destruct r;
    open_cstep HS; split_ifs HS; try discriminate HS;
    injection HS as <- <- <-;
    open_tag; lia.
Qed.

(* ========================================================================================================== *)
(* 3. Invariance along every schedule                                                                         *)

(* every step of the full model is a step of the counter protocol (the tag is pure bookkeeping) ... *)
Lemma step_proj fl s p s' :
  step_gen fl s p = Some s' -> exists e, cstep fl (rp s) (v s) (untag p) = Some (e, rp s', v s').
Proof.
  unfold step_gen, lift. intros H.
  destruct p as [b|t]; cbn [untag].
  - destruct (guard (tpc (tg s)) (v s) b); [|discriminate H].
    destruct (cstep fl (rp s) (v s) b) as [[[e r'] f']|]; [|discriminate H].
    injection H as <-. exists e. reflexivity.
  - destruct (tag_pre (v s) t (tg s)) as [t1|]; [|discriminate H].
    destruct (cstep fl (rp s) (v s) (base_of t)) as [[[e r'] f']|]; [|discriminate H].
    injection H as <-. exists e. reflexivity.
Qed.

(* ... and every enabled step of the counter protocol is taken by an anonymous or by the tagged goroutine *)
Lemma cstep_lift fl s b e r' f' :
  cstep fl (rp s) (v s) b = Some (e, r', f') ->
  exists p s', untag p = b /\ step_gen fl s p = Some s' /\ rp s' = r' /\ v s' = f'.
Proof.
  intros HS. destruct (guard (tpc (tg s)) (v s) b) eqn:HG.
  - exists (PB b). eexists. split; [reflexivity|]. unfold step_gen, lift. rewrite HG, HS. auto.
  - destruct b as [k|k|k sl|k sl| | | | |k]; try destruct k;
      destruct (tpc (tg s)) eqn:HT; cbn [guard] in HG; try discriminate HG.
    + exists (PT TStale). eexists. split; [reflexivity|]. unfold step_gen, lift, tag_pre. rewrite HT.
      cbn [base_of]. rewrite HS. auto.
    + exists (PT (TAttach sl)). eexists. split; [reflexivity|]. unfold step_gen, lift, tag_pre. rewrite HT.
      cbn [base_of]. rewrite HS. auto.
    + exists (PT (TWake sl)). eexists. split; [reflexivity|]. unfold step_gen, lift, tag_pre. rewrite HT.
      cbn [base_of]. rewrite HS. auto.
    + exists (PT TDrain). eexists. split; [reflexivity|]. unfold step_gen, lift, tag_pre. rewrite HT.
      cbn [base_of]. rewrite HS. auto.
Qed.

Lemma Inv_init a b : Inv (init a b).
Proof. unfold Inv, Invc, phase, init; cbn [rp v isSleep owes]. lia. Qed.

Lemma TInv_init a b : TInv (init a b).
Proof. unfold TInv, TInvc, init, tag0; cbn [rp v tg tpc tcall tans]. lia. Qed.

Lemma Inv_step s p s' : Inv s -> step s p = Some s' -> Inv s'.
Proof.
  intros HI HS. apply step_proj in HS. destruct HS as [e HS].
  exact (Invc_cstep _ _ _ _ _ _ HI HS).
Qed.

Lemma TInv_step s p s' : Inv s -> TInv s -> step s p = Some s' -> TInv s'.
Proof.
  unfold step, step_gen, lift, Inv, TInv. intros HI HT HS.
  destruct p as [b|t].
  - destruct (guard (tpc (tg s)) (v s) b) eqn:HG; [|discriminate HS].
    destruct (cstep good (rp s) (v s) b) as [[[e r'] f']|] eqn:HC; [|discriminate HS].
    injection HS as <-. cbn [rp v tg]. exact (TInvc_base _ _ _ _ _ _ _ HI HT HG HC).
  - destruct (tag_pre (v s) t (tg s)) as [t1|] eqn:HP; [|discriminate HS].
    destruct (cstep good (rp s) (v s) (base_of t)) as [[[e r'] f']|] eqn:HC; [|discriminate HS].
    injection HS as <-. cbn [rp v tg]. exact (TInvc_tagged _ _ _ _ _ _ _ _ HI HT HP HC).
Qed.

Lemma Inv_TInv_run_from s sched : Inv s -> TInv s -> Inv (run s sched) /\ TInv (run s sched).
Proof.
  revert s. induction sched as [|p rest IH]; intros s HI HT; [cbn; auto|].
  unfold run in *. cbn [run_gen]. fold step.
  destruct (step s p) as [s'|] eqn:HS.
  - apply IH; [exact (Inv_step _ _ _ HI HS)|exact (TInv_step _ _ _ HI HT HS)].
  - apply IH; assumption.
Qed.

Theorem Inv_run : forall a b sched, Inv (run (init a b) sched).
Proof. intros a b sched. apply Inv_TInv_run_from; [apply Inv_init|apply TInv_init]. Qed.

Theorem TInv_run : forall a b sched, TInv (run (init a b) sched).
Proof. intros a b sched. apply Inv_TInv_run_from; [apply Inv_init|apply TInv_init]. Qed.

(* ========================================================================================================== *)
(* 4. C09 (one key): no two executions overlap.  C10: executions never outnumber calls.                       *)

Theorem no_overlap_execs_le_calls : forall a b sched,
  let s := run (init a b) sched in
  v s overlap = 0 /\ v s started <= v s issuedc + v s issueds.
Proof.
  intros a b sched s. pose proof (Inv_run a b sched) as HI. fold s in HI.
  unfold Inv, Invc in HI. lia.
Qed.

(* never two outcomes for one call, at the counting level *)
Theorem answered_le_issued : forall s, Inv s -> v s answered <= v s issuedc.
Proof. intros s HI. unfold Inv, Invc in HI. lia. Qed.

Corollary answered_le_issued_run : forall a b sched,
  let s := run (init a b) sched in v s answered <= v s issuedc.
Proof. intros a b sched s. apply answered_le_issued, Inv_run. Qed.

(* ========================================================================================================== *)
(* 5. Terminal states: every call answered, nothing left behind                                               *)

Definition in_flight (f : var -> nat) : nat :=
  f nc + f ns + f c2mc + f c2ms + f c2sc + f c2ss + f gwmc + f gwms + f gwxc + f gwxs + f gdc + f gds.

Lemma cterminal r f :
  Invc r f -> (forall b, cstep good r f b = None) ->
  r = RNone /\ f mm = 0 /\ f answered = f issuedc /\ in_flight f = 0 /\ f mcount = 0.
Proof.
  intros HI H.
  pose proof (H (PCall KC)) as H1. pose proof (H (PCall KS)) as H2.
  pose proof (H (PStale KC)) as H3. pose proof (H (PStale KS)) as H4.
  pose proof (H (PAttach KC false)) as H5. pose proof (H (PAttach KS false)) as H6.
  pose proof (H (PWake KC false)) as H7. pose proof (H (PWake KS false)) as H8.
  pose proof (H PSleepDone) as H9. pose proof (H PResolve) as H10.
  pose proof (H PReturn) as H11. pose proof (H PG3) as H12.
  pose proof (H (PDrain KC)) as H13. pose proof (H (PDrain KS)) as H14.
  clear H.
  destruct r; open_cstep H9; open_cstep H10; open_cstep H11; open_cstep H12;
    split_ifs H12; try discriminate.
  open_cstep H1; split_ifs H1; try discriminate H1.
  open_cstep H2; split_ifs H2; try discriminate H2.
  open_cstep H3; split_ifs H3; try discriminate H3.
  open_cstep H4; split_ifs H4; try discriminate H4.
  open_cstep H5; split_ifs H5; try discriminate H5.
  open_cstep H6; split_ifs H6; try discriminate H6.
  open_cstep H7; split_ifs H7; try discriminate H7.
  open_cstep H8; split_ifs H8; try discriminate H8.
  open_cstep H13; split_ifs H13; try discriminate H13.
  open_cstep H14; split_ifs H14; try discriminate H14.
  unfold Invc, phase, in_flight in *. cbn [isSleep owes] in *.
  split; [reflexivity|]. lia.
Qed.

Lemma terminal_cstep s : (forall p, step s p = None) -> forall b, cstep good (rp s) (v s) b = None.
Proof.
  intros H b. destruct (cstep good (rp s) (v s) b) as [[[e r'] f']|] eqn:HS; [exfalso|reflexivity].
  destruct (cstep_lift _ _ _ _ _ _ HS) as (p & s' & _ & HP & _).
  fold step in HP. rewrite (H p) in HP. discriminate HP.
Qed.

Theorem terminal_all_answered_no_residue : forall s,
  Inv s -> (forall p, step s p = None) ->
  rp s = RNone /\ v s mm = 0 /\ v s answered = v s issuedc /\ in_flight (v s) = 0 /\ v s mcount = 0.
Proof. intros s HI HT. exact (cterminal _ _ HI (terminal_cstep _ HT)). Qed.

(* the tagged call cannot be left behind either *)
Theorem terminal_tag_settled : forall s,
  Inv s -> TInv s -> (forall p, step s p = None) -> tpc (tg s) = TNone \/ tpc (tg s) = TDone.
Proof.
  intros s HI HT HN. destruct (terminal_all_answered_no_residue s HI HN) as (Hr & _ & _ & Hf & _).
  unfold TInv, TInvc in HT. rewrite Hr in HT. unfold in_flight in Hf.
  destruct (tpc (tg s)); auto; exfalso; lia.
Qed.

Lemma all_picks_complete : forall p, In p all_picks.
Proof.
  intros [b|t]; unfold all_picks; apply in_or_app; [left|right]; apply in_map.
  - destruct b as [k|k|k sl|k sl| | | | |k]; try destruct k; try destruct sl; cbn; tauto.
  - destruct t as [| |sl|sl|]; try destruct sl; cbn; tauto.
Qed.

Lemma terminalb_spec s : terminalb s = true <-> (forall p, step s p = None).
Proof.
  unfold terminalb, terminalb_gen. fold step. rewrite forallb_forall. split.
  - intros H p. specialize (H p (all_picks_complete p)). destruct (step s p); [discriminate H|reflexivity].
  - intros H p _. rewrite H. reflexivity.
Qed.

Corollary terminalb_all_answered_no_residue : forall a b sched,
  let s := run (init a b) sched in
  terminalb s = true ->
  rp s = RNone /\ v s mm = 0 /\ v s answered = v s issuedc /\ in_flight (v s) = 0 /\ v s mcount = 0 /\
  (tpc (tg s) = TNone \/ tpc (tg s) = TDone).
Proof.
  intros a b sched s HB. pose proof (proj1 (terminalb_spec s) HB) as HT.
  pose proof (Inv_run a b sched) as HI. pose proof (TInv_run a b sched) as HTI. fold s in HI, HTI.
  pose proof (terminal_all_answered_no_residue s HI HT) as H.
  pose proof (terminal_tag_settled s HI HTI HT) as H'. tauto.
Qed.

(* ========================================================================================================== *)
(* 6. C10, ordering clause: the tagged call is answered once, by an execution begun after the call            *)

(* tcall = number of ExecStart events before the call's first step; texec = ordinal of the ExecStart that bound
   the call's item (set by `replace` while the call was attached to the map item or was the runner);
   tres = ordinal of the execution whose resolve completed that item.  tcall < texec says that ExecStart came
   after the call; tres = texec says the copied result is that execution's. *)
Theorem tagged_answered_after_call : forall a b sched,
  let s := run (init a b) sched in
  tpc (tg s) = TDone ->
  tag_started_after (tg s) = true /\ tcall (tg s) < texec (tg s) /\ tres (tg s) = texec (tg s) /\
  texec (tg s) <= v s started /\ tans (tg s) = 1.
Proof.
  intros a b sched s HD. pose proof (TInv_run a b sched) as HT. fold s in HT.
  unfold TInv, TInvc in HT. rewrite HD in HT. tauto.
Qed.

Theorem tagged_answered_at_most_once : forall a b sched,
  let s := run (init a b) sched in
  tans (tg s) <= 1 /\ (tans (tg s) = 1 <-> tpc (tg s) = TDone).
Proof.
  intros a b sched s. pose proof (TInv_run a b sched) as HT. fold s in HT.
  unfold TInv, TInvc in HT. destruct (tpc (tg s)); (split; [lia|split; [intros; exfalso; lia|discriminate]])
    || (split; [lia|split; [reflexivity|lia]]).
Qed.

(* ========================================================================================================== *)
(* 7. Termination: every step decreases a lexicographic measure, whatever the schedule                        *)

(* first component: an upper bound on the replace / delete events still to come (each of them can send every
   fetched reference back to "stale"); second component: total remaining pipeline length *)
Definition futF (r : rpc) : nat := match r with RNone => 0 | RSleep => 2 | _ => 1 end.
Definition futG (r : rpc) : nat := match r with RSleep | RWork => 2 | RWorkRes => 1 | _ => 0 end.
Definition measF (r : rpc) (f : var -> nat) : nat :=
  2 * (f nc + f ns + f c2mc + f c2ms + f c2sc + f c2ss + f gwmc + f gwms) + futF r.
Definition measG (r : rpc) (f : var -> nat) : nat :=
  5 * (f nc + f ns) + 5 * (f c2sc + f c2ss) + 4 * (f c2mc + f c2ms) + 3 * (f gwmc + f gwms)
  + 2 * (f gwxc + f gwxs) + (f gdc + f gds) + futG r.
Definition measure (s : st) : nat * nat := (measF (rp s) (v s), measG (rp s) (v s)).

Definition lexlt (x y : nat * nat) : Prop := fst x < fst y \/ (fst x = fst y /\ snd x < snd y).

Lemma lexlt_wf : well_founded lexlt.
Proof.
  intros [a b]. revert b. induction a as [a IHa] using lt_wf_ind.
  induction b as [b IHb] using lt_wf_ind. constructor. intros [a' b'] [H|[H1 H2]]; cbn [fst snd] in *.
  - apply IHa. exact H.
  - subst a'. apply IHb. exact H2.
Qed.

Lemma cstep_decreases r f b e r' f' :
  cstep good r f b = Some (e, r', f') ->
  measF r' f' < measF r f \/ (measF r' f' = measF r f /\ measG r' f' < measG r f).
Proof.
  intros HS.
  destruct b as [k|k|k sl|k sl| | | | |k]; try destruct k; try destruct sl; destruct r;
    open_cstep HS; split_ifs HS; try discriminate HS;
    injection HS as <- <- <-;
    unfold measF, measG; cbn [set var_beq futF futG]; lia.
Qed.

Theorem step_decreases : forall s p s', step s p = Some s' -> lexlt (measure s') (measure s).
Proof.
  intros s p s' HS. apply step_proj in HS. destruct HS as [e HS].
  unfold lexlt, measure; cbn [fst snd]. exact (cstep_decreases _ _ _ _ _ _ HS).
Qed.

(* no infinite sequence of enabled steps from any state: stale-reference retries are bounded *)
Theorem step_terminates : well_founded (fun s' s => exists p, step s p = Some s').
Proof.
  assert (H : forall m, Acc lexlt m -> forall s, measure s = m -> Acc (fun s' s => exists p, step s p = Some s') s).
  { intros m HA. induction HA as [m _ IH]. intros s Hm. constructor. intros s' [p HS].
    apply (IH (measure s')); [|reflexivity]. rewrite <- Hm. exact (step_decreases _ _ _ HS). }
  intros s. exact (H _ (lexlt_wf _) s eq_refl).
Qed.

(* ========================================================================================================== *)
(* 8. Mutation sensitivity: each defect falsifies the matching theorem on the SAME transition function         *)

Definition fl_clear  : flags := {| clear_in_resolve := true;  no_forced_resolve := false; escape_always := false |}.
Definition fl_noforce : flags := {| clear_in_resolve := false; no_forced_resolve := true;  escape_always := false |}.
Definition fl_escape : flags := {| clear_in_resolve := false; no_forced_resolve := false; escape_always := true |}.

(* resolve clears the successor's running flag: a waiter starts the next execution before the work returned *)
Theorem clear_in_resolve_refuted :
  exists sched, v (run_gen fl_clear (init 2 0) sched) overlap <> 0.
Proof.
  exists [PB (PCall KC); PB (PAttach KC false); PB (PCall KC); PB (PAttach KC false); PB PResolve;
          PB (PWake KC false)].
  vm_compute. discriminate.
Qed.

(* no forced resolve: a work function that returns without resolving leaves its caller unanswered for ever *)
Theorem no_forced_resolve_refuted :
  exists sched, let s := run_gen fl_noforce (init 1 0) sched in
    terminalb_gen fl_noforce s = true /\ v s answered < v s issuedc.
Proof.
  exists [PB (PCall KC); PB (PAttach KC false); PB PReturn; PB PG3].
  vm_compute. auto.
Qed.

(* escape hatch taken by the first attacher: the item stays in the map and nothing ever executes *)
Theorem escape_always_refuted :
  exists sched, let s := run_gen fl_escape (init 0 1) sched in
    terminalb_gen fl_escape s = true /\ v s mm <> 0 /\ v s issueds = 1 /\ v s started = 0.
Proof.
  exists [PB (PCall KS); PB (PAttach KS false)].
  vm_compute. repeat split; discriminate.
Qed.

(* the same schedules are harmless under the good flags *)
Example refutation_schedules_good :
  v (run (init 2 0) [PB (PCall KC); PB (PAttach KC false); PB (PCall KC); PB (PAttach KC false); PB PResolve;
                     PB (PWake KC false)]) overlap = 0 /\
  (let s := run (init 1 0) [PB (PCall KC); PB (PAttach KC false); PB PReturn; PB PG3] in
   terminalb s = true /\ v s answered = 1 /\ v s issuedc = 1) /\
  (let s := run (init 0 1) [PB (PCall KS); PB (PAttach KS false)] in
   terminalb s = false /\ rp s = RWork /\ v s started = 1).
Proof. vm_compute. auto. Qed.

(* ========================================================================================================== *)
(* 9. The interesting windows do occur                                                                        *)

(* a call arriving in the resolve-to-return gap (RWorkRes) attaches to the successor, waits for the work
   function to return, and is answered by the NEXT execution (number 2), never by the one already resolved *)
Definition sched_gap_prefix : list pick :=
  [PB (PCall KC); PB (PAttach KC false); PB PResolve; PT TCall; PT (TAttach false)].
Definition sched_gap : list pick :=
  sched_gap_prefix ++ [PB PReturn; PB PG3; PT (TWake false); PB PResolve; PB PReturn; PB PG3].

Example gap_call_attaches_to_successor :
  let s := run (init 2 0) sched_gap_prefix in
  rp s = RWorkRes /\ tpc (tg s) = TGWM /\ v s answered = 1 /\ v s started = 1 /\ tcall (tg s) = 1.
Proof. vm_compute. auto. Qed.

Example gap_call_answered_by_later_execution :
  let s := run (init 2 0) sched_gap in
  terminalb s = true /\ tpc (tg s) = TDone /\ tcall (tg s) = 1 /\ texec (tg s) = 2 /\ tres (tg s) = 2 /\
  v s started = 2 /\ v s answered = 2 /\ v s overlap = 0.
Proof. vm_compute. auto 10. Qed.

(* a call arriving during the CallAfter wait shares the (not yet started) execution of the sleeping runner *)
Definition sched_sleep : list pick :=
  [PB (PCall KC); PB (PAttach KC true); PT TCall; PT (TAttach false); PB PSleepDone; PB PResolve; PT TDrain;
   PB PReturn; PB PG3].
Example sleep_call_coalesced :
  let s := run (init 2 0) sched_sleep in
  terminalb s = true /\ tpc (tg s) = TDone /\ tcall (tg s) = 0 /\ texec (tg s) = 1 /\
  v s started = 1 /\ v s answered = 2.
Proof. vm_compute. auto 10. Qed.

(* a Start that escapes: the sleeping runner it piggybacks on does execute afterwards *)
Definition sched_escape : list pick :=
  [PB (PCall KC); PB (PAttach KC true); PB (PCall KS); PB (PAttach KS false); PB PSleepDone; PB PResolve;
   PB PReturn; PB PG3].
Example start_escapes :
  v (run (init 1 1) (firstn 4 sched_escape)) escaped = 1 /\
  v (run (init 1 1) (firstn 4 sched_escape)) started = 0 /\
  let s := run (init 1 1) sched_escape in
  terminalb s = true /\ v s escaped = 1 /\ v s started = 1 /\ v s answered = 1 /\ v s mm = 0.
Proof. vm_compute. auto 10. Qed.

(* a stale reference: the tagged call fetched the item, the runner replaced it, the call retries and is
   answered by the next execution *)
Definition sched_stale : list pick :=
  [PB (PCall KC); PT TCall; PB (PAttach KC false); PT TStale; PT (TAttach false); PB PReturn; PB PG3;
   PT (TWake false); PB PResolve; PB PReturn; PB PG3].
Example stale_retry :
  tpc (tg (run (init 2 0) (firstn 3 sched_stale))) = TC2S /\
  let s := run (init 2 0) sched_stale in
  terminalb s = true /\ tpc (tg s) = TDone /\ tcall (tg s) = 0 /\ texec (tg s) = 2 /\ v s answered = 2.
Proof. vm_compute. auto 10. Qed.

(* the hypotheses of the terminal theorem are satisfiable, and non-terminal states exist *)
Example terminal_hyps_satisfiable :
  Inv (run (init 2 0) sched_gap) /\ (forall p, step (run (init 2 0) sched_gap) p = None) /\
  terminalb (init 1 1) = false.
Proof.
  split; [apply Inv_run|]. split; [|vm_compute; reflexivity].
  apply terminalb_spec. vm_compute. reflexivity.
Qed.

(* ========================================================================================================== *)

Print Assumptions Inv_run.
Print Assumptions TInv_run.
Print Assumptions no_overlap_execs_le_calls.
Print Assumptions answered_le_issued.
Print Assumptions terminal_all_answered_no_residue.
Print Assumptions terminalb_all_answered_no_residue.
Print Assumptions tagged_answered_after_call.
Print Assumptions tagged_answered_at_most_once.
Print Assumptions step_decreases.
Print Assumptions step_terminates.
Print Assumptions clear_in_resolve_refuted.
Print Assumptions no_forced_resolve_refuted.
Print Assumptions escape_always_refuted.
