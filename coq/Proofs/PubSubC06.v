(* Additional lemmas about the counter abstraction of ChanPubSub used by Properties/C06.v and C07.v:
   serialisation of Sends, the zero-subscriber fast/slow return, the receipt count of a round, and the
   single-clause forms of the theorems of Proofs/PubSubAbs.v. *)
From Coq Require Import List Arith Lia Bool ZifyBool.
From BB.Model Require Import PubSubAbs.
From BB.Proofs Require Import PubSubAbs.
Import ListNotations.
Arguments Nat.sub : simpl never. Arguments Nat.ltb : simpl never. Arguments Nat.leb : simpl never.
Arguments Nat.eqb : simpl never. Arguments Nat.mul : simpl never. Arguments Nat.add : simpl never.

(* ------------------------------------------------------------------------------------------------------- *)
(* Single-clause forms                                                                                       *)

Lemma no_steal_run : forall senders subscribers sched, v (run (init senders subscribers) sched) steal = 0.
Proof. intros a b sched. apply (core_no_false_panic_no_steal a b sched). Qed.

Lemma no_false_panic_run : forall senders subscribers sched, v (run (init senders subscribers) sched) bad = 0.
Proof. intros a b sched. apply (core_no_false_panic_no_steal a b sched). Qed.

Lemma delivery_no_unowed_run : forall senders subscribers sched,
  let s := run (init senders subscribers) sched in
  (sp s = S5 \/ sp s = S6 \/ sp s = S7) -> v s b0n = 0 /\ v s n1n = 0.
Proof. intros a b sched s. apply delivery_no_unowed, Inv_run. Qed.

(* PRecvN (a subscriber that the running Send did not count takes a copy) is never enabled in a reachable state *)
Lemma uncounted_receive_disabled : forall senders subscribers sched,
  step (run (init senders subscribers) sched) PRecvN = None.
Proof.
  intros a b sched. pose proof (Inv_run a b sched) as HI.
  destruct (run (init a b) sched) as [c f]. destruct HI as (_ & _ & HP). cbn [sp v] in HP.
  unfold step, step_gen. cbn [sp v]. destruct c; try reflexivity.
  unfold phase_inv in HP. unfold pos.
  destruct (negb (f k =? 0) && negb (f b0n =? 0)) eqn:E; [lia | reflexivity].
Qed.

(* ------------------------------------------------------------------------------------------------------- *)
(* Sends are serialised: the model has ONE sender pc (the holder of sendMu); a queued Send (sq) becomes the    *)
(* running one only when nobody is running, and the running one leaves only by returning.                      *)

Lemma sends_serialised : forall s s', step s PSendLock = Some s' ->
  sp s = SNone /\ sp s' = S2 /\ v s' sq = v s sq - 1 /\ 0 < v s sq.
Proof.
  intros [c f] s' Hs. unfold step, step_gen in Hs. cbn [sp v] in *. unfold pos in Hs.
  destruct c; try discriminate Hs. destruct (negb (f sq =? 0)) eqn:E; [|discriminate Hs].
  injection Hs as <-. cbn [sp v mk set var_beq]. repeat split; lia.
Qed.

(* only the sender's own step (PS) or taking sendMu (PSendLock) changes the sender pc *)
Lemma sender_pc_changes_only_by_sender : forall s p s', step s p = Some s' ->
  p <> PS -> p <> PSendLock -> sp s' = sp s.
Proof.
  intros [c f] p s' Hs HnS HnL. unfold step, step_gen in Hs. cbn [sp v fl_wlock fl_route good_flags] in Hs.
  destruct p; try congruence;
    try (destruct c; try discriminate Hs);
    repeat match type of Hs with (if ?b then _ else _) = _ => destruct b; try discriminate Hs end;
    injection Hs as <-; reflexivity.
Qed.

(* ------------------------------------------------------------------------------------------------------- *)
(* Send returns 0 without blocking when nobody is subscribed                                                   *)

(* fast path: with subscribers = 0 a starting Send is always enabled, returns at once, and does not even queue on sendMu *)
Lemma zero_fast_return : forall s, 0 < v s nsend -> v s subs = 0 ->
  exists s', step s PSendStart = Some s' /\ sp s' = sp s /\ v s' sq = v s sq /\ v s' nsend = v s nsend - 1 /\
             v s' w = v s w /\ v s' wp = v s wp /\ v s' cnt = v s cnt /\ v s' pongN = v s pongN.
Proof.
  intros [c f] Hn Hz. cbn [sp v] in *. unfold step, step_gen. cbn [sp v]. unfold pos.
  destruct (negb (f nsend =? 0)) eqn:E; [|lia].
  eexists. split; [reflexivity|]. cbn [sp v mk set var_beq]. rewrite Hz. repeat split; reflexivity.
Qed.

(* slow path: the count turned 0 after the fast-path test; holding the write lock the Send reads 0, releases the lock and
   sendMu and returns 0: no caster operation, no pong phase *)
Lemma zero_slow_return : forall s, sp s = S4 -> v s subs = 0 ->
  exists s', step s PS = Some s' /\ sp s' = SNone /\ v s' w = 0 /\ v s' cnt = v s cnt /\ v s' armed = v s armed /\
             v s' pongN = v s pongN.
Proof.
  intros [c f] Hc Hz. cbn [sp v] in *. subst c. unfold step, step_gen. cbn [sp v]. rewrite Hz. cbn.
  eexists. split; [reflexivity|]. cbn [sp v mk set var_beq]. repeat split; reflexivity.
Qed.

(* ------------------------------------------------------------------------------------------------------- *)
(* The ghost receipt counter of the round equals the value Send returns                                        *)

Definition rcv_inv (s : st) : Prop :=
  match sp s with S8 | S9 | S10 => v s rcv = v s sent | _ => True end.

Lemma rcv_inv_step : forall s p s', Inv s -> rcv_inv s -> step s p = Some s' -> rcv_inv s'.
Proof.
  intros [c f] p s' (HC & HL & HP) HR Hs. unfold rcv_inv in *. cbn [sp v] in *.
  unfold step, step_gen in Hs. cbn [sp v fl_wlock fl_route good_flags] in Hs.
  destruct p; destruct c; try discriminate Hs;
    repeat match type of Hs with (if ?b then _ else _) = _ => destruct b; try discriminate Hs end;
    injection Hs as <-; cbn [sp v mk set var_beq]; try exact I; try exact HR;
    unfold phase_inv in HP; lia.
Qed.

Lemma rcv_inv_run : forall senders subscribers sched, rcv_inv (run (init senders subscribers) sched).
Proof.
  intros a b sched.
  assert (H : forall sc s, Inv s -> rcv_inv s -> rcv_inv (run s sc)).
  { induction sc as [|p rest IH]; intros s HI HR; [exact HR|].
    unfold run in *. cbn [run_gen]. fold (step s p).
    destruct (step s p) as [s'|] eqn:Hs; [|apply IH; assumption].
    apply IH; [eapply Inv_step; eassumption | eapply rcv_inv_step; eassumption]. }
  apply H; [apply Inv_init | exact I].
Qed.

(* When Send is about to return n (pc S9) exactly n copies were taken by subscribers in this round, each of them by a
   subscriber counted by this Send, and those n subscribers are all inside Wait; at S10 it waits for exactly the
   outstanding acknowledgements. *)
Theorem send_count_is_receipts : forall senders subscribers sched,
  let s := run (init senders subscribers) sched in
  (sp s = S9 -> v s sent = v s rcv /\ v s sent = v s b1) /\
  (sp s = S10 -> v s sent = v s rcv /\ v s pongN = v s b1).
Proof.
  intros a b sched s.
  pose proof (rcv_inv_run a b sched) as HR. pose proof (send_count_exact a b sched) as (H9 & H10).
  fold s in HR, H9, H10. unfold rcv_inv in HR.
  split; intros Hc; rewrite Hc in HR; [specialize (H9 Hc) | specialize (H10 Hc)]; lia.
Qed.

Example zero_fast_example : let s := run (init 1 0) [PSendStart] in v s nsend = 0 /\ v s sq = 0 /\ sp s = SNone /\ terminalb s = true.
Proof. vm_compute. auto. Qed.

(* slow path reached: the only subscriber leaves between the fast-path test and the write lock *)
Example zero_slow_example :
  let s := run (init 1 1) [PU0; PU1; PU2; PSendStart; PUnsubN; PN2KN; PN3K; PSendLock; PS; PS] in
  sp s = S4 /\ v s subs = 0 /\ sp (run s [PS]) = SNone /\ terminalb (run s [PS]) = true.
Proof. vm_compute. auto. Qed.
