(* calcExponentialRetry AS WRITTEN IN THE CURRENT SOURCE computes the model's delay function, for every input and every
   random source.

   coq/Gen/ImplPureRetry.v is printed by harness/cmd/gotr (-set retry) from /repo's retry.go on every run of the C18 check (a
   term of the embedding Model/GoFrag2.v; the constant maxShiftUint32 is read from the file's const declaration and
   inlined); this file is re-checked against it each time.  math/rand.Int63n is an ORACLE: the theorems quantify over ANY
   function [rnd : Z -> Z]; the equality with the model needs nothing of it, the slot bound needs Int63n's contract
   (0 <= rnd n < n for n > 0) as a hypothesis.  The script runs the interpreter in the three regions c < 31, c = 31, c > 31,
   normalises the fixed-width arithmetic and decides the comparisons it meets by linear arithmetic; `>=` for `>`, an
   else-branch, temporaries and a commuted product were tried and still check; a dropped or weakened clamp, a changed
   constant, a shift in another width do not. *)
From Coq Require Import List ZArith Bool String Lia.
From BB.Model Require Import GoFrag GoFrag2 Retry PureSpec.
From BB.Proofs Require Import GoFrag2.
From BB.Proofs Require Retry.
From BB.Gen Require Import ImplPureRetry.
Import ListNotations.
Local Open Scope string_scope.
Local Open Scope Z_scope.

(* the embedding's int64 and uint32 are the model's *)
Lemma i64_wrap_to x : i64 x = wrap_to TInt64 x.
Proof. reflexivity. Qed.

Lemma u32_wrap_to x : u32 x = wrap_to TUint32 x.
Proof. reflexivity. Qed.

Lemma pow2_pos k : 0 <= k -> 0 < 2 ^ k.
Proof. intros H. apply Z.pow_pos_nonneg; lia. Qed.

Lemma wrap_u32_pow k : 0 <= k <= 31 -> wrap_to TUint32 (2 ^ k) = 2 ^ k.
Proof.
  intros H. apply wrap_to_small. unfold in_range. apply andb_true_iff. split; [apply Z.leb_le | apply Z.ltb_lt].
  - pose proof (pow2_pos k ltac:(lia)). lia.
  - apply Z.pow_lt_mono_r; lia.
Qed.

Lemma wrap_i64_pow k : 0 <= k <= 31 -> wrap_to TInt64 (2 ^ k) = 2 ^ k.
Proof. intros H. rewrite <- (wrap_u32_pow k H). apply wrap_to_widen. reflexivity. Qed.

Lemma returned_i64 a b : a = b -> Returned (VInt (wrap_to TInt64 a)) [] = Returned (VInt (wrap_to TInt64 b)) [].
Proof. intros ->. reflexivity. Qed.

Ltac retry_norm := autorewrite with gowrap; rewrite ?wrap_u32_pow, ?wrap_i64_pow by lia.

(* for every duration d, every uint32 c and EVERY random source: the run of the translated source returns exactly the
   model's delay (and has no effect, does not panic) *)
Theorem calc_src_eq_model : forall (rnd : Z -> Z) d c, 0 <= c < 2 ^ 32 ->
  run2 (rand_fenv rnd) calcExponentialRetry_def [VInt d; VInt c]
  = delay_expected (calc_real max_shift_go (fun _ => rnd) 0 d c).
Proof.
  intros rnd d c Hc. unfold calc_real.
  destruct (Proofs.Retry.calc_n_pow max_shift_go c ltac:(unfold max_shift_go; lia) ltac:(lia)) as [Hn Hpos].
  rewrite Hn in *. rewrite (proj2 (Z.leb_gt _ _) Hpos). cbn [delay_expected]. unfold max_shift_go in *.
  rewrite i64_wrap_to.
  pose proof (pow2_pos 31 ltac:(lia)) as P31.
  destruct (Z.lt_trichotomy c 31) as [R | [R | R]];
    [ rewrite Z.min_l in * by lia | subst c; rewrite Z.min_r in * by lia | rewrite Z.min_r in * by lia ].
  all: go_eval; retry_norm; repeat (go_cmp_step; go_eval; retry_norm).
  all: first [ reflexivity | apply returned_i64; ring ].
Qed.

(* hence, with Int63n's contract: the source returns j slots of length d, 0 <= j <= 2^min(c,31) - 1, j the oracle's answer
   to exactly n = 2^min(c,31); computed in an int64, exact when the largest delay fits *)
Theorem calc_src_slots : forall (rnd : Z -> Z) d c, 0 <= c < 2 ^ 32 ->
  (forall n, 0 < n -> 0 <= rnd n < n) ->
  let slots := 2 ^ Z.min c max_shift_go in
  exists j, j = rnd slots /\ 0 <= j <= slots - 1 /\
    run2 (rand_fenv rnd) calcExponentialRetry_def [VInt d; VInt c] = Returned (VInt (i64 (j * d))) [] /\
    (0 < d -> (slots - 1) * d < 2 ^ 63 ->
     run2 (rand_fenv rnd) calcExponentialRetry_def [VInt d; VInt c] = Returned (VInt (j * d)) [] /\
     slot_ok d c (j * d) = true).
Proof.
  intros rnd d c Hc Hor slots.
  destruct (Proofs.Retry.calc_real_spec max_shift_go (fun _ => rnd) 0 d c ltac:(unfold max_shift_go; lia) ltac:(lia)
              (fun _ n Hn => Hor n Hn)) as [j [Hj [Hjr [H1 H2]]]].
  fold slots in Hj, Hjr, H2. exists j. split; [exact Hj|]. split; [exact Hjr|].
  rewrite calc_src_eq_model by exact Hc. split.
  - rewrite H1. reflexivity.
  - intros Hd Hfit. rewrite (H2 Hd Hfit). split; [reflexivity|].
    unfold slot_ok. rewrite Z.mod_mul by lia. rewrite Z.div_mul by lia. fold slots.
    rewrite (proj2 (Z.ltb_lt 0 d)) by lia. rewrite Z.eqb_refl.
    rewrite (proj2 (Z.leb_le 0 j)) by lia. rewrite (proj2 (Z.ltb_lt j slots)) by lia. reflexivity.
Qed.

(* non-vacuity, by running the translated source with the oracle "always the largest value" (n - 1) and "always 0":
   c = 3: 7 slots; c = 40 > 31 is clamped: 2^31 - 1 slots, like c = 31; c = 2^32 - 1 too; a product that does not fit an
   int64 wraps (explicitly); the oracle's hypothesis is satisfiable *)
Example calc_src_examples_run :
  let mx := fun n => n - 1 in
  let run := fun d c => run2 (rand_fenv mx) calcExponentialRetry_def [VInt d; VInt c] in
  run 1000 3 = Returned (VInt 7000) [] /\
  run 1000 0 = Returned (VInt 0) [] /\
  run 1000 31 = Returned (VInt 2147483647000) [] /\
  run 1000 40 = Returned (VInt 2147483647000) [] /\
  run 1000 4294967295 = Returned (VInt 2147483647000) [] /\
  run (2 ^ 33) 31 = Returned (VInt (- 2 ^ 33)) [] /\
  (forall n, 0 < n -> 0 <= mx n < n).
Proof. cbv zeta. repeat split; try (vm_compute; reflexivity); lia. Qed.

(* the oracle "always 0" satisfies the contract too, and gives no delay *)
Example calc_src_example_zero :
  run2 (rand_fenv (fun _ => 0)) calcExponentialRetry_def [VInt 1000; VInt 40] = Returned (VInt 0) [] /\
  (forall n : Z, 0 < n -> 0 <= 0 < n).
Proof. split; [vm_compute; reflexivity | lia]. Qed.
