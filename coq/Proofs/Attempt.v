(* Proofs about Model/Attempt.v (LinearAttempt): the control/counting invariant InvC, the timestamp invariant InvT,
   and the clauses used by Properties/C20.v; refutations of four realistic defects on the same step function. *)
From Coq Require Import List Arith Lia Bool.
From BB.Model Require Import Attempt.
Import ListNotations.

Arguments Nat.sub : simpl never.
Arguments Nat.ltb : simpl never.
Arguments Nat.leb : simpl never.
Arguments Nat.eqb : simpl never.

(* the code as it is: all defect flags off; cap >= 1 (it is 1), count >= 1 (else LinearAttempt panics at l.38-40) *)
Definition wf (c : cfg) : Prop :=
  1 <= cap c /\ 1 <= count c /\
  v_countdrop c = false /\ v_norecheck c = false /\ v_blocksend c = false /\ v_noclose1 c = false.

Lemma wf_faithful n : 1 <= n -> wf (faithful n).
Proof. intros H. unfold wf, faithful, impl_cap; cbn. repeat split; auto. Qed.

Definition reachable (c : cfg) (s : st) : Prop := exists sched, s = run c init sched.

(* ------------------------------------------------------------------------------------------------------------ *)
(* generic: invariants of step are invariants of run                                                            *)
(* ------------------------------------------------------------------------------------------------------------ *)
Lemma run_app c s a b : run c s (a ++ b) = run c (run c s a) b.
Proof. revert s; induction a as [|l a IH]; intros s; cbn; [reflexivity | apply IH]. Qed.

Lemma run_inv (c : cfg) (P : st -> Prop) :
  (forall s l s' o, P s -> step c s l = Some (s', o) -> P s') ->
  forall sched s, P s -> P (run c s sched).
Proof.
  intros Hstep sched; induction sched as [|l r IH]; intros s Hs; cbn; [exact Hs|].
  apply IH. unfold step1. destruct (step c s l) as [[s' o]|] eqn:E; [eapply Hstep; eauto | exact Hs].
Qed.

(* ------------------------------------------------------------------------------------------------------------ *)
(* the control / counting invariant                                                                             *)
(* ------------------------------------------------------------------------------------------------------------ *)
Definition at_send (s : st) : nat :=
  (match gpc s with GSend => 1 | _ => 0 end) + (match cpc s with CSend0 => 1 | _ => 0 end).

Definition closed_spec (s : st) : bool :=
  match gpc s, cpc s with GExit, _ => true | GNone, CRet => true | _, _ => false end.

Definition armed_spec (p : gpcT) : bool :=
  match p with GLoop | GSelect | GRecheck | GSend | GStop => true | _ => false end.

Definition InvC (c : cfg) (s : st) : Prop :=
  sent s = recvd s ++ chanq s /\
  length (chanq s) <= cap c /\
  (match cpc s with
   | CEntry | CSend0 => sent s = [] /\ gpc s = GNone
   | CDec => length (sent s) = 1 /\ recvd s = [] /\ gpc s = GNone
   | CRet => match gpc s with
             | GNone => (sent s = [] /\ cancelled s = true) \/ (length (sent s) = 1 /\ count c = 1)
             | _ => length (sent s) = 1 + i s /\ 1 <= cnt c /\ i s <= cnt c
             end
   end) /\
  (match gpc s with GSelect | GRecheck | GSend => i s < cnt c | GTicker | GNone => i s = 0 | _ => True end) /\
  (match gpc s with GStop | GClose | GExit => cancelled s = true \/ i s = cnt c | _ => True end) /\
  closed s = closed_spec s /\
  armed s = armed_spec (gpc s) /\
  (rclosed s = true -> closed s = true /\ chanq s = []) /\
  (if cancelled s
   then sac s + at_send s <= 1 /\ rac s + length (chanq s) + at_send s <= cap c + 1
   else sac s = 0 /\ rac s = 0).

Lemma InvC_init c : InvC c init.
Proof. unfold InvC, init; cbn. repeat split; auto; try lia; intros; discriminate. Qed.

Ltac fin :=
  unfold InvC, at_send, closed_spec, armed_spec, cnt, set_cpc, set_gpc, set_closed, set_cancelled, set_i, set_armed,
    set_rclosed, do_tick, take_tick, do_send, do_recv in *;
  cbn [cpc gpc chanq closed cancelled i tmp tickbuf armed now sent recvd rclosed sac rac cap count
       v_countdrop v_norecheck v_blocksend v_noclose1] in *;
  repeat rewrite app_length in *; cbn [length] in *;
  repeat match goal with
         | |- _ /\ _ => split
         | |- True => exact I
         end;
  try assumption; try reflexivity; try lia; try (rewrite <- app_assoc; reflexivity);
  try solve [intuition (try lia; try congruence)].

Lemma step_InvC c s l s' o : wf c -> InvC c s -> step c s l = Some (s', o) -> InvC c s'.
Proof.
  intros Hwf HI Hs.
  destruct c as [cap0 count0 f1 f2 f3 f4].
  unfold wf in Hwf; cbn in Hwf. destruct Hwf as (Hcap & Hcount & -> & -> & -> & ->).
  destruct s as [cpc0 gpc0 q cl ca i0 tmp0 tb ar nw se re rc sa ra].
  unfold InvC in HI; cbn [cpc gpc chanq closed cancelled i tmp tickbuf armed now sent recvd rclosed sac rac cap count] in HI.
  destruct HI as (H1 & H2 & H3 & H4 & H5 & H6 & H7 & H8 & H9).
  destruct l; cbn in Hs.
  - (* LCall *)
    destruct cpc0.
    + destruct H3 as (H3a & ->). destruct ca; inversion Hs; subst; clear Hs; fin.
    + destruct H3 as (H3a & ->).
      destruct (Nat.ltb_spec (length q) cap0); inversion Hs; subst; clear Hs.
      destruct re; destruct q; try discriminate. destruct ca; fin.
    + destruct H3 as (H3a & H3b & ->). unfold cnt in Hs; cbn in Hs.
      destruct (Nat.eqb_spec (count0 - 1) 0); inversion Hs; subst; clear Hs; destruct ca; fin.
    + discriminate.
  - (* LProd *)
    destruct gpc0; try discriminate;
      (destruct cpc0; [destruct H3 as (_ & H3); discriminate | destruct H3 as (_ & H3); discriminate
                      | destruct H3 as (_ & _ & H3); discriminate | ]).
    + inversion Hs; subst; clear Hs; destruct ca; fin.
    + unfold cnt in Hs; cbn in Hs.
      destruct (Nat.ltb_spec i0 (count0 - 1)); inversion Hs; subst; clear Hs; destruct ca; fin.
    + destruct ca; destruct tb as [t|]; try destruct prefer_done; inversion Hs; subst; clear Hs; fin.
    + destruct ca; cbn in Hs; inversion Hs; subst; clear Hs; fin.
    + destruct (Nat.ltb_spec (length q) cap0); inversion Hs; subst; clear Hs; destruct ca; fin.
    + inversion Hs; subst; clear Hs; destruct ca; fin.
    + inversion Hs; subst; clear Hs; destruct ca; fin.
  - (* LTick *)
    destruct ar; inversion Hs; subst; clear Hs. destruct ca; fin.
  - (* LCancel *)
    destruct ca; inversion Hs; subst; clear Hs.
    destruct cpc0; destruct gpc0; fin.
  - (* LRecv *)
    destruct cpc0; try discriminate. destruct rc; try discriminate.
    destruct q as [|v rest].
    + destruct cl; inversion Hs; subst; clear Hs. destruct ca; fin.
    + inversion Hs; subst; clear Hs. destruct ca; destruct gpc0; fin.
Qed.
