(* Proofs about Model/Attempt.v (LinearAttempt): the control/counting invariant InvC, the timestamp invariant InvT,
   and the clauses used by Properties/C20.v; refutations of four realistic defects on the same step function. *)
From Coq Require Import List Arith Lia Bool.
From BB.Model Require Import Attempt.
Import ListNotations.

Arguments Nat.sub : simpl never.
Arguments Nat.ltb : simpl never.
Arguments Nat.leb : simpl never.
Arguments Nat.eqb : simpl never.

(* the code as it is: all defect flags off; cap >= 1 (it is 1), count >= 1 (else LinearAttempt panics at l.38-40) *)
Definition wf (c : cfg) : Prop :=
  1 <= cap c /\ 1 <= count c /\
  v_countdrop c = false /\ v_norecheck c = false /\ v_blocksend c = false /\ v_noclose1 c = false.

Lemma wf_faithful n : 1 <= n -> wf (faithful n).
Proof. intros H. unfold wf, faithful, impl_cap; cbn. repeat split; auto. Qed.

Definition reachable (c : cfg) (s : st) : Prop := exists sched, s = run c init sched.

(* ------------------------------------------------------------------------------------------------------------ *)
(* generic: invariants of step are invariants of run                                                            *)
(* ------------------------------------------------------------------------------------------------------------ *)
Lemma run_app c s a b : run c s (a ++ b) = run c (run c s a) b.
Proof. revert s; induction a as [|l a IH]; intros s; cbn; [reflexivity | apply IH]. Qed.

Lemma run_inv (c : cfg) (P : st -> Prop) :
  (forall s l s' o, P s -> step c s l = Some (s', o) -> P s') ->
  forall sched s, P s -> P (run c s sched).
Proof.
  intros Hstep sched; induction sched as [|l r IH]; intros s Hs; cbn; [exact Hs|].
  apply IH. unfold step1. destruct (step c s l) as [[s' o]|] eqn:E; [eapply Hstep; eauto | exact Hs].
Qed.

(* ------------------------------------------------------------------------------------------------------------ *)
(* the control / counting invariant                                                                             *)
(* ------------------------------------------------------------------------------------------------------------ *)
Definition at_send (s : st) : nat :=
  (match gpc s with GSend => 1 | _ => 0 end) + (match cpc s with CSend0 => 1 | _ => 0 end).

Definition closed_spec (s : st) : bool :=
  match gpc s, cpc s with GExit, _ => true | GNone, CRet => true | _, _ => false end.

Definition armed_spec (p : gpcT) : bool :=
  match p with GLoop | GSelect | GRecheck | GSend | GStop => true | _ => false end.

Definition InvC (c : cfg) (s : st) : Prop :=
  sent s = recvd s ++ chanq s /\
  length (chanq s) <= cap c /\
  (match cpc s with
   | CEntry | CSend0 => sent s = [] /\ gpc s = GNone
   | CDec => length (sent s) = 1 /\ recvd s = [] /\ gpc s = GNone
   | CRet => match gpc s with
             | GNone => (sent s = [] /\ cancelled s = true) \/ (length (sent s) = 1 /\ count c = 1)
             | _ => length (sent s) = 1 + i s /\ 1 <= cnt c /\ i s <= cnt c
             end
   end) /\
  (match gpc s with GSelect | GRecheck | GSend => i s < cnt c | GTicker | GNone => i s = 0 | _ => True end) /\
  (match gpc s with GStop | GClose | GExit => cancelled s = true \/ i s = cnt c | _ => True end) /\
  closed s = closed_spec s /\
  armed s = armed_spec (gpc s) /\
  (rclosed s = true -> closed s = true /\ chanq s = []) /\
  (if cancelled s
   then sac s + at_send s <= 1 /\ rac s + length (chanq s) + at_send s <= cap c + 1
   else sac s = 0 /\ rac s = 0).

Lemma InvC_init c : InvC c init.
Proof. unfold InvC, init; cbn. repeat split; auto; try lia; intros; discriminate. Qed.

Ltac fin :=
  subst; cbv beta iota;
  unfold InvC, at_send, closed_spec, armed_spec, cnt in *;
  cbn [cpc gpc chanq closed cancelled i tmp tickbuf armed now sent recvd rclosed sac rac cap count
       v_countdrop v_norecheck v_blocksend v_noclose1 andb negb
       set_cpc set_gpc set_closed set_cancelled set_i set_armed set_rclosed do_tick take_tick do_send do_recv] in *;
  repeat rewrite app_length in *; cbn [length] in *;
  repeat match goal with
         | |- _ /\ _ => split
         | |- True => exact I
         end;
  try first
    [ assumption | reflexivity | lia | (rewrite <- app_assoc; reflexivity) | discriminate | (intros; discriminate)
    | tauto | (left; split; [reflexivity | lia]) | (right; lia) | (left; lia) | (left; reflexivity) | (right; reflexivity)
    | solve [intuition (try lia; try congruence)] ].

Ltac start_step c s Hwf HI :=
  destruct c as [cap0 count0 f1 f2 f3 f4];
  unfold wf in Hwf; cbn [cap count v_countdrop v_norecheck v_blocksend v_noclose1] in Hwf;
  destruct Hwf as (Hcap & Hcount & -> & -> & -> & ->);
  destruct s as [cpc0 gpc0 q cl ca i0 tmp0 tb ar nw se re rc sa ra];
  unfold InvC in HI; cbn [cpc gpc chanq closed cancelled i tmp tickbuf armed now sent recvd rclosed sac rac cap count] in HI;
  destruct HI as (H1 & H2 & H3 & H4 & H5 & H6 & H7 & H8 & H9).

Definition post (c : cfg) (P : st -> Prop) (r : option (st * out)) : Prop :=
  match r with Some (s', _) => P s' | None => True end.

Ltac stp := unfold step, post, cnt;
  cbn [cpc gpc chanq closed cancelled i tmp tickbuf armed now sent recvd rclosed sac rac cap count
       v_countdrop v_norecheck v_blocksend v_noclose1 andb negb].

Lemma call_InvC c s : wf c -> InvC c s -> post c (InvC c) (step c s LCall).
Proof.
  intros Hwf HI. start_step c s Hwf HI. stp.
  destruct cpc0; cbv beta iota.
  - destruct H3 as (H3a & ->). destruct ca; fin.
  - destruct H3 as (H3a & ->).
    destruct (Nat.ltb_spec (length q) cap0); [|exact I].
    destruct re; destruct q; subst; try discriminate. destruct ca; fin.
  - destruct H3 as (H3a & H3b & ->).
    destruct (Nat.eqb_spec (count0 - 1) 0); destruct ca; fin.
  - exact I.
Qed.

Lemma prod_InvC c s pd : wf c -> InvC c s -> post c (InvC c) (step c s (LProd pd)).
Proof.
  intros Hwf HI. start_step c s Hwf HI. stp.
  destruct gpc0; cbv beta iota; try exact I;
    (destruct cpc0; [destruct H3 as (_ & H3); discriminate | destruct H3 as (_ & H3); discriminate
                    | destruct H3 as (_ & _ & H3); discriminate | ]).
  - destruct ca; fin.
  - destruct (Nat.ltb_spec i0 (count0 - 1)); destruct ca; fin.
  - destruct ca; destruct tb as [t|]; try destruct pd; fin.
  - destruct ca; fin.
  - destruct (Nat.ltb_spec (length q) cap0); destruct ca; fin.
  - destruct ca; fin.
  - destruct ca; fin.
Qed.

Lemma tick_InvC c s d : wf c -> InvC c s -> post c (InvC c) (step c s (LTick d)).
Proof.
  intros Hwf HI. start_step c s Hwf HI. stp.
  destruct ar; [|exact I]. destruct ca; fin.
Qed.

Lemma cancel_InvC c s : wf c -> InvC c s -> post c (InvC c) (step c s LCancel).
Proof.
  intros Hwf HI. start_step c s Hwf HI. stp.
  destruct ca; [exact I|].
  destruct cpc0; destruct gpc0; fin.
Qed.

Lemma recv_InvC c s : wf c -> InvC c s -> post c (InvC c) (step c s LRecv).
Proof.
  intros Hwf HI. start_step c s Hwf HI. stp.
  destruct cpc0; try exact I. destruct rc; try exact I.
  destruct q as [|v rest].
  - destruct cl; [|exact I]. destruct ca; fin.
  - destruct ca; destruct gpc0; fin.
Qed.

Lemma step_InvC c s l s' o : wf c -> InvC c s -> step c s l = Some (s', o) -> InvC c s'.
Proof.
  intros Hwf HI Hs.
  assert (Hp : post c (InvC c) (step c s l)).
  { destruct l; [apply call_InvC | apply prod_InvC | apply tick_InvC | apply cancel_InvC | apply recv_InvC]; assumption. }
  rewrite Hs in Hp. exact Hp.
Qed.

Lemma run_InvC c sched : wf c -> InvC c (run c init sched).
Proof.
  intros Hwf. apply (run_inv c (InvC c)); [|apply InvC_init].
  intros s l s' o HI Hs. eapply step_InvC; eauto.
Qed.

Lemma reach_InvC c s : wf c -> reachable c s -> InvC c s.
Proof. intros Hwf [sched ->]. apply run_InvC; assumption. Qed.

(* ------------------------------------------------------------------------------------------------------------ *)
(* the timestamp invariant (holds for every variant)                                                            *)
(* ------------------------------------------------------------------------------------------------------------ *)
Fixpoint nondec (l : list nat) : Prop :=
  match l with [] => True | x :: r => Forall (fun y => x <= y) r /\ nondec r end.

Lemma nondec_snoc l x : nondec l -> Forall (fun v => v <= x) l -> nondec (l ++ [x]).
Proof.
  induction l as [|a l IH]; cbn; intros Hn Hf.
  - split; constructor.
  - destruct Hn as [Ha Hn]. inversion Hf as [|? ? Hax Hf']; subst. split.
    + apply Forall_app; split; [assumption | constructor; [assumption | constructor]].
    + apply IH; assumption.
Qed.

Lemma nondec_app_l a b : nondec (a ++ b) -> nondec a.
Proof.
  induction a as [|x a IH]; cbn; [auto|]. intros [H1 H2]. split; [|auto].
  apply Forall_app in H1. tauto.
Qed.

Lemma nondec_nth l : nondec l -> forall i j, i <= j -> j < length l -> nth i l 0 <= nth j l 0.
Proof.
  induction l as [|a l IH]; cbn; intros Hn i j Hij Hj; [lia|].
  destruct Hn as [Ha Hn]. destruct i as [|i]; destruct j as [|j]; try lia.
  - rewrite Forall_forall in Ha. apply Ha. apply nth_In. lia.
  - apply IH; [assumption | lia | lia].
Qed.

Lemma nondec_nondecb l : nondec l -> nondecb l = true.
Proof.
  induction l as [|a l IH]; cbn; [auto|]. intros [Ha Hn]. destruct l as [|b l]; [reflexivity|].
  inversion Ha; subst. apply andb_true_intro; split; [apply Nat.leb_le; assumption | apply IH; assumption].
Qed.

Lemma Forall_le_trans (l : list nat) a b : Forall (fun v => v <= a) l -> a <= b -> Forall (fun v => v <= b) l.
Proof. intros H Hab. eapply Forall_impl; [|exact H]. cbn; intros; lia. Qed.

Lemma Forall_le_snoc (l : list nat) x b : Forall (fun v => v <= b) l -> x <= b -> Forall (fun v => v <= b) (l ++ [x]).
Proof. intros H Hx. apply Forall_app; split; [assumption | constructor; [assumption | constructor]]. Qed.

Definition InvT (s : st) : Prop :=
  nondec (sent s) /\
  Forall (fun v => v <= now s) (sent s) /\
  (match tickbuf s with Some t => t <= now s /\ Forall (fun v => v <= t) (sent s) | None => True end) /\
  (match gpc s with
   | GRecheck | GSend =>
       tmp s <= now s /\ Forall (fun v => v <= tmp s) (sent s) /\
       match tickbuf s with Some t => tmp s <= t | None => True end
   | _ => True
   end) /\
  (match cpc s with CRet => True | _ => tickbuf s = None /\ armed s = false /\ gpc s = GNone end).

Lemma InvT_init : InvT init.
Proof. unfold InvT, init; cbn. repeat split; auto. Qed.

Ltac finT :=
  subst; cbv beta iota;
  unfold InvT in *;
  cbn [cpc gpc chanq closed cancelled i tmp tickbuf armed now sent recvd rclosed sac rac cap count
       v_countdrop v_norecheck v_blocksend v_noclose1 andb negb
       set_cpc set_gpc set_closed set_cancelled set_i set_armed set_rclosed do_tick take_tick do_send do_recv] in *;
  repeat match goal with
         | H : _ /\ _ |- _ => destruct H
         end;
  subst; cbv beta iota in *;
  repeat match goal with
         | H : _ /\ _ |- _ => destruct H
         end;
  repeat match goal with
         | |- _ /\ _ => split
         | |- True => exact I
         end;
  try first
    [ assumption | reflexivity | lia | discriminate
    | (apply nondec_snoc; assumption)
    | (apply Forall_le_snoc; first [assumption | lia | (eapply Forall_le_trans; [eassumption | lia])])
    | (eapply Forall_le_trans; [eassumption | lia]) ].

Lemma step_InvT c s l s' o : InvT s -> step c s l = Some (s', o) -> InvT s'.
Proof.
  intros HI Hs.
  assert (Hp : post c InvT (step c s l)); [|rewrite Hs in Hp; exact Hp]. clear Hs s' o.
  destruct s as [cpc0 gpc0 q cl ca i0 tmp0 tb ar nw se re rc sa ra].
  destruct l; stp.
  - (* LCall *)
    destruct cpc0; cbv beta iota; try exact I.
    + destruct ca; finT.
    + destruct (length q <? cap c); [|exact I]. finT.
    + destruct (count c - 1 =? 0); [destruct (v_noclose1 c)|]; finT.
  - (* LProd *)
    destruct gpc0; cbv beta iota; try exact I.
    + destruct cpc0; finT.
    + destruct (i0 <? count c - 1); destruct cpc0; finT.
    + destruct ca; destruct tb as [t|]; try destruct prefer_done; try exact I; destruct cpc0; finT.
    + destruct (ca && negb (v_norecheck c)); destruct cpc0; destruct tb; finT.
    + destruct (length q <? cap c); [|destruct (v_blocksend c); [exact I | destruct (v_countdrop c)]];
        destruct cpc0; destruct tb; finT.
    + destruct cpc0; finT.
    + destruct cpc0; finT.
  - (* LTick *)
    destruct ar; [|exact I]. destruct cpc0; destruct tb; destruct gpc0; finT.
  - (* LCancel *)
    destruct ca; [exact I|]. finT.
  - (* LRecv *)
    destruct cpc0; try exact I. destruct rc; try exact I.
    destruct q as [|v rest]; [destruct cl; [|exact I]|]; finT.
Qed.

Lemma run_InvT c sched : InvT (run c init sched).
Proof.
  apply (run_inv c InvT); [|apply InvT_init].
  intros s l s' o HI Hs. eapply step_InvT; eauto.
Qed.

(* ------------------------------------------------------------------------------------------------------------ *)
(* clauses of C20                                                                                               *)
(* ------------------------------------------------------------------------------------------------------------ *)
Ltac open_inv c s Hwf HI :=
  destruct c as [cap0 count0 f1 f2 f3 f4];
  unfold wf in Hwf; cbn [cap count v_countdrop v_norecheck v_blocksend v_noclose1] in Hwf;
  destruct Hwf as (Hcap & Hcount & -> & -> & -> & ->);
  destruct s as [cpc0 gpc0 q cl ca i0 tmp0 tb ar nw se re rc sa ra];
  unfold InvC, cnt in HI; cbn [cpc gpc chanq closed cancelled i tmp tickbuf armed now sent recvd rclosed sac rac cap count] in HI;
  destruct HI as (H1 & H2 & H3 & H4 & H5 & H6 & H7 & H8 & H9).

(* never more than count values are sent, whatever the schedule; what was sent is what was received plus what is buffered *)
Lemma sent_le_count c s : wf c -> InvC c s -> length (sent s) <= count c /\ sent s = recvd s ++ chanq s.
Proof.
  intros Hwf HI. split; [|apply HI].
  open_inv c s Hwf HI. cbn [sent count].
  destruct cpc0.
  - destruct H3 as (-> & _). cbn; lia.
  - destruct H3 as (-> & _). cbn; lia.
  - lia.
  - destruct gpc0; try lia. destruct H3 as [(-> & _) | (? & ?)]; cbn; lia.
Qed.

Lemma at_most_count c sched : wf c ->
  let s := run c init sched in
  length (sent s) <= count c /\ sent s = recvd s ++ chanq s /\ length (recvd s) <= count c.
Proof.
  intros Hwf s. destruct (sent_le_count c s Hwf (run_InvC c sched Hwf)) as [Ha Hb].
  repeat split; try assumption. rewrite Hb, app_length in Ha. lia.
Qed.

Lemma buffer_le_cap c sched : wf c -> length (chanq (run c init sched)) <= cap c.
Proof. intros Hwf. apply (run_InvC c sched Hwf). Qed.

Lemma nondecreasing c sched :
  let s := run c init sched in
  nondec (sent s) /\
  (wf c -> forall a b, a <= b -> b < length (recvd s) -> nth a (recvd s) 0 <= nth b (recvd s) 0).
Proof.
  intros s. pose proof (run_InvT c sched) as HT. split; [apply HT|].
  intros Hwf. apply nondec_nth. apply nondec_app_l with (b := chanq s).
  destruct (run_InvC c sched Hwf) as [Hsr _]. fold s in Hsr. rewrite <- Hsr. apply HT.
Qed.

(* the first receive never blocks: once LinearAttempt has returned and nothing has been received yet, either a value is
   buffered, or the context was cancelled before the call and the channel is closed and empty *)
Lemma first_available c s : wf c -> InvC c s -> cpc s = CRet -> recvd s = [] ->
  (exists v rest, chanq s = v :: rest /\ sent s = v :: rest) \/
  (chanq s = [] /\ sent s = [] /\ closed s = true /\ cancelled s = true /\ gpc s = GNone).
Proof.
  intros Hwf HI Hc Hr. open_inv c s Hwf HI. cbn in Hc, Hr |- *. subst cpc0 re. cbn in H1. subst se.
  destruct gpc0; try (destruct q as [|v rest]; [cbn in H3; lia | left; eauto]).
  destruct H3 as [(-> & ->) | (Hl & _)].
  - right. repeat split; auto.
  - destruct q as [|v rest]; [cbn in Hl; lia | left; eauto].
Qed.

(* the state in which LinearAttempt returns *)
Lemma first_on_return c s s' o : wf c -> InvC c s -> cpc s <> CRet ->
  step c s LCall = Some (s', o) -> cpc s' = CRet ->
  (exists t, chanq s' = [t] /\ sent s' = [t] /\ recvd s' = []) \/
  (cancelled s' = true /\ closed s' = true /\ chanq s' = [] /\ sent s' = [] /\ gpc s' = GNone).
Proof.
  intros Hwf HI Hn Hs Hr.
  assert (HI' : InvC c s') by (eapply step_InvC; eauto).
  revert Hs Hr. open_inv c s Hwf HI. unfold step, cnt. cbn [cpc gpc chanq closed cancelled count cap v_noclose1].
  destruct cpc0; try congruence.
  - destruct H3 as (-> & ->). destruct re; destruct q; try discriminate.
    destruct ca; intros Hs Hr; inversion Hs; subst; clear Hs; cbn in *; try discriminate.
    right. repeat split; auto.
  - destruct (length q <? cap0); intros Hs Hr; inversion Hs; subst; cbn in *; discriminate.
  - destruct H3 as (H3a & -> & ->). cbn in H1. subst se.
    destruct q as [|t [|t2 q]]; cbn in H3a; try lia.
    intros Hs Hr. left. exists t.
    destruct (count0 - 1 =? 0); inversion Hs; subst; cbn; repeat split; auto.
Qed.

(* once the caller has returned without spawning a producer, nothing is ever sent or closed again *)
Lemma no_producer_stable c s l s' o : cpc s = CRet -> gpc s = GNone -> step c s l = Some (s', o) ->
  cpc s' = CRet /\ gpc s' = GNone /\ sent s' = sent s /\ closed s' = closed s.
Proof.
  intros Hc Hg. destruct s as [cpc0 gpc0 q cl ca i0 tmp0 tb ar nw se re rc sa ra]. cbn in Hc, Hg. subst.
  destruct l; unfold step; cbn [cpc gpc chanq closed cancelled armed rclosed]; try discriminate.
  - destruct ar; intros H; inversion H; subst; cbn; auto.
  - destruct ca; intros H; inversion H; subst; cbn; auto.
  - destruct rc; try discriminate. destruct q; [destruct cl; try discriminate|]; intros H; inversion H; subst; cbn; auto.
Qed.

Lemma no_producer_run c sched : forall s, cpc s = CRet -> gpc s = GNone ->
  let s' := run c s sched in cpc s' = CRet /\ gpc s' = GNone /\ sent s' = sent s /\ closed s' = closed s.
Proof.
  induction sched as [|l r IH]; intros s Hc Hg; cbn; [auto|].
  unfold step1. destruct (step c s l) as [[s1 o]|] eqn:E; [|apply IH; assumption].
  destruct (no_producer_stable c s l s1 o Hc Hg E) as (A & B & C & D).
  destruct (IH s1 A B) as (A' & B' & C' & D'). cbn in *. repeat split; congruence.
Qed.

(* the context was cancelled before LinearAttempt checked it: the channel is closed, nothing is ever sent on it, and no
   goroutine is started — whatever happens before and afterwards *)
Lemma precancelled c pre post_ : wf c ->
  let s0 := run c init pre in
  cpc s0 = CEntry -> cancelled s0 = true ->
  let s := run c s0 (LCall :: post_) in
  cpc s = CRet /\ closed s = true /\ sent s = [] /\ chanq s = [] /\ recvd s = [] /\ gpc s = GNone.
Proof.
  intros Hwf s0 Hc Hca s.
  pose proof (run_InvC c pre Hwf) as HI0. fold s0 in HI0.
  assert (Hs0 : sent s0 = [] /\ gpc s0 = GNone).
  { destruct HI0 as (_ & _ & H3 & _). rewrite Hc in H3. exact H3. }
  destruct Hs0 as (Hse & Hg).
  assert (E : step c s0 LCall = Some (set_cpc (set_closed s0 true) CRet, ONone)).
  { unfold step. rewrite Hc, Hca. reflexivity. }
  assert (Hs : s = run c (set_cpc (set_closed s0 true) CRet) post_).
  { subst s. cbn [run]. unfold step1. rewrite E. reflexivity. }
  assert (HI : InvC c s).
  { subst s s0. rewrite <- run_app. apply run_InvC; assumption. }
  clearbody s.
  pose proof (no_producer_run c post_ (set_cpc (set_closed s0 true) CRet) eq_refl Hg) as (A & B & C & D).
  rewrite <- Hs in A, B, C, D. cbn in C, D.
  destruct HI as (H1 & _).
  rewrite C, Hse in H1. symmetry in H1. apply app_eq_nil in H1. destruct H1 as [Hr Hq].
  repeat split; try assumption; congruence.
Qed.

(* closed only after the count-th value or after cancellation; closed iff the producer is gone *)
Lemma closed_only_when_done c s : wf c -> InvC c s -> closed s = true ->
  alive s = false /\ cpc s = CRet /\ (cancelled s = true \/ length (sent s) = count c).
Proof.
  intros Hwf HI Hcl. open_inv c s Hwf HI. unfold closed_spec in H6. cbn in Hcl, H6 |- *. subst cl.
  destruct gpc0; try discriminate.
  - destruct cpc0; try discriminate. repeat split; auto.
    destruct H3 as [(_ & ->) | (-> & ->)]; auto.
  - destruct cpc0.
    + destruct H3 as (_ & ?); discriminate.
    + destruct H3 as (_ & ?); discriminate.
    + destruct H3 as (_ & _ & ?); discriminate.
    + repeat split; auto. destruct H5 as [-> | ->]; [auto|right; lia].
Qed.

(* no step of the caller, the producer or the ticker is enabled *)
Definition lib_quiet (c : cfg) (s : st) : Prop :=
  step c s LCall = None /\ (forall pd, step c s (LProd pd) = None) /\ (forall d, step c s (LTick d) = None).

Lemma lib_quietb_ok c s : lib_quietb c s = true -> lib_quiet c s.
Proof.
  unfold lib_quietb, lib_quiet. intros H.
  apply andb_prop in H; destruct H as [H Ht]. apply andb_prop in H; destruct H as [H Hp0].
  apply andb_prop in H; destruct H as [Hc Hp1].
  repeat split.
  - destruct (step c s LCall); [discriminate | reflexivity].
  - intros [|]; [destruct (step c s (LProd true)) | destruct (step c s (LProd false))]; try discriminate; reflexivity.
  - intros d. unfold step in *. destruct (armed s); [discriminate | reflexivity].
Qed.

(* every reachable state in which the library and the ticker can do nothing more: LinearAttempt has returned, the
   producer has exited (or was never started), the ticker is stopped, the channel is closed, and either all count values
   were sent or the context was cancelled *)
Lemma terminal_closed c s : wf c -> InvC c s -> lib_quiet c s ->
  cpc s = CRet /\ alive s = false /\ armed s = false /\ closed s = true /\
  (length (sent s) = count c \/ cancelled s = true).
Proof.
  intros Hwf HI (Qc & Qp & Qt).
  assert (Hclosed : closed s = true /\ cpc s = CRet /\ armed s = false).
  { revert Qc Qp Qt. open_inv c s Hwf HI. unfold step, closed_spec, cnt in *.
    cbn [cpc gpc chanq closed cancelled i tmp tickbuf armed now sent recvd rclosed sac rac cap count
         v_countdrop v_norecheck v_blocksend v_noclose1 andb negb] in *.
    intros Qc Qp Qt. specialize (Qt 0). destruct ar; [discriminate|].
    destruct cpc0.
    - destruct ca; discriminate.
    - destruct H3 as (-> & ->). destruct re; destruct q; try discriminate.
      cbn in Qc. destruct (Nat.ltb_spec 0 cap0); [discriminate | lia].
    - destruct (count0 - 1 =? 0); discriminate.
    - specialize (Qp true). destruct gpc0; try discriminate; auto. }
  destruct Hclosed as (Hcl & Hc & Ha).
  destruct (closed_only_when_done c s Hwf HI Hcl) as (A & B & C).
  repeat split; auto. tauto.
Qed.

(* after the cancellation at most one more send happens, so at most cap + 1 = 2 more values can be received *)
Lemma after_cancel c sched : wf c ->
  let s := run c init sched in
  sac s <= 1 /\ rac s <= cap c + 1 /\ (cancelled s = false -> sac s = 0 /\ rac s = 0).
Proof.
  intros Hwf s. pose proof (run_InvC c sched Hwf) as HI. fold s in HI.
  destruct HI as (_ & _ & _ & _ & _ & _ & _ & _ & H9).
  clearbody s. destruct (cancelled s).
  - destruct H9 as [Ha Hb]. repeat split; try lia; intros; discriminate.
  - destruct H9 as [Ha Hb]. repeat split; intros; lia.
Qed.

(* once the context is cancelled or the count-th value has been sent, the producer is never blocked and each of its steps
   brings it strictly closer to its exit *)
Definition finished (c : cfg) (s : st) : Prop := cancelled s = true \/ length (sent s) = count c.

Lemma finished_progress c s : wf c -> InvC c s -> alive s = true -> finished c s ->
  forall pd, exists s' o, step c s (LProd pd) = Some (s', o) /\ rank (gpc s') < rank (gpc s).
Proof.
  intros Hwf HI Hal Hf pd. revert Hal Hf. unfold finished, alive. open_inv c s Hwf HI.
  unfold step, cnt.
  cbn [cpc gpc chanq closed cancelled i tmp tickbuf armed now sent recvd rclosed sac rac cap count
       v_countdrop v_norecheck v_blocksend v_noclose1 andb negb].
  intros Hal Hf.
  destruct cpc0;
    [destruct H3 as (_ & ->); discriminate | destruct H3 as (_ & ->); discriminate
    | destruct H3 as (_ & _ & ->); discriminate | ].
  destruct gpc0; try discriminate.
  - eexists; eexists; split; [reflexivity | cbn; lia].
  - destruct (i0 <? count0 - 1); eexists; eexists; (split; [reflexivity | cbn; lia]).
  - destruct Hf as [-> | Hf]; [|exfalso; lia].
    destruct tb; [destruct pd|]; eexists; eexists; (split; [reflexivity | cbn; lia]).
  - destruct Hf as [-> | Hf]; [|exfalso; lia].
    cbn. eexists; eexists; (split; [reflexivity | cbn; lia]).
  - destruct (length q <? cap0); eexists; eexists; (split; [reflexivity | cbn; lia]).
  - eexists; eexists; split; [reflexivity | cbn; lia].
  - eexists; eexists; split; [reflexivity | cbn; lia].
Qed.

Lemma finished_step c s l s' o : wf c -> InvC c s -> cpc s = CRet -> finished c s -> step c s l = Some (s', o) ->
  finished c s' /\ cpc s' = CRet /\ ((forall pd, l <> LProd pd) -> gpc s' = gpc s).
Proof.
  intros Hwf HI Hc Hf. revert Hc Hf. unfold finished. open_inv c s Hwf HI.
  cbn [cpc cancelled sent count]. intros -> Hf.
  unfold step, cnt.
  cbn [cpc gpc chanq closed cancelled i tmp tickbuf armed now sent recvd rclosed sac rac cap count
       v_countdrop v_norecheck v_blocksend v_noclose1 andb negb].
  destruct l.
  - discriminate.
  - destruct gpc0; try discriminate.
    + intros E; inversion E; subst; cbn. repeat split; auto. intros X; exfalso; eapply X; reflexivity.
    + destruct (i0 <? count0 - 1); intros E; inversion E; subst; cbn; (repeat split; auto);
        intros X; exfalso; eapply X; reflexivity.
    + destruct ca; destruct tb; try destruct prefer_done; intros E; inversion E; subst; cbn; (repeat split; auto);
        intros X; exfalso; eapply X; reflexivity.
    + destruct ca; cbn; intros E; inversion E; subst; cbn; (repeat split; auto);
        intros X; exfalso; eapply X; reflexivity.
    + destruct Hf as [-> | Hf]; [|exfalso; lia].
      destruct (length q <? cap0); intros E; inversion E; subst; cbn; (repeat split; auto);
        intros X; exfalso; eapply X; reflexivity.
    + intros E; inversion E; subst; cbn. repeat split; auto. intros X; exfalso; eapply X; reflexivity.
    + intros E; inversion E; subst; cbn. repeat split; auto. intros X; exfalso; eapply X; reflexivity.
  - destruct ar; intros E; inversion E; subst; cbn; auto.
  - destruct ca; intros E; inversion E; subst; cbn; auto.
  - destruct rc; try discriminate. destruct q; [destruct cl; try discriminate|]; intros E; inversion E; subst; cbn; auto.
Qed.

(* ... hence it exits, and the channel is closed, within 6 of its own steps, whatever the other threads do meanwhile *)
Lemma exits_within c : wf c -> forall more s, InvC c s -> cpc s = CRet -> finished c s ->
  rank (gpc (run c s more)) <= rank (gpc s) - nprod more.
Proof.
  intros Hwf. induction more as [|l r IH]; intros s HI Hc Hf; cbn [run nprod]; [lia|].
  unfold step1. destruct (step c s l) as [[s1 o]|] eqn:E.
  - assert (HI1 : InvC c s1) by (eapply step_InvC; eauto).
    destruct (finished_step c s l s1 o Hwf HI Hc Hf E) as (Hf1 & Hc1 & Hg).
    specialize (IH s1 HI1 Hc1 Hf1).
    destruct l; try (rewrite Hg in IH by (intros; discriminate); exact IH).
    destruct (alive s) eqn:Hal.
    + destruct (finished_progress c s Hwf HI Hal Hf prefer_done) as (s2 & o2 & E2 & Hr).
      rewrite E in E2. inversion E2; subst. lia.
    + unfold alive in Hal. unfold step in E. destruct (gpc s); discriminate.
  - destruct l; try (apply IH; assumption).
    specialize (IH s HI Hc Hf).
    destruct (alive s) eqn:Hal.
    + destruct (finished_progress c s Hwf HI Hal Hf prefer_done) as (s2 & o2 & E2 & Hr). congruence.
    + unfold alive in Hal. destruct (gpc s); try discriminate; cbn in *; lia.
Qed.

Lemma finished_run c : wf c -> forall more s, InvC c s -> cpc s = CRet -> finished c s ->
  cpc (run c s more) = CRet /\ finished c (run c s more).
Proof.
  intros Hwf. induction more as [|l r IH]; intros s HI Hc Hf; cbn; [auto|].
  unfold step1. destruct (step c s l) as [[s1 o]|] eqn:E; [|apply IH; assumption].
  destruct (finished_step c s l s1 o Hwf HI Hc Hf E) as (Hf1 & Hc1 & _).
  apply IH; try assumption. eapply step_InvC; eauto.
Qed.

Lemma producer_exits c pre more : wf c ->
  let s := run c init pre in
  cpc s = CRet -> finished c s -> 6 <= nprod more ->
  let s' := run c s more in alive s' = false /\ closed s' = true /\ armed s' = false.
Proof.
  intros Hwf s Hc Hf Hn s'.
  pose proof (run_InvC c pre Hwf) as HI. fold s in HI.
  pose proof (exits_within c Hwf more s HI Hc Hf) as Hr. fold s' in Hr.
  assert (HI' : InvC c s') by (subst s' s; rewrite <- run_app; apply run_InvC; assumption).
  assert (Hc' : cpc s' = CRet) by (apply (finished_run c Hwf more s HI Hc Hf)).
  assert (Hrk : rank (gpc s') = 0).
  { assert (rank (gpc s) <= 6) by (destruct (gpc s); cbn; lia). lia. }
  clearbody s'. destruct HI' as (_ & _ & _ & _ & _ & H6 & H7 & _).
  unfold alive. rewrite H6, H7. unfold closed_spec, armed_spec. rewrite Hc'.
  destruct (gpc s'); cbn in Hrk; try lia; auto.
Qed.

(* ------------------------------------------------------------------------------------------------------------ *)
(* the observation monitor evaluated by the harness is a consequence of the theorems                             *)
(* ------------------------------------------------------------------------------------------------------------ *)
Lemma obs_sound n sched : 1 <= n ->
  let c := faithful n in
  let s := run c init sched in
  rclosed s = true -> obs_of_state c s = true.
Proof.
  intros Hn c s Hrc.
  assert (Hwf : wf c) by (apply wf_faithful; assumption).
  pose proof (run_InvC c sched Hwf) as HI. fold s in HI.
  pose proof (run_InvT c sched) as HT. fold s in HT.
  destruct (at_most_count c sched Hwf) as (A1 & A2 & A3). fold s in A1, A2, A3.
  pose proof (buffer_le_cap c sched Hwf) as B. fold s in B.
  destruct (after_cancel c sched Hwf) as (C1 & C2 & _). fold s in C1, C2.
  assert (Hcl : closed s = true /\ chanq s = []) by (apply HI; assumption).
  destruct Hcl as (Hcl & Hq).
  destruct (closed_only_when_done c s Hwf HI Hcl) as (D1 & D2 & D3).
  assert (Hsr : sent s = recvd s) by (rewrite A2, Hq, app_nil_r; reflexivity).
  assert (Hnd : nondecb (recvd s) = true) by (apply nondec_nondecb; rewrite <- Hsr; apply HT).
  clearbody s. unfold obs_of_state, obs_ok.
  change (count c) with n in *. change (cap c) with impl_cap in *.
  rewrite Hrc, Hnd, D1. cbn [negb andb].
  repeat (apply andb_true_intro; split); try reflexivity.
  - apply Nat.leb_le; assumption.
  - apply Nat.leb_le; assumption.
  - apply Nat.leb_le; assumption.
  - rewrite Hsr. destruct (recvd s); reflexivity.
  - destruct (cancelled s); [reflexivity|]. apply Nat.eqb_eq. rewrite <- Hsr. destruct D3; [discriminate | assumption].
Qed.

(* ------------------------------------------------------------------------------------------------------------ *)
(* refutations: the same step function with one defect switched on                                               *)
(* ------------------------------------------------------------------------------------------------------------ *)
Definition variant (cp n : nat) (countdrop norecheck blocksend noclose1 : bool) : cfg :=
  {| cap := cp; count := n; v_countdrop := countdrop; v_norecheck := norecheck; v_blocksend := blocksend;
     v_noclose1 := noclose1 |}.

Definition P := LProd true.
Definition Pt := LProd false.
Definition call3 := [LCall; LCall; LCall].

(* i++ also on a dropped tick: with a receiver that is merely slow, the channel is closed after a single value although
   count = 3 and the context was never cancelled *)
Definition sched_countdrop : list label :=
  call3 ++ [P; P; LTick 1; P; P; P; P; LTick 1; P; P; P; P; P; P].

Lemma countdrop_refuted :
  exists sched, let c := variant 1 3 true false false false in let s := run c init sched in
    lib_quiet c s /\ closed s = true /\ cancelled s = false /\ length (sent s) = 1 /\ length (sent s) < count c.
Proof.
  exists sched_countdrop. cbv zeta. split; [apply lib_quietb_ok; vm_compute; reflexivity|].
  vm_compute. repeat split; auto.
Qed.

(* no re-check of ctx.Err() after the tick: two ticks are forwarded after the cancellation and the receiver obtains
   three values after it *)
Definition sched_norecheck : list label :=
  call3 ++ [P; P; LTick 1; P; LCancel; P; LRecv; P; P; LTick 1; Pt; P; LRecv; P; LRecv].

Lemma norecheck_refuted :
  exists sched, let c := variant 1 5 false true false false in let s := run c init sched in
    sac s = 2 /\ rac s = 3.
Proof. exists sched_norecheck. vm_compute. auto. Qed.

(* a blocking send: with an absent receiver the producer is stuck in the send after the cancellation, and stays there
   whatever the ticker and the canceller do *)
Definition sched_blocksend : list label := call3 ++ [P; P; LTick 1; P; P; LCancel].

Lemma blocksend_stuck c s : v_blocksend c = true -> cpc s = CRet -> gpc s = GSend -> cap c <= length (chanq s) ->
  forall more, (forall l, In l more -> l <> LRecv) ->
  let s' := run c s more in gpc s' = GSend /\ closed s' = closed s /\ chanq s' = chanq s.
Proof.
  intros Hb Hc Hg Hq more. revert s Hc Hg Hq. induction more as [|l r IH]; intros s Hc Hg Hq Hno; cbn; [auto|].
  assert (Hl : l <> LRecv) by (apply Hno; left; reflexivity).
  assert (Hr : forall l0, In l0 r -> l0 <> LRecv) by (intros l0 H0; apply Hno; right; assumption).
  unfold step1.
  assert (Hk : match step c s l with
               | Some (s1, _) => cpc s1 = CRet /\ gpc s1 = GSend /\ closed s1 = closed s /\ chanq s1 = chanq s
               | None => True end).
  { destruct s as [cpc0 gpc0 q cl ca i0 tmp0 tb ar nw se re rc sa ra]. cbn in Hc, Hg, Hq. subst gpc0 cpc0.
    destruct l; unfold step; cbn [cpc gpc chanq closed cancelled armed rclosed]; try congruence.
    - exact I.
    - destruct (Nat.ltb_spec (length q) (cap c)); [lia|]. rewrite Hb. exact I.
    - destruct ar; cbn; auto.
    - destruct ca; cbn; auto. }
  destruct (step c s l) as [[s1 o]|]; [|apply IH; assumption].
  destruct Hk as (Z & A & B & C). destruct (IH s1 Z A ltac:(rewrite C; assumption) Hr) as (A' & B' & C').
  cbn in *. repeat split; congruence.
Qed.

Lemma blocksend_refuted :
  exists sched, let c := variant 1 2 false false true false in let s := run c init sched in
    cancelled s = true /\ alive s = true /\ (forall pd, step c s (LProd pd) = None) /\
    forall more, (forall l, In l more -> l <> LRecv) -> alive (run c s more) = true /\ closed (run c s more) = false.
Proof.
  exists sched_blocksend. cbv zeta.
  split; [vm_compute; reflexivity|]. split; [vm_compute; reflexivity|].
  split; [intros [|]; vm_compute; reflexivity|].
  intros more Hno.
  destruct (blocksend_stuck (variant 1 2 false false true false)
              (run (variant 1 2 false false true false) init sched_blocksend)
              eq_refl ltac:(vm_compute; reflexivity) ltac:(vm_compute; reflexivity) ltac:(vm_compute; lia) more Hno)
    as (A & B & _).
  unfold alive. rewrite A, B. vm_compute. auto.
Qed.

(* close(c) missing on the count = 1 path: LinearAttempt has returned, nothing can move, and the channel is open *)
Lemma noclose1_refuted :
  exists sched, let c := variant 1 1 false false false true in let s := run c init sched in
    lib_quiet c s /\ cpc s = CRet /\ closed s = false /\ length (sent s) = count c.
Proof.
  exists call3. cbv zeta. split; [apply lib_quietb_ok; vm_compute; reflexivity|]. vm_compute. auto.
Qed.

(* capacity 2 instead of 1: two values are buffered for a slow receiver *)
Lemma cap2_refuted :
  exists sched, let c := variant 2 3 false false false false in let s := run c init sched in
    length (chanq s) = 2.
Proof. exists (call3 ++ [P; P; LTick 1; P; P; P]). vm_compute. reflexivity. Qed.

(* ------------------------------------------------------------------------------------------------------------ *)
(* examples: the hypotheses are satisfiable and the interesting cases occur                                      *)
(* ------------------------------------------------------------------------------------------------------------ *)
(* a slow receiver, a dropped tick, then completion after exactly count = 3 values: closed, producer gone *)
Definition sched_complete : list label :=
  call3 ++ [P; P; LTick 1; P; P; P; P;          (* first tick: dropped, the buffer still holds the first value *)
            LRecv; LTick 2; P; P; P; P;          (* second tick forwarded *)
            LRecv; LTick 3; P; P; P; P; P; P;    (* third value forwarded: i = count-1, stop, close *)
            LRecv; LRecv].

Example ex_complete :
  let c := faithful 3 in let s := run c init sched_complete in
  recvd s = [0; 3; 6] /\ rclosed s = true /\ closed s = true /\ alive s = false /\ cancelled s = false /\
  lib_quietb c s = true /\ obs_of_state c s = true.
Proof. vm_compute. repeat split; reflexivity. Qed.

(* cancellation while a tick is in flight (after the re-check, before the send): one send after the cancellation, and the
   receiver obtains two values after it *)
Definition sched_inflight : list label :=
  call3 ++ [P; P; LTick 1; LRecv; P; P; LCancel; LTick 1; P; LRecv; P; Pt; P; P; P; LRecv].

Example ex_inflight :
  let c := faithful 5 in let s := run c init sched_inflight in
  sac s = 1 /\ rac s = 1 /\ recvd s = [0; 1] /\ closed s = true /\ alive s = false /\ rclosed s = true.
Proof. vm_compute. repeat split; reflexivity. Qed.

Definition sched_two_after : list label :=
  call3 ++ [P; P; LTick 1; P; P; LCancel; LRecv; P; LRecv; P; P; P; P; LRecv].

Example ex_two_after :
  let c := faithful 5 in let s := run c init sched_two_after in
  sac s = 1 /\ rac s = 2 /\ recvd s = [0; 1] /\ rclosed s = true /\ obs_of_state c s = true.
Proof. vm_compute. repeat split; reflexivity. Qed.

(* already cancelled: closed and empty, no goroutine *)
Example ex_precancelled :
  let c := faithful 4 in let s := run c init (LCancel :: LCall :: [LTick 1; P; LRecv]) in
  cpc s = CRet /\ closed s = true /\ sent s = [] /\ gpc s = GNone /\ rclosed s = true /\ obs_of_state c s = true.
Proof. vm_compute. repeat split; reflexivity. Qed.

(* count = 1: one value, closed on return *)
Example ex_count1 :
  let c := faithful 1 in let s := run c init call3 in
  cpc s = CRet /\ closed s = true /\ chanq s = [0] /\ gpc s = GNone /\ lib_quietb c s = true.
Proof. vm_compute. repeat split; reflexivity. Qed.

(* an absent receiver and no cancellation: the library never becomes quiet (the ticker keeps firing, every tick is
   dropped); after the cancellation the producer needs at most 6 steps *)
Example ex_absent :
  let c := faithful 3 in
  let s := run c init (call3 ++ [P; P; LTick 1; P; P; P; P; LTick 1; P; P; P; P]) in
  alive s = true /\ lib_quietb c s = false /\ length (chanq s) = 1 /\ i s = 0 /\
  let s' := run c s [LCancel; P; P; P] in alive s' = false /\ closed s' = true /\ sent s' = [0].
Proof. vm_compute. repeat split; reflexivity. Qed.

(* the quiescent K1 view *)
Example ex_krun :
  snd (krun (faithful 3) init [KCall; KRecv; KRecv; KAwait; KRecv; KAwait; KRecv; KRecv]) =
  [KRet 1; KVal; KEmpty; KAw 1 true; KVal; KAw 1 false; KVal; KClosed].
Proof. vm_compute. reflexivity. Qed.

Example ex_krun_cancel :
  snd (krun (faithful 2) init [KCall; KRecv; KRecv; KCancel; KRecv]) = [KRet 1; KVal; KEmpty; KOk; KClosed] /\
  snd (krun (faithful 2) init [KCancel; KCall; KRecv]) = [KOk; KRet 0; KClosed] /\
  snd (krun (faithful 1) init [KCall; KRecv; KRecv]) = [KRet 1; KVal; KClosed].
Proof. vm_compute. repeat split; reflexivity. Qed.

(* ------------------------------------------------------------------------------------------------------------ *)
(* the statements of Properties/C20.v, for the code as it is: c = faithful n, n >= 1                             *)
(* ------------------------------------------------------------------------------------------------------------ *)
Lemma f_first_on_return n sched s' o : 1 <= n ->
  let c := faithful n in let s := run c init sched in
  cpc s <> CRet -> step c s LCall = Some (s', o) -> cpc s' = CRet ->
  (exists t, chanq s' = [t] /\ sent s' = [t] /\ recvd s' = []) \/
  (cancelled s' = true /\ closed s' = true /\ chanq s' = [] /\ sent s' = [] /\ gpc s' = GNone).
Proof.
  intros Hn c s. apply first_on_return; [apply wf_faithful; assumption | apply run_InvC; apply wf_faithful; assumption].
Qed.

Lemma f_first_available n sched : 1 <= n ->
  let c := faithful n in let s := run c init sched in
  cpc s = CRet -> recvd s = [] ->
  (exists v rest, chanq s = v :: rest /\ sent s = v :: rest) \/
  (chanq s = [] /\ sent s = [] /\ closed s = true /\ cancelled s = true /\ gpc s = GNone).
Proof.
  intros Hn c s. apply (first_available c); [apply wf_faithful; assumption | apply run_InvC; apply wf_faithful; assumption].
Qed.

Lemma f_precancelled n pre post_ : 1 <= n ->
  let c := faithful n in let s0 := run c init pre in
  cpc s0 = CEntry -> cancelled s0 = true ->
  let s := run c s0 (LCall :: post_) in
  cpc s = CRet /\ closed s = true /\ sent s = [] /\ chanq s = [] /\ recvd s = [] /\ gpc s = GNone.
Proof. intros Hn. exact (precancelled (faithful n) pre post_ (wf_faithful n Hn)). Qed.

Lemma f_at_most_count n sched : 1 <= n ->
  let s := run (faithful n) init sched in
  length (sent s) <= n /\ sent s = recvd s ++ chanq s /\ length (recvd s) <= n.
Proof. intros Hn. apply (at_most_count (faithful n) sched). apply wf_faithful; assumption. Qed.

Lemma f_buffer_le_1 n sched : 1 <= n -> length (chanq (run (faithful n) init sched)) <= 1.
Proof. intros Hn. apply (buffer_le_cap (faithful n) sched). apply wf_faithful; assumption. Qed.

Lemma f_nondecreasing n sched : 1 <= n ->
  let s := run (faithful n) init sched in
  (forall a b, a <= b -> b < length (sent s) -> nth a (sent s) 0 <= nth b (sent s) 0) /\
  (forall a b, a <= b -> b < length (recvd s) -> nth a (recvd s) 0 <= nth b (recvd s) 0).
Proof.
  intros Hn s. destruct (nondecreasing (faithful n) sched) as [A B]. split.
  - apply nondec_nth. exact A.
  - apply B. apply wf_faithful; assumption.
Qed.

Lemma f_terminal_closed n sched : 1 <= n ->
  let c := faithful n in let s := run c init sched in
  lib_quiet c s ->
  cpc s = CRet /\ alive s = false /\ armed s = false /\ closed s = true /\ (length (sent s) = n \/ cancelled s = true).
Proof.
  intros Hn c s. apply terminal_closed; [apply wf_faithful; assumption | apply run_InvC; apply wf_faithful; assumption].
Qed.

Lemma f_closed_only_when_done n sched : 1 <= n ->
  let s := run (faithful n) init sched in
  closed s = true -> alive s = false /\ cpc s = CRet /\ (cancelled s = true \/ length (sent s) = n).
Proof.
  intros Hn s. apply (closed_only_when_done (faithful n));
    [apply wf_faithful; assumption | apply run_InvC; apply wf_faithful; assumption].
Qed.

Lemma f_after_cancel n sched : 1 <= n ->
  let s := run (faithful n) init sched in
  sac s <= 1 /\ rac s <= 2 /\ (cancelled s = false -> sac s = 0 /\ rac s = 0).
Proof. intros Hn. apply (after_cancel (faithful n) sched). apply wf_faithful; assumption. Qed.

Lemma f_finished_progress n sched pd : 1 <= n ->
  let c := faithful n in let s := run c init sched in
  alive s = true -> (cancelled s = true \/ length (sent s) = n) ->
  exists s' o, step c s (LProd pd) = Some (s', o) /\ rank (gpc s') < rank (gpc s).
Proof.
  intros Hn c s Hal Hf. apply finished_progress;
    [apply wf_faithful; assumption | apply run_InvC; apply wf_faithful; assumption | assumption | exact Hf].
Qed.

Lemma f_producer_exits n pre more : 1 <= n ->
  let c := faithful n in let s := run c init pre in
  cpc s = CRet -> (cancelled s = true \/ length (sent s) = n) -> 6 <= nprod more ->
  let s' := run c s more in alive s' = false /\ closed s' = true /\ armed s' = false.
Proof. intros Hn c s Hc Hf. apply producer_exits; [apply wf_faithful; assumption | assumption | exact Hf]. Qed.
