(* Proofs/CleanerProto.v — invariants of Model/CleanerProto.v by reflective sweep.

   Main results
     C04_unlocked_rebroadcast_refuted   the code as it is in /repo has a terminal state with an unseen change (F3)
     quiescent_is_clean                 repaired protocol: every terminal state is clean (all n, cooldown, schedules)
     bounded_timer_firings              repaired protocol: after the last change at most two timer firings
     mu_decreases / moves_bounded / terminates
                                        repaired protocol: every step decreases [mu]; every schedule makes at most
                                        [mu (init n d)] moves; from every reachable state a terminal state is reachable
   Method: boolean invariant [Invb] over the finite control [ctl]; each "for all states and picks" fact is a
   [forallb]-enumeration closed by [vm_compute] and lifted by [forall_ctl_ok].  The unbounded [chg] is outside [ctl]:
   [step] looks at it only through [0 | S _] (one [destruct] in [step_inv]). *)

From Coq Require Import List Arith Lia Bool ZifyBool.
Import ListNotations.
From BB Require Import Model.CleanerProto.

Arguments Nat.sub : simpl never. Arguments Nat.ltb : simpl never. Arguments Nat.leb : simpl never.
Arguments Nat.eqb : simpl never.

(* ------------------------------------------------------------------------------------------------------------ *)
(* Enumerations of the finite types.                                                                            *)

Definition all_bool : list bool := [true; false].
Definition all_clpc : list clpc := [ClLock; ClFn; ClEnq; ClUnlock; ClParked; ClRelock].
Definition all_otm : list (option tmpc) := [None; Some TmWait; Some TmLockB; Some TmSect; Some TmUnlockB].
Definition all_owner : list owner := [Nobody; OCl; OTm].

Ltac fin_ok :=
  let P := fresh "P" in let H := fresh "H" in let x := fresh "x" in
  intros P H x; cbn [forallb] in H;
  repeat (let H0 := fresh "H0" in apply andb_true_iff in H; destruct H as [H0 H]);
  repeat match goal with y : option _ |- _ => destruct y end;
  destruct x; assumption.

Lemma all_bool_ok : forall P : bool -> bool, forallb P all_bool = true -> forall x, P x = true.
Proof. unfold all_bool. fin_ok. Qed.
Lemma all_clpc_ok : forall P : clpc -> bool, forallb P all_clpc = true -> forall x, P x = true.
Proof. unfold all_clpc. fin_ok. Qed.
Lemma all_otm_ok : forall P : option tmpc -> bool, forallb P all_otm = true -> forall x, P x = true.
Proof. unfold all_otm. intros P H x. cbn [forallb] in H.
  repeat (let H0 := fresh "H0" in apply andb_true_iff in H; destruct H as [H0 H]).
  destruct x as [t|]; [destruct t|]; assumption. Qed.
Lemma all_owner_ok : forall P : owner -> bool, forallb P all_owner = true -> forall x, P x = true.
Proof. unfold all_owner. fin_ok. Qed.
Lemma all_pick_ok : forall P : pick -> bool, forallb P all_pick = true -> forall x, P x = true.
Proof. unfold all_pick. fin_ok. Qed.

(* All 6 * 5 * 3 * 2^4 = 1440 values of the finite control. *)
Definition forall_ctl (P : ctl -> bool) : bool :=
  forallb (fun c => forallb (fun t => forallb (fun o => forallb (fun q => forallb (fun ti =>
  forallb (fun bf => forallb (fun d => P (mkctl c t o q ti bf d))
  all_bool) all_bool) all_bool) all_bool) all_owner) all_otm) all_clpc.

Lemma forall_ctl_ok : forall P, forall_ctl P = true -> forall c, P c = true.
Proof.
  intros P H [c t o q ti bf d]. unfold forall_ctl in H.
  pose proof (all_clpc_ok _ H c) as H1; cbv beta in H1.
  pose proof (all_otm_ok _ H1 t) as H2; cbv beta in H2.
  pose proof (all_owner_ok _ H2 o) as H3; cbv beta in H3.
  pose proof (all_bool_ok _ H3 q) as H4; cbv beta in H4.
  pose proof (all_bool_ok _ H4 ti) as H5; cbv beta in H5.
  pose proof (all_bool_ok _ H5 bf) as H6; cbv beta in H6.
  exact (all_bool_ok _ H6 d).
Qed.

Definition list_ctl : list ctl :=
  flat_map (fun c => flat_map (fun t => flat_map (fun o => flat_map (fun q => flat_map (fun ti =>
  flat_map (fun bf => map (fun d => mkctl c t o q ti bf d)
  all_bool) all_bool) all_bool) all_bool) all_owner) all_otm) all_clpc.

(* ------------------------------------------------------------------------------------------------------------ *)
(* The invariant of the repaired protocol.                                                                      *)

Definition owner_is (a b : owner) : bool :=
  match a, b with Nobody, Nobody | OCl, OCl | OTm, OTm => true | _, _ => false end.

(* The cleaner will evaluate fn() again without any further broadcast. *)
Definition will_recheck (c : ctl) : bool :=
  match cl c with
  | ClLock | ClRelock | ClFn => true
  | ClParked => negb (inq c)
  | ClEnq | ClUnlock => false
  end.

Definition Invb (cooldown_pos : bool) (c : ctl) : bool :=
  (* the cleaner holds b.mutex exactly from the return of Lock() to the Unlock() inside cond.Wait() *)
  eqb (owner_is OCl (bmu c)) (match cl c with ClFn | ClEnq | ClUnlock => true | _ => false end)
  (* the timer goroutine holds b.mutex exactly in its critical section *)
  && eqb (owner_is OTm (bmu c)) (match tm c with Some TmSect | Some TmUnlockB => true | _ => false end)
  (* timer != nil exactly while a timer goroutine has not yet run its deferred function *)
  && eqb (timer c) (match tm c with Some TmWait | Some TmLockB | Some TmSect => true | _ => false end)
  (* an unseen change is always covered: by the cleaner itself, or by the pending re-broadcast *)
  && (negb (dirty c) || will_recheck c || (timer c && bflag c))
  (* the ticket is in the notify list only between notifyListAdd and the wake-up *)
  && (match cl c with ClLock | ClFn | ClRelock => negb (inq c) | ClUnlock => inq c | _ => true end)
  (* cooldown <= 0: no timer goroutine ever exists *)
  && (cooldown_pos || match tm c with None => true | Some _ => false end).

(* Generic sweep over (state satisfying Invb) x pick x successor. *)
Definition step_chk (cd : bool) (Q : ctl -> pick -> ctl -> bool) : bool :=
  forall_ctl (fun c => negb (Invb cd c) ||
    forallb (fun p => match cstep true cd c p with Some c' => Q c p c' | None => true end) all_pick).

Lemma step_chk_ok : forall cd Q, step_chk cd Q = true ->
  forall c p c', Invb cd c = true -> cstep true cd c p = Some c' -> Q c p c' = true.
Proof.
  intros cd Q Hchk c p c' Hinv Hstep. unfold step_chk in Hchk.
  pose proof (forall_ctl_ok _ Hchk c) as H1; cbv beta in H1.
  rewrite Hinv in H1. cbn [negb orb] in H1.
  pose proof (all_pick_ok _ H1 p) as H2; cbv beta in H2.
  rewrite Hstep in H2. exact H2.
Qed.

(* The debugging loop: offending (state, pick, successor) triples of a sweep.  [fails cd Q = []] iff the sweep
   passes; kept because it is how the conjuncts of [Invb] and the weights of [rank] were found. *)
Definition fails (cd : bool) (Q : ctl -> pick -> ctl -> bool) : list (ctl * pick * ctl) :=
  flat_map (fun c => if Invb cd c then
    flat_map (fun p => match cstep true cd c p with
                       | Some c' => if Q c p c' then [] else [(c, p, c')]
                       | None => [] end) all_pick
    else []) list_ctl.

(* --- Invb is inductive --- *)

Lemma Invb_cstep_sweep : forall cd, step_chk cd (fun _ _ c' => Invb cd c') = true.
Proof. intros [|]; vm_compute; reflexivity. Qed.

Example fails_empty : fails true (fun _ _ c' => Invb true c') = [] /\ fails false (fun _ _ c' => Invb false c') = [].
Proof. vm_compute. auto. Qed.

Lemma Invb_init : forall cd n d, Invb cd (init n d) = true.
Proof. intros [|] n [|]; reflexivity. Qed.

(* [step] on the whole state in terms of [cstep] on the control: the only use of [chg] is [0 | S _]. *)
Lemma step_inv : forall f cd s p s', step f cd s p = Some s' ->
  cstep f cd s p = Some (ctl_of s') /\
  (p <> PChg -> chg s' = chg s) /\ (p = PChg -> chg s = S (chg s')).
Proof.
  intros f cd [c k] p s' Hstep. unfold step in Hstep. cbn [chg ctl_of] in *.
  destruct p.
  - destruct (cstep f cd c PCl) as [c'|]; [|discriminate]. cbn in Hstep. inversion Hstep; subst.
    cbn. repeat split; congruence.
  - destruct (cstep f cd c PTm) as [c'|]; [|discriminate]. cbn in Hstep. inversion Hstep; subst.
    cbn. repeat split; congruence.
  - destruct k as [|k]; [discriminate|].
    destruct (cstep f cd c PChg) as [c'|]; [|discriminate]. cbn in Hstep. inversion Hstep; subst.
    cbn. repeat split; congruence.
Qed.

Lemma Invb_step : forall cd (s : st) p s', Invb cd s = true -> step true cd s p = Some s' -> Invb cd s' = true.
Proof.
  intros cd s p s' Hinv Hstep. apply step_inv in Hstep. destruct Hstep as [Hc _].
  exact (step_chk_ok cd _ (Invb_cstep_sweep cd) s p s' Hinv Hc).
Qed.

Lemma Invb_run : forall cd sched (s : st), Invb cd s = true -> Invb cd (run true cd s sched) = true.
Proof.
  intros cd sched. induction sched as [|p r IH]; intros s Hinv; cbn [run]; [exact Hinv|].
  destruct (step true cd s p) as [s'|] eqn:Hstep.
  - apply IH. exact (Invb_step cd s p s' Hinv Hstep).
  - apply IH. exact Hinv.
Qed.

Lemma Invb_reachable : forall cd n d sched, Invb cd (run true cd (init n d) sched) = true.
Proof. intros cd n d sched. apply Invb_run. apply Invb_init. Qed.

(* ------------------------------------------------------------------------------------------------------------ *)
(* F3: the code as it is in /repo.                                                                              *)

(* clean + arm the timer, park; a commit wakes the cleaner; it sees timer != nil and records broadcast = true;
   THE TIMER FIRES AND RE-BROADCASTS (holding only the inner mutex) BEFORE THE CLEANER HAS ENQUEUED ITS TICKET;
   the cleaner parks for ever with the change unseen. *)
Definition F3_witness : list pick :=
  [PCl; PCl; PCl; PCl;  PChg;  PCl; PCl; PCl;  PTm; PTm;  PCl; PCl].

Theorem C04_unlocked_rebroadcast_refuted :
  exists sched, let s := run false true (init 1 false) sched in
    is_terminal false true s = true /\ dirty s = true.
Proof. exists F3_witness. vm_compute. auto. Qed.

(* The same schedule is harmless in the repaired protocol (the timer goroutine blocks on b.mutex at its second
   step and the re-broadcast comes after the cleaner has parked). *)
Example F3_witness_repaired :
  let s := run true true (init 1 false) (F3_witness ++ [PTm; PTm; PTm; PCl; PCl; PCl; PCl; PCl; PTm; PTm; PTm; PTm]) in
  is_terminal true true s = true /\ dirty s = false.
Proof. vm_compute. auto. Qed.

(* ------------------------------------------------------------------------------------------------------------ *)
(* Terminal states of the repaired protocol are clean.                                                          *)

Definition cterminal (cd : bool) (c : ctl) : bool :=
  match cstep true cd c PCl, cstep true cd c PTm with None, None => true | _, _ => false end.

Lemma terminal_cterminal : forall cd s, is_terminal true cd s = true -> cterminal cd s = true /\ chg s = 0 \/
  cterminal cd s = true /\ cstep true cd s PChg = None.
Proof.
  intros cd [c k] H. unfold is_terminal, all_pick, enabled, step in H. cbn [forallb chg ctl_of] in H.
  unfold cterminal. cbn [ctl_of chg].
  destruct (cstep true cd c PCl); [discriminate H|].
  destruct (cstep true cd c PTm); [discriminate H|].
  destruct k as [|k]; [left; auto|].
  destruct (cstep true cd c PChg); [discriminate H|]. right; auto.
Qed.

Lemma terminal_clean_sweep : forall cd,
  forall_ctl (fun c => negb (Invb cd c) || negb (cterminal cd c) || negb (dirty c)) = true.
Proof. intros [|]; vm_compute; reflexivity. Qed.

Lemma terminal_clean : forall cd (c : ctl), Invb cd c = true -> cterminal cd c = true -> dirty c = false.
Proof.
  intros cd c Hinv Hterm. pose proof (forall_ctl_ok _ (terminal_clean_sweep cd) c) as H. cbv beta in H.
  rewrite Hinv, Hterm in H. cbn in H. destruct (dirty c); [discriminate H|reflexivity].
Qed.

(* In a terminal state of the repaired protocol b.mutex is free, so no change is left either. *)
Lemma terminal_free_sweep : forall cd,
  forall_ctl (fun c => negb (Invb cd c) || negb (cterminal cd c) ||
                       match cstep true cd c PChg with Some _ => true | None => false end) = true.
Proof. intros [|]; vm_compute; reflexivity. Qed.

Theorem quiescent_is_clean : forall cd n d sched,
  let s := run true cd (init n d) sched in
  is_terminal true cd s = true -> dirty s = false.
Proof.
  intros cd n d sched s Hterm.
  pose proof (Invb_reachable cd n d sched) as Hinv. fold s in Hinv.
  apply terminal_cterminal in Hterm. destruct Hterm as [[Hterm _]|[Hterm _]];
    exact (terminal_clean cd s Hinv Hterm).
Qed.

Theorem quiescent_no_change_left : forall cd n d sched,
  let s := run true cd (init n d) sched in
  is_terminal true cd s = true -> chg s = 0.
Proof.
  intros cd n d sched s Hterm.
  pose proof (Invb_reachable cd n d sched) as Hinv. fold s in Hinv.
  apply terminal_cterminal in Hterm. destruct Hterm as [[_ H0]|[Hterm Hnone]]; [exact H0|].
  pose proof (forall_ctl_ok _ (terminal_free_sweep cd) s) as H. cbv beta in H.
  rewrite Hinv, Hterm, Hnone in H. discriminate H.
Qed.

(* A new timer goroutine is only ever spawned when none is alive (justifies [tm : option tmpc]). *)
Lemma spawn_only_when_none_sweep : forall cd,
  step_chk cd (fun c p c' => match p, cl c, timer c, tm c with
                             | PCl, ClFn, false, Some _ => false
                             | _, _, _, _ => true end) = true.
Proof. intros [|]; vm_compute; reflexivity. Qed.

(* ------------------------------------------------------------------------------------------------------------ *)
(* Bounded number of timer firings after the last change.                                                       *)

(* fn() executions with timer = nil still to come (each arms one timer when the cooldown is positive): at most
   one once no change is left. *)
Definition arms_left (c : ctl) : nat :=
  if will_recheck c then 1 else if timer c && bflag c then 1 else 0.

(* Upper bound on the timer firings still to come when no change is left. *)
Definition spawns_left (cd : bool) (c : ctl) : nat :=
  (match tm c with Some TmWait => 1 | _ => 0 end) + (if cd then arms_left c else 0).

Definition cfire (c : ctl) (p : pick) : nat :=
  match p, tm c with PTm, Some TmWait => 1 | _, _ => 0 end.

Lemma spawns_left_sweep : forall cd,
  step_chk cd (fun c p c' => match p with
                             | PChg => true
                             | _ => (spawns_left cd c' + cfire c p <=? spawns_left cd c)
                             end) = true.
Proof. intros [|]; vm_compute; reflexivity. Qed.

Lemma spawns_left_le_2 : forall cd c, spawns_left cd c <= 2.
Proof.
  intros cd c. unfold spawns_left, arms_left.
  destruct (tm c) as [[| | |]|]; destruct cd; destruct (will_recheck c); destruct (timer c && bflag c); cbn; lia.
Qed.

Lemma fires_le_spawns_left : forall cd post (s : st), Invb cd s = true -> chg s = 0 ->
  fires true cd s post <= spawns_left cd s.
Proof.
  intros cd post. induction post as [|p r IH]; intros s Hinv H0; cbn [fires]; [lia|].
  destruct (step true cd s p) as [s'|] eqn:Hstep; [|exact (IH s Hinv H0)].
  pose proof (Invb_step cd s p s' Hinv Hstep) as Hinv'.
  apply step_inv in Hstep. destruct Hstep as [Hc [Hsame Hdec]].
  destruct p.
  - assert (H0' : chg s' = 0) by (rewrite Hsame; [exact H0|discriminate]).
    specialize (IH s' Hinv' H0').
    pose proof (step_chk_ok cd _ (spawns_left_sweep cd) s PCl s' Hinv Hc) as Hq. cbv beta iota in Hq.
    apply Nat.leb_le in Hq. unfold is_fire. unfold cfire in Hq. lia.
  - assert (H0' : chg s' = 0) by (rewrite Hsame; [exact H0|discriminate]).
    specialize (IH s' Hinv' H0').
    pose proof (step_chk_ok cd _ (spawns_left_sweep cd) s PTm s' Hinv Hc) as Hq. cbv beta iota in Hq.
    apply Nat.leb_le in Hq. unfold is_fire. unfold cfire in Hq.
    destruct (tm s) as [[| | |]|]; lia.
  - specialize (Hdec eq_refl). lia.
Qed.

Theorem bounded_timer_firings : forall cd n d pre post,
  let s := run true cd (init n d) pre in
  chg s = 0 -> fires true cd s post <= 2.
Proof.
  intros cd n d pre post s H0.
  pose proof (Invb_reachable cd n d pre) as Hinv. fold s in Hinv.
  pose proof (fires_le_spawns_left cd post s Hinv H0) as H1.
  pose proof (spawns_left_le_2 cd s) as H2. lia.
Qed.

(* The bound is attained: the last change lands during a cooldown; that timer fires and re-broadcasts (1); the
   cleaner cleans and arms a new timer, which fires (2). *)
Example two_firings_occur :
  let pre := [PCl; PCl; PCl; PCl; PChg] in
  let post := [PCl; PCl; PCl; PCl; PCl;  PTm; PTm; PTm; PTm;  PCl; PCl; PCl; PCl; PCl;  PTm; PTm; PTm; PTm] in
  let s := run true true (init 1 false) pre in
  chg s = 0 /\ fires true true s post = 2 /\ is_terminal true true (run true true s post) = true.
Proof. vm_compute. auto. Qed.

(* Cooldown <= 0: no timer at all. *)
Corollary no_firings_without_cooldown : forall n d sched, fires true false (init n d) sched = 0.
Proof.
  intros n d sched. revert n d.
  assert (H : forall s : st, Invb false s = true -> fires true false s sched = 0).
  { induction sched as [|p r IH]; intros s Hinv; cbn [fires]; [reflexivity|].
    destruct (step true false s p) as [s'|] eqn:Hstep; [|exact (IH s Hinv)].
    rewrite (IH s' (Invb_step false s p s' Hinv Hstep)).
    unfold is_fire. unfold Invb in Hinv. destruct (tm s) as [t|].
    - cbn in Hinv. rewrite andb_false_r in Hinv. discriminate Hinv.
    - destruct p; reflexivity. }
  intros n d. apply H. apply Invb_init.
Qed.

(* ------------------------------------------------------------------------------------------------------------ *)
(* Termination measure.                                                                                         *)

Definition cpos (c : ctl) : nat :=
  match cl c with
  | ClParked => if inq c then 0 else 5
  | ClUnlock => 1 | ClEnq => 2 | ClFn => 3 | ClLock | ClRelock => 4
  end.

Definition tpos (c : ctl) : nat :=
  match tm c with None => 0 | Some TmUnlockB => 1 | Some TmSect => 2 | Some TmLockB => 3 | Some TmWait => 4 end.

(* Re-broadcasts by the timer goroutine still to come (each costs the cleaner one more iteration, 5 steps). *)
Definition wakes_left (c : ctl) : nat :=
  if timer c then (if bflag c then 1 else if will_recheck c then 1 else 0) else 0.

(* Rank of the finite control: an upper bound on the number of cleaner + timer steps without a change. *)
Definition rank (c : ctl) : nat := cpos c + 5 * wakes_left c + tpos c + 4 * arms_left c.

Definition rank_max : nat := 18.

Definition mu (s : st) : nat := chg s * S rank_max + rank s.

Lemma rank_le_max : forall c, rank c <= rank_max.
Proof.
  intros c.
  assert (H : forall_ctl (fun c => rank c <=? rank_max) = true) by (vm_compute; reflexivity).
  pose proof (forall_ctl_ok _ H c) as H1. cbv beta in H1. apply Nat.leb_le in H1. exact H1.
Qed.

Lemma rank_sweep : forall cd,
  step_chk cd (fun c p c' => match p with PChg => true | _ => (rank c' <? rank c) end) = true.
Proof. intros [|]; vm_compute; reflexivity. Qed.

Theorem mu_decreases : forall cd (s : st) p s',
  Invb cd s = true -> step true cd s p = Some s' -> mu s' < mu s.
Proof.
  intros cd s p s' Hinv Hstep. apply step_inv in Hstep. destruct Hstep as [Hc [Hsame Hdec]].
  unfold mu. destruct p.
  - pose proof (step_chk_ok cd _ (rank_sweep cd) s PCl s' Hinv Hc) as Hq. cbv beta iota in Hq.
    apply Nat.ltb_lt in Hq. rewrite Hsame by discriminate. lia.
  - pose proof (step_chk_ok cd _ (rank_sweep cd) s PTm s' Hinv Hc) as Hq. cbv beta iota in Hq.
    apply Nat.ltb_lt in Hq. rewrite Hsame by discriminate. lia.
  - rewrite (Hdec eq_refl). pose proof (rank_le_max s') as Hr. unfold rank_max in *. lia.
Qed.

Lemma moves_le_mu : forall cd sched (s : st), Invb cd s = true -> moves true cd s sched <= mu s.
Proof.
  intros cd sched. induction sched as [|p r IH]; intros s Hinv; cbn [moves]; [lia|].
  destruct (step true cd s p) as [s'|] eqn:Hstep; [|exact (IH s Hinv)].
  pose proof (Invb_step cd s p s' Hinv Hstep) as Hinv'.
  pose proof (mu_decreases cd s p s' Hinv Hstep) as Hlt.
  specialize (IH s' Hinv'). lia.
Qed.

(* Every schedule, however long, makes at most mu(init) = 19 n + 8 moves; the rest are stutters. *)
Theorem moves_bounded : forall cd n d sched, moves true cd (init n d) sched <= mu (init n d).
Proof. intros cd n d sched. apply moves_le_mu. apply Invb_init. Qed.

Lemma mu_init : forall n d, mu (init n d) = 19 * n + 8.
Proof. intros n d. unfold mu, init, rank_max. cbn [chg ctl_of]. destruct d; vm_compute rank; lia. Qed.

Lemma run_app : forall f cd a b s, run f cd s (a ++ b) = run f cd (run f cd s a) b.
Proof.
  intros f cd a. induction a as [|p r IH]; intros b s; cbn [run app]; [reflexivity|].
  destruct (step f cd s p); apply IH.
Qed.

Lemma not_terminal_enabled : forall f cd s, is_terminal f cd s = false -> exists p s', step f cd s p = Some s'.
Proof.
  intros f cd s H. unfold is_terminal, all_pick, enabled in H. cbn [forallb] in H.
  destruct (step f cd s PCl) as [s1|] eqn:H1; [exists PCl, s1; exact H1|].
  destruct (step f cd s PTm) as [s2|] eqn:H2; [exists PTm, s2; exact H2|].
  destruct (step f cd s PChg) as [s3|] eqn:H3; [exists PChg, s3; exact H3|].
  discriminate H.
Qed.

Lemma reaches_terminal : forall cd k (s : st), mu s <= k -> Invb cd s = true ->
  exists post, is_terminal true cd (run true cd s post) = true.
Proof.
  intros cd k. induction k as [|k IH]; intros s Hk Hinv.
  - destruct (is_terminal true cd s) eqn:Ht; [exists []; exact Ht|].
    apply not_terminal_enabled in Ht. destruct Ht as [p [s' Hstep]].
    pose proof (mu_decreases cd s p s' Hinv Hstep). lia.
  - destruct (is_terminal true cd s) eqn:Ht; [exists []; exact Ht|].
    apply not_terminal_enabled in Ht. destruct Ht as [p [s' Hstep]].
    pose proof (mu_decreases cd s p s' Hinv Hstep) as Hlt.
    destruct (IH s') as [post Hpost]; [lia|exact (Invb_step cd s p s' Hinv Hstep)|].
    exists (p :: post). cbn [run]. rewrite Hstep. exact Hpost.
Qed.

(* No livelock and no deadlock short of a terminal state: every reachable state can run on to a terminal state,
   and (moves_bounded) cannot avoid doing so for more than mu moves. *)
Theorem terminates : forall cd n d pre,
  exists post, is_terminal true cd (run true cd (init n d) (pre ++ post)) = true.
Proof.
  intros cd n d pre.
  destruct (reaches_terminal cd _ (run true cd (init n d) pre) (le_n _) (Invb_reachable cd n d pre)) as [post H].
  exists post. rewrite run_app. exact H.
Qed.

(* ------------------------------------------------------------------------------------------------------------ *)
(* Non-vacuity.                                                                                                 *)

(* n = 2, cooldown positive; each change lands during a cooldown: the cleaner records broadcast = true, the timer
   goroutine re-broadcasts under b.mutex, the cleaner cleans again.  Ends terminal and clean. *)
Definition demo_sched : list pick :=
  [PCl; PCl; PCl; PCl] ++                                   (* lock, clean + arm timer, enqueue, unlock: parked *)
  [PChg] ++                                                 (* change 1 during the cooldown: dirty, broadcast *)
  [PCl; PCl; PCl; PCl; PCl] ++                              (* wake, relock, fn: timer != nil -> broadcast = true, park *)
  [PTm; PTm; PTm; PTm] ++                                   (* fire, b.mutex.Lock, section: re-broadcast, unlock *)
  [PCl; PCl; PCl] ++                                        (* wake, relock, fn: clean + arm a new timer *)
  [PChg] ++                                                 (* disabled (cleaner holds b.mutex): stutter *)
  [PCl; PCl] ++                                             (* enqueue, unlock: parked *)
  [PChg] ++                                                 (* change 2 during the second cooldown *)
  [PTm] ++                                                  (* the timer fires before the cleaner has looked *)
  [PCl; PCl; PCl] ++                                        (* wake, relock, fn: timer still != nil -> broadcast = true *)
  [PTm] ++                                                  (* b.mutex.Lock(): disabled (cleaner holds it): stutter *)
  [PCl; PCl] ++                                             (* enqueue, unlock: parked *)
  [PTm; PTm; PTm] ++                                        (* lock, section: re-broadcast reaches the parked cleaner, unlock *)
  [PCl; PCl; PCl; PCl; PCl] ++                              (* wake, relock, clean + arm, park *)
  [PTm; PTm; PTm; PTm].                                     (* last timer: nothing to re-broadcast *)

Example demo_terminal_clean :
  let s := run true true (init 2 false) demo_sched in
  is_terminal true true s = true /\ dirty s = false /\ chg s = 0 /\
  moves true true (init 2 false) demo_sched = 38 /\ fires true true (init 2 false) demo_sched = 3.
Proof. vm_compute. auto. Qed.

(* An intermediate state of that run: change seen only as "broadcast = true", timer pending. *)
Example demo_bflag_set :
  let s := run true true (init 2 false) (firstn 10 demo_sched) in
  dirty s = true /\ bflag s = true /\ timer s = true /\ cl s = ClParked /\ inq s = true.
Proof. vm_compute. auto. Qed.

(* The invariant is not vacuous and not trivially true. *)
Example Invb_count :
  (length (filter (Invb true) list_ctl), length (filter (Invb false) list_ctl), length list_ctl) = (109, 24, 1440).
Proof. vm_compute. reflexivity. Qed.

Print Assumptions C04_unlocked_rebroadcast_refuted.
Print Assumptions quiescent_is_clean.
Print Assumptions quiescent_no_change_left.
Print Assumptions bounded_timer_firings.
Print Assumptions mu_decreases.
Print Assumptions moves_bounded.
Print Assumptions terminates.
