(* Proofs about Model/RetryMore.v (C18):
     1. what unpackFatalError as coded does on errors that also carry NON-fatal wrappers: it strips exactly the maximal
        run of consecutive fatalError layers at the head - the result is never a fatalError itself, but "no fatal
        wrapper at any depth" is FALSE when a non-fatal wrapper sits in between (refuted, with the exact
        characterisation of when it fails);
     2. the outcome theorem of C18 re-proved for the closure on such errors (generic in the error type, by simulation
        of [loop faithful]: the control flow only looks at isFatalError of the outermost value);
     3. waitDuration in discrete time: it returns at the EARLIEST of "d <= 0 / context done / timer fired". *)
From Coq Require Import List Arith ZArith Lia Bool ZifyBool.
From BB Require Import Model.Retry Model.RetryMore Proofs.Retry.
Import ListNotations.
Open Scope Z_scope.
Arguments Nat.sub : simpl never.
Arguments Nat.ltb : simpl never.
Arguments Nat.leb : simpl never.
Arguments Nat.eqb : simpl never.
Arguments Nat.mul : simpl never.
Arguments Z.pow : simpl never.
Arguments Z.modulo : simpl never.
Arguments Z.mul : simpl never.
Arguments Z.add : simpl never.
Arguments Z.sub : simpl never.
Arguments Z.ltb : simpl never.
Arguments Z.leb : simpl never.
Arguments Z.min : simpl never.

(* ------------------------------------------------------------------------------------------------------------ *)
(* 1. unpackFatalError on errors with non-fatal wrappers                                                         *)
(* ------------------------------------------------------------------------------------------------------------ *)

Lemma wunpack_head_not_fatal (e : werr) : wis_fatal (wunpack e) = false.
Proof. induction e as [id | inner IH | inner IH]; cbn [wunpack wis_fatal]; auto. Qed.

Lemma wunpack_wwrap (depth : nat) (e : werr) : wunpack (wwrap depth e) = wunpack e.
Proof. induction depth as [| d IH]; cbn [wwrap wunpack]; auto. Qed.

Lemma wunpack_nonfatal (e : werr) : wis_fatal e = false -> wunpack e = e.
Proof. destruct e; cbn; auto; discriminate. Qed.

Lemma has_fatal_head (e : werr) : has_fatal e = false -> wis_fatal e = false.
Proof. destruct e; cbn; auto. Qed.

(* every error is a run of `depth` consecutive fatalError layers on top of something that is not a fatalError, and
   unpackFatalError returns exactly that something *)
Theorem wunpack_strips_exactly_the_head (e : werr) :
  exists depth x, e = wwrap depth x /\ wis_fatal x = false /\ wunpack e = x /\
                  (wis_fatal e = true <-> (1 <= depth)%nat).
Proof.
  induction e as [id | inner IH | inner _].
  - exists O, (WBase id). cbn. repeat split; auto; try discriminate; lia.
  - destruct IH as (d & x & Hw & Hx & Hu & _). exists (S d), x. cbn [wwrap wunpack wis_fatal].
    repeat split; auto; try congruence; lia.
  - exists O, (WWrap inner). cbn. repeat split; auto; try discriminate; lia.
Qed.

(* when the fatal layers are consecutive at the head (nothing fatal below them), the result is free of fatal wrappers
   at every depth: this covers every error of Model/Retry.v's [err] *)
Theorem wunpack_clean_when_consecutive (depth : nat) (x : werr) :
  has_fatal x = false -> wunpack (wwrap depth x) = x /\ has_fatal (wunpack (wwrap depth x)) = false.
Proof.
  intros Hx. rewrite wunpack_wwrap, (wunpack_nonfatal x (has_fatal_head x Hx)). auto.
Qed.

Lemma wunpack_embed (e : err) : wunpack (embed e) = embed (unpack e).
Proof. induction e as [id | inner IH]; cbn [embed wunpack unpack]; auto. Qed.

Lemma has_fatal_unpack_embed (e : err) : has_fatal (wunpack (embed e)) = false.
Proof. induction e as [id | inner IH]; cbn [embed wunpack has_fatal]; auto. Qed.

(* EXACTLY when a fatal wrapper survives somewhere inside the result: the error is fatal layers on top of a NON-fatal
   wrapper that has a fatal wrapper somewhere inside *)
Theorem wunpack_leaves_fatal_iff (e : werr) :
  has_fatal (wunpack e) = true <-> exists depth y, e = wwrap depth (WWrap y) /\ has_fatal y = true.
Proof.
  split.
  - intros H. destruct (wunpack_strips_exactly_the_head e) as (d & x & Hw & Hx & Hu & _). rewrite Hu in H.
    destruct x as [id | inner | y]; cbn in H, Hx; try discriminate. exists d, y. auto.
  - intros (d & y & -> & Hy). rewrite wunpack_wwrap. cbn. exact Hy.
Qed.

(* "no fatal wrapper at any depth" is false of unpackFatalError as coded: FatalError(fmt.Errorf("%w", FatalError(e))) *)
Theorem wunpack_any_depth_refuted :
  exists e, wis_fatal e = true /\ wunpack e = WWrap (WFatal (WBase 7)) /\
            wis_fatal (wunpack e) = false /\ has_fatal (wunpack e) = true.
Proof. exists (WFatal (WWrap (WFatal (WBase 7)))). cbn. auto. Qed.

(* ------------------------------------------------------------------------------------------------------------ *)
(* 2. the closure, generic in the error type                                                                     *)
(* ------------------------------------------------------------------------------------------------------------ *)

Lemma Forall_map_iff {A B} (P : B -> Prop) (f : A -> B) (l : list A) : Forall P (map f l) <-> Forall (fun x => P (f x)) l.
Proof.
  induction l as [| a l IH]; cbn [map]; split; intros H; try constructor; inversion H; subst; try tauto.
Qed.

Section Sim.
  Variable E : Type.
  Variable isf : E -> bool.
  Variable unp : E -> E.
  Variable ms : Z.
  Variable calc : nat -> Z -> Z -> option Z.
  Variable ca : option nat.
  Variable rate : Z.

  Notation LG := (loopG E isf unp ms calc ca rate).
  Notation L0 := (loop faithful ms calc ca rate).

  (* forget everything about an error but what the closure looks at *)
  Definition absE (e : E) : err := if isf e then EFatal (EBase 0) else EBase 0.
  Definition absO (o : outcomeG E) : outcome := mkO (og_res o) (option_map absE (og_err o)).
  Definition absR (r : rerrG E) : rerr :=
    match r with GNil => RNil | GErr _ => RErr (EBase 0) | GCtx => RCtx | GExhausted => RExhausted | GPanic => RPanic end.

  Lemma loopG_nil k c :
    LG [] k c = if cancelled_by ca (2 * k) then mkRG 0 None GCtx [] else mkRG 0 None GExhausted [].
  Proof. reflexivity. Qed.

  Lemma loopG_cons o rest k c :
    LG (o :: rest) k c =
    if cancelled_by ca (2 * k) then mkRG 0 None GCtx []
    else match og_err o with
         | None => mkRG 1 (og_res o) GNil []
         | Some e =>
             if isf e then mkRG 1 (og_res o) (GErr (unp e)) []
             else match calc k rate (bump ms c) with
                  | None => mkRG 1 None GPanic []
                  | Some d =>
                      let r := LG rest (S k) (bump ms c) in
                      mkRG (S (g_calls r)) (g_res r) (g_ret r)
                           (mkW rate (bump ms c) d (cancelled_by ca (2 * k + 1))
                                (wait_how_of d (cancelled_by ca (2 * k + 2))) :: g_waits r)
                  end
         end.
  Proof. reflexivity. Qed.

  (* the generic closure does, call for call and wait for wait, what [loop faithful] does on the abstracted script *)
  Lemma sim script : forall k c,
    let R := LG script k c in let R0 := L0 (map absO script) k c in
    g_calls R = calls R0 /\ g_res R = res R0 /\ absR (g_ret R) = ret R0 /\ g_waits R = waits R0.
  Proof.
    induction script as [| o rest IH]; intros k c; cbn [map].
    - rewrite loopG_nil, loop_nil. destruct (cancelled_by ca (2 * k)); cbn; auto.
    - rewrite loopG_cons, loop_cons. destruct (cancelled_by ca (2 * k)); [cbn; auto |].
      change (o_err (absO o)) with (option_map absE (og_err o)). change (o_res (absO o)) with (og_res o).
      destruct (og_err o) as [e |]; cbn [option_map]; [| cbn; auto].
      unfold absE. destruct (isf e); cbn [is_fatal unpack]; [cbn; auto |].
      destruct (calc k rate (bump ms c)) as [d |]; [| cbn; auto].
      cbv zeta. cbn [g_calls g_res g_ret g_waits calls res ret waits].
      destruct (IH (S k) (bump ms c)) as (H1 & H2 & H3 & H4). rewrite H1, H2, H3, H4. auto.
  Qed.

  (* an error is only ever returned by the fatal exit: it is the unpacked error of the LAST call made *)
  Lemma ret_is_unpacked script : forall k c x, g_ret (LG script k c) = GErr x ->
    exists o e, nth_error script (g_calls (LG script k c) - 1) = Some o /\ og_err o = Some e /\
                isf e = true /\ x = unp e /\ (1 <= g_calls (LG script k c))%nat.
  Proof.
    induction script as [| o rest IH]; intros k c x Hr.
    - rewrite loopG_nil in Hr. destruct (cancelled_by ca (2 * k)); discriminate.
    - rewrite loopG_cons in *. destruct (cancelled_by ca (2 * k)); [discriminate |].
      destruct (og_err o) as [e |] eqn:He; [| discriminate].
      destruct (isf e) eqn:Hf.
      + cbn [g_ret g_calls] in *. injection Hr as Hr. exists o, e. cbn. repeat split; auto.
      + destruct (calc k rate (bump ms c)) as [d |]; [| discriminate].
        cbv zeta in *. cbn [g_ret g_calls] in *.
        destruct (IH (S k) (bump ms c) x Hr) as (o' & e' & Hn & He' & Hf' & Hx & Hc).
        exists o', e'. replace (S (g_calls (LG rest (S k) (bump ms c))) - 1)%nat
          with (S (g_calls (LG rest (S k) (bump ms c)) - 1)) by lia.
        cbn [nth_error]. repeat split; auto; lia.
  Qed.

  Definition plainG (o : outcomeG E) : Prop := exists e, og_err o = Some e /\ isf e = false.
  Definition successG (o : outcomeG E) : Prop := og_err o = None.

  Lemma plain_abs o : plain (absO o) <-> plainG o.
  Proof.
    unfold plain, plainG, absO. cbn [o_err]. split.
    - intros (e' & He' & Hf). destruct (og_err o) as [e |]; cbn [option_map] in He'; [| discriminate].
      injection He' as <-. exists e. split; [reflexivity |]. unfold absE in Hf. destruct (isf e); [discriminate | reflexivity].
    - intros (e & He & Hf). rewrite He. cbn [option_map]. exists (absE e). split; [reflexivity |].
      unfold absE. rewrite Hf. reflexivity.
  Qed.

  Lemma Forall_plain_abs l : Forall plain (map absO l) <-> Forall plainG l.
  Proof.
    rewrite Forall_map_iff. split; intros H; (eapply Forall_impl; [| exact H]); intros o Ho; now apply plain_abs.
  Qed.

  (* the clauses of Proofs.Retry.outcome_spec, for the generic closure; clause (2) returns the error unpacked BY THE
     GIVEN unpack function and clause (4) says every returned error is such an unpacked fatal error *)
  Definition outcome_specG (R : resultG E) (script : list (outcomeG E)) : Prop :=
    (forall pre o post, script = pre ++ o :: post -> Forall plainG pre -> successG o ->
       before_cancel ca (2 * length pre) ->
       g_calls R = S (length pre) /\ g_res R = og_res o /\ g_ret R = GNil) /\
    (forall pre o post e, script = pre ++ o :: post -> Forall plainG pre -> og_err o = Some e -> isf e = true ->
       before_cancel ca (2 * length pre) ->
       g_calls R = S (length pre) /\ g_res R = og_res o /\ g_ret R = GErr (unp e)) /\
    (forall t m, ca = Some t -> (t <= 2 * m)%nat -> (2 * m <= t + 1)%nat ->
       (g_calls R <= m)%nat /\
       (Forall plainG (firstn m script) -> (m <= length script)%nat ->
        g_calls R = m /\ g_res R = None /\ g_ret R = GCtx)) /\
    match g_ret R with GErr x => exists e, isf e = true /\ x = unp e | GPanic => False | _ => True end /\
    (length (g_waits R) <= g_calls R <= length script)%nat /\
    (g_ret R = GExhausted -> Forall plainG script /\ g_calls R = length script).

  Theorem outcomeG_any_seam script : calc_total calc -> outcome_specG (LG script 0 0) script.
  Proof.
    intros Hcalc. destruct (sim script 0%nat 0) as (S1 & S2 & S3 & S4).
    destruct (outcome_any_seam ms calc ca rate (map absO script) Hcalc) as (O1 & O2 & O3 & O4 & O5 & O6).
    unfold outcome_specG. split; [| split; [| split; [| split; [| split]]]].
    - intros pre o post Hs Hpre Ho Hbc.
      destruct (O1 (map absO pre) (absO o) (map absO post)) as (A1 & A2 & A3).
      + rewrite Hs, map_app. reflexivity.
      + now apply Forall_plain_abs.
      + unfold success, absO. cbn [o_err]. unfold successG in Ho. rewrite Ho. reflexivity.
      + rewrite map_length. exact Hbc.
      + rewrite map_length in A1. rewrite S1, S2. split; [exact A1 |]. split; [exact A2 |].
        rewrite <- S3 in A3. destruct (g_ret (LG script 0 0)); try discriminate; reflexivity.
    - intros pre o post e Hs Hpre He Hf Hbc.
      destruct (O2 (map absO pre) (absO o) (map absO post) (absE e)) as (A1 & A2 & A3 & _).
      + rewrite Hs, map_app. reflexivity.
      + now apply Forall_plain_abs.
      + unfold absO. cbn [o_err]. rewrite He. reflexivity.
      + unfold absE. rewrite Hf. reflexivity.
      + rewrite map_length. exact Hbc.
      + rewrite map_length in A1. rewrite S1, S2. split; [exact A1 |]. split; [exact A2 |].
        rewrite <- S3 in A3. destruct (g_ret (LG script 0 0)) as [| x | | |] eqn:Hr; try discriminate.
        destruct (ret_is_unpacked script 0%nat 0 x Hr) as (o' & e' & Hn & He' & _ & Hx & _).
        rewrite S1, A1 in Hn. replace (S (length pre) - 1)%nat with (length pre) in Hn by lia.
        rewrite Hs, nth_error_app2, Nat.sub_diag in Hn by lia. cbn [nth_error] in Hn.
        injection Hn as <-. rewrite He in He'. injection He' as <-. now rewrite Hx.
    - intros t m Hca Htm Hmt. destruct (O3 t m Hca Htm Hmt) as (A1 & A2). split; [now rewrite S1 |].
      intros Hpl Hlen. destruct A2 as (B1 & B2 & B3).
      + rewrite firstn_map. now apply Forall_plain_abs.
      + now rewrite map_length.
      + rewrite S1, S2. split; [exact B1 |]. split; [exact B2 |].
        rewrite <- S3 in B3. destruct (g_ret (LG script 0 0)); try discriminate; reflexivity.
    - destruct (g_ret (LG script 0 0)) as [| x | | |] eqn:Hr; try exact I.
      + destruct (ret_is_unpacked script 0%nat 0 x Hr) as (o' & e' & _ & _ & Hf & Hx & _). eauto.
      + rewrite <- S3 in O4. exact O4.
    - rewrite S4, S1. rewrite map_length in O5. exact O5.
    - intros Hr. rewrite <- S3, Hr in O6. destruct (O6 eq_refl) as (A1 & A2).
      split; [now apply Forall_plain_abs |]. rewrite S1, A2. apply map_length.
  Qed.
End Sim.

(* the generic closure instantiated with Model/Retry.v's errors IS [loop faithful] *)
Definition toG (o : outcome) : outcomeG err := mkOG (o_res o) (o_err o).
Definition toR (r : rerr) : rerrG err :=
  match r with RNil => GNil | RErr e => GErr e | RCtx => GCtx | RExhausted => GExhausted | RPanic => GPanic end.

Theorem loopG_is_loop ms calc ca rate script : forall k c,
  let R := loopG err is_fatal unpack ms calc ca rate (map toG script) k c in
  let R0 := loop faithful ms calc ca rate script k c in
  g_calls R = calls R0 /\ g_res R = res R0 /\ g_ret R = toR (ret R0) /\ g_waits R = waits R0.
Proof.
  induction script as [| o rest IH]; intros k c; cbn [map].
  - rewrite loopG_nil, loop_nil. destruct (cancelled_by ca (2 * k)); cbn; auto.
  - rewrite loopG_cons, loop_cons. destruct (cancelled_by ca (2 * k)); [cbn; auto |].
    change (og_err (toG o)) with (o_err o). change (og_res (toG o)) with (o_res o).
    destruct (o_err o) as [e |]; [| cbn; auto].
    destruct (is_fatal e); [cbn; auto |].
    destruct (calc k rate (bump ms c)) as [d |]; [| cbn; auto].
    cbv zeta. cbn [g_calls g_res g_ret g_waits calls res ret waits].
    destruct (IH (S k) (bump ms c)) as (H1 & H2 & H3 & H4). rewrite H1, H2, H3, H4. auto.
Qed.

(* ---- the closure on errors with non-fatal wrappers ---- *)

Theorem outcome_wrun ms drate rnd ca rate script :
  0 <= ms <= 31 ->
  outcome_specG werr wis_fatal wunpack ca (wrun ms drate rnd ca rate script) script.
Proof. intros Hms. unfold wrun. apply outcomeG_any_seam. apply calc_real_total. exact Hms. Qed.

(* what holds of the returned error: it is never a fatalError ITSELF (the head is stripped), and never a panic *)
Theorem wrun_returned_error_head ms drate rnd ca rate script :
  0 <= ms <= 31 ->
  match g_ret (wrun ms drate rnd ca rate script) with
  | GErr x => wis_fatal x = false /\ exists o e, In o script /\ og_err o = Some e /\ wis_fatal e = true /\ x = wunpack e
  | GPanic => False
  | _ => True
  end.
Proof.
  intros Hms. pose proof (outcome_wrun ms drate rnd ca rate script Hms) as (_ & _ & _ & H4 & _).
  destruct (g_ret (wrun ms drate rnd ca rate script)) as [| x | | |] eqn:Hr; auto.
  destruct H4 as (e0 & Hf0 & ->). split; [apply wunpack_head_not_fatal |].
  unfold wrun in Hr. destruct (ret_is_unpacked _ _ _ _ _ _ _ script 0%nat 0 _ Hr) as (o' & e' & Hn & He' & Hf' & Hx & _).
  exists o', e'. split; [eapply nth_error_In; eauto |]. auto.
Qed.

(* ... and it has no fatal wrapper at any depth PROVIDED no error of the script hides one under a non-fatal wrapper *)
Theorem wrun_clean_when_consecutive ms drate rnd ca rate script :
  0 <= ms <= 31 ->
  (forall o e, In o script -> og_err o = Some e -> has_fatal (wunpack e) = false) ->
  match g_ret (wrun ms drate rnd ca rate script) with GErr x => has_fatal x = false | _ => True end.
Proof.
  intros Hms Hcl. pose proof (wrun_returned_error_head ms drate rnd ca rate script Hms) as H.
  destruct (g_ret (wrun ms drate rnd ca rate script)) as [| x | | |]; auto.
  destruct H as (_ & o1 & e1 & Ho & He & _ & ->). eauto.
Qed.

(* "the returned error contains no fatal wrapper at any depth" is FALSE of the closure as coded *)
Theorem wrun_any_depth_refuted :
  exists script,
    let R := wrun max_shift_go default_rate_go rnd_zero None 1000 script in
    g_calls R = 1%nat /\ g_res R = Some 5 /\
    g_ret R = GErr (WWrap (WFatal (WBase 9))) /\ has_fatal (WWrap (WFatal (WBase 9))) = true.
Proof. exists [mkOG (Some 5) (Some (WFatal (WWrap (WFatal (WBase 9)))))]. vm_compute. auto. Qed.

(* the hypotheses are satisfiable, and the interesting cases occur: nested consecutive wrappers are fully removed *)
Example wrun_nested_consecutive :
  let script := [mkOG None (Some (WWrap (WBase 1))); mkOG None (Some (WBase 2));
                 mkOG (Some 8) (Some (wwrap 3 (WWrap (WBase 9)))); mkOG None None] in
  let R := wrun max_shift_go default_rate_go rnd_zero None 0 script in
  g_calls R = 3%nat /\ g_res R = Some 8 /\ g_ret R = GErr (WWrap (WBase 9)) /\
  (forall o e, In o script -> og_err o = Some e -> has_fatal (wunpack e) = false).
Proof.
  split; [| split; [| split]]; try (vm_compute; reflexivity).
  intros o e [<- | [<- | [<- | [<- | []]]]] He; cbn in He; try discriminate; injection He as <-; reflexivity.
Qed.

(* a fatal error hidden under a NON-fatal wrapper is not fatal for the closure at all (type assertion on the outermost
   value): the loop goes on *)
Example wrun_hidden_fatal_is_plain :
  let R := wrun max_shift_go default_rate_go rnd_zero None 0
             [mkOG None (Some (WWrap (WFatal (WBase 1)))); mkOG (Some 4) None] in
  g_calls R = 2%nat /\ g_res R = Some 4 /\ g_ret R = GNil.
Proof. vm_compute. auto. Qed.

(* ------------------------------------------------------------------------------------------------------------ *)
(* 3. waitDuration returns at the earliest of the three events                                                   *)
(* ------------------------------------------------------------------------------------------------------------ *)

Lemma first_return_sound d cd tm : forall fuel now n,
  first_return d cd tm now fuel = Some n ->
  (now <= n <= now + fuel)%nat /\ wait_returns d (cd n) (tm n) = true /\
  forall m, (now <= m < n)%nat -> wait_returns d (cd m) (tm m) = false.
Proof.
  induction fuel as [| f IH]; intros now n H; cbn [first_return] in H;
    destruct (wait_returns d (cd now) (tm now)) eqn:E.
  - injection H as <-. repeat split; try lia; auto.
  - discriminate.
  - injection H as <-. repeat split; try lia; auto.
  - destruct (IH (S now) n H) as (H1 & H2 & H3). repeat split; try lia; auto.
    intros m Hm. destruct (Nat.eq_dec m now) as [-> | Hne]; [exact E | apply H3; lia].
Qed.

Lemma first_return_complete d cd tm : forall fuel now n,
  (now <= n <= now + fuel)%nat -> wait_returns d (cd n) (tm n) = true ->
  (forall m, (now <= m < n)%nat -> wait_returns d (cd m) (tm m) = false) ->
  first_return d cd tm now fuel = Some n.
Proof.
  induction fuel as [| f IH]; intros now n Hn Ht Hm; cbn [first_return].
  - assert (n = now) by lia. subst. now rewrite Ht.
  - destruct (Nat.eq_dec n now) as [-> | Hne]; [now rewrite Ht |].
    rewrite (Hm now) by lia. apply IH; [lia | exact Ht |]. intros m Hm'. apply Hm. lia.
Qed.

Lemma first_return_blocked d cd tm : forall fuel now,
  first_return d cd tm now fuel = None ->
  forall m, (now <= m <= now + fuel)%nat -> wait_returns d (cd m) (tm m) = false.
Proof.
  induction fuel as [| f IH]; intros now H m Hm; cbn [first_return] in H;
    destruct (wait_returns d (cd now) (tm now)) eqn:E; try discriminate.
  - assert (m = now) by lia. now subst.
  - destruct (Nat.eq_dec m now) as [-> | Hne]; [exact E | apply (IH (S now) H); lia].
Qed.

(* the instant at which waitDuration(ctx, d) returns, counted from its entry: at once for d <= 0; otherwise at the
   earlier of the cancellation of the context (at once if it is already done: tc = 0) and the timer *)
Definition wait_time (d : Z) (tc : option nat) : nat :=
  if d <=? 0 then O
  else match tc with Some t => Nat.min t (Z.to_nat d) | None => Z.to_nat d end.

Lemma wait_time_closed_form d tc :
  wait_time d tc = if d <=? 0 then O else match tc with Some t => Nat.min t (Z.to_nat d) | None => Z.to_nat d end.
Proof. reflexivity. Qed.

(* waitDuration returns at [wait_time] - not later (it returns there) and not earlier (the select is blocked at every
   earlier instant): the wait is cut short by cancellation, and never outlasts the delay *)
Theorem wait_returns_at_earliest d tc fuel :
  (wait_time d tc <= fuel)%nat ->
  first_return d (ctx_done_from tc) (timer_from d) 0 fuel = Some (wait_time d tc) /\
  (forall m, (m < wait_time d tc)%nat -> wait_returns d (ctx_done_from tc m) (timer_from d m) = false) /\
  (wait_time d tc <= Z.to_nat d)%nat /\
  (forall t, tc = Some t -> (wait_time d tc <= t)%nat).
Proof.
  intros Hfuel.
  assert (Hat : wait_returns d (ctx_done_from tc (wait_time d tc)) (timer_from d (wait_time d tc)) = true).
  { unfold wait_returns, wait_time, ctx_done_from, timer_from.
    destruct (Z.leb_spec d 0); destruct tc as [t |]; lia. }
  assert (Hbefore : forall m, (m < wait_time d tc)%nat ->
                              wait_returns d (ctx_done_from tc m) (timer_from d m) = false).
  { intros m Hm. unfold wait_returns, wait_time, ctx_done_from, timer_from in *.
    destruct (Z.leb_spec d 0); destruct tc as [t |]; lia. }
  split; [| split; [exact Hbefore | split]].
  - apply first_return_complete; [lia | exact Hat |]. intros m Hm. apply Hbefore. lia.
  - unfold wait_time. destruct (Z.leb_spec d 0); destruct tc as [t |]; lia.
  - intros t ->. unfold wait_time. destruct (Z.leb_spec d 0); lia.
Qed.

(* with too little time it has not returned *)
Theorem wait_blocked_before d tc fuel :
  (fuel < wait_time d tc)%nat -> first_return d (ctx_done_from tc) (timer_from d) 0 fuel = None.
Proof.
  intros Hfuel. destruct (first_return d (ctx_done_from tc) (timer_from d) 0 fuel) as [n |] eqn:E; [| reflexivity].
  exfalso. destruct (first_return_sound _ _ _ _ _ _ E) as (Hn & Ht & _).
  destruct (wait_returns_at_earliest d tc (wait_time d tc) (le_n _)) as (_ & Hb & _).
  rewrite Hb in Ht by lia. discriminate.
Qed.

Example wait_time_examples :
  wait_time 0 None = 0%nat /\ wait_time (-5) (Some 3%nat) = 0%nat /\ wait_time 7 None = 7%nat /\
  wait_time 7 (Some 3%nat) = 3%nat /\ wait_time 7 (Some 0%nat) = 0%nat /\ wait_time 7 (Some 9%nat) = 7%nat /\
  first_return 7 (ctx_done_from (Some 3%nat)) (timer_from 7) 0 20 = Some 3%nat /\
  first_return 7 (ctx_done_from None) (timer_from 7) 0 6 = None.
Proof. vm_compute. repeat split; reflexivity. Qed.

Print Assumptions wunpack_strips_exactly_the_head.
Print Assumptions wunpack_leaves_fatal_iff.
Print Assumptions wunpack_any_depth_refuted.
Print Assumptions outcome_wrun.
Print Assumptions wrun_returned_error_head.
Print Assumptions wrun_clean_when_consecutive.
Print Assumptions wrun_any_depth_refuted.
Print Assumptions loopG_is_loop.
Print Assumptions wait_returns_at_earliest.
