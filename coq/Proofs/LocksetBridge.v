(* C11 — the bridge: what [guard_ok] establishes about the translator's facts IS the abstract discipline.

   bridge_fact            for a fact whose guard is exemption-free (mutex / atomic / immutable): [guard_sat] implies
                          [action_ok] of the translated access under the translated held set.
   bridge_action_ok       the same for any held set that covers the translated one, and for guards with exemptions as
                          long as the fact satisfies the guard WITHOUT its exemptions ([bridged]).
   consistent_disciplined a thread program of bridged fact sites, each executed while holding what the translator saw
                          held, passes [check_prog].
   library_programs_race_free   hence (generic lockset theorem) no race, any number of threads, any schedule.
   guard_ok_split         every fact accepted by [guard_ok] is bridged or is classified with an explicit trust kind.  *)
From Coq Require Import List Arith Lia Bool String.
From BB Require Import Model.Lockset Proofs.Lockset Model.LocksetBridge.
Import ListNotations.

Lemma alock_eqb_spec : forall a b : alock, alock_eqb a b = true <-> a = b.
Proof.
  intros [o [s f]] [o' [s' f']]. unfold alock_eqb. cbn [fst snd]. split.
  - intro H. apply andb_true_iff in H. destruct H as [H Hf]. apply andb_true_iff in H. destruct H as [Ho Hs].
    apply Nat.eqb_eq in Ho. apply String.eqb_eq in Hs. apply String.eqb_eq in Hf. subst. reflexivity.
  - intro H. injection H as -> -> ->. rewrite Nat.eqb_refl, !String.eqb_refl. reflexivity.
Qed.

Lemma alock_eqb_refl : forall a, alock_eqb a a = true.
Proof. intro a. apply alock_eqb_spec. reflexivity. Qed.

Notation a_holds_w := (holds_w alock alock_eqb).
Notation a_holds_any := (holds_any alock alock_eqb).
Notation a_holds_for := (holds_for alock alock_eqb).

(* ---- the translated held set contains the guard lock whenever [held_lock] found it ---- *)
Lemma held_lock_tr_w : forall o h s lf,
    held_lock h s lf true = true -> a_holds_w (tr_held o h) (o, (s, lf)) = true.
Proof.
  intros o h s lf H. unfold held_lock in H. apply existsb_exists in H. destruct H as [p [Hin Hp]].
  apply andb_true_iff in Hp. destruct Hp as [Hp Hm]. apply andb_true_iff in Hp. destruct Hp as [Hp Hf].
  apply andb_true_iff in Hp. destruct Hp as [Hsame Hs].
  apply String.eqb_eq in Hs. apply String.eqb_eq in Hf.
  unfold Lockset.holds_w. apply existsb_exists.
  exists ((o, (l_struct (fst p), l_field (fst p))), snd p). split.
  - unfold tr_held. apply in_map_iff. exists p. split; [reflexivity|]. apply filter_In. split; assumption.
  - cbn [fst snd]. rewrite Hs, Hf, alock_eqb_refl, Hm. reflexivity.
Qed.

Lemma held_lock_tr_any : forall o h s lf,
    held_lock h s lf false = true -> a_holds_any (tr_held o h) (o, (s, lf)) = true.
Proof.
  intros o h s lf H. unfold held_lock in H. apply existsb_exists in H. destruct H as [p [Hin Hp]].
  apply andb_true_iff in Hp. destruct Hp as [Hp _]. apply andb_true_iff in Hp. destruct Hp as [Hp Hf].
  apply andb_true_iff in Hp. destruct Hp as [Hsame Hs].
  apply String.eqb_eq in Hs. apply String.eqb_eq in Hf.
  unfold Lockset.holds_any. apply existsb_exists.
  exists ((o, (l_struct (fst p), l_field (fst p))), snd p). split.
  - unfold tr_held. apply in_map_iff. exists p. split; [reflexivity|]. apply filter_In. split; assumption.
  - cbn [fst]. rewrite Hs, Hf. apply alock_eqb_refl.
Qed.

Lemma held_lock_tr_for : forall o h s lf k,
    held_lock h s lf (rw_is_w k) = true -> a_holds_for (tr_held o h) (o, (s, lf)) k = true.
Proof.
  intros o h s lf k H. unfold Lockset.holds_for. destruct (rw_is_w k).
  - apply held_lock_tr_w. exact H.
  - apply held_lock_tr_any. exact H.
Qed.

(* ---- covering ---- *)
Lemma held_covers_w : forall h h0 l, held_covers h h0 = true -> a_holds_w h0 l = true -> a_holds_w h l = true.
Proof.
  intros h h0 l Hc Hw. unfold Lockset.holds_w in Hw. apply existsb_exists in Hw. destruct Hw as [p [Hin Hp]].
  apply andb_true_iff in Hp. destruct Hp as [He Hm]. apply alock_eqb_spec in He.
  unfold held_covers in Hc. rewrite forallb_forall in Hc. pose proof (Hc p Hin) as X. rewrite Hm, He in X. exact X.
Qed.

Lemma held_covers_any : forall h h0 l, held_covers h h0 = true -> a_holds_any h0 l = true -> a_holds_any h l = true.
Proof.
  intros h h0 l Hc Ha. unfold Lockset.holds_any in Ha. apply existsb_exists in Ha. destruct Ha as [p [Hin He]].
  apply alock_eqb_spec in He.
  unfold held_covers in Hc. rewrite forallb_forall in Hc. pose proof (Hc p Hin) as X. rewrite He in X.
  destruct (mode_is_w (snd p)); [|exact X].
  apply (holds_w_any alock alock_eqb). exact X.
Qed.

Lemma held_covers_for : forall h h0 l k,
    held_covers h h0 = true -> a_holds_for h0 l k = true -> a_holds_for h l k = true.
Proof.
  intros h h0 l k Hc H. unfold Lockset.holds_for in *. destruct (rw_is_w k).
  - eapply held_covers_w; eauto.
  - eapply held_covers_any; eauto.
Qed.

Lemma held_covers_refl : forall h, held_covers h h = true.
Proof.
  intro h. unfold held_covers. apply forallb_forall. intros p Hin.
  destruct (mode_is_w (snd p)) eqn:Hm.
  - unfold Lockset.holds_w. apply existsb_exists. exists p. split; [exact Hin|].
    rewrite alock_eqb_refl, Hm. reflexivity.
  - unfold Lockset.holds_any. apply existsb_exists. exists p. split; [exact Hin|]. apply alock_eqb_refl.
Qed.

(* ---- the bridge, one fact ---- *)
Section Bridge.
  Variable lk : glookup.
  Notation a_action_ok := (action_ok alock aloc alock_eqb (abs_guard lk)).
  Notation a_check_prog := (check_prog alock aloc alock_eqb (abs_guard lk)).

  Lemma bridge_action_ok : forall o fa h,
      bridged lk fa = true ->
      held_covers h (tr_held o (f_held fa)) = true ->
      a_action_ok h (tr_access o fa) = true.
  Proof.
    intros o fa h Hb Hc. unfold bridged in Hb.
    destruct (lk (f_struct fa) (f_field fa)) as [g|] eqn:Hl; [|discriminate].
    apply andb_true_iff in Hb. destruct Hb as [Habs Hsat].
    unfold core_is_abstract in Habs.
    destruct (core g) as [lf| | | | |] eqn:Hcore; try discriminate; cbn [guard_sat] in Hsat.
    - (* GMutex *)
      apply andb_true_iff in Hsat. destruct Hsat as [Hna Hh]. apply negb_true_iff in Hna.
      unfold tr_access. rewrite Hna. cbn [action_ok]. unfold abs_guard, fact_loc. cbn [fst snd]. rewrite Hl, Hcore.
      eapply held_covers_for; [exact Hc|]. apply held_lock_tr_for. exact Hh.
    - (* GAtomic *)
      unfold tr_access. rewrite Hsat. cbn [action_ok]. unfold abs_guard, fact_loc. cbn [fst snd]. rewrite Hl, Hcore.
      reflexivity.
    - (* GImmutable *)
      apply andb_true_iff in Hsat. destruct Hsat as [Hna Hr]. apply negb_true_iff in Hna.
      unfold tr_access. rewrite Hna. cbn [action_ok]. unfold abs_guard, fact_loc. cbn [fst snd]. rewrite Hl, Hcore.
      exact Hr.
  Qed.

  (* The form asked for: an exemption-free abstract guard from the table, satisfied by the fact, gives [action_ok]
     of the translated access under exactly the translated held set. (No freshness hypothesis is needed.) *)
  Lemma bridge_fact : forall o fa g,
      lk (f_struct fa) (f_field fa) = Some g ->
      (g = core g) -> core_is_abstract g = true ->
      guard_sat g fa = true ->
      a_action_ok (tr_held o (f_held fa)) (tr_access o fa) = true.
  Proof.
    intros o fa g Hl Hcore Habs Hsat. apply bridge_action_ok; [|apply held_covers_refl].
    unfold bridged. rewrite Hl, Habs, <- Hcore, Hsat. reflexivity.
  Qed.

  (* ---- programs ---- *)
  Definition drawn (facts : list fact) (p : list pitem) : Prop :=
    forall o fa, In (PFact o fa) p -> In fa facts /\ bridged lk fa = true.

  Lemma drawn_tail : forall facts i p, drawn facts (i :: p) -> drawn facts p.
  Proof. intros facts i p H o fa Hin. apply (H o fa). right. exact Hin. Qed.

  Lemma consistent_check_prog : forall facts p h,
      drawn facts p -> consistent h p = true -> a_check_prog h (map tr_item p) = true.
  Proof.
    intros facts p. induction p as [|i p IH]; intros h Hd Hc; [reflexivity|].
    cbn [map check_prog]. cbn [consistent] in Hc. apply andb_true_iff in Hc. destruct Hc as [Hi Hrest].
    apply andb_true_iff. split.
    - destruct i as [o s lf m|o s lf|o fa|]; try reflexivity.
      cbn [tr_item]. apply bridge_action_ok; [|exact Hi]. apply (Hd o fa). left. reflexivity.
    - apply IH; [eapply drawn_tail; eauto | exact Hrest].
  Qed.

  Lemma consistent_disciplined : forall facts (progs : list (list pitem)),
      (forall p, In p progs -> drawn facts p /\ consistent [] p = true) ->
      disciplined alock aloc alock_eqb (abs_guard lk) (map tr_thread progs) = true.
  Proof.
    intros facts progs H. unfold disciplined. apply forallb_forall. intros t Hin.
    apply in_map_iff in Hin. destruct Hin as [p [<- Hp]]. cbn [tr_thread t_held t_prog].
    destruct (H p Hp) as [Hd Hc]. eapply consistent_check_prog; eauto.
  Qed.

  Theorem library_programs_race_free : forall facts (progs : list (list pitem)),
      (forall p, In p progs -> drawn facts p /\ consistent [] p = true) ->
      forall sched, ~ race alock aloc (run alock aloc alock_eqb (map tr_thread progs) sched).
  Proof.
    intros facts progs H sched.
    apply (disciplined_no_race_init alock aloc alock_eqb alock_eqb_spec (abs_guard lk)).
    - intros t Hin. apply in_map_iff in Hin. destruct Hin as [p [<- _]]. reflexivity.
    - eapply consistent_disciplined; eauto.
  Qed.

  (* ---- every fact accepted by [guard_sat] is bridged or has an explicit trust kind ---- *)
  Lemma guard_sat_split : forall fnof g fa,
      (forall f, fnof f = f_fn f) ->
      guard_sat g fa = true -> guard_sat (core g) fa = true /\ core_is_abstract g = true
                               \/ exists k, classify_g fnof g fa = Some k.
  Proof.
    intros fnof g fa Hfn. induction g as [lf| | |fns|fns|fn k why g' IH]; intro H.
    - left. split; [exact H|reflexivity].
    - left. split; [exact H|reflexivity].
    - left. split; [exact H|reflexivity].
    - right. exists TOwned. cbn [classify_g]. cbn [guard_sat] in H. rewrite H. reflexivity.
    - right. exists TChanSync. cbn [classify_g]. cbn [guard_sat] in H. rewrite H. reflexivity.
    - cbn [guard_sat] in H. cbn [classify_g core]. rewrite Hfn.
      destruct (String.eqb fn (f_fn fa) && rw_eqb k (f_kind fa) && negb (f_atomic fa)) eqn:E.
      + right. exists (TExempt why). reflexivity.
      + cbn [orb] in H. destruct (IH H) as [[Hs Ha]|Hk].
        * left. split; [exact Hs|]. unfold core_is_abstract in *. cbn [core]. exact Ha.
        * right. exact Hk.
  Qed.
End Bridge.

Lemma guard_ok_split : forall t fa,
    guard_ok t fa = true ->
    bridged (lookup t) fa = true \/ exists k, classify f_fn (lookup t) fa = Some k.
Proof.
  intros t fa H. unfold guard_ok in H. unfold classify.
  destruct (lookup t (f_struct fa) (f_field fa)) as [g|] eqn:Hl; [|discriminate].
  destruct (bridged (lookup t) fa) eqn:Hb; [left; reflexivity|]. right.
  destruct (f_fresh fa && negb (f_atomic fa)) eqn:Hf; [exists TFresh; reflexivity|].
  cbn [orb] in H.
  destruct (guard_sat_split f_fn g fa (fun f => eq_refl) H) as [[Hs Ha]|Hk]; [|exact Hk].
  unfold bridged in Hb. rewrite Hl, Ha, Hs in Hb. discriminate.
Qed.

(* Conversely: the trusted table does not ADD anything to what the guard table accepts, it only names it. *)
Lemma guard_sat_core : forall g fa, guard_sat (core g) fa = true -> guard_sat g fa = true.
Proof.
  induction g as [lf| | |fns|fns|fn k why g' IH]; intros fa H; try exact H.
  cbn [core] in H. cbn [guard_sat]. rewrite (IH fa H). apply orb_true_r.
Qed.

Lemma classify_g_sat : forall g fa k, classify_g f_fn g fa = Some k -> guard_sat g fa = true.
Proof.
  induction g as [lf| | |fns|fns|fn k0 why g' IH]; intros fa k H; cbn [classify_g] in H; try discriminate.
  - cbn [guard_sat]. destruct (negb (f_atomic fa) && in_fns fns (f_fn fa)); [reflexivity|discriminate].
  - cbn [guard_sat]. destruct (negb (f_atomic fa) && in_fns fns (f_fn fa)); [reflexivity|discriminate].
  - cbn [guard_sat]. destruct (String.eqb fn (f_fn fa) && rw_eqb k0 (f_kind fa) && negb (f_atomic fa)); [reflexivity|].
    cbn [orb]. eapply IH; eauto.
Qed.

Lemma bridged_guard_ok : forall t fa, bridged (lookup t) fa = true -> guard_ok t fa = true.
Proof.
  intros t fa H. unfold bridged in H. unfold guard_ok.
  destruct (lookup t (f_struct fa) (f_field fa)) as [g|]; [|discriminate].
  apply andb_true_iff in H. destruct H as [_ H]. rewrite (guard_sat_core g fa H). apply orb_true_r.
Qed.

Lemma classify_guard_ok : forall t fa k, classify f_fn (lookup t) fa = Some k -> guard_ok t fa = true.
Proof.
  intros t fa k H. unfold classify in H. unfold guard_ok.
  destruct (lookup t (f_struct fa) (f_field fa)) as [g|] eqn:Hl; [|discriminate].
  destruct (bridged (lookup t) fa); [discriminate|].
  destruct (f_fresh fa && negb (f_atomic fa)); [reflexivity|].
  cbn [orb]. eapply classify_g_sat; eauto.
Qed.

Lemma remainder_ok_guard_ok : forall t tbl facts,
    remainder_ok f_fn (lookup t) tbl facts = true -> forallb (guard_ok t) facts = true.
Proof.
  intros t tbl facts H. unfold remainder_ok in H. rewrite forallb_forall in H. apply forallb_forall.
  intros fa Hin. pose proof (H fa Hin) as X. apply orb_true_iff in X. destruct X as [X|X].
  - apply bridged_guard_ok. exact X.
  - unfold in_trusted in X. apply existsb_exists in X. destruct X as [e [_ He]]. unfold entry_matches in He.
    apply andb_true_iff in He. destruct He as [_ He].
    destruct (classify f_fn (lookup t) fa) as [k|] eqn:Hk; [|discriminate].
    eapply classify_guard_ok; eauto.
Qed.
