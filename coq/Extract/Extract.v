(* Extraction of the executable models to OCaml for the correspondence checker.
   Only ExtrOcamlBasic is used (bool, option, unit, list, prod, sumbool -> OCaml natives; andb/orb/fst/snd inlined);
   nat, positive, N and Z stay the inductive Coq types. *)
From Coq Require Import ExtrOcamlBasic.
From BB.Model Require Channel Cleaner Buffer Callable Retry Caster Workers Worker Attempt Context PubSubSanity Notifier ExclusiveAbs WaitCond CleanerProto CasterAbs CasterBridge NotifierLock ExclusiveVal PubSubAbs PubSubSplit PubSubTag PubSubIdx PubSubTraceAux PubSubIter WorkerWait WorkerTraceAux.
Separate Extraction
  Channel.init Channel.step Channel.run Channel.spec_init Channel.spec_step Channel.spec_run Channel.abs
  Buffer.init Buffer.step Buffer.step_settled Buffer.run Buffer.clean Buffer.settle Buffer.buffer_range Buffer.pkg_range
  Buffer.erun Buffer.getc Buffer.log
  Callable.call Callable.valid Callable.nilable Callable.expected_args Callable.expected_stores
  Retry.run_seam Retry.run Retry.calc_exact Retry.slot_ok Retry.max_shift_go Retry.default_rate_go Retry.OSuccess Retry.OFatal Retry.OPlain Retry.faithful
  Caster.add Caster.send_begin Caster.send_end Caster.send_end_cas Caster.hi Caster.lo Caster.mkword
  Workers.init Workers.step Workers.run Workers.picks Workers.enabled Workers.is_env Workers.is_call Workers.nocall Workers.measure Workers.terminalb Workers.run_fuel Workers.burst_result Workers.running_ids Workers.nblocked Workers.countp Workers.live Workers.running
  Worker.init Worker.faithful Worker.step Worker.kinit Worker.kstep Worker.kobs
  Attempt.faithful Attempt.init Attempt.step Attempt.run Attempt.kstep Attempt.krun Attempt.obs_ok Attempt.obs_of_state Attempt.impl_cap Attempt.lib_quietb
  Context.build_env Context.chain_init Context.chain_step Context.chain_settle Context.chain_quiescent
  Context.combine_init Context.combine_step Context.combine_settle Context.combine_ret Context.combine_quiescent
  Context.confl_init Context.confl_step Context.confl_settle Context.confl_quiescent
  Context.is_canc Context.vals_of Context.lookup Context.run
  PubSubSanity.sanity_check PubSubSanity.sanity_fires PubSubSanity.add_subscribers
  Notifier.run_publish Notifier.run_publish_gen Notifier.spec_publish Notifier.iter_raw
  Notifier.subscribe Notifier.unsubscribe Notifier.lookup
  Notifier.subscribe_ctx Notifier.unsubscribe_ctx Notifier.publish_ready
  Notifier.ctx_of NotifierLock.linit NotifierLock.step NotifierLock.f_delivered NotifierLock.f_returned NotifierLock.no_reader
  ExclusiveVal.vinit ExclusiveVal.vstep ExclusiveVal.vterminalb ExclusiveVal.vproj ExclusiveVal.vproj_pick
  PubSubSplit.xstep PubSubTraceAux.jstep PubSubTraceAux.jinit PubSubTraceAux.jcount_ok PubSubTraceAux.jrestb PubSubTraceAux.pick_at
  PubSubIter.istep PubSubIter.iinit PubSubIter.iterminalb
  WorkerWait.pinit WorkerWait.pstep WorkerTraceAux.at_restb WorkerTraceAux.p_at_restb WorkerTraceAux.single_okb WorkerTraceAux.held_okb WorkerTraceAux.outstanding WorkerTraceAux.gen_of WorkerTraceAux.wp_of WorkerTraceAux.ip_of WorkerTraceAux.isc_of WorkerTraceAux.stopc_of WorkerTraceAux.donec_of WorkerTraceAux.early_of WorkerTraceAux.counter_of
  ExclusiveAbs.init ExclusiveAbs.step ExclusiveAbs.run ExclusiveAbs.observe ExclusiveAbs.all_picks ExclusiveAbs.all_vars ExclusiveAbs.terminalb
  WaitCond.init WaitCond.step
  CleanerProto.init CleanerProto.step CleanerProto.is_terminal
  CasterAbs.init CasterAbs.step CasterAbs.terminalb CasterBridge.wrun CasterBridge.absw
  Cleaner.default_cleaner Cleaner.fixed_cleaner Cleaner.clamp_shift Cleaner.default_spec.
