(* Extraction of the executable models to OCaml for the correspondence checker.
   Only ExtrOcamlBasic is used (bool, option, unit, list, prod, sumbool -> OCaml natives; andb/orb/fst/snd inlined);
   nat, positive, N and Z stay the inductive Coq types. *)
From Coq Require Import ExtrOcamlBasic.
From BB.Model Require Channel Cleaner Buffer Callable.
Separate Extraction
  Channel.init Channel.step Channel.run Channel.spec_init Channel.spec_step Channel.spec_run Channel.abs
  Buffer.init Buffer.step Buffer.step_settled Buffer.run Buffer.clean Buffer.settle Buffer.buffer_range Buffer.pkg_range
  Buffer.erun
  Callable.call Callable.valid Callable.nilable Callable.expected_args Callable.expected_stores
  Cleaner.default_cleaner Cleaner.fixed_cleaner Cleaner.clamp_shift Cleaner.default_spec.
