(* Extraction of the executable models to OCaml for the correspondence checker.
   Only ExtrOcamlBasic is used (bool, option, unit, list, prod, sumbool -> OCaml natives; andb/orb/fst/snd inlined);
   nat, positive, N and Z stay the inductive Coq types. *)
From Coq Require Import ExtrOcamlBasic.
From BB.Model Require Channel Cleaner Buffer Callable Retry.
Separate Extraction
  Channel.init Channel.step Channel.run Channel.spec_init Channel.spec_step Channel.spec_run Channel.abs
  Buffer.init Buffer.step Buffer.step_settled Buffer.run Buffer.clean Buffer.settle Buffer.buffer_range Buffer.pkg_range
  Buffer.erun Buffer.getc Buffer.log
  Callable.call Callable.valid Callable.nilable Callable.expected_args Callable.expected_stores
  Retry.run_seam Retry.run Retry.calc_exact Retry.slot_ok Retry.max_shift_go Retry.default_rate_go Retry.OSuccess Retry.OFatal Retry.OPlain Retry.faithful
  Cleaner.default_cleaner Cleaner.fixed_cleaner Cleaner.clamp_shift Cleaner.default_spec.
