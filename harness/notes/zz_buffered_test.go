package bigbuff

// Deterministic, single-goroutine reproductions of the buffered-channel finding of C08 (no timing, no goroutines).
// Drop into a copy of /repo and run
//   GOFLAGS=-mod=mod GOPROXY=off GOSUMDB=off GOTOOLCHAIN=local go test -run 'TestZZ_Buffered' -v -count=1 .
// Observed on the unchanged tree (2026-10-01), see the comments at each test.  Coq counterparts:
// Proofs/CasterBufRefute.v buffered_giveup_panics_refuted (A), buffered_misdelivery_refuted (B).

import "testing"

// (A) The usage pattern of Add's documentation with a buffered C, sequentialised:
//   receiver: Add(1); select { case <-C: ...; case <-stop: Add(-1) }   -- `stop` wins
// Observed:
//   Send returned 1, len(C)=1, state=0x0
//   Add(-1) panic=bigbuff: chancaster: add: state invariant violation, len(C)=1, state=0xfffffffeffffffff
//   later Send panic=bigbuff: chancaster: send: state invariant violation
func TestZZ_Buffered_GiveUpAfterSendReturned(t *testing.T) {
	c := NewChanCaster(make(chan int, 1))
	if n := c.Add(1); n != 1 {
		t.Fatal(n)
	}
	n := c.Send(42) // does not block: the copy goes into the buffer
	t.Logf("Send returned %d, len(C)=%d, state=%#x", n, len(c.C), c.state.Load())
	var p any
	func() {
		defer func() { p = recover() }()
		// the receiver was added, has not been removed, has not received and will not receive a value:
		// the documented inverse Add
		r := c.Add(-1)
		t.Logf("Add(-1) returned %d", r)
	}()
	t.Logf("Add(-1) panic=%v, len(C)=%d, state=%#x", p, len(c.C), c.state.Load())
	var p2 any
	func() {
		defer func() { p2 = recover() }()
		r := c.Send(43)
		t.Logf("later Send returned %d", r)
	}()
	t.Logf("later Send panic=%v", p2)
	if p != nil {
		t.Errorf("in-contract Add(-1) panicked: %v", p)
	}
}

// (B) No deregistration at all: R1 registers before Send#1, R2 after Send#1 returned.
// Observed:
//   Send#1=1 Send#2=1; R1 (registered before Send#1) got 2; R2 (registered after Send#1 returned) got 1
func TestZZ_Buffered_Misdelivery(t *testing.T) {
	c := NewChanCaster(make(chan int, 1))
	c.Add(1) // R1
	n1 := c.Send(1)
	c.Add(1)    // R2, registered after Send#1 returned
	v2 := <-c.C // R2 receives
	n2 := c.Send(2)
	v1 := <-c.C // R1 receives
	t.Logf("Send#1=%d Send#2=%d; R1 (registered before Send#1) got %d; R2 (registered after Send#1 returned) got %d", n1, n2, v1, v2)
	if v1 != 1 || v2 != 2 {
		t.Errorf("values misdelivered")
	}
}

// control: the same give-up on an unbuffered caster (needs one goroutine for the blocked Send).
// Observed: Add(-1)=0 Send=0 state=0x0
func TestZZ_Buffered_UnbufferedControl(t *testing.T) {
	c := NewChanCaster(make(chan int))
	c.Add(1)
	res := make(chan int)
	go func() { res <- c.Send(42) }()
	for c.state.Load() == 1<<32|1 { // wait until armed
	}
	r := c.Add(-1)
	t.Logf("Add(-1)=%d Send=%d state=%#x", r, <-res, c.state.Load())
}
