package bigbuff

import (
	"math"
	"runtime"
	"strings"
	"sync"
	"testing"
)

// (C) give-up between Send's final Load and its CAS to 0 (needs a buffered channel): the SEND panics.
// Stress test (two goroutines, needs >= 2 procs): the receiver spins until it sees the armed word, then gives up
// with Add(-1).  Coq counterpart: Proofs/CasterBufRefute.v buffered_send_cas_panics_refuted.
// Observed on the unchanged tree (2026-10-01, 16 procs, 0.3 s):
//   iteration 15780: Send panicked: bigbuff: chancaster: send: state invariant violation; Add(-1) panic=<nil>; state=0x7fffffff len(C)=0
//   Send panicked=2, Add(-1) panicked (after Send returned)=299995, clean (Send returned 0)=3, other=0
// (state 0x7fffffff = count 0, still armed: exactly the model's post-state bad=1, armed=1, cnt=0, copy absorbed)
func TestZZ_Buffered_SendCasPanics(t *testing.T) {
	if runtime.GOMAXPROCS(0) < 2 {
		t.Skip("needs 2 procs")
	}
	const armed1 = uint64(1)<<32 | uint64(1+math.MaxInt32)
	var sendPanics, addPanics, sendRet0, other int
	for i := 0; i < 300000 && sendPanics < 3; i++ {
		c := NewChanCaster(make(chan int, 1))
		c.Add(1)
		var wg sync.WaitGroup
		wg.Add(1)
		var addPanic any
		go func() {
			defer wg.Done()
			defer func() { addPanic = recover() }()
			for c.state.Load() != armed1 && c.state.Load() != 0 {
			}
			// the receiver's select took another case: give up
			c.Add(-1)
		}()
		var sendPanic any
		var n int
		func() {
			defer func() { sendPanic = recover() }()
			n = c.Send(7)
		}()
		wg.Wait()
		switch {
		case sendPanic != nil:
			sendPanics++
			if sendPanics == 1 {
				t.Logf("iteration %d: Send panicked: %v; Add(-1) panic=%v; state=%#x len(C)=%d", i, sendPanic, addPanic, c.state.Load(), len(c.C))
			}
			if !strings.Contains(sendPanic.(string), "send: state invariant violation") {
				t.Fatalf("unexpected: %v", sendPanic)
			}
		case addPanic != nil:
			addPanics++
		case n == 0:
			sendRet0++
		default:
			other++
		}
	}
	t.Logf("Send panicked=%d, Add(-1) panicked (after Send returned)=%d, clean (Send returned 0)=%d, other=%d", sendPanics, addPanics, sendRet0, other)
	if sendPanics > 0 {
		t.Errorf("Send panicked although every call followed the documented usage")
	}
}
