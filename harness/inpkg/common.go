//go:build verif

// In-package verification harness for go-bigbuff. These files are NOT part of the repository: bin/check overlays them
// into the package directory at build time (go test -c -overlay), so they see unexported identifiers and the
// repository's own test seams, and the library sources are compiled from /repo's current working tree.
package bigbuff

import (
	"bufio"
	"fmt"
	"math/rand"
	"os"
	"runtime"
	"sort"
	"strconv"
	"strings"
	"sync"
	"sync/atomic"
	"testing"
	"time"
)

type scenario func(h *hctx)

var scenarios = map[string]scenario{}

func register(name string, s scenario) { scenarios[name] = s }

// hctx is the per-run context handed to a scenario.
type hctx struct {
	t     *testing.T
	seed  int64
	n     int
	rng   *rand.Rand
	out   *bufio.Writer
	mu    sync.Mutex
	stats map[string]int
	param map[string]string
}

func (h *hctx) line(format string, args ...interface{}) {
	h.mu.Lock()
	defer h.mu.Unlock()
	fmt.Fprintf(h.out, format, args...)
	h.out.WriteByte('\n')
}

func (h *hctx) count(key string, d int) {
	h.mu.Lock()
	h.stats[key] += d
	h.mu.Unlock()
}

func (h *hctx) p(key, def string) string {
	if v, ok := h.param[key]; ok {
		return v
	}
	return def
}

func (h *hctx) pi(key string, def int) int {
	if v, ok := h.param[key]; ok {
		if n, err := strconv.Atoi(v); err == nil {
			return n
		}
	}
	return def
}

func ints(l []int) string {
	s := make([]string, len(l))
	for i, v := range l {
		s[i] = strconv.Itoa(v)
	}
	return strings.Join(s, " ")
}

func joinRecs(l [][]int) string {
	s := make([]string, len(l))
	for i, v := range l {
		s[i] = ints(v)
	}
	return strings.Join(s, " ; ")
}

// TestVerif is the single entry point: VERIF_SCEN selects the scenario, VERIF_SEED / VERIF_N size it, VERIF_OUT is the
// record file, VERIF_PARAM is "k=v,k=v".
func TestVerif(t *testing.T) {
	name := os.Getenv("VERIF_SCEN")
	s, ok := scenarios[name]
	if !ok {
		names := make([]string, 0, len(scenarios))
		for k := range scenarios {
			names = append(names, k)
		}
		sort.Strings(names)
		t.Fatalf("unknown VERIF_SCEN %q; have %v", name, names)
	}
	seed, _ := strconv.ParseInt(os.Getenv("VERIF_SEED"), 10, 64)
	n, _ := strconv.Atoi(os.Getenv("VERIF_N"))
	if n <= 0 {
		n = 100
	}
	f, err := os.Create(os.Getenv("VERIF_OUT"))
	if err != nil {
		t.Fatal(err)
	}
	defer f.Close()
	h := &hctx{t: t, seed: seed, n: n, rng: rand.New(rand.NewSource(seed)), out: bufio.NewWriterSize(f, 1<<20),
		stats: map[string]int{}, param: map[string]string{}}
	for _, kv := range strings.Split(os.Getenv("VERIF_PARAM"), ",") {
		if i := strings.IndexByte(kv, '='); i > 0 {
			h.param[kv[:i]] = kv[i+1:]
		}
	}
	defer h.out.Flush()
	s(h)
	keys := make([]string, 0, len(h.stats))
	for k := range h.stats {
		keys = append(keys, k)
	}
	sort.Strings(keys)
	for _, k := range keys {
		h.line("STAT %s %d", k, h.stats[k])
	}
}

// ---- global logical clock for concurrent histories ----
var clock atomic.Int64

func tick() int { return int(clock.Add(1)) }

// ---- goroutine-dump based quiescence detection ----

// libGoroutines returns, for every goroutine other than the caller whose stack contains a frame of this package
// (library or harness), its id and wait state.
func goroutineStates() (all map[string]string, lib int) {
	buf := make([]byte, 1<<20)
	for {
		n := runtime.Stack(buf, true)
		if n < len(buf) {
			buf = buf[:n]
			break
		}
		buf = make([]byte, 2*len(buf))
	}
	all = map[string]string{}
	blocks := strings.Split(string(buf), "\n\n")
	for i, b := range blocks {
		if i == 0 {
			continue // the caller
		}
		if !strings.Contains(b, "go-bigbuff.") {
			continue
		}
		nl := strings.IndexByte(b, '\n')
		if nl < 0 {
			continue
		}
		hdr := b[:nl] // goroutine 12 [chan receive]:
		lb, rb := strings.IndexByte(hdr, '['), strings.LastIndexByte(hdr, ']')
		if lb < 0 || rb < lb {
			continue
		}
		id := strings.TrimSpace(hdr[len("goroutine "):lb])
		state := hdr[lb+1 : rb]
		if c := strings.IndexByte(state, ','); c >= 0 {
			state = state[:c]
		}
		all[id] = state
		if libraryFrame(b) {
			lib++
		}
	}
	return
}

// libraryFrame reports whether a goroutine block was created by, or is executing, library (non-harness) code.
func libraryFrame(block string) bool {
	for _, ln := range strings.Split(block, "\n") {
		if strings.HasPrefix(ln, "\t") && strings.Contains(ln, "/") {
			// file line: \t/repo/buffer.go:123 +0x..
			f := strings.TrimSpace(ln)
			if sp := strings.IndexByte(f, ':'); sp > 0 {
				f = f[:sp]
			}
			if sl := strings.LastIndexByte(f, '/'); sl >= 0 {
				f = f[sl+1:]
			}
			if strings.HasSuffix(f, ".go") && !strings.HasPrefix(f, "zz_verif_") && !strings.HasSuffix(f, "_test.go") &&
				isLibFile(f) {
				return true
			}
		}
	}
	return false
}

var libFiles = map[string]bool{"attempt.go": true, "bigbuff.go": true, "buffer.go": true, "callable.go": true,
	"chancaster.go": true, "channel.go": true, "chanpubsub.go": true, "consumer.go": true, "context.go": true,
	"exclusive.go": true, "notifier.go": true, "retry.go": true, "sync.go": true, "worker.go": true, "workers.go": true}

func isLibFile(f string) bool { return libFiles[f] }

func blockedState(s string) bool {
	switch s {
	case "chan receive", "chan send", "select", "sync.Cond.Wait", "semacquire", "sync.Mutex.Lock", "sync.RWMutex.Lock",
		"sync.RWMutex.RLock", "sync.WaitGroup.Wait", "chan receive (nil chan)", "select (no cases)":
		return true
	}
	return false
}

// quiesce waits until every other goroutine of this package is blocked, with an identical fingerprint in two
// samples `gap` apart. It returns false if that does not happen within the deadline.
func quiesce(gap, deadline time.Duration) bool {
	_, ok := quiesceFP(gap, deadline)
	return ok
}

// quietFP takes one sample: the fingerprint (ids and wait states of the package's goroutines) and whether all are blocked.
func quietFP() (string, bool) {
	st, _ := goroutineStates()
	ok := true
	keys := make([]string, 0, len(st))
	for id, s := range st {
		if !blockedState(s) {
			ok = false
		}
		keys = append(keys, id+"="+s)
	}
	sort.Strings(keys)
	return strings.Join(keys, ";"), ok
}

// quiesceFP is quiesce returning the fingerprint of the quiescent state, so that a caller can check with quietFP, after it
// has read its observation, that nothing has moved in between (an observation read while goroutines were still moving is
// not an observation of a quiescent state; seen once in some hundred runs of C14K1 on an overloaded machine).
func quiesceFP(gap, deadline time.Duration) (string, bool) {
	// three identical all-blocked samples in a row (two used to be enough; see above); on a machine so loaded that three in a
	// row do not occur within the first 60 % of the deadline, two in a row are accepted for the rest of it (what it always was)
	start := time.Now()
	end := start.Add(deadline)
	relax := start.Add(deadline * 6 / 10)
	prev, same := "\x00", 0
	for time.Now().Before(end) {
		fp, ok := quietFP()
		switch {
		case ok && fp == prev:
			same++
			if same >= 2 || time.Now().After(relax) {
				return fp, true
			}
		case ok:
			prev, same = fp, 0
		default:
			prev, same = "\x00", 0
		}
		time.Sleep(gap)
	}
	// for the log of the run: what was not blocked in the last sample
	if st, _ := goroutineStates(); true {
		var nb []string
		for id, x := range st {
			if !blockedState(x) {
				nb = append(nb, id+"="+x)
			}
		}
		sort.Strings(nb)
		fmt.Fprintf(os.Stderr, "quiesce: no quiescence within %v; not blocked in the last sample: %v (of %d goroutines of the package)\n", deadline, nb, len(st))
	}
	return "", false
}

func libGoroutineCount() int {
	_, lib := goroutineStates()
	return lib
}
