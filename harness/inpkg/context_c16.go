//go:build verif

package bigbuff

import (
	"context"
	"fmt"
	"runtime"
	"strings"
	"sync"
	"sync/atomic"
	"time"
)

// C16 — ChainAfterFunc / CombineContext / ConflatedContext.
//
// K1 model "ctx" (checker/ad_context.ml), quiescent semantics: after every operation the harness waits until no other
// goroutine of the process is runnable (AfterFunc callbacks run in their own goroutines), then records the observables.
//   cfg : kind probe nenv (parent+1 key val){nenv} npre pre.. args..
//         kind 0 ChainAfterFunc args = cx other | kind 1 CombineContext args = primary+1 nothers (other+1).. (0 = nil)
//         kind 2 ConflatedContext args = ninputs input..
//   ops : 0 call | 5 i j call, and right after the function's Err() check of others[i]/contexts[i] cancel input node j
//         1 n cancel input node n | 2 call the CancelFunc returned by ConflatedContext | 3 key Value(key) of the result
//         4 nothing | 9 k j1..jk <base op> : the base op (0, 1 n, 2 or 4), during whose processing the scripted hooks of
//         hook contexts cancelled input nodes j1..jk (somewhere inside the library / a hook goroutine: the quiescent
//         observables do not depend on where exactly)
//   a node with parent field -1 in cfg is a context that can never be cancelled (Background, TODO, WithValue(Background),
//   WithoutCancel(..)); a pre-"cancelled" node may in reality be done because its deadline expired or with a custom cause.
//   outs: (0 5 1 2) cancelled calls live waiters idk | (3) found value

type c16key int

// c16probe is a context that is NOT recognised by the std library as one of its own (the cancelCtx key is hidden) but
// implements the AfterFunc method that context.AfterFunc uses for foreign contexts, so the number of registrations
// that are still pending (neither fired nor stopped) can be counted.
type c16probe struct {
	context.Context
	live *atomic.Int64
}

func (p *c16probe) Value(k any) any {
	if _, ok := k.(c16key); ok {
		return p.Context.Value(k)
	}
	return nil
}

func (p *c16probe) AfterFunc(f func()) func() bool {
	p.live.Add(1)
	stop := context.AfterFunc(p.Context, func() {
		p.live.Add(-1)
		f()
	})
	return func() bool {
		ok := stop()
		if ok {
			p.live.Add(-1)
		}
		return ok
	}
}

// c16errhook runs fn right after the first Err() call (the library's liveness check) has computed its result.
type c16errhook struct {
	context.Context
	once sync.Once
	fn   func()
}

func (c *c16errhook) Err() error {
	e := c.Context.Err()
	c.once.Do(c.fn)
	return e
}

// c16hook is a context whose selected method (0 Err, 1 Done, 2 Value, 3 Deadline), the first time it is called once the
// hook is armed (from inside the library, its hook goroutines or the std context package on their behalf), runs a scripted
// action AFTER the method has computed its result: "the cancellation lands right after the library read X".
type c16hook struct {
	context.Context
	method int
	armed  *atomic.Bool
	once   sync.Once
	fn     func()
}

func (c *c16hook) fire(m int) {
	if m == c.method && c.armed.Load() {
		c.once.Do(c.fn)
	}
}
func (c *c16hook) Err() error            { e := c.Context.Err(); c.fire(0); return e }
func (c *c16hook) Done() <-chan struct{} { d := c.Context.Done(); c.fire(1); return d }
func (c *c16hook) Value(k any) any       { v := c.Context.Value(k); c.fire(2); return v }
func (c *c16hook) Deadline() (time.Time, bool) {
	t, ok := c.Context.Deadline()
	c.fire(3)
	return t, ok
}

// AfterFunc is only reached when the wrapped context is itself a foreign context (a probe): forward, so that the probe
// keeps counting.
func (c *c16hook) AfterFunc(f func()) func() bool {
	if a, ok := c.Context.(interface{ AfterFunc(func()) func() bool }); ok {
		return a.AfterFunc(f)
	}
	return context.AfterFunc(c.Context, f)
}

var errC16Cause = fmt.Errorf("c16 custom cause")

// c16afhook runs fn right after a registration made through context.AfterFunc has been installed on it (foreign context
// with an AfterFunc method: the window between ChainAfterFunc's two registrations).
type c16afhook struct {
	context.Context
	fn func()
}

func (c *c16afhook) Value(k any) any {
	if _, ok := k.(c16key); ok {
		return c.Context.Value(k)
	}
	return nil
}

func (c *c16afhook) AfterFunc(f func()) func() bool {
	stop := context.AfterFunc(c.Context, f)
	c.fn()
	return stop
}

// c16errprobe is the same for a probe context (keeps the probe's AfterFunc and Value methods).
type c16errprobe struct {
	*c16probe
	once sync.Once
	fn   func()
}

func (c *c16errprobe) Err() error {
	e := c.c16probe.Err()
	c.once.Do(c.fn)
	return e
}

// c16Quiet reports whether no goroutine other than the caller is runnable or running (one atomic snapshot: a blocked
// goroutine can only be woken by a running one, there are no timers in these scenarios).
func c16Quiet(buf *[]byte) bool {
	for {
		n := runtime.Stack(*buf, true)
		if n < len(*buf) {
			s := string((*buf)[:n])
			blocks := strings.Split(s, "\n\n")
			for i, b := range blocks {
				if i == 0 {
					continue
				}
				lb := strings.IndexByte(b, '[')
				if lb < 0 {
					continue
				}
				st := b[lb+1:]
				if strings.HasPrefix(st, "runnable") || strings.HasPrefix(st, "running") || strings.HasPrefix(st, "preempted") ||
					strings.HasPrefix(st, "copystack") {
					return false
				}
			}
			return true
		}
		*buf = make([]byte, 2*len(*buf))
	}
}

func c16Settle(buf *[]byte) bool {
	deadline := time.Now().Add(5 * time.Second)
	for i := 0; ; i++ {
		if c16Quiet(buf) {
			return true
		}
		if time.Now().After(deadline) {
			return false
		}
		runtime.Gosched()
		if i > 50 {
			time.Sleep(50 * time.Microsecond)
		}
	}
}

// c16Waiters counts live goroutines started by ConflatedContext (its waiter).
func c16Waiters(buf *[]byte) int {
	for {
		n := runtime.Stack(*buf, true)
		if n < len(*buf) {
			return strings.Count(string((*buf)[:n]), "go-bigbuff.ConflatedContext.func")
		}
		*buf = make([]byte, 2*len(*buf))
	}
}

type c16node struct {
	parent, key, val int // parent -1: root; key 0: no value
	never            int // != 0: a context that can never be cancelled: 1 Background, 2 WithValue(Background), 3 WithoutCancel(x), 4 TODO
}

type c16hookSpec struct{ pos, method, target int } // pos: position among the contexts handed to the library

type c16case struct {
	kind  int
	probe bool
	env   []c16node
	pre   []int
	args  []int       // see cfg
	first []int       // the construct op: [0] or [5 i j]
	later [][]int     // ops after construction
	early [][]int     // cancel ops before construction
	prek  map[int]int // how a pre-"cancelled" node became done: 0 cancel, 1 expired deadline, 2 WithTimeout(0), 3 cancel with a custom cause
	hooks []c16hookSpec
}

func (c *c16case) cancellable() []int {
	var r []int
	for i, n := range c.env {
		if n.never == 0 {
			r = append(r, i)
		}
	}
	return r
}

func (c *c16case) cfg() []int {
	r := []int{c.kind, 0, len(c.env)}
	if c.probe {
		r[1] = 1
	}
	for _, n := range c.env {
		if n.never != 0 {
			r = append(r, -1, n.key, n.val)
		} else {
			r = append(r, n.parent+1, n.key, n.val)
		}
	}
	r = append(r, len(c.pre))
	r = append(r, c.pre...)
	r = append(r, c.args...)
	return r
}

// c16Run drives the real implementation through one case and emits the K1 record.
func c16Run(h *hctx, id string, c *c16case, buf *[]byte) {
	inner := make([]context.Context, len(c.env))
	cancels := make([]context.CancelFunc, len(c.env))
	isPre := map[int]bool{}
	for _, p := range c.pre {
		isPre[p] = true
	}
	var throwaway []context.CancelFunc
	for i, n := range c.env {
		parent := context.Background()
		if n.parent >= 0 {
			parent = inner[n.parent]
		}
		var ctx context.Context
		cancel := context.CancelFunc(func() {})
		switch {
		case n.never == 1:
			ctx = context.Background()
		case n.never == 4:
			ctx = context.TODO()
		case n.never == 2:
			ctx = context.Background()
		case n.never == 3:
			x, xc := context.WithCancel(context.Background())
			throwaway = append(throwaway, xc)
			ctx = context.WithoutCancel(x)
			xc() // the context it was detached from is dead: must not matter
		case isPre[i] && c.prek[i] == 1:
			ctx, cancel = context.WithDeadline(parent, time.Now().Add(-time.Hour))
		case isPre[i] && c.prek[i] == 2:
			ctx, cancel = context.WithTimeout(parent, 0)
		case isPre[i] && c.prek[i] == 3:
			cc, ccancel := context.WithCancelCause(parent)
			ccancel(errC16Cause)
			ctx, cancel = cc, func() { ccancel(nil) }
		default:
			// a live cancellable node; two thirds of them also carry a deadline far in the future (earlier or later than
			// the other nodes'): it never expires during the case, so the node is cancelled only by its cancel function
			switch (i*7 + len(c.env)*3 + len(c.later) + c.kind) % 3 {
			case 0:
				ctx, cancel = context.WithCancel(parent)
			case 1:
				ctx, cancel = context.WithDeadline(parent, time.Now().Add(time.Hour+time.Duration((i*37+len(c.later)*11)%50)*time.Minute))
			default:
				ctx, cancel = context.WithTimeout(parent, 2*time.Hour-time.Duration((i*53+len(c.later)*17)%70)*time.Minute)
			}
		}
		if n.key != 0 {
			ctx = context.WithValue(ctx, c16key(n.key), n.val)
		}
		inner[i], cancels[i] = ctx, cancel
	}
	defer func() {
		for _, cancel := range cancels {
			cancel()
		}
	}()
	for _, p := range c.pre {
		cancels[p]()
		if inner[p].Err() == nil {
			h.t.Fatalf("C16 harness: pre-cancelled node %d is live", p)
		}
	}
	// scripted hook contexts
	var armed atomic.Bool
	var firedMu sync.Mutex
	var fired []int
	takeFired := func() []int {
		firedMu.Lock()
		defer firedMu.Unlock()
		r := fired
		fired = nil
		return r
	}
	hooked := func(pos int, ctx context.Context) context.Context {
		for _, hk := range c.hooks {
			if hk.pos == pos && ctx != nil {
				t := hk.target
				return &c16hook{Context: ctx, method: hk.method, armed: &armed, fn: func() {
					cancels[t]()
					firedMu.Lock()
					fired = append(fired, t)
					firedMu.Unlock()
				}}
			}
		}
		return ctx
	}
	var live atomic.Int64
	var calls atomic.Int64
	var res context.Context
	var resCancel context.CancelFunc
	var primary context.Context
	resErr := func() error { return res.Err() }
	idk := 0
	panicked := false
	observe := func() []int {
		if !c16Settle(buf) {
			h.line("MONITOR C16 case %s: goroutines still runnable 5s after an operation (hook goroutine stuck?)", id)
		}
		cancelled := 0
		if res != nil && resErr() != nil {
			cancelled = 1
		}
		if panicked {
			cancelled = 9999
		}
		lv := 0
		if c.probe {
			lv = int(live.Load())
		}
		return []int{cancelled, int(calls.Load()), lv, c16Waiters(buf), idk}
	}
	handed := func(i int, probe bool) context.Context {
		if probe && c.env[i].never == 0 {
			return &c16probe{Context: inner[i], live: &live}
		}
		return inner[i]
	}
	construct := func(first []int) {
		mid := func(pos int, ctx context.Context) context.Context {
			if len(first) == 3 && first[1] == pos {
				j := first[2]
				if p, ok := ctx.(*c16probe); ok {
					return &c16errprobe{c16probe: p, fn: func() { cancels[j]() }}
				}
				return &c16errhook{Context: ctx, fn: func() { cancels[j]() }}
			}
			return ctx
		}
		defer func() {
			if r := recover(); r != nil {
				panicked = true
				h.line("MONITOR C16 case %s: the library call panicked: %v", id, r)
			}
		}()
		armed.Store(true)
		switch c.kind {
		case 0:
			var other context.Context = hooked(1, inner[c.args[1]])
			if len(first) == 3 {
				j := first[2]
				other = &c16afhook{Context: other, fn: func() { cancels[j]() }}
			}
			ChainAfterFunc(hooked(0, inner[c.args[0]]), other, func() { calls.Add(1) })
		case 1:
			var primaryInner context.Context
			if c.args[0] != 0 {
				primaryInner = inner[c.args[0]-1]
				primary = hooked(0, primaryInner)
			}
			others := make([]context.Context, c.args[1])
			for k := 0; k < c.args[1]; k++ {
				if o := c.args[2+k]; o != 0 {
					others[k] = hooked(1+k, mid(k, handed(o-1, c.probe)))
				}
			}
			anyPre := primaryInner != nil && primaryInner.Err() != nil
			for k := 0; k < c.args[1]; k++ {
				if o := c.args[2+k]; o != 0 && inner[o-1].Err() != nil {
					anyPre = true
				}
			}
			if anyPre {
				// one P: a hook goroutine started by the call cannot run before the check below, so "already cancelled
				// at return" is observed deterministically
				prev := runtime.GOMAXPROCS(1)
				res = CombineContext(primary, others...)
				live := res.Err() == nil
				runtime.GOMAXPROCS(prev)
				if live {
					// "already cancelled if any input already is": at the moment of return, before any hook goroutine has run
					h.line("MONITOR C16 case %s: CombineContext returned a live context although an input was already done (cancelled / deadline exceeded) before the call", id)
				}
			} else {
				res = CombineContext(primary, others...)
			}
			if primary != nil && res == primary {
				idk = 1
				resErr = primaryInner.Err // never call the methods of a hook context from the harness
			} else if primary == nil && res == context.Background() {
				idk = 2
			}
		case 2:
			ins := make([]context.Context, c.args[0])
			for k := range ins {
				ins[k] = hooked(k, mid(k, inner[c.args[1+k]]))
			}
			res, resCancel = ConflatedContext(ins...)
		}
	}
	var ops, outs [][]int
	// record appends the op with the observation taken at quiescence; hooks that fired during its processing become part of it
	record := func(op []int) {
		obs := observe()
		if js := takeFired(); len(js) > 0 {
			op = append(append([]int{9, len(js)}, js...), op...)
			obs = observe() // (nothing can have changed: observe never calls a hooked method)
			h.count("hook_fired_ops", 1)
		}
		ops, outs = append(ops, op), append(outs, obs)
	}
	do := func(op []int) {
		switch op[0] {
		case 0, 5:
			construct(op)
			record(op)
		case 1:
			cancels[op[1]]()
			record(op)
		case 2:
			if resCancel != nil {
				resCancel()
			}
			record(op)
		case 3:
			o := []int{0, 0}
			if res != nil {
				if v := res.Value(c16key(op[1])); v != nil {
					o = []int{1, v.(int)}
				}
			}
			ops, outs = append(ops, op), append(outs, o)
			c16Settle(buf)
			firedMu.Lock()
			n := len(fired)
			firedMu.Unlock()
			if n > 0 { // a Value hook fired during the lookup
				record([]int{4})
			}
		}
	}
	for _, op := range c.early {
		do(op)
	}
	do(c.first)
	for _, op := range c.later {
		do(op)
	}
	// property-level monitors on the final state (independent of the model)
	if resCancel != nil {
		resCancel()
		if !c16Settle(buf) || c16Waiters(buf) != 0 {
			h.line("MONITOR C16 case %s: ConflatedContext's waiter goroutine is still alive after its cancel function was called", id)
		}
		if res.Err() == nil {
			h.line("MONITOR C16 case %s: ConflatedContext's result is not cancelled after its cancel function was called", id)
		}
	}
	for _, xc := range throwaway {
		xc()
	}
	h.line("K1 ctx %s %s # %s | %s", id, ints(c.cfg()), joinRecs(ops), joinRecs(outs))
	h.count(fmt.Sprintf("kind%d_cases", c.kind), 1)
	h.count("ops", len(ops))
}

func c16Perms(l []int) [][]int {
	if len(l) == 0 {
		return [][]int{{}}
	}
	var r [][]int
	for i := range l {
		rest := append(append([]int{}, l[:i]...), l[i+1:]...)
		for _, p := range c16Perms(rest) {
			r = append(r, append([]int{l[i]}, p...))
		}
	}
	return r
}

// c16Exhaustive: every pre-state (live / cancelled / done for another reason: expired deadline, zero timeout, custom cause)
// of every cancellable input x every order of the later cancellations, for every small shape; never-cancellable inputs at
// every position; scripted hook contexts (every method x every target) on the smallest shapes.
func c16Exhaustive(h *hctx, maxn int, kinds int, buf *[]byte) {
	id := 0
	run := func(c *c16case) {
		id++
		c16Run(h, fmt.Sprintf("ex-%d", id), c, buf)
	}
	lookups := [][]int{{3, 1}, {3, 2}, {3, 3}}
	// each: nodes = the cancellable nodes; states: 0 live, 1 cancelled, 2 done for another reason
	each := func(nodes []int, f func(pre []int, prek map[int]int, order []int)) {
		total := 1
		for range nodes {
			total *= 3
		}
		for m := 0; m < total; m++ {
			var pre, liveN []int
			prek := map[int]int{}
			x := m
			for _, node := range nodes {
				switch x % 3 {
				case 0:
					liveN = append(liveN, node)
				case 1:
					pre = append(pre, node)
				case 2:
					pre = append(pre, node)
					prek[node] = 1 + (node+m)%3
				}
				x /= 3
			}
			for _, order := range c16Perms(liveN) {
				f(pre, prek, order)
			}
		}
	}
	seq := func(n int) []int {
		r := make([]int, n)
		for i := range r {
			r[i] = i
		}
		return r
	}
	cancelOps := func(order []int) [][]int {
		var r [][]int
		for _, n := range order {
			r = append(r, []int{1, n})
		}
		return r
	}
	roots := func(n int) []c16node {
		env := make([]c16node, n)
		for i := range env {
			env[i] = c16node{parent: -1, key: 1 + i%2, val: 100 + i}
		}
		return env
	}
	// withNever: the shape `env` with node k replaced by a context that can never be cancelled
	withNever := func(env []c16node, k int) ([]c16node, []int) {
		e := append([]c16node{}, env...)
		fl := 1 + (k+len(env))%4
		e[k] = c16node{parent: -1, never: fl}
		if fl == 2 || fl == 3 {
			e[k].key, e[k].val = 1+k%2, 100+k
		}
		var nodes []int
		for i := range e {
			if e[i].never == 0 {
				nodes = append(nodes, i)
			}
		}
		return e, nodes
	}
	// ChainAfterFunc: independent contexts, the same context twice, parent/child both ways, siblings
	chainShapes := []struct {
		env       []c16node
		cx, other int
	}{
		{roots(2), 0, 1}, {roots(1), 0, 0},
		{[]c16node{{parent: -1}, {parent: 0}}, 0, 1}, {[]c16node{{parent: -1}, {parent: 0}}, 1, 0},
		{[]c16node{{parent: -1}, {parent: 0}, {parent: 0}}, 1, 2},
	}
	for _, sh := range chainShapes {
		if kinds&1 == 0 {
			break
		}
		each(seq(len(sh.env)), func(pre []int, prek map[int]int, order []int) {
			run(&c16case{kind: 0, env: sh.env, pre: pre, prek: prek, args: []int{sh.cx, sh.other}, first: []int{0}, later: cancelOps(order)})
			// the same with node j cancelled between ChainAfterFunc's two registrations
			for j := range sh.env {
				run(&c16case{kind: 0, env: sh.env, pre: pre, prek: prek, args: []int{sh.cx, sh.other}, first: []int{5, 0, j}, later: cancelOps(order)})
			}
		})
	}
	if kinds&1 != 0 {
		// f never runs through a context that can never be cancelled
		for k := 0; k < 3; k++ {
			env := roots(2)
			var nodes []int
			switch k {
			case 0, 1:
				env, nodes = withNever(env, k)
			default:
				env, _ = withNever(env, 0)
				env, nodes = withNever(env, 1)
			}
			each(nodes, func(pre []int, prek map[int]int, order []int) {
				run(&c16case{kind: 0, env: env, pre: pre, prek: prek, args: []int{0, 1}, first: []int{0}, later: cancelOps(order)})
			})
		}
		// scripted hooks: either or both contexts, every method, every target, both cancel orders
		for which := 1; which <= 3; which++ {
			for method := 0; method < 4; method++ {
				for target := 0; target < 2; target++ {
					for _, order := range c16Perms([]int{0, 1}) {
						var hooks []c16hookSpec
						if which&1 != 0 {
							hooks = append(hooks, c16hookSpec{0, method, target})
						}
						if which&2 != 0 {
							hooks = append(hooks, c16hookSpec{1, method, 1 - target})
						}
						run(&c16case{kind: 0, env: roots(2), args: []int{0, 1}, first: []int{0}, later: cancelOps(order), hooks: hooks})
					}
				}
			}
		}
	}
	// CombineContext: node 0 is the primary (when non-nil), others are nodes 1..; every nil pattern
	for n := 0; n <= maxn && kinds&2 != 0; n++ {
		for nilmask := 0; nilmask < 1<<n; nilmask++ {
			if n == maxn && maxn >= 4 && nilmask != 0 && nilmask != 5 {
				continue // the largest size: all non-nil and one mixed pattern only
			}
			for _, pnil := range []bool{false, true} {
				nenv := 1
				args := []int{1, n}
				if pnil {
					nenv, args[0] = 0, 0
				}
				for k := 0; k < n; k++ {
					if nilmask&(1<<k) != 0 {
						args = append(args, 0)
					} else {
						args = append(args, nenv+1)
						nenv++
					}
				}
				env := roots(nenv)
				each(seq(nenv), func(pre []int, prek map[int]int, order []int) {
					later := append(append([][]int{}, lookups...), cancelOps(order)...)
					run(&c16case{kind: 1, probe: true, env: env, pre: pre, prek: prek, args: args, first: []int{0}, later: later})
				})
				// a context that can never be cancelled as the primary / as each other: never cancels through it
				if nilmask == 0 && n <= 2 {
					for k := 0; k < nenv; k++ {
						e, nodes := withNever(env, k)
						each(nodes, func(pre []int, prek map[int]int, order []int) {
							later := append(append([][]int{}, lookups...), cancelOps(order)...)
							run(&c16case{kind: 1, probe: true, env: e, pre: pre, prek: prek, args: args, first: []int{0}, later: later})
						})
					}
				}
			}
		}
	}
	if kinds&2 != 0 {
		// scripted hooks on the primary and two others
		for pos := 0; pos < 3; pos++ {
			for method := 0; method < 4; method++ {
				for target := 0; target < 3; target++ {
					later := append(append([][]int{}, lookups...), cancelOps([]int{(target + 1) % 3, target, (target + 2) % 3})...)
					run(&c16case{kind: 1, probe: true, env: roots(3), args: []int{1, 2, 2, 3}, first: []int{0}, later: later,
						hooks: []c16hookSpec{{pos, method, target}}})
				}
			}
		}
	}
	// ConflatedContext: 1..maxn inputs, with the cancel function called at every position (or never)
	for n := 1; n <= maxn && kinds&4 != 0; n++ {
		env := roots(n)
		args := []int{n}
		for k := 0; k < n; k++ {
			args = append(args, k)
		}
		each(seq(n), func(pre []int, prek map[int]int, order []int) {
			for upos := -1; upos <= len(order); upos++ {
				if n == maxn && maxn >= 4 && upos > 0 && upos < len(order) {
					continue
				}
				later := append([][]int{}, lookups...)
				for k, node := range order {
					if k == upos {
						later = append(later, []int{2})
					}
					later = append(later, []int{1, node})
				}
				if upos == len(order) {
					later = append(later, []int{2})
				}
				run(&c16case{kind: 2, env: env, pre: pre, prek: prek, args: args, first: []int{0}, later: later})
			}
		})
		// an input that can never be cancelled, at every position: the result stays live until cancel() is called
		for k := 0; k < n; k++ {
			e, nodes := withNever(env, k)
			each(nodes, func(pre []int, prek map[int]int, order []int) {
				for _, withUser := range []bool{false, true} {
					later := append(append([][]int{}, lookups...), cancelOps(order)...)
					if withUser {
						later = append(later, []int{2})
					}
					run(&c16case{kind: 2, env: e, pre: pre, prek: prek, args: args, first: []int{0}, later: later})
				}
			})
		}
	}
	if kinds&4 != 0 {
		// scripted hooks on each of two inputs
		for pos := 0; pos < 2; pos++ {
			for method := 0; method < 4; method++ {
				for target := 0; target < 2; target++ {
					for _, order := range c16Perms([]int{0, 1}) {
						later := append(append([][]int{}, lookups...), cancelOps(order)...)
						run(&c16case{kind: 2, env: roots(2), args: []int{2, 0, 1}, first: []int{0}, later: later,
							hooks: []c16hookSpec{{pos, method, target}}})
					}
				}
			}
		}
	}
	h.line("EXHAUSTIVE C16 shapes up to %d inputs: %d cases", maxn, id)
}

// c16Random: seeded cases over random forests (related contexts, aliasing, contexts that can never be cancelled), values,
// inputs done for another reason than cancel, cancellations before, DURING (at an exact point: between the Err() check and
// the registration; or wherever a scripted hook context's method is first called) and after construction.
func c16Random(h *hctx, n int, kinds int, buf *[]byte) {
	for id := 0; id < n; id++ {
		rng := h.rng
		nenv := 1 + rng.Intn(5)
		env := make([]c16node, nenv)
		for i := range env {
			env[i] = c16node{parent: -1}
			if i > 0 && rng.Intn(100) < 40 {
				env[i].parent = rng.Intn(i)
			}
			if rng.Intn(100) < 60 {
				env[i].key, env[i].val = 1+rng.Intn(2), 10*(i+1)+rng.Intn(10) // small: the model counts in unary
			}
			if rng.Intn(100) < 12 {
				env[i].parent, env[i].never = -1, 1+rng.Intn(4)
				if env[i].never == 1 || env[i].never == 4 {
					env[i].key, env[i].val = 0, 0
				}
			}
		}
		c := &c16case{env: env, kind: rng.Intn(3), prek: map[int]int{}}
		for kinds&(1<<c.kind) == 0 {
			c.kind = (c.kind + 1) % 3
		}
		canc := c.cancellable()
		pick := func() int { return canc[rng.Intn(len(canc))] }
		for _, i := range canc {
			if rng.Intn(100) < 20 {
				c.pre = append(c.pre, i)
				if rng.Intn(100) < 50 {
					c.prek[i] = 1 + rng.Intn(3)
				}
			}
		}
		ninputs := 0
		switch c.kind {
		case 0:
			c.args = []int{rng.Intn(nenv), rng.Intn(nenv)}
			ninputs = 2
		case 1:
			c.probe = rng.Intn(100) < 50
			p := 0
			if rng.Intn(100) < 85 {
				p = 1 + rng.Intn(nenv)
			}
			k := rng.Intn(5)
			c.args = []int{p, k}
			for j := 0; j < k; j++ {
				o := 0
				if rng.Intn(100) < 75 {
					o = 1 + rng.Intn(nenv)
					if c.probe && o == p && nenv > 1 {
						o = 1 + (o % nenv) // probe mode: keep the primary a plain context
					}
				}
				c.args = append(c.args, o)
			}
			if c.probe && p != 0 {
				// a probe other that aliases the primary would make the primary's own child registration visible
				for j := 0; j < k; j++ {
					if c.args[2+j] == p {
						c.probe = false
					}
				}
			}
			ninputs = k
		case 2:
			k := 1 + rng.Intn(4)
			c.args = []int{k}
			for j := 0; j < k; j++ {
				c.args = append(c.args, rng.Intn(nenv))
			}
			ninputs = k
		}
		c.first = []int{0}
		if len(canc) > 0 {
			r := rng.Intn(100)
			switch {
			case r < 30 && c.kind == 0 && env[c.args[1]].never == 0:
				c.first = []int{5, 0, pick()}
				h.count("mid_cancel_cases", 1)
			case r < 30 && c.kind != 0 && ninputs > 0:
				pos := rng.Intn(ninputs)
				if c.kind == 2 || c.args[2+pos] != 0 {
					c.first = []int{5, pos, pick()}
					h.count("mid_cancel_cases", 1)
				}
			case r >= 30 && r < 70:
				// scripted hook contexts on a share of the handed contexts (position 0 = ctx / primary / contexts[0])
				npos := ninputs
				if c.kind == 1 {
					npos = 1 + ninputs
				}
				for pos := 0; pos < npos; pos++ {
					if rng.Intn(100) < 60 {
						c.hooks = append(c.hooks, c16hookSpec{pos, rng.Intn(4), pick()})
					}
				}
				if len(c.hooks) > 0 {
					h.count("hook_cases", 1)
				}
			}
			if rng.Intn(100) < 25 {
				c.early = append(c.early, []int{1, pick()})
			}
		}
		nlater := rng.Intn(nenv + 2)
		c.later = append(c.later, []int{3, 1}, []int{3, 2})
		for j := 0; j < nlater; j++ {
			if c.kind == 2 && rng.Intn(100) < 15 {
				c.later = append(c.later, []int{2})
			} else if len(canc) > 0 {
				c.later = append(c.later, []int{1, pick()})
			}
		}
		c.later = append(c.later, []int{3, 1})
		c16Run(h, fmt.Sprintf("r-%d-%d", h.seed, id), c, buf)
	}
}

// c16Race: truly simultaneous cancellations (goroutines released by one barrier, some of them racing with the
// construction itself); monitors only: f ran exactly once, results cancelled, nothing leaked, no goroutine left.
func c16Race(h *hctx, n int, kinds int, buf *[]byte) {
	for it := 0; it < n; it++ {
		rng := h.rng
		kind := it % 3
		for kinds&(1<<kind) == 0 {
			kind = (kind + 1) % 3
		}
		k := 2 + rng.Intn(3)
		ctxs := make([]context.Context, k)
		cancels := make([]context.CancelFunc, k)
		for i := range ctxs {
			parent := context.Background()
			if i > 0 && rng.Intn(100) < 25 {
				parent = ctxs[rng.Intn(i)]
			}
			ctxs[i], cancels[i] = context.WithCancel(parent)
		}
		during := rng.Intn(100) < 50 // release the cancellers before the call instead of after it
		start := make(chan struct{})
		var wg sync.WaitGroup
		ncancel := k
		if kind == 0 {
			ncancel = 2
		}
		if kind == 0 && rng.Intn(100) < 30 {
			ncancel = 1 // only one of the two is ever cancelled
		}
		for i := 0; i < ncancel; i++ {
			wg.Add(1)
			go func(i int) {
				defer wg.Done()
				<-start
				cancels[i]()
			}(i)
		}
		var calls, live atomic.Int64
		var res context.Context
		var resCancel context.CancelFunc
		call := func() {
			switch kind {
			case 0:
				ChainAfterFunc(ctxs[0], ctxs[1], func() { calls.Add(1) })
			case 1:
				others := make([]context.Context, 0, k)
				for i := 1; i < k; i++ {
					others = append(others, &c16probe{Context: ctxs[i], live: &live})
				}
				if rng.Intn(100) < 30 {
					others = append(others, nil)
				}
				res = CombineContext(ctxs[0], others...)
			case 2:
				res, resCancel = ConflatedContext(ctxs...)
			}
		}
		if during {
			close(start)
			if rng.Intn(2) == 0 {
				runtime.Gosched()
			}
			call()
		} else {
			call()
			close(start)
		}
		wg.Wait()
		if !c16Settle(buf) {
			h.line("MONITOR C16 race %d: goroutines still runnable after 5s", it)
		}
		switch kind {
		case 0:
			if c := calls.Load(); c != 1 {
				h.line("MONITOR C16 race %d (ChainAfterFunc, %d context(s) cancelled simultaneously, during=%v): f ran %d times, want exactly 1", it, ncancel, during, c)
			}
			h.count("race_chain", 1)
		case 1:
			if res.Err() == nil {
				h.line("MONITOR C16 race %d (CombineContext): result not cancelled although every input is", it)
			}
			if l := live.Load(); l != 0 {
				h.line("MONITOR C16 race %d (CombineContext): %d AfterFunc registrations still pending on the other contexts after the result was cancelled", it, l)
			}
			h.count("race_combine", 1)
		case 2:
			if res.Err() == nil {
				h.line("MONITOR C16 race %d (ConflatedContext): result not cancelled although every input is", it)
			}
			if w := c16Waiters(buf); w != 0 {
				h.line("MONITOR C16 race %d (ConflatedContext): %d waiter goroutine(s) still alive", it, w)
			}
			resCancel()
			h.count("race_conflated", 1)
		}
		for _, c := range cancels {
			c()
		}
	}
	// a ChainAfterFunc on two contexts that are never cancelled never runs f
	var calls atomic.Int64
	a, ca := context.WithCancel(context.Background())
	b, cb := context.WithCancel(context.Background())
	ChainAfterFunc(a, b, func() { calls.Add(1) })
	c16Settle(buf)
	if calls.Load() != 0 {
		h.line("MONITOR C16 ChainAfterFunc ran f although neither context was cancelled")
	}
	ca()
	cb()
	c16Settle(buf)
	if calls.Load() != 1 {
		h.line("MONITOR C16 ChainAfterFunc: f ran %d times after both contexts were cancelled one after the other", calls.Load())
	}
}

func init() {
	register("C16K1", func(h *hctx) {
		buf := make([]byte, 1<<16)
		kinds := h.pi("kinds", 7) // bit 0 ChainAfterFunc, bit 1 CombineContext, bit 2 ConflatedContext
		c16Exhaustive(h, h.pi("maxn", 3), kinds, &buf)
		c16Random(h, h.n, kinds, &buf)
		if w := c16Waiters(&buf); w != 0 {
			h.line("MONITOR C16 %d ConflatedContext waiter goroutine(s) left at the end of the scenario", w)
		}
	})
	register("C16RACE", func(h *hctx) {
		buf := make([]byte, 1<<16)
		c16Race(h, h.n, h.pi("kinds", 7), &buf)
		h.line("K1 ctx race-summary 0 0 1 0 0 0 0 0 0 # 0 | 0 0 0 0 0")
	})
}
