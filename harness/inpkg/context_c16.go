//go:build verif

package bigbuff

import (
	"context"
	"fmt"
	"runtime"
	"strings"
	"sync"
	"sync/atomic"
	"time"
)

// C16 — ChainAfterFunc / CombineContext / ConflatedContext.
//
// K1 model "ctx" (checker/ad_context.ml), quiescent semantics: after every operation the harness waits until no other
// goroutine of the process is runnable (AfterFunc callbacks run in their own goroutines), then records the observables.
//   cfg : kind probe nenv (parent+1 key val){nenv} npre pre.. args..
//         kind 0 ChainAfterFunc args = cx other | kind 1 CombineContext args = primary+1 nothers (other+1).. (0 = nil)
//         kind 2 ConflatedContext args = ninputs input..
//   ops : 0 call | 5 i j call, and right after the function's Err() check of others[i]/contexts[i] cancel input node j
//         1 n cancel input node n | 2 call the CancelFunc returned by ConflatedContext | 3 key Value(key) of the result
//   outs: (0 5 1 2) cancelled calls live waiters idk | (3) found value

type c16key int

// c16probe is a context that is NOT recognised by the std library as one of its own (the cancelCtx key is hidden) but
// implements the AfterFunc method that context.AfterFunc uses for foreign contexts, so the number of registrations
// that are still pending (neither fired nor stopped) can be counted.
type c16probe struct {
	context.Context
	live *atomic.Int64
}

func (p *c16probe) Value(k any) any {
	if _, ok := k.(c16key); ok {
		return p.Context.Value(k)
	}
	return nil
}

func (p *c16probe) AfterFunc(f func()) func() bool {
	p.live.Add(1)
	stop := context.AfterFunc(p.Context, func() {
		p.live.Add(-1)
		f()
	})
	return func() bool {
		ok := stop()
		if ok {
			p.live.Add(-1)
		}
		return ok
	}
}

// c16errhook runs fn right after the first Err() call (the library's liveness check) has computed its result.
type c16errhook struct {
	context.Context
	once sync.Once
	fn   func()
}

func (c *c16errhook) Err() error {
	e := c.Context.Err()
	c.once.Do(c.fn)
	return e
}

// c16afhook runs fn right after a registration made through context.AfterFunc has been installed on it (foreign context
// with an AfterFunc method: the window between ChainAfterFunc's two registrations).
type c16afhook struct {
	context.Context
	fn func()
}

func (c *c16afhook) Value(k any) any {
	if _, ok := k.(c16key); ok {
		return c.Context.Value(k)
	}
	return nil
}

func (c *c16afhook) AfterFunc(f func()) func() bool {
	stop := context.AfterFunc(c.Context, f)
	c.fn()
	return stop
}

// c16errprobe is the same for a probe context (keeps the probe's AfterFunc and Value methods).
type c16errprobe struct {
	*c16probe
	once sync.Once
	fn   func()
}

func (c *c16errprobe) Err() error {
	e := c.c16probe.Err()
	c.once.Do(c.fn)
	return e
}

// c16Quiet reports whether no goroutine other than the caller is runnable or running (one atomic snapshot: a blocked
// goroutine can only be woken by a running one, there are no timers in these scenarios).
func c16Quiet(buf *[]byte) bool {
	for {
		n := runtime.Stack(*buf, true)
		if n < len(*buf) {
			s := string((*buf)[:n])
			blocks := strings.Split(s, "\n\n")
			for i, b := range blocks {
				if i == 0 {
					continue
				}
				lb := strings.IndexByte(b, '[')
				if lb < 0 {
					continue
				}
				st := b[lb+1:]
				if strings.HasPrefix(st, "runnable") || strings.HasPrefix(st, "running") || strings.HasPrefix(st, "preempted") ||
					strings.HasPrefix(st, "copystack") {
					return false
				}
			}
			return true
		}
		*buf = make([]byte, 2*len(*buf))
	}
}

func c16Settle(buf *[]byte) bool {
	deadline := time.Now().Add(5 * time.Second)
	for i := 0; ; i++ {
		if c16Quiet(buf) {
			return true
		}
		if time.Now().After(deadline) {
			return false
		}
		runtime.Gosched()
		if i > 50 {
			time.Sleep(50 * time.Microsecond)
		}
	}
}

// c16Waiters counts live goroutines started by ConflatedContext (its waiter).
func c16Waiters(buf *[]byte) int {
	for {
		n := runtime.Stack(*buf, true)
		if n < len(*buf) {
			return strings.Count(string((*buf)[:n]), "go-bigbuff.ConflatedContext.func")
		}
		*buf = make([]byte, 2*len(*buf))
	}
}

type c16node struct {
	parent, key, val int // parent -1: root; key 0: no value
}

type c16case struct {
	kind  int
	probe bool
	env   []c16node
	pre   []int
	args  []int   // see cfg
	first []int   // the construct op: [0] or [5 i j]
	later [][]int // ops after construction
	early [][]int // cancel ops before construction
}

func (c *c16case) cfg() []int {
	r := []int{c.kind, 0, len(c.env)}
	if c.probe {
		r[1] = 1
	}
	for _, n := range c.env {
		r = append(r, n.parent+1, n.key, n.val)
	}
	r = append(r, len(c.pre))
	r = append(r, c.pre...)
	r = append(r, c.args...)
	return r
}

// c16Run drives the real implementation through one case and emits the K1 record.
func c16Run(h *hctx, id string, c *c16case, buf *[]byte) {
	inner := make([]context.Context, len(c.env))
	cancels := make([]context.CancelFunc, len(c.env))
	for i, n := range c.env {
		parent := context.Background()
		if n.parent >= 0 {
			parent = inner[n.parent]
		}
		ctx, cancel := context.WithCancel(parent)
		if n.key != 0 {
			ctx = context.WithValue(ctx, c16key(n.key), n.val)
		}
		inner[i], cancels[i] = ctx, cancel
	}
	defer func() {
		for _, cancel := range cancels {
			cancel()
		}
	}()
	for _, p := range c.pre {
		cancels[p]()
	}
	var live atomic.Int64
	var calls atomic.Int64
	var res context.Context
	var resCancel context.CancelFunc
	var primary context.Context
	idk := 0
	panicked := false
	observe := func() []int {
		if !c16Settle(buf) {
			h.line("MONITOR C16 case %s: goroutines still runnable 5s after an operation (hook goroutine stuck?)", id)
		}
		cancelled := 0
		if res != nil && res.Err() != nil {
			cancelled = 1
		}
		if panicked {
			cancelled = 9999
		}
		lv := 0
		if c.probe {
			lv = int(live.Load())
		}
		return []int{cancelled, int(calls.Load()), lv, c16Waiters(buf), idk}
	}
	handed := func(i int, probe bool) context.Context {
		if probe {
			return &c16probe{Context: inner[i], live: &live}
		}
		return inner[i]
	}
	construct := func(first []int) {
		mid := func(pos int, ctx context.Context) context.Context {
			if len(first) == 3 && first[1] == pos {
				j := first[2]
				if p, ok := ctx.(*c16probe); ok {
					return &c16errprobe{c16probe: p, fn: func() { cancels[j]() }}
				}
				return &c16errhook{Context: ctx, fn: func() { cancels[j]() }}
			}
			return ctx
		}
		defer func() {
			if r := recover(); r != nil {
				panicked = true
				h.line("MONITOR C16 case %s: the library call panicked: %v", id, r)
			}
		}()
		switch c.kind {
		case 0:
			var other context.Context = inner[c.args[1]]
			if len(first) == 3 {
				j := first[2]
				other = &c16afhook{Context: other, fn: func() { cancels[j]() }}
			}
			ChainAfterFunc(inner[c.args[0]], other, func() { calls.Add(1) })
		case 1:
			if c.args[0] != 0 {
				primary = inner[c.args[0]-1]
			}
			others := make([]context.Context, c.args[1])
			for k := 0; k < c.args[1]; k++ {
				if o := c.args[2+k]; o != 0 {
					others[k] = mid(k, handed(o-1, c.probe))
				}
			}
			anyPre := primary != nil && primary.Err() != nil
			for k := 0; k < c.args[1]; k++ {
				if o := c.args[2+k]; o != 0 && inner[o-1].Err() != nil {
					anyPre = true
				}
			}
			res = CombineContext(primary, others...)
			if anyPre && res.Err() == nil {
				// "already cancelled if any input already is": at the moment of return, before any hook goroutine is waited for
				h.line("MONITOR C16 case %s: CombineContext returned a live context although an input was already cancelled before the call", id)
			}
			if primary != nil && res == primary {
				idk = 1
			} else if primary == nil && res == context.Background() {
				idk = 2
			}
		case 2:
			ins := make([]context.Context, c.args[0])
			for k := range ins {
				ins[k] = mid(k, inner[c.args[1+k]])
			}
			res, resCancel = ConflatedContext(ins...)
		}
	}
	var ops, outs [][]int
	do := func(op []int) {
		switch op[0] {
		case 0, 5:
			construct(op)
			ops, outs = append(ops, op), append(outs, observe())
		case 1:
			cancels[op[1]]()
			ops, outs = append(ops, op), append(outs, observe())
		case 2:
			if resCancel != nil {
				resCancel()
			}
			ops, outs = append(ops, op), append(outs, observe())
		case 3:
			o := []int{0, 0}
			if res != nil {
				if v := res.Value(c16key(op[1])); v != nil {
					o = []int{1, v.(int)}
				}
			}
			ops, outs = append(ops, op), append(outs, o)
		}
	}
	for _, op := range c.early {
		do(op)
	}
	do(c.first)
	for _, op := range c.later {
		do(op)
	}
	// property-level monitors on the final state (independent of the model)
	final := outs[len(outs)-1]
	_ = final
	if resCancel != nil {
		resCancel()
		if !c16Settle(buf) || c16Waiters(buf) != 0 {
			h.line("MONITOR C16 case %s: ConflatedContext's waiter goroutine is still alive after its cancel function was called", id)
		}
		if res.Err() == nil {
			h.line("MONITOR C16 case %s: ConflatedContext's result is not cancelled after its cancel function was called", id)
		}
	}
	h.line("K1 ctx %s %s # %s | %s", id, ints(c.cfg()), joinRecs(ops), joinRecs(outs))
	h.count(fmt.Sprintf("kind%d_cases", c.kind), 1)
	h.count("ops", len(ops))
}

func c16Perms(l []int) [][]int {
	if len(l) == 0 {
		return [][]int{{}}
	}
	var r [][]int
	for i := range l {
		rest := append(append([]int{}, l[:i]...), l[i+1:]...)
		for _, p := range c16Perms(rest) {
			r = append(r, append([]int{l[i]}, p...))
		}
	}
	return r
}

// c16Exhaustive: every subset pre-cancelled x every order of the later cancellations, for every small shape.
func c16Exhaustive(h *hctx, maxn int, kinds int, buf *[]byte) {
	id := 0
	run := func(c *c16case) {
		id++
		c16Run(h, fmt.Sprintf("ex-%d", id), c, buf)
	}
	lookups := [][]int{{3, 1}, {3, 2}, {3, 3}}
	each := func(nenv int, f func(pre []int, order []int)) {
		for mask := 0; mask < 1<<nenv; mask++ {
			var pre, liveN []int
			for i := 0; i < nenv; i++ {
				if mask&(1<<i) != 0 {
					pre = append(pre, i)
				} else {
					liveN = append(liveN, i)
				}
			}
			for _, order := range c16Perms(liveN) {
				f(pre, order)
			}
		}
	}
	cancelOps := func(order []int) [][]int {
		var r [][]int
		for _, n := range order {
			r = append(r, []int{1, n})
		}
		return r
	}
	roots := func(n int) []c16node {
		env := make([]c16node, n)
		for i := range env {
			env[i] = c16node{-1, 1 + i%2, 100 + i}
		}
		return env
	}
	// ChainAfterFunc: independent contexts, the same context twice, parent/child both ways
	chainShapes := []struct {
		env       []c16node
		cx, other int
	}{
		{roots(2), 0, 1}, {roots(1), 0, 0},
		{[]c16node{{-1, 0, 0}, {0, 0, 0}}, 0, 1}, {[]c16node{{-1, 0, 0}, {0, 0, 0}}, 1, 0},
		{[]c16node{{-1, 0, 0}, {0, 0, 0}, {0, 0, 0}}, 1, 2},
	}
	for _, sh := range chainShapes {
		if kinds&1 == 0 {
			break
		}
		each(len(sh.env), func(pre, order []int) {
			run(&c16case{kind: 0, env: sh.env, pre: pre, args: []int{sh.cx, sh.other}, first: []int{0}, later: cancelOps(order)})
			// the same with node j cancelled between ChainAfterFunc's two registrations
			for j := range sh.env {
				run(&c16case{kind: 0, env: sh.env, pre: pre, args: []int{sh.cx, sh.other}, first: []int{5, 0, j}, later: cancelOps(order)})
			}
		})
	}
	// CombineContext: node 0 is the primary (when non-nil), others are nodes 1..; every nil pattern
	for n := 0; n <= maxn && kinds&2 != 0; n++ {
		for nilmask := 0; nilmask < 1<<n; nilmask++ {
			if n == maxn && maxn >= 4 && nilmask != 0 && nilmask != 5 {
				continue // the largest size: all non-nil and one mixed pattern only
			}
			for _, pnil := range []bool{false, true} {
				nenv := 1
				args := []int{1, n}
				if pnil {
					nenv, args[0] = 0, 0
				}
				for k := 0; k < n; k++ {
					if nilmask&(1<<k) != 0 {
						args = append(args, 0)
					} else {
						args = append(args, nenv+1)
						nenv++
					}
				}
				env := roots(nenv)
				each(nenv, func(pre, order []int) {
					later := append(append([][]int{}, lookups...), cancelOps(order)...)
					run(&c16case{kind: 1, probe: true, env: env, pre: pre, args: args, first: []int{0}, later: later})
				})
			}
		}
	}
	// ConflatedContext: 1..maxn inputs, with the cancel function called at every position (or never)
	for n := 1; n <= maxn && kinds&4 != 0; n++ {
		env := roots(n)
		args := []int{n}
		for k := 0; k < n; k++ {
			args = append(args, k)
		}
		each(n, func(pre, order []int) {
			for upos := -1; upos <= len(order); upos++ {
				if n == maxn && maxn >= 4 && upos > 0 && upos < len(order) {
					continue
				}
				later := append([][]int{}, lookups...)
				for k, node := range order {
					if k == upos {
						later = append(later, []int{2})
					}
					later = append(later, []int{1, node})
				}
				if upos == len(order) {
					later = append(later, []int{2})
				}
				run(&c16case{kind: 2, env: env, pre: pre, args: args, first: []int{0}, later: later})
			}
		})
	}
	h.line("EXHAUSTIVE C16 shapes up to %d inputs: %d cases", maxn, id)
}

// c16Random: seeded cases over random forests (related contexts, aliasing), values, cancellations before, DURING
// (between the Err() check and the registration) and after construction.
func c16Random(h *hctx, n int, kinds int, buf *[]byte) {
	for id := 0; id < n; id++ {
		rng := h.rng
		nenv := 1 + rng.Intn(5)
		env := make([]c16node, nenv)
		for i := range env {
			env[i] = c16node{-1, 0, 0}
			if i > 0 && rng.Intn(100) < 40 {
				env[i].parent = rng.Intn(i)
			}
			if rng.Intn(100) < 60 {
				env[i].key, env[i].val = 1+rng.Intn(2), 10*(i+1)+rng.Intn(10) // small: the model counts in unary
			}
		}
		c := &c16case{env: env, kind: rng.Intn(3)}
		for kinds&(1<<c.kind) == 0 {
			c.kind = (c.kind + 1) % 3
		}
		for i := 0; i < nenv; i++ {
			if rng.Intn(100) < 20 {
				c.pre = append(c.pre, i)
			}
		}
		ninputs := 0
		switch c.kind {
		case 0:
			c.args = []int{rng.Intn(nenv), rng.Intn(nenv)}
		case 1:
			c.probe = rng.Intn(100) < 50
			p := 0
			if rng.Intn(100) < 85 {
				p = 1 + rng.Intn(nenv)
			}
			k := rng.Intn(5)
			c.args = []int{p, k}
			for j := 0; j < k; j++ {
				o := 0
				if rng.Intn(100) < 75 {
					o = 1 + rng.Intn(nenv)
					if c.probe && o == p && nenv > 1 {
						o = 1 + (o % nenv) // probe mode: keep the primary a plain context
					}
				}
				c.args = append(c.args, o)
			}
			if c.probe && p != 0 {
				// a probe other that aliases the primary would make the primary's own child registration visible
				for j := 0; j < k; j++ {
					if c.args[2+j] == p {
						c.probe = false
					}
				}
			}
			ninputs = k
		case 2:
			k := 1 + rng.Intn(4)
			c.args = []int{k}
			for j := 0; j < k; j++ {
				c.args = append(c.args, rng.Intn(nenv))
			}
			ninputs = k
		}
		c.first = []int{0}
		if c.kind == 0 && rng.Intn(100) < 45 {
			c.first = []int{5, 0, rng.Intn(nenv)}
			h.count("mid_cancel_cases", 1)
		}
		if c.kind != 0 && ninputs > 0 && rng.Intn(100) < 45 {
			pos := rng.Intn(ninputs)
			ok := c.kind == 2 || c.args[2+pos] != 0
			if ok {
				c.first = []int{5, pos, rng.Intn(nenv)}
				h.count("mid_cancel_cases", 1)
			}
		}
		if rng.Intn(100) < 25 {
			c.early = append(c.early, []int{1, rng.Intn(nenv)})
		}
		nlater := rng.Intn(nenv + 2)
		c.later = append(c.later, []int{3, 1}, []int{3, 2})
		for j := 0; j < nlater; j++ {
			if c.kind == 2 && rng.Intn(100) < 15 {
				c.later = append(c.later, []int{2})
			} else {
				c.later = append(c.later, []int{1, rng.Intn(nenv)})
			}
		}
		c.later = append(c.later, []int{3, 1})
		c16Run(h, fmt.Sprintf("r-%d-%d", h.seed, id), c, buf)
	}
}

// c16Race: truly simultaneous cancellations (goroutines released by one barrier, some of them racing with the
// construction itself); monitors only: f ran exactly once, results cancelled, nothing leaked, no goroutine left.
func c16Race(h *hctx, n int, kinds int, buf *[]byte) {
	for it := 0; it < n; it++ {
		rng := h.rng
		kind := it % 3
		for kinds&(1<<kind) == 0 {
			kind = (kind + 1) % 3
		}
		k := 2 + rng.Intn(3)
		ctxs := make([]context.Context, k)
		cancels := make([]context.CancelFunc, k)
		for i := range ctxs {
			parent := context.Background()
			if i > 0 && rng.Intn(100) < 25 {
				parent = ctxs[rng.Intn(i)]
			}
			ctxs[i], cancels[i] = context.WithCancel(parent)
		}
		during := rng.Intn(100) < 50 // release the cancellers before the call instead of after it
		start := make(chan struct{})
		var wg sync.WaitGroup
		ncancel := k
		if kind == 0 {
			ncancel = 2
		}
		if kind == 0 && rng.Intn(100) < 30 {
			ncancel = 1 // only one of the two is ever cancelled
		}
		for i := 0; i < ncancel; i++ {
			wg.Add(1)
			go func(i int) {
				defer wg.Done()
				<-start
				cancels[i]()
			}(i)
		}
		var calls, live atomic.Int64
		var res context.Context
		var resCancel context.CancelFunc
		call := func() {
			switch kind {
			case 0:
				ChainAfterFunc(ctxs[0], ctxs[1], func() { calls.Add(1) })
			case 1:
				others := make([]context.Context, 0, k)
				for i := 1; i < k; i++ {
					others = append(others, &c16probe{Context: ctxs[i], live: &live})
				}
				if rng.Intn(100) < 30 {
					others = append(others, nil)
				}
				res = CombineContext(ctxs[0], others...)
			case 2:
				res, resCancel = ConflatedContext(ctxs...)
			}
		}
		if during {
			close(start)
			if rng.Intn(2) == 0 {
				runtime.Gosched()
			}
			call()
		} else {
			call()
			close(start)
		}
		wg.Wait()
		if !c16Settle(buf) {
			h.line("MONITOR C16 race %d: goroutines still runnable after 5s", it)
		}
		switch kind {
		case 0:
			if c := calls.Load(); c != 1 {
				h.line("MONITOR C16 race %d (ChainAfterFunc, %d context(s) cancelled simultaneously, during=%v): f ran %d times, want exactly 1", it, ncancel, during, c)
			}
			h.count("race_chain", 1)
		case 1:
			if res.Err() == nil {
				h.line("MONITOR C16 race %d (CombineContext): result not cancelled although every input is", it)
			}
			if l := live.Load(); l != 0 {
				h.line("MONITOR C16 race %d (CombineContext): %d AfterFunc registrations still pending on the other contexts after the result was cancelled", it, l)
			}
			h.count("race_combine", 1)
		case 2:
			if res.Err() == nil {
				h.line("MONITOR C16 race %d (ConflatedContext): result not cancelled although every input is", it)
			}
			if w := c16Waiters(buf); w != 0 {
				h.line("MONITOR C16 race %d (ConflatedContext): %d waiter goroutine(s) still alive", it, w)
			}
			resCancel()
			h.count("race_conflated", 1)
		}
		for _, c := range cancels {
			c()
		}
	}
	// a ChainAfterFunc on two contexts that are never cancelled never runs f
	var calls atomic.Int64
	a, ca := context.WithCancel(context.Background())
	b, cb := context.WithCancel(context.Background())
	ChainAfterFunc(a, b, func() { calls.Add(1) })
	c16Settle(buf)
	if calls.Load() != 0 {
		h.line("MONITOR C16 ChainAfterFunc ran f although neither context was cancelled")
	}
	ca()
	cb()
	c16Settle(buf)
	if calls.Load() != 1 {
		h.line("MONITOR C16 ChainAfterFunc: f ran %d times after both contexts were cancelled one after the other", calls.Load())
	}
}

func init() {
	register("C16K1", func(h *hctx) {
		buf := make([]byte, 1<<16)
		kinds := h.pi("kinds", 7) // bit 0 ChainAfterFunc, bit 1 CombineContext, bit 2 ConflatedContext
		c16Exhaustive(h, h.pi("maxn", 3), kinds, &buf)
		c16Random(h, h.n, kinds, &buf)
		if w := c16Waiters(&buf); w != 0 {
			h.line("MONITOR C16 %d ConflatedContext waiter goroutine(s) left at the end of the scenario", w)
		}
	})
	register("C16RACE", func(h *hctx) {
		buf := make([]byte, 1<<16)
		c16Race(h, h.n, h.pi("kinds", 7), &buf)
		h.line("K1 ctx race-summary 0 0 1 0 0 0 0 0 0 # 0 | 0 0 0 0 0")
	})
}
