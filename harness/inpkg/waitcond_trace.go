//go:build verif

package bigbuff

// C05TRACE: trace acceptance for the WaitCond protocol model (Model/WaitCond.v).  On an INSTRUMENTED build every
// synchronisation point of sync.go announces itself through verifP; the scenario logs, in the order they happen, those
// announcements, every evaluation of fn with its result, the notifier sections and the cancellation of the environment,
// and the return of WaitCond.  The checker (checker/ad_waitcond.ml) decides whether the log is a run of the extracted
// step function - i.e. whether the implementation's control flow, lock hand-overs and wake-ups are those of the model
// the C05 theorems are about.  Random yields and short sleeps at the points diversify the interleavings.
//
//	F waitcond_trace <id> <ctxmode> <pred0> <nn> <nev> (<kind> <arg>)*nev | 1
//	   kind 1 NOTIFY b | 2 CANCEL begins | 6 CANCEL has returned | 3 FN b | 4 POINT k | 5 RETURN (0 nil, 1 err)
//	   POINT k: 0 ctx.Err() check  1 go statement  2 <-ctx.Done()  3 l.Lock()  4 cond.Broadcast()  5 cond.Wait()
//
// The ids of the six points are passed by the framework (parameter pts), which finds them in the instrumenter's table by
// what they do; if sync.go does not have exactly one of each the scenario says so (the correspondence cannot be established).

import (
	"context"
	"math/rand"
	"runtime"
	"strconv"
	"strings"
	"sync"
	"time"
)

type wcLog struct {
	mu sync.Mutex
	ev []int
}

func (l *wcLog) add(kind, arg int) {
	l.mu.Lock()
	l.ev = append(l.ev, kind, arg)
	l.mu.Unlock()
}

type wcPolicy struct {
	log *wcLog
	ids map[int]int // point id -> kind 0..5
	mu  sync.Mutex
	rng *rand.Rand
}

func (p *wcPolicy) at(id int) {
	{
		if k, ok := p.ids[id]; ok {
			p.log.add(4, k)
			p.mu.Lock()
			r := p.rng.Intn(8)
			d := time.Duration(p.rng.Intn(150)) * time.Microsecond
			p.mu.Unlock()
			switch {
			case r < 2:
				time.Sleep(d)
			case r < 5:
				runtime.Gosched()
			}
			return
		}
	}
}

func init() {
	register("C05TRACE", func(h *hctx) {
		ids := map[int]int{}
		kinds := 0
		if pts := h.p("pts", ""); pts != "" {
			for k, group := range strings.Split(pts, ".") {
				for _, f := range strings.Split(group, "+") {
					if v, err := strconv.Atoi(f); err == nil {
						ids[v] = k
					}
				}
				kinds++
			}
		}
		if !instrumented() {
			h.line("STAT c05trace_not_run 1")
			return
		}
		if kinds != 6 {
			// the synchronisation points of WaitCond are not the six the model has steps for: the correspondence between the
			// implementation's control flow and the model cannot be established
			h.line("INCONCLUSIVE C05 trace: sync.go does not have at least one ctx.Err() check and exactly one go statement, <-ctx.Done(), Lock, Broadcast and Wait (%s): its control flow cannot be mapped to the steps of the WaitCond model", h.p("ptsproblem", "no point table"))
			return
		}
		quiesce(200*time.Microsecond, 2*time.Second) // the probe's Buffer (its cleaner runs WaitCond too) is gone
		for i := 0; i < h.n; i++ {
			wcTraceCase(h, i, ids)
		}
	})
}

func wcTraceCase(h *hctx, id int, ids map[int]int) {
	rng := h.rng
	cm := rng.Intn(3)
	pred0 := rng.Intn(4) == 0
	nn := rng.Intn(4)
	if cm != 2 && nn == 0 {
		nn = 1
	}
	var mu sync.Mutex
	cond := sync.NewCond(&mu)
	pred := pred0
	log := &wcLog{}
	var ctx context.Context
	cancel := func() {}
	switch cm {
	case 1:
		ctx = context.Background()
	case 2:
		ctx, cancel = context.WithCancel(context.Background())
	}
	setPolicy(&wcPolicy{log: log, ids: ids, rng: rand.New(rand.NewSource(rng.Int63()))})
	mu.Lock() // WaitCond is called with L held: taken before the environment starts (sync.Mutex has no owner)
	var env, others sync.WaitGroup
	for k := 0; k < nn; k++ {
		b := rng.Intn(2) == 0
		if cm != 2 && k == nn-1 {
			b = true // without a cancellable context the last notifier must let the waiter go
		}
		d := time.Duration(rng.Intn(400)) * time.Microsecond
		last := cm != 2 && k == nn-1
		env.Add(1)
		if !last {
			others.Add(1)
		}
		go func() {
			defer env.Done()
			time.Sleep(d)
			if last {
				others.Wait() // the notifier that lets the waiter go is the last one to run
			} else {
				defer others.Done()
			}
			mu.Lock()
			pred = b
			log.add(1, boolInt(b))
			cond.Broadcast()
			mu.Unlock()
		}()
	}
	if cm == 2 {
		d := time.Duration(rng.Intn(600)) * time.Microsecond
		env.Add(1)
		go func() {
			defer env.Done()
			time.Sleep(d)
			log.add(2, 0) // the cancellation takes effect somewhere between these two records
			cancel()
			log.add(6, 0)
		}()
	}
	ret := make(chan struct{})
	go func() {
		defer close(ret)
		err := WaitCond(ctx, cond, func() bool {
			b := pred
			log.add(3, boolInt(b))
			return b
		})
		log.add(5, boolInt(err != nil))
		mu.Unlock()
	}()
	select {
	case <-ret:
	case <-time.After(3 * time.Second):
		h.line("MONITOR C05 WaitCond did not return within 3 s although its predicate became true for good or its context was cancelled (trace case %d)", id)
		setPolicy(nil)
		cancel()
		return
	}
	env.Wait()
	quiesce(200*time.Microsecond, time.Second) // the watcher goroutine announces its remaining points and exits
	setPolicy(nil)
	cancel()
	log.mu.Lock()
	ev := append([]int(nil), log.ev...)
	log.mu.Unlock()
	args := append([]int{cm, boolInt(pred0), nn, len(ev) / 2}, ev...)
	h.line("F waitcond_trace t-%d-%d %s | 1", h.seed, id, ints(args))
	h.count("c05trace_cases", 1)
	h.count("c05trace_events", len(ev)/2)
}
