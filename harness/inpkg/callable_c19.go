//go:build verif

package bigbuff

import (
	"fmt"
	"reflect"
	"strconv"
	"strings"
	"unsafe"
)

// C19 — Callable: Call equals a direct call or errors without calling; never panics.
//
// Signatures are built at run time (reflect.FuncOf / reflect.MakeFunc) over the type universe below; the made function
// records every invocation and the arguments it received and returns fixed tagged values. Every library call runs under
// recover. Encodings shared with checker/ad_callable.ml:
//
//	F callable_universe u0 n kind*n elem*n dynrep*n assignable*(n*n) | n 1     reflect's own tables for the universe
//	F callable_nilable k<i> kind | 0/1                                          Value.IsNil is defined on that kind
//	K1 callable <id> nfixed f.. vari nout (otype id dyn)* # nopts (kind n (ty nil id)*n)* | res ninv (nargs (static dyn id)*)* ntargets (-1 | natoms (dyn id)*)*
//
// Option reuse: the reuse_ / pair_ cases build the option values ONCE and apply the same values to several callables in
// sequence; every application is recorded and decided like a fresh-option case (an option value must be a pure function
// of the callable it is applied to; the model has no state across calls).
//
// res: 0 nil error, 1 error, 2 panic. A value is observed as (static type, dynamic type, tag); tag 0 = zero value / nil,
// dynamic type -1 = nil interface. A result target with tag k initially holds the sentinel k+5000.

type c19S struct{ A int }

func (s *c19S) Error() string { return "c19S" }

type c19MyInt int

var (
	c19Types   []reflect.Type
	c19Names   []string
	c19Index   map[reflect.Type]int
	c19Kind    []int
	c19Elem    []int
	c19DynRep  []int
	c19Assign  [][]bool
	c19FuncTag int
	c19Reg     map[uintptr]int // identity of pointer-like values made for the current case
	c19Keep    []interface{}
)

const (
	c19TInt = iota
	c19TString
	c19TPInt
	c19TSliceInt
	c19TMap
	c19TChan
	c19TFunc
	c19TError
	c19TIface
	c19TS
	c19TPS
	c19TMyInt
	c19TUnsafe
	c19TRecvChan
	c19TArray
	c19TPString
	c19TPPInt
	c19TPSliceInt
	c19TPMap
	c19TPChan
	c19TPFunc
	c19TPError
	c19TPIface
	c19TPPS
	c19TPMyInt
	c19TPUnsafe
	c19TPRecvChan
	c19TPArray
	c19TSliceIface
	c19TPSliceIface
	c19TSliceError
	c19TPSliceError
	c19NTypes
)

func c19KindCode(k reflect.Kind) int {
	switch k {
	case reflect.Bool:
		return 0
	case reflect.Int, reflect.Int8, reflect.Int16, reflect.Int32, reflect.Int64:
		return 1
	case reflect.Uint, reflect.Uint8, reflect.Uint16, reflect.Uint32, reflect.Uint64, reflect.Uintptr:
		return 2
	case reflect.Float32, reflect.Float64:
		return 3
	case reflect.Complex64, reflect.Complex128:
		return 4
	case reflect.String:
		return 5
	case reflect.Struct:
		return 6
	case reflect.Array:
		return 7
	case reflect.Ptr:
		return 8
	case reflect.Slice:
		return 9
	case reflect.Map:
		return 10
	case reflect.Chan:
		return 11
	case reflect.Func:
		return 12
	case reflect.Interface:
		return 13
	case reflect.UnsafePointer:
		return 14
	}
	panic("c19: kind outside the model: " + k.String())
}

func c19Setup() {
	if c19Types != nil {
		return
	}
	var (
		i   int
		s   string
		pi  *int
		sl  []int
		m   map[string]int
		ch  chan int
		fn  func()
		er  error
		ifc interface{}
		st  c19S
		ps  *c19S
		mi  c19MyInt
		up  unsafe.Pointer
		rc  <-chan int
		ar  [2]int
		sli []interface{}
		sle []error
	)
	add := func(t reflect.Type) {
		c19Types = append(c19Types, t)
		c19Names = append(c19Names, strings.ReplaceAll(strings.ReplaceAll(t.String(), "bigbuff.c19", ""), " ", ""))
	}
	for _, p := range []interface{}{&i, &s, &pi, &sl, &m, &ch, &fn, &er, &ifc, &st, &ps, &mi, &up, &rc, &ar} {
		add(reflect.TypeOf(p).Elem())
	}
	for _, p := range []interface{}{&s, &pi, &sl, &m, &ch, &fn, &er, &ifc, &ps, &mi, &up, &rc, &ar} {
		add(reflect.TypeOf(p))
	}
	add(reflect.TypeOf(sli))
	add(reflect.TypeOf(&sli))
	add(reflect.TypeOf(sle))
	add(reflect.TypeOf(&sle))
	if len(c19Types) != c19NTypes || c19Types[c19TPSliceError] != reflect.TypeOf(&sle) || c19Types[c19TPString] != reflect.TypeOf(&s) ||
		c19Types[c19TPS] != reflect.TypeOf(ps) || c19Types[c19TArray] != reflect.TypeOf(ar) {
		panic("c19: universe layout")
	}
	c19Index = map[reflect.Type]int{}
	for k, t := range c19Types {
		c19Index[t] = k
	}
	n := len(c19Types)
	c19Kind, c19Elem, c19DynRep = make([]int, n), make([]int, n), make([]int, n)
	c19Assign = make([][]bool, n)
	for k, t := range c19Types {
		c19Kind[k] = c19KindCode(t.Kind())
		c19Elem[k] = -1
		switch t.Kind() {
		case reflect.Array, reflect.Chan, reflect.Map, reflect.Ptr, reflect.Slice:
			e, ok := c19Index[t.Elem()]
			if !ok {
				panic("c19: universe not closed under Elem: " + t.String())
			}
			c19Elem[k] = e
		}
		c19DynRep[k] = k
		c19Assign[k] = make([]bool, n)
		for j, u := range c19Types {
			c19Assign[k][j] = t.AssignableTo(u)
		}
	}
	c19DynRep[c19TError] = c19TPS
	c19DynRep[c19TIface] = c19TInt
}

func c19IsIface(t int) bool { return c19Kind[t] == 13 }
func c19Nilable(t int) bool { return c19Kind[t] >= 8 }

// c19Make returns a fresh non-zero value of type t (for an interface type: of its representative dynamic type, held in
// a Value of the interface type) tagged id.
func c19Make(t int, id int) reflect.Value {
	T := c19Types[t]
	v := reflect.New(T).Elem()
	switch T.Kind() {
	case reflect.Int:
		v.SetInt(int64(id))
	case reflect.String:
		v.SetString("s" + strconv.Itoa(id))
	case reflect.Ptr:
		p := reflect.New(T.Elem())
		p.Elem().Set(c19Make(c19Elem[t], id))
		c19Reg[p.Pointer()] = id
		v.Set(p)
	case reflect.Slice:
		s := reflect.MakeSlice(T, 1, 1)
		s.Index(0).Set(c19Make(c19Elem[t], id))
		v.Set(s)
	case reflect.Map:
		m := reflect.MakeMap(T)
		m.SetMapIndex(reflect.ValueOf("k"), reflect.ValueOf(id))
		c19Reg[m.Pointer()] = id
		v.Set(m)
	case reflect.Chan:
		c := make(chan int, 1)
		cv := reflect.ValueOf(c)
		c19Reg[cv.Pointer()] = id
		v.Set(cv.Convert(T))
	case reflect.Func:
		tag := id
		v.Set(reflect.ValueOf(func() { c19FuncTag = tag }))
	case reflect.Struct:
		v.Field(0).SetInt(int64(id))
	case reflect.UnsafePointer:
		p := new(int)
		*p = id
		c19Keep = append(c19Keep, p)
		c19Reg[uintptr(unsafe.Pointer(p))] = id
		v.SetPointer(unsafe.Pointer(p))
	case reflect.Array:
		v.Index(0).SetInt(int64(id))
		v.Index(1).SetInt(int64(id))
	case reflect.Interface:
		v.Set(c19Make(c19DynRep[t], id))
	default:
		panic("c19: cannot make " + T.String())
	}
	return v
}

// c19Ident observes a value: (dynamic type index, tag); tag 0 = zero / nil, -2 = not a value this harness made.
func c19Ident(v reflect.Value) (int, int) {
	if v.Kind() == reflect.Interface {
		if v.IsNil() {
			return -1, 0
		}
		v = v.Elem()
	}
	d, ok := c19Index[v.Type()]
	if !ok {
		return -2, -2
	}
	reg := func(p uintptr) int {
		if p == 0 {
			return 0
		}
		if id, ok := c19Reg[p]; ok {
			return id
		}
		return -2
	}
	switch v.Kind() {
	case reflect.Int:
		return d, int(v.Int())
	case reflect.String:
		s := v.String()
		if s == "" {
			return d, 0
		}
		if n, err := strconv.Atoi(strings.TrimPrefix(s, "s")); err == nil && strings.HasPrefix(s, "s") {
			return d, n
		}
		return d, -2
	case reflect.Ptr, reflect.Map, reflect.Chan, reflect.UnsafePointer:
		return d, reg(v.Pointer())
	case reflect.Slice:
		if v.IsNil() {
			return d, 0
		}
		if v.Len() == 0 {
			return d, -2
		}
		_, id := c19Ident(v.Index(0))
		return d, id
	case reflect.Func:
		if v.IsNil() {
			return d, 0
		}
		c19FuncTag = -2
		v.Call(nil)
		return d, c19FuncTag
	case reflect.Struct:
		return d, int(v.Field(0).Int())
	case reflect.Array:
		return d, int(v.Index(0).Int())
	}
	return d, -2
}

type c19Val struct {
	ty  int // -1: untyped nil
	nl  bool
	id  int
	v   interface{}
	ptr reflect.Value // for an observable target: the pointer
}

type c19Opt struct {
	kind int // 0 CallArgs, 1 CallResults, 2 CallResultsSlice
	vals []c19Val
}

type c19Sig struct {
	fixed []int
	vari  int
	outs  []int
}

type c19Case struct {
	sig    c19Sig
	outIDs []int // 0: the zero value of the result type
	opts   []c19Opt
	nextID int
	note   string        // appended to the description (option reuse)
	fn     reflect.Value // a compiled function to call instead of a made one (it takes no arguments)
	fnInv  *int          // its invocation counter
}

// c19Built is the option values of a case, built once
type c19Built struct {
	options  []CallOption
	op       []int
	targets  []c19Val
	lastArgs *c19Opt
	lastRes  *c19Opt
}

func (c *c19Case) fresh() int { c.nextID++; return c.nextID }

// value of concrete type t (non-nil, or the typed nil when nl)
func (c *c19Case) val(t int, nl bool) c19Val {
	id := c.fresh()
	if t < 0 {
		return c19Val{ty: -1, id: id, v: nil}
	}
	if nl {
		return c19Val{ty: t, nl: true, id: id, v: reflect.Zero(c19Types[t]).Interface()}
	}
	if c19Kind[t] == 8 { // pointer: a target; its pointee holds the sentinel id+5000
		T := c19Types[t]
		p := reflect.New(T.Elem())
		e := c19Elem[t]
		if c19Kind[e] == 9 {
			s := reflect.MakeSlice(T.Elem(), 1, 1)
			s.Index(0).Set(c19Make(c19Elem[e], id+5000))
			p.Elem().Set(s)
		} else {
			p.Elem().Set(c19Make(e, id+5000))
		}
		c19Reg[p.Pointer()] = id
		return c19Val{ty: t, id: id, v: p.Interface(), ptr: p}
	}
	return c19Val{ty: t, id: id, v: c19Make(t, id).Interface()}
}

func (s c19Sig) String() string {
	var in []string
	for _, t := range s.fixed {
		in = append(in, c19Names[t])
	}
	if s.vari >= 0 {
		in = append(in, "..."+c19Names[s.vari])
	}
	var out []string
	for _, t := range s.outs {
		out = append(out, c19Names[t])
	}
	if len(out) > 8 {
		out = append(out[:3], fmt.Sprintf("...%d more", len(out)-3))
	}
	return "func(" + strings.Join(in, ",") + ")(" + strings.Join(out, ",") + ")"
}

func (c *c19Case) describe() string {
	parts := []string{c.sig.String()}
	for _, o := range c.opts {
		var vs []string
		for _, v := range o.vals {
			switch {
			case v.ty < 0:
				vs = append(vs, "nil")
			case v.nl:
				vs = append(vs, "("+c19Names[v.ty]+")(nil)")
			default:
				vs = append(vs, c19Names[v.ty])
			}
		}
		if len(vs) > 6 {
			vs = append(vs[:3], fmt.Sprintf("...%d more", len(vs)-3))
		}
		parts = append(parts, []string{"CallArgs", "CallResults", "CallResultsSlice"}[o.kind]+"("+strings.Join(vs, ",")+")")
	}
	return strings.Join(parts, " ") + c.note
}

// atoms of the pointee of an observable target
func c19Atoms(p reflect.Value) []int {
	e := p.Elem()
	if e.Kind() == reflect.Slice {
		r := []int{}
		for i := 0; i < e.Len(); i++ {
			d, id := c19Ident(e.Index(i))
			r = append(r, d, id)
		}
		return r
	}
	d, id := c19Ident(e)
	return []int{d, id}
}

// what a value shows once stored in a cell of static type cell (a non-interface cell has its own type)
func c19CellAtom(v reflect.Value, cell reflect.Type) (int, int) {
	d, id := c19Ident(v)
	if cell.Kind() != reflect.Interface {
		d = c19Index[cell]
	}
	return d, id
}

func c19Stored(v reflect.Value, cell reflect.Type) []int {
	if cell.Kind() == reflect.Slice && v.Kind() == reflect.Slice {
		r := []int{}
		for i := 0; i < v.Len(); i++ {
			d, id := c19CellAtom(v.Index(i), cell.Elem())
			r = append(r, d, id)
		}
		return r
	}
	d, id := c19CellAtom(v, cell)
	return []int{d, id}
}

func c19EqInts(a, b []int) bool {
	if len(a) != len(b) {
		return false
	}
	for i := range a {
		if a[i] != b[i] {
			return false
		}
	}
	return true
}

// build makes the option values of the case (once).
func (c *c19Case) build() *c19Built {
	b := &c19Built{op: []int{len(c.opts)}}
	for i := range c.opts {
		o := &c.opts[i]
		b.op = append(b.op, o.kind, len(o.vals))
		raw := make([]interface{}, len(o.vals))
		for k, v := range o.vals {
			nl := 0
			if v.nl {
				nl = 1
			}
			b.op = append(b.op, v.ty, nl, v.id)
			raw[k] = v.v
		}
		switch o.kind {
		case 0:
			b.options = append(b.options, CallArgs(raw...))
			b.lastArgs = o
		case 1:
			b.options = append(b.options, CallResults(raw...))
			b.targets = append(b.targets, o.vals...)
			b.lastRes = o
		case 2:
			b.options = append(b.options, CallResultsSlice(raw[0]))
			b.targets = append(b.targets, o.vals...)
			b.lastRes = o
		}
	}
	return b
}

// resetTargets puts the sentinels back into the result targets (between two applications of the same option values).
func (b *c19Built) resetTargets() {
	for _, t := range b.targets {
		if !t.ptr.IsValid() {
			continue
		}
		e := c19Elem[t.ty]
		if c19Kind[e] == 9 {
			s := reflect.MakeSlice(t.ptr.Type().Elem(), 1, 1)
			s.Index(0).Set(c19Make(c19Elem[e], t.id+5000))
			t.ptr.Elem().Set(s)
		} else {
			t.ptr.Elem().Set(c19Make(e, t.id+5000))
		}
	}
}

// run executes one case against the real implementation, emits its K1 record and evaluates the monitors.
func (c *c19Case) run(h *hctx, cid string) { c.apply(h, cid, c.build()) }

// apply calls the case's function with the (possibly already used) option values b.
func (c *c19Case) apply(h *hctx, cid string, b *c19Built) {
	sig := c.sig
	var ins, outs []reflect.Type
	for _, t := range sig.fixed {
		ins = append(ins, c19Types[t])
	}
	if sig.vari >= 0 {
		ins = append(ins, reflect.SliceOf(c19Types[sig.vari]))
	}
	outVals := make([]reflect.Value, len(sig.outs))
	var cfg []int
	cfg = append(cfg, len(sig.fixed))
	cfg = append(cfg, sig.fixed...)
	cfg = append(cfg, sig.vari, len(sig.outs))
	for j, t := range sig.outs {
		outs = append(outs, c19Types[t])
		if c.outIDs[j] == 0 {
			outVals[j] = reflect.Zero(c19Types[t])
			cfg = append(cfg, t, 0, -1)
		} else {
			outVals[j] = c19Make(t, c.outIDs[j])
			cfg = append(cfg, t, c.outIDs[j], c19DynRep[t])
		}
	}
	var invocations [][]reflect.Value
	fnV := c.fn
	if c.fn.IsValid() {
		*c.fnInv = 0
	} else {
		fnV = reflect.MakeFunc(reflect.FuncOf(ins, outs, sig.vari >= 0), func(args []reflect.Value) []reflect.Value {
			flat := append([]reflect.Value(nil), args...)
			if sig.vari >= 0 {
				last := flat[len(flat)-1]
				flat = flat[:len(flat)-1]
				for i := 0; i < last.Len(); i++ {
					flat = append(flat, last.Index(i))
				}
			}
			invocations = append(invocations, flat)
			return outVals
		})
	}
	options, op, targets, lastArgs, lastRes := b.options, b.op, b.targets, b.lastArgs, b.lastRes
	initial := make([][]int, len(targets))
	for i, t := range targets {
		if t.ptr.IsValid() {
			initial[i] = c19Atoms(t.ptr)
		}
	}
	res, msg := 0, ""
	func() {
		defer func() {
			if r := recover(); r != nil {
				res, msg = 2, fmt.Sprint(r)
			}
		}()
		if err := Call(NewCallable(fnV.Interface()), options...); err != nil {
			res = 1
			if err.Error() == "" {
				msg = "empty error text"
			}
		}
	}()
	if c.fn.IsValid() {
		for i := 0; i < *c.fnInv; i++ {
			invocations = append(invocations, nil)
		}
	}
	out := []int{res, len(invocations)}
	for _, inv := range invocations {
		out = append(out, len(inv))
		for _, a := range inv {
			st, ok := c19Index[a.Type()]
			if !ok {
				st = -2
			}
			d, id := c19Ident(a)
			out = append(out, st, d, id)
		}
	}
	out = append(out, len(targets))
	touched := false
	final := make([][]int, len(targets))
	for i, t := range targets {
		if !t.ptr.IsValid() {
			out = append(out, -1)
			continue
		}
		final[i] = c19Atoms(t.ptr)
		if !c19EqInts(final[i], initial[i]) {
			touched = true
		}
		out = append(out, len(final[i])/2)
		out = append(out, final[i]...)
	}
	h.line("K1 callable %s %s # %s | %s", cid, ints(cfg), ints(op), ints(out))

	// ---- property monitors on the implementation's observable behaviour ----
	desc := c.describe()
	defer func() {
		if r := recover(); r != nil {
			h.line("MONITOR C19 the implementation left a state the monitors cannot evaluate (%v): %s", r, desc)
		}
	}()
	switch res {
	case 2:
		h.count("outcome_panic", 1)
		h.line("MONITOR C19 panic on the library's own account (invoked=%d targets_touched=%v): %s: %s", len(invocations), touched, desc, msg)
		return
	case 1:
		h.count("outcome_error", 1)
		if len(invocations) != 0 {
			h.line("MONITOR C19 error returned but the function was invoked %d time(s): %s", len(invocations), desc)
		}
		if touched {
			h.line("MONITOR C19 error returned but a result target was modified: %s", desc)
		}
		if msg != "" {
			h.line("MONITOR C19 error without description: %s", desc)
		}
		return
	}
	h.count("outcome_invoked", 1)
	if len(invocations) != 1 {
		h.line("MONITOR C19 nil error but the function was invoked %d time(s): %s", len(invocations), desc)
		return
	}
	got := invocations[0]
	var given []c19Val
	if lastArgs != nil {
		given = lastArgs.vals
	}
	// exactly the given arguments, of the parameter types; untyped nil as the zero value
	okArgs := len(got) == len(given)
	for i := 0; okArgs && i < len(got); i++ {
		pt := sig.vari
		if i < len(sig.fixed) {
			pt = sig.fixed[i]
		}
		if pt < 0 || got[i].Type() != c19Types[pt] {
			okArgs = false
			break
		}
		d, id := c19Ident(got[i])
		g := given[i]
		switch {
		case g.ty < 0:
			okArgs = got[i].IsZero()
		case g.nl:
			okArgs = id == 0 && (d == g.ty || !c19IsIface(pt))
		default:
			okArgs = id == g.id && (d == g.ty || !c19IsIface(pt))
		}
	}
	if !okArgs {
		h.line("MONITOR C19 the function did not receive exactly the given arguments: %s", desc)
	}
	// results stored = what a direct reflect.Value.Call returns
	direct := fnV.Call(got)
	invocations = invocations[:1]
	exp := make([][]int, len(targets))
	copy(exp, initial)
	base := len(targets)
	if lastRes != nil {
		base -= len(lastRes.vals)
		switch lastRes.kind {
		case 1:
			for j := range lastRes.vals {
				if t := lastRes.vals[j]; j < len(direct) && t.ptr.IsValid() {
					exp[base+j] = c19Stored(direct[j], t.ptr.Type().Elem())
				}
			}
		case 2:
			if !lastRes.vals[0].ptr.IsValid() || lastRes.vals[0].ptr.Elem().Kind() != reflect.Slice {
				h.line("MONITOR C19 nil error although the CallResultsSlice target is not a pointer to a slice: %s", desc)
				break
			}
			e := append([]int(nil), initial[base]...)
			for _, d := range direct {
				dd, id := c19CellAtom(d, lastRes.vals[0].ptr.Type().Elem().Elem())
				e = append(e, dd, id)
			}
			exp[base] = e
		}
	}
	for i := range targets {
		if targets[i].ptr.IsValid() && !c19EqInts(exp[i], final[i]) {
			h.line("MONITOR C19 result target %d holds %v, a direct call gives %v: %s", i, final[i], exp[i], desc)
		}
	}
	if lastRes != nil && lastRes.kind == 1 && len(lastRes.vals) != len(direct) {
		h.line("MONITOR C19 nil error with %d targets for %d results: %s", len(lastRes.vals), len(direct), desc)
	}
}

func c19NewCase() *c19Case {
	c19Reg = map[uintptr]int{}
	c19Keep = c19Keep[:0]
	return &c19Case{sig: c19Sig{vari: -1}}
}

// result values: tagged, or (zero = true) the zero value of the result type
func (c *c19Case) setOuts(outs []int, zero func(j int) bool) {
	c.sig.outs = outs
	c.outIDs = make([]int, len(outs))
	for j := range outs {
		if !zero(j) {
			c.outIDs[j] = c.fresh()
		}
	}
}

func init() {
	register("C19K1", func(h *hctx) {
		c19Setup()
		n := c19NTypes
		// reflect's own tables
		{
			rec := []int{n}
			rec = append(rec, c19Kind...)
			rec = append(rec, c19Elem...)
			rec = append(rec, c19DynRep...)
			refl := 1
			for i := 0; i < n; i++ {
				for j := 0; j < n; j++ {
					b := 0
					if c19Assign[i][j] {
						b = 1
					}
					rec = append(rec, b)
				}
				if !c19Assign[i][i] {
					refl = 0
					h.line("MONITOR C19 reflect: %s is not assignable to itself (hypothesis of the theorems)", c19Names[i])
				}
			}
			h.line("F callable_universe u0 %s | %d %d", ints(rec), n, refl)
			for i, t := range c19Types {
				isNilOK := 1
				func() {
					defer func() {
						if recover() != nil {
							isNilOK = 0
						}
					}()
					reflect.Zero(t).IsNil()
				}()
				h.line("F callable_nilable k%d %d | %d", i, c19Kind[i], isNilOK)
			}
		}
		var concrete, nilConcrete []int
		for t := 0; t < n; t++ {
			if !c19IsIface(t) {
				concrete = append(concrete, t)
				if c19Nilable(t) {
					nilConcrete = append(nilConcrete, t)
				}
			}
		}
		paramPool := []int{c19TInt, c19TString, c19TPInt, c19TSliceInt, c19TMap, c19TChan, c19TFunc, c19TError, c19TIface, c19TS, c19TPS,
			c19TMyInt, c19TUnsafe, c19TRecvChan, c19TArray, c19TPPInt}
		outPool := paramPool[:15]
		// a value pool entry: type (-1 untyped nil), typed-nil flag
		type pv struct {
			t  int
			nl bool
		}
		pool := []pv{{-1, false}}
		for _, t := range concrete {
			pool = append(pool, pv{t, false})
		}
		for _, t := range nilConcrete {
			pool = append(pool, pv{t, true})
		}
		caseNo := 0
		runCase := func(c *c19Case, class string) {
			caseNo++
			h.count("cases_"+class, 1)
			c.run(h, fmt.Sprintf("%s%d", class, caseNo))
		}
		someOuts := func(c *c19Case, k int) {
			switch k % 3 {
			case 0:
				c.setOuts(nil, nil)
			case 1:
				c.setOuts([]int{c19TInt}, func(int) bool { return false })
			default:
				c.setOuts([]int{c19TError, c19TPInt}, func(j int) bool { return j == 0 })
			}
		}
		validTargets := func(c *c19Case) c19Opt {
			o := c19Opt{kind: 1}
			for _, t := range c.sig.outs {
				for q := 0; q < n; q++ {
					if c19Kind[q] == 8 && c19Elem[q] == t {
						o.vals = append(o.vals, c.val(q, false))
						break
					}
				}
			}
			return o
		}

		k := 0
		// ---- part=a2full (thorough tier): two arguments, every parameter type pair x every pool value pair ----
		if h.p("part", "all") == "a2full" {
			for _, pa := range paramPool {
				for _, pb := range paramPool {
					for _, x := range pool {
						for _, y := range pool {
							c := c19NewCase()
							k++
							if k%2 == 0 {
								c.sig.fixed = []int{pa, pb}
							} else {
								c.sig.fixed, c.sig.vari = []int{pa}, pb
							}
							c.setOuts(nil, nil)
							c.opts = []c19Opt{{kind: 0, vals: []c19Val{c.val(x.t, x.nl), c.val(y.t, y.nl)}}}
							runCase(c, "a2full_")
						}
					}
				}
			}
			h.line("EXHAUSTIVE arity 2 over the full pools")
			return
		}
		// ---- exhaustive, one argument: every parameter type x every pool value, plain and variadic ----
		for _, p := range paramPool {
			for _, a := range pool {
				for _, variadic := range []bool{false, true} {
					c := c19NewCase()
					if variadic {
						c.sig.vari = p
					} else {
						c.sig.fixed = []int{p}
					}
					k++
					someOuts(c, k)
					c.opts = []c19Opt{{kind: 0, vals: []c19Val{c.val(a.t, a.nl)}}}
					if len(c.sig.outs) > 0 && k%2 == 0 {
						c.opts = append(c.opts, validTargets(c))
					}
					runCase(c, "a1_")
				}
			}
		}
		// ---- exhaustive, one result: every result type x every pool value as CallResults / CallResultsSlice target ----
		for _, o := range outPool {
			for _, a := range pool {
				for kind := 1; kind <= 2; kind++ {
					for _, zero := range []bool{false, true} {
						if zero && (a.t < 0 || a.nl || c19Kind[a.t] != 8) {
							continue
						}
						c := c19NewCase()
						z := zero
						c.setOuts([]int{o}, func(int) bool { return z })
						c.opts = []c19Opt{{kind: 0}, {kind: kind, vals: []c19Val{c.val(a.t, a.nl)}}}
						runCase(c, "r1_")
					}
				}
			}
		}
		// ---- exhaustive, two arguments over reduced pools (fixed+fixed, fixed+variadic) ----
		if h.pi("a2", 1) != 0 {
			p2 := []int{c19TInt, c19TString, c19TPInt, c19TSliceInt, c19TError, c19TIface, c19TS, c19TRecvChan}
			a2 := []pv{{-1, false}, {c19TInt, false}, {c19TString, false}, {c19TPInt, false}, {c19TPInt, true}, {c19TSliceInt, false},
				{c19TPS, false}, {c19TS, false}, {c19TMyInt, false}, {c19TChan, false}, {c19TMap, true}, {c19TFunc, false}}
			for _, pa := range p2 {
				for _, pb := range p2 {
					for _, x := range a2 {
						for _, y := range a2 {
							c := c19NewCase()
							k++
							if k%2 == 0 {
								c.sig.fixed = []int{pa, pb}
							} else {
								c.sig.fixed, c.sig.vari = []int{pa}, pb
							}
							someOuts(c, k/2)
							c.opts = []c19Opt{{kind: 0, vals: []c19Val{c.val(x.t, x.nl), c.val(y.t, y.nl)}}}
							if len(c.sig.outs) > 0 {
								c.opts = append(c.opts, validTargets(c))
							}
							runCase(c, "a2_")
						}
					}
				}
			}
		}
		h.line("EXHAUSTIVE arity<=1 over the full pools, arity 2 over reduced pools")
		// ---- lengths: 0..3 arguments / targets against 0..2 (+variadic) parameters / results; CallArgs omitted ----
		for nf := 0; nf <= 2; nf++ {
			for _, variadic := range []bool{false, true} {
				for na := -1; na <= 4; na++ { // -1: no CallArgs option at all
					c := c19NewCase()
					for i := 0; i < nf; i++ {
						c.sig.fixed = append(c.sig.fixed, c19TInt)
					}
					if variadic {
						c.sig.vari = c19TPInt
					}
					c.setOuts([]int{c19TInt}, func(int) bool { return false })
					if na >= 0 {
						o := c19Opt{kind: 0}
						for i := 0; i < na; i++ {
							if i < nf {
								o.vals = append(o.vals, c.val(c19TInt, false))
							} else {
								o.vals = append(o.vals, c.val(c19TPInt, i%2 == 0))
							}
						}
						c.opts = append(c.opts, o)
					}
					c.opts = append(c.opts, validTargets(c))
					runCase(c, "len_")
				}
			}
		}
		for no := 0; no <= 3; no++ {
			for nt := 0; nt <= 4; nt++ {
				c := c19NewCase()
				outs := []int{c19TInt, c19TString, c19TError}[:no]
				c.setOuts(outs, func(j int) bool { return j == 2 })
				o := c19Opt{kind: 1}
				tg := []int{c19TPInt, c19TPString, c19TPError, c19TPIface}
				for i := 0; i < nt; i++ {
					o.vals = append(o.vals, c.val(tg[i], false))
				}
				c.opts = []c19Opt{o}
				runCase(c, "len_")
			}
		}
		// ---- many arguments to a variadic function (reflect.FuncOf accepts at most 128 inputs+outputs) ----
		for _, na := range []int{100, 127, 128, 129, 130, 200} {
			c := c19NewCase()
			c.sig.vari = c19TInt
			c.setOuts([]int{c19TInt}, func(int) bool { return false })
			o := c19Opt{kind: 0}
			for i := 0; i < na; i++ {
				o.vals = append(o.vals, c.val(c19TInt, false))
			}
			c.opts = []c19Opt{o, validTargets(c)}
			runCase(c, "many_")
		}

		// ---- seeded: arity 0..4, mostly valid, plus a malformed stream ----
		r := h.rng
		pick := func(l []int) int { return l[r.Intn(len(l))] }
		assignableTo := func(p int) []int { // concrete types assignable to p
			var l []int
			for _, t := range concrete {
				if c19Assign[t][p] {
					l = append(l, t)
				}
			}
			return l
		}
		targetsFor := func(o int) []int { // pointer types whose pointee accepts o
			var l []int
			for q := 0; q < n; q++ {
				if c19Kind[q] == 8 && c19Assign[o][c19Elem[q]] {
					l = append(l, q)
				}
			}
			return l
		}
		genCase := func(malformed bool) *c19Case {
			c := c19NewCase()
			for j, nf := 0, []int{0, 1, 1, 2, 2, 3, 4}[r.Intn(7)]; j < nf; j++ {
				c.sig.fixed = append(c.sig.fixed, pick(paramPool))
			}
			if r.Intn(10) < 3 {
				c.sig.vari = pick(paramPool)
			}
			var outs []int
			for j, no := 0, []int{0, 1, 1, 2, 3}[r.Intn(5)]; j < no; j++ {
				outs = append(outs, pick(outPool))
			}
			c.setOuts(outs, func(int) bool { return r.Intn(5) == 0 })
			genArgs := func(bad bool) c19Opt {
				o := c19Opt{kind: 0}
				ps := append([]int(nil), c.sig.fixed...)
				if c.sig.vari >= 0 {
					for j, e := 0, r.Intn(4); j < e; j++ {
						ps = append(ps, c.sig.vari)
					}
				}
				for _, p := range ps {
					cands := assignableTo(p)
					switch {
					case c19Nilable(p) && r.Intn(6) == 0:
						o.vals = append(o.vals, c.val(-1, false))
						h.count("gen_untyped_nil_for_nilable", 1)
					case len(cands) == 0:
						o.vals = append(o.vals, c.val(-1, false))
					default:
						t := pick(cands)
						o.vals = append(o.vals, c.val(t, c19Nilable(t) && r.Intn(6) == 0))
					}
				}
				if bad {
					switch r.Intn(4) {
					case 0:
						if len(o.vals) > 0 {
							o.vals = o.vals[:len(o.vals)-1]
						} else {
							o.vals = append(o.vals, c.val(c19TInt, false))
						}
					case 1:
						a := pool[r.Intn(len(pool))]
						o.vals = append(o.vals, c.val(a.t, a.nl))
					case 2:
						if len(o.vals) > 0 {
							a := pool[r.Intn(len(pool))]
							o.vals[r.Intn(len(o.vals))] = c.val(a.t, a.nl)
						}
					default:
						if len(o.vals) > 0 {
							o.vals[r.Intn(len(o.vals))] = c.val(-1, false)
						}
					}
				}
				return o
			}
			genResults := func(bad bool) c19Opt {
				if r.Intn(3) == 0 {
					o := c19Opt{kind: 2}
					t := []int{c19TPSliceIface, c19TPSliceIface, c19TPSliceError, c19TPSliceInt}[r.Intn(4)]
					if bad {
						a := pool[r.Intn(len(pool))]
						t = a.t
						o.vals = []c19Val{c.val(t, a.nl)}
					} else {
						o.vals = []c19Val{c.val(t, false)}
					}
					return o
				}
				o := c19Opt{kind: 1}
				for _, t := range c.sig.outs {
					o.vals = append(o.vals, c.val(pick(targetsFor(t)), false))
				}
				if bad {
					switch r.Intn(4) {
					case 0:
						if len(o.vals) > 0 {
							o.vals = o.vals[:len(o.vals)-1]
						} else {
							o.vals = append(o.vals, c.val(c19TPInt, false))
						}
					case 1:
						o.vals = append(o.vals, c.val(c19TPIface, false))
					case 2:
						if len(o.vals) > 0 {
							a := pool[r.Intn(len(pool))]
							o.vals[r.Intn(len(o.vals))] = c.val(a.t, a.nl)
						}
					default:
						if len(o.vals) > 0 {
							j := r.Intn(len(o.vals))
							if r.Intn(2) == 0 {
								o.vals[j] = c.val(-1, false)
							} else {
								o.vals[j] = c.val(o.vals[j].ty, true)
							}
						}
					}
				}
				return o
			}
			badArgs, badRes := false, false
			if malformed {
				if r.Intn(2) == 0 {
					badArgs = true
				} else {
					badRes = true
				}
			}
			withArgs := r.Intn(12) != 0 // sometimes CallArgs is omitted altogether
			withRes := r.Intn(5) != 0
			if badRes {
				withRes = true
			}
			if withArgs && r.Intn(10) == 0 { // an earlier CallArgs that a later one overrides
				c.opts = append(c.opts, genArgs(false))
			}
			if withRes && r.Intn(2) == 0 {
				c.opts = append(c.opts, genResults(badRes))
				withRes = false
			}
			if withArgs {
				c.opts = append(c.opts, genArgs(badArgs))
			}
			if withRes {
				c.opts = append(c.opts, genResults(badRes))
			}
			if r.Intn(15) == 0 { // a second results option: the last one wins, the first must stay untouched
				c.opts = append(c.opts, genResults(false))
			}
			return c
		}
		for i := 0; i < h.n; i++ {
			if malformed := r.Intn(4) == 0; malformed {
				runCase(genCase(true), "bad_")
			} else {
				runCase(genCase(false), "gen_")
			}
		}

		// ---- option reuse, seeded: the option values of a case are built once and applied to the case's own signature,
		// then to a different one (another arity / parameter type / variadic-ness / results), then to the original again ----
		mutateSig := func(s c19Sig) c19Sig {
			m := c19Sig{fixed: append([]int(nil), s.fixed...), vari: s.vari, outs: append([]int(nil), s.outs...)}
			switch k := r.Intn(6); {
			case k == 0 && len(m.fixed) > 0:
				m.fixed[r.Intn(len(m.fixed))] = pick(paramPool)
			case k == 1 && len(m.fixed) > 0:
				m.fixed = m.fixed[:len(m.fixed)-1]
			case k == 2:
				m.fixed = append(m.fixed, pick(paramPool))
			case k == 3:
				if m.vari >= 0 {
					m.vari = -1
				} else {
					m.vari = pick(paramPool)
				}
			case k == 4 && len(m.outs) > 0:
				m.outs[r.Intn(len(m.outs))] = pick(outPool)
			case k == 5 && len(m.outs) > 0:
				m.outs = m.outs[:len(m.outs)-1]
			default:
				m.fixed = append([]int{pick(paramPool)}, m.fixed...)
			}
			return m
		}
		applySeq := func(c *c19Case, sigs []c19Sig, class string) {
			b := c.build()
			for k, sg := range sigs {
				if k > 0 {
					b.resetTargets()
				}
				c.sig = sg
				c.setOuts(sg.outs, func(int) bool { return r.Intn(5) == 0 })
				c.note = fmt.Sprintf(" [the same option values, application %d of %d]", k+1, len(sigs))
				caseNo++
				h.count("cases_"+class, 1)
				c.apply(h, fmt.Sprintf("%s%d", class, caseNo), b)
			}
		}
		if h.pi("reuse", 1) != 0 {
			for i := 0; i < h.n/3+1; i++ {
				c := genCase(r.Intn(8) == 0)
				a := c.sig
				m := mutateSig(a)
				if r.Intn(4) == 0 {
					applySeq(c, []c19Sig{a, m, mutateSig(m)}, "reuse_")
				} else {
					applySeq(c, []c19Sig{a, m, a}, "reuse_")
				}
			}
			// ---- option reuse, exhaustive: every ordered pair of the arity-1 / arity-2 signatures over the reduced pool
			// (plus the variadic one-parameter ones); CallArgs is built once with arguments that suit the first signature
			// (tagged values, and untyped nil wherever it is acceptable) and applied to the first, then to the second ----
			p2 := []int{c19TInt, c19TString, c19TPInt, c19TSliceInt, c19TError, c19TIface, c19TS, c19TRecvChan}
			var sigs []c19Sig
			for _, pa := range p2 {
				sigs = append(sigs, c19Sig{fixed: []int{pa}, vari: -1}, c19Sig{vari: pa})
				for _, pb := range p2 {
					sigs = append(sigs, c19Sig{fixed: []int{pa, pb}, vari: -1})
				}
			}
			for _, s1 := range sigs {
				ps := append([]int(nil), s1.fixed...)
				if s1.vari >= 0 {
					ps = append(ps, s1.vari)
				}
				anyNilable := false
				for _, p := range ps {
					anyNilable = anyNilable || c19Nilable(p)
				}
				for _, s2 := range sigs {
					for variant := 0; variant < 2; variant++ {
						if variant == 1 && !anyNilable {
							continue
						}
						c := c19NewCase()
						o := c19Opt{kind: 0}
						for _, p := range ps {
							if variant == 1 && c19Nilable(p) {
								o.vals = append(o.vals, c.val(-1, false))
							} else {
								o.vals = append(o.vals, c.val(c19DynRep[p], false))
							}
						}
						c.opts = []c19Opt{o}
						applySeq(c, []c19Sig{s1, s2}, "pair_")
					}
				}
			}
			h.line("EXHAUSTIVE option reuse over ordered pairs of the arity<=2 signatures of the reduced pool")
		}

		// ---- a compiled function with 129 results (reflect.FuncOf cannot build a results thunk for it): no results option
		// works, CallResults / CallResultsSlice must give an error ----
		if h.pi("res129", 1) != 0 {
			for kind := 0; kind <= 2; kind++ {
				c := c19NewCase()
				c.fn, c.fnInv = reflect.ValueOf(c19F129), &c19F129Inv
				outs := make([]int, 129)
				c.sig.outs = outs // all int
				c.outIDs = make([]int, 129)
				for j := range c.outIDs {
					c.outIDs[j] = j + 1
				}
				c.nextID = 200
				switch kind {
				case 1:
					o := c19Opt{kind: 1}
					for j := 0; j < 129; j++ {
						o.vals = append(o.vals, c.val(c19TPInt, false))
					}
					c.opts = []c19Opt{o}
				case 2:
					c.opts = []c19Opt{{kind: 2, vals: []c19Val{c.val(c19TPSliceInt, false)}}}
				}
				runCase(c, "res129_")
			}
		}
	})
}

var c19F129Inv int

// c19F129 returns its 129 results tagged 1..129
func c19F129() (int, int, int, int, int, int, int, int, int, int, int, int, int, int, int, int,
	int, int, int, int, int, int, int, int, int, int, int, int, int, int, int, int,
	int, int, int, int, int, int, int, int, int, int, int, int, int, int, int, int,
	int, int, int, int, int, int, int, int, int, int, int, int, int, int, int, int,
	int, int, int, int, int, int, int, int, int, int, int, int, int, int, int, int,
	int, int, int, int, int, int, int, int, int, int, int, int, int, int, int, int,
	int, int, int, int, int, int, int, int, int, int, int, int, int, int, int, int,
	int, int, int, int, int, int, int, int, int, int, int, int, int, int, int, int, int) {
	c19F129Inv++
	return 1, 2, 3, 4, 5, 6, 7, 8, 9, 10, 11, 12, 13, 14, 15, 16,
		17, 18, 19, 20, 21, 22, 23, 24, 25, 26, 27, 28, 29, 30, 31, 32,
		33, 34, 35, 36, 37, 38, 39, 40, 41, 42, 43, 44, 45, 46, 47, 48,
		49, 50, 51, 52, 53, 54, 55, 56, 57, 58, 59, 60, 61, 62, 63, 64,
		65, 66, 67, 68, 69, 70, 71, 72, 73, 74, 75, 76, 77, 78, 79, 80,
		81, 82, 83, 84, 85, 86, 87, 88, 89, 90, 91, 92, 93, 94, 95, 96,
		97, 98, 99, 100, 101, 102, 103, 104, 105, 106, 107, 108, 109, 110, 111, 112,
		113, 114, 115, 116, 117, 118, 119, 120, 121, 122, 123, 124, 125, 126, 127, 128, 129
}
