//go:build verif

package bigbuff

// C04TRACE: trace acceptance for the cleaner / cooldown-timer protocol model (Model/CleanerProto.v).  On an INSTRUMENTED build
// the synchronisation points of buffer.go and sync.go announce themselves (with the goroutine that executes them) while a
// Buffer is used by a producer and a consumer that keeps up; afterwards the goroutines are classified by what they did - the
// cleaner is the goroutine that parks in cond.Wait, a cooldown timer is a goroutine (other than the cleaner) that takes the
// inner mutex of Buffer.cleanup, everybody else is the environment - and the log is rewritten in the model's vocabulary:
//
//	10 the cleaner is about to take b.mutex for the first time   11 the cleaner enters cleanup(d) (inner mutex.Lock)
//	12 the cleaner is about to cond.Wait()                        20 a timer goroutine is about to <-timer.C
//	21 a timer goroutine is about to b.mutex.Lock()               22 a timer goroutine is about to take the inner mutex
//	 1 an external state change broadcasts (it holds b.mutex)
//
//	F cleaner_trace <id> <cooldown_pos> <nchg> <nev> (<kind>)*nev | 1
//
// decided by checker/ad_cleanerproto.ml against the extracted CleanerProto.step; the implementation has gone quiet when the log
// ends, so the model must be able to be in a terminal state there.  The points are found in the instrumenter's table by what
// they do (operation and callee expression), not by line.

import (
	"bufio"
	"context"
	"os"
	"runtime"
	"strconv"
	"strings"
	"sync"
	"time"
)

type ctPoint struct{ file, op, expr string }

type ctEvent struct {
	gid int
	pt  ctPoint
}

type ctPolicy struct {
	pts map[int]ctPoint
	mu  sync.Mutex
	ev  []ctEvent
}

func curGID() int {
	var buf [64]byte
	n := runtime.Stack(buf[:], false)
	f := strings.Fields(string(buf[:n]))
	if len(f) >= 2 {
		if v, err := strconv.Atoi(f[1]); err == nil {
			return v
		}
	}
	return -1
}

func (p *ctPolicy) at(id int) {
	pt, ok := p.pts[id]
	if !ok || (pt.file != "buffer.go" && pt.file != "sync.go") {
		return
	}
	g := curGID()
	p.mu.Lock()
	p.ev = append(p.ev, ctEvent{g, pt})
	n := len(p.ev)
	p.mu.Unlock()
	switch n % 7 {
	case 0:
		time.Sleep(time.Duration(n%5) * 30 * time.Microsecond)
	case 1, 2, 3:
		runtime.Gosched()
	}
}

func ctLoadPoints(path string) map[int]ctPoint {
	f, err := os.Open(path)
	if err != nil {
		return nil
	}
	defer f.Close()
	m := map[int]ctPoint{}
	sc := bufio.NewScanner(f)
	for sc.Scan() {
		w := strings.Fields(sc.Text())
		if len(w) < 5 {
			continue
		}
		id, err := strconv.Atoi(w[0])
		if err != nil {
			continue
		}
		// "file" is a role, decided by the function the point is in (so that moving functions between files changes nothing):
		// the methods of Buffer are "buffer.go", WaitCond is "sync.go"
		file := strings.SplitN(w[1], ":", 2)[0]
		for _, x := range w[5:] {
			if strings.HasPrefix(x, "fn=") {
				switch fn := x[3:]; {
				case strings.HasPrefix(fn, "Buffer."):
					file = "buffer.go"
				case fn == "WaitCond":
					file = "sync.go"
				default:
					file = "-"
				}
			}
		}
		m[id] = ctPoint{file: file, op: w[3], expr: w[4]}
	}
	return m
}

func init() {
	register("C04TRACE", func(h *hctx) {
		pts := ctLoadPoints(h.p("ptfile", ""))
		if !instrumented() {
			h.line("STAT c04trace_not_run 1")
			return
		}
		if len(pts) == 0 {
			h.line("INCONCLUSIVE C04 trace: no point table")
			return
		}
		quiesce(200*time.Microsecond, 2*time.Second)
		for i := 0; i < h.n; i++ {
			if !ctTraceCase(h, i, pts) {
				return
			}
		}
	})
}

func ctTraceCase(h *hctx, id int, pts map[int]ctPoint) bool {
	rng := h.rng
	cd := time.Duration(0)
	if rng.Intn(4) != 0 {
		cd = time.Duration(200+rng.Intn(1500)) * time.Microsecond
	}
	// nothing of an earlier Buffer may still be running (a cooldown timer goroutine outlives Close by up to one cooldown and
	// would announce its points into this case's log)
	if n, ok := waitLibBaseline(0, 2*time.Second); !ok {
		h.line("STAT c04trace_skipped_library_goroutines_left %d", n)
		return true
	}
	pol := &ctPolicy{pts: pts}
	b := new(Buffer)
	*fld[*CleanerConfig](b, "cleaner") = &CleanerConfig{Cleaner: DefaultCleaner, Cooldown: cd}
	setPolicy(pol)
	c, err := b.NewConsumer() // first use: starts the cleaner; an external change itself
	if err != nil {
		setPolicy(nil)
		h.line("MONITOR C04 trace case %d: NewConsumer failed: %v", id, err)
		return false
	}
	nput := 1 + rng.Intn(5)
	for k := 0; k < nput; k++ {
		_ = b.Put(context.Background(), k)
		if rng.Intn(2) == 0 {
			if _, err := c.Get(context.Background()); err == nil { // the value is there: no parking
				_ = c.Commit()
			}
		}
		switch rng.Intn(3) {
		case 0:
			time.Sleep(time.Duration(rng.Intn(int(cd/time.Microsecond)*2+50)) * time.Microsecond)
		case 1:
			runtime.Gosched()
		}
	}
	// go quiet: every cooldown window has closed, the cleaner is parked
	time.Sleep(3*cd + 300*time.Microsecond)
	quiesce(200*time.Microsecond, 2*time.Second)
	time.Sleep(2 * cd)
	quiesce(200*time.Microsecond, 2*time.Second)
	setPolicy(nil)
	pol.mu.Lock()
	ev := append([]ctEvent(nil), pol.ev...)
	pol.mu.Unlock()
	_ = c.Rollback()
	_ = c.Close()
	_ = b.Close()

	// classify the goroutines
	// the cleaner is the goroutine that parks in WaitCond's cond.Wait; the Buffer's own mutex is the first lock the cleaner takes
	// (Buffer.cleanup starts with it); any OTHER mutex locked in a method of Buffer is the cleaner's inner mutex - whatever the
	// variables are called (a closure variable `mutex`, a field of a state struct, ...)
	cleaner := -1
	for _, e := range ev {
		if e.pt.file == "sync.go" && e.pt.op == "Wait" {
			cleaner = e.gid
			break
		}
	}
	bufExpr := ""
	for _, e := range ev {
		if e.gid == cleaner && e.pt.file == "buffer.go" && e.pt.op == "Lock" {
			bufExpr = e.pt.expr
			break
		}
	}
	inner := map[int]bool{}
	for _, e := range ev {
		if bufExpr != "" && e.pt.file == "buffer.go" && e.pt.op == "Lock" && e.pt.expr != bufExpr {
			inner[e.gid] = true
		}
	}
	if cleaner < 0 || !inner[cleaner] {
		h.line("INCONCLUSIVE C04 trace: no goroutine both parked in cond.Wait and took an inner `mutex` of buffer.go (case %d): the cleaner goroutine cannot be identified in the instrumented source", id)
		return false
	}
	var out []int
	nchg := 0
	cleanerLocked := false
	for _, e := range ev {
		switch {
		case e.gid == cleaner:
			switch {
			case e.pt.file == "buffer.go" && e.pt.op == "Lock" && e.pt.expr == bufExpr && !cleanerLocked:
				cleanerLocked = true
				out = append(out, 10)
			case e.pt.file == "buffer.go" && e.pt.op == "Lock" && e.pt.expr != bufExpr:
				out = append(out, 11)
			case e.pt.file == "sync.go" && e.pt.op == "Wait":
				out = append(out, 12)
			}
		case inner[e.gid]: // a cooldown timer goroutine
			switch {
			case e.pt.file == "buffer.go" && e.pt.op == "recv":
				out = append(out, 20)
			case e.pt.file == "buffer.go" && e.pt.op == "Lock" && e.pt.expr == bufExpr:
				out = append(out, 21)
			case e.pt.file == "buffer.go" && e.pt.op == "Lock" && e.pt.expr != bufExpr:
				out = append(out, 22)
			}
		default:
			if e.pt.file == "buffer.go" && e.pt.op == "Broadcast" {
				out = append(out, 1)
				nchg++
			}
		}
	}
	args := append([]int{boolInt(cd > 0), nchg, len(out)}, out...)
	h.line("F cleaner_trace t-%d-%d %s | 1", h.seed, id, ints(args))
	h.count("c04trace_cases", 1)
	h.count("c04trace_events", len(out))
	h.count("c04trace_timer_goroutines", len(inner)-1)
	return true
}

// ---------------------------------------------------------------------------------------------------------------
// C04BIG: reclamation does not depend on how long the consumed prefix is.  Several thousand values are put, read and
// committed in one go (or the slowest of two consumers, thousands of values behind, is closed) as the LAST state change; then
// nothing happens any more: the whole prefix must be gone after the cooldown (one run of cleanupLogic removes it, the
// cleaner's own broadcast cannot trigger a second one).
// ---------------------------------------------------------------------------------------------------------------
func init() {
	register("C04BIG", func(h *hctx) {
		for i := 0; i < h.n; i++ {
			cd := time.Duration(0)
			if i%2 == 1 {
				cd = time.Duration(1+h.rng.Intn(3)) * time.Millisecond
			}
			total := 4500 + h.rng.Intn(9000)
			b := new(Buffer)
			*fld[*CleanerConfig](b, "cleaner") = &CleanerConfig{Cleaner: DefaultCleaner, Cooldown: cd}
			fast, err1 := b.NewConsumer()
			slow, err2 := b.NewConsumer()
			if err1 != nil || err2 != nil {
				h.line("MONITOR C04 big case %d: NewConsumer failed", i)
				return
			}
			vals := make([]interface{}, total)
			for k := range vals {
				vals[k] = k
			}
			_ = b.Put(context.Background(), vals...)
			for k := 0; k < total; k++ {
				if _, err := fast.Get(context.Background()); err != nil {
					h.line("MONITOR C04 big case %d: Get %d failed: %v", i, k, err)
					return
				}
			}
			_ = fast.Commit()
			variant := i % 4 / 2 // 0: the slow consumer reads and commits everything at once; 1: the slow consumer is closed
			if variant == 0 {
				for k := 0; k < total; k++ {
					_, _ = slow.Get(context.Background())
				}
				_ = slow.Commit()
			} else {
				_ = slow.Close()
			}
			// quiet from here on
			deadline := time.Now().Add(2*cd + 300*time.Millisecond)
			for b.Size() != 0 && time.Now().Before(deadline) {
				time.Sleep(200 * time.Microsecond)
			}
			if n := b.Size(); n != 0 {
				h.line("MONITOR C04 %d of %d values that every open consumer has committed past are still held %v after the last state change (cooldown %v, %s)", n, total, 2*cd+300*time.Millisecond, cd, []string{"both consumers committed everything", "the slowest consumer was closed"}[variant])
			}
			_ = fast.Close()
			if variant == 0 {
				_ = slow.Close()
			}
			_ = b.Close()
			h.count("c04big_cases", 1)
		}
	})
}
