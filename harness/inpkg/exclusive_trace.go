//go:build verif

package bigbuff

// C09TRACE (stage of C09 and C10): trace acceptance for the Exclusive protocol models (Model/ExclusiveVal.v, which runs the
// counter protocol `cstep` of Model/ExclusiveAbs.v unchanged and tracks every blocking/async call).  On an INSTRUMENTED build
// every synchronisation point of exclusive.go announces itself through verifP; while 1-4 goroutines make 1-6 calls of all
// styles on ONE key, the scenario logs, in the order they happen and with the goroutine that executes them,
//
//	 1 EL    about to lock the map mutex (<receiver>.<f>.Lock)   2 EU    about to unlock it
//	 3 IL    about to lock an item mutex (<x>.<f>.Lock)          4 IU    about to unlock it
//	 5 CW    about to cond.Wait()                                6 CB    about to cond.Broadcast()     7 CS  about to cond.Signal()
//	 8 SEND  about to send on the outcome channel                9 CLOSE about to close it
//	10 GO    about to execute the go statement                  11 SLEEP about to time.Sleep (the CallAfter wait)
//	12 DO    about to once.Do (a call of resolve)
//	20 SPAWNED parent        first record of a goroutine: the goroutine that created it (index, -1 unknown)
//	30 CALL c flags          the harness is about to make call c (flags: 1 start-style, 2 work-style function)
//	31 RET c isnil           the call returned its channel (start-style: nil)
//	32 WSTART f              the function supplied by call f was entered
//	33 RESOLVE f x           ... is about to call resolve with the value x (value-style functions: about to return x)
//	35 WRET f                ... is about to return (work-style functions only)
//	36 OUTCOME c v           the caller of c has received v (0 errResolveNotCalled, -1 anything unexpected)
//	40 END maplen            everything has finished, no library goroutine is left; len(e.work)
//
//	F excl_trace <id> <seed> <case> <ncalls> (<flags>)*ncalls <nev> (<goroutine> <kind> <a> <b>)*nev | 1
//
// decided by checker/ad_excltrace.ml against the extracted ExclusiveVal.vstep / ExclusiveAbs.step.  The points are found in
// the instrumenter's table by what they do (operation and callee expression), never by line.

import (
	"bufio"
	"math/rand"
	"os"
	"reflect"
	"runtime"
	"strconv"
	"strings"
	"sync"
	"time"
)

const (
	xtEL      = 1
	xtEU      = 2
	xtIL      = 3
	xtIU      = 4
	xtCW      = 5
	xtCB      = 6
	xtCS      = 7
	xtSEND    = 8
	xtCLOSE   = 9
	xtGO      = 10
	xtSLEEP   = 11
	xtDO      = 12
	xtSPAWNED = 20
	xtCALL    = 30
	xtRET     = 31
	xtWSTART  = 32
	xtRESOLVE = 33
	xtWRET    = 35
	xtOUTCOME = 36
	xtEND     = 40
)

// xtSources: the instrumented copies of the library's files (they are next to the point table).
func xtSources(ptfile string) []string {
	i := strings.LastIndexByte(ptfile, '/')
	if i < 0 {
		return nil
	}
	ents, err := os.ReadDir(ptfile[:i])
	if err != nil {
		return nil
	}
	var out []string
	for _, e := range ents {
		if strings.HasSuffix(e.Name(), ".go") {
			if src, err := os.ReadFile(ptfile[:i+1] + e.Name()); err == nil {
				out = append(out, string(src))
			}
		}
	}
	return out
}

// xtMethod: receiver name and receiver type (without * and type parameters) of a top-level `func (r *T) ...` line.
func xtMethod(ln string) (name, typ string, ok bool) {
	if !strings.HasPrefix(ln, "func (") {
		return "", "", false
	}
	w := strings.Fields(strings.TrimPrefix(ln, "func ("))
	if len(w) < 2 {
		return "", "", false
	}
	t := strings.TrimPrefix(w[1], "*")
	if j := strings.IndexAny(t, ")["); j >= 0 {
		t = t[:j]
	}
	return w[0], t, true
}

// the call protocol lives in methods of these types; the option constructors (ExclusiveRateLimit's wrapper among them) are
// plain functions and are not part of it
func xtProtocolType(t string) bool { return t == "Exclusive" || t == "exclusiveItem" }

// xtLoadPoints classifies the points of the Exclusive call protocol by what they do.  A point belongs to the protocol if its
// enclosing function (field fn= of the table) is a method of Exclusive or of its item - whichever file it lives in; a table
// without that field is read by file name (exclusive.go).  problem != "": the protocol uses a synchronisation operation the
// model has no step for, or lacks one it has a step for.
func xtLoadPoints(path string) (kinds map[int]int, problem string) {
	f, err := os.Open(path)
	if err != nil {
		return nil, "no point table"
	}
	defer f.Close()
	// the map mutex is the mutex reached through a receiver of type *Exclusive (whatever the receiver is called)
	recv := map[string]bool{}
	for _, src := range xtSources(path) {
		for _, ln := range strings.Split(src, "\n") {
			if name, typ, ok := xtMethod(ln); ok && typ == "Exclusive" {
				recv[name] = true
			}
		}
	}
	if len(recv) == 0 {
		return nil, "no method of Exclusive found in the instrumented copy of the library"
	}
	kinds = map[int]int{}
	have := map[int]int{}
	sc := bufio.NewScanner(f)
	for sc.Scan() {
		w := strings.Fields(sc.Text())
		if len(w) < 5 {
			continue
		}
		fn := ""
		for _, x := range w[5:] {
			if strings.HasPrefix(x, "fn=") {
				fn = x[3:]
			}
		}
		if fn != "" {
			if j := strings.IndexByte(fn, '.'); j < 0 || !xtProtocolType(fn[:j]) {
				continue
			}
		} else if !strings.HasPrefix(w[1], "exclusive.go:") {
			continue
		}
		id, err := strconv.Atoi(w[0])
		if err != nil {
			continue
		}
		op, expr := w[3], w[4]
		k := 0
		switch op {
		case "Lock", "Unlock":
			parts := strings.Split(expr, ".")
			switch {
			case len(parts) == 3 && recv[parts[0]]:
				k = xtEL
			case len(parts) == 3:
				k = xtIL
			default:
				return nil, "a " + op + " of `" + expr + "` that is neither the map mutex (<receiver>.<field>) nor an item mutex (<item>.<field>)"
			}
			if op == "Unlock" {
				k++
			}
		case "Wait":
			k = xtCW
		case "Broadcast":
			k = xtCB
		case "Signal":
			k = xtCS
		case "send":
			k = xtSEND
		case "close":
			k = xtCLOSE
		case "go":
			k = xtGO
		case "Sleep":
			k = xtSLEEP
		case "Do":
			k = xtDO
		case "recv":
			// CallAfter's receive of its own outcome (made by the caller after the call proper has returned its channel)
			continue
		case "Err", "NewTimer", "select", "Add", "Done":
			if fn == "" {
				continue // a table without function names: these are the ExclusiveRateLimit wrapper (not used by the scenario)
			}
			return nil, "a synchronisation operation the Exclusive model has no step for: " + op + " " + expr + " in " + fn
		default:
			return nil, "a synchronisation operation the Exclusive model has no step for: " + op + " " + expr
		}
		kinds[id] = k
		have[k]++
	}
	names := map[int]string{xtEL: "Lock of the map mutex", xtEU: "Unlock of the map mutex", xtIL: "item mutex Lock", xtIU: "item mutex Unlock",
		xtCW: "cond.Wait", xtCB: "cond.Broadcast", xtSEND: "channel send", xtCLOSE: "close", xtGO: "go statement", xtDO: "once.Do"}
	for _, k := range []int{xtEL, xtEU, xtIL, xtIU, xtCW, xtCB, xtSEND, xtCLOSE, xtGO, xtDO} {
		if have[k] == 0 {
			return nil, "no " + names[k] + " in the methods of Exclusive"
		}
	}
	return kinds, ""
}

// xtDeferred: the instrumenter announces a point before the STATEMENT that performs it; a synchronisation operation that is the
// operand of a defer statement (`defer e.mutex.Unlock()`) is executed at the function's return without an announcement, so a
// protocol written that way cannot be followed point by point (operations inside a deferred function literal are announced).
func xtDeferred(ptfile string) string {
	srcs := xtSources(ptfile)
	if len(srcs) == 0 {
		return "the instrumented copy of the library cannot be read"
	}
	for _, src := range srcs {
		in := false
		for _, ln := range strings.Split(src, "\n") {
			if strings.HasPrefix(ln, "func ") {
				_, typ, ok := xtMethod(ln)
				in = ok && xtProtocolType(typ)
			}
			t := strings.TrimSpace(ln)
			if !in || !strings.HasPrefix(t, "defer ") || strings.HasPrefix(t, "defer func") {
				continue
			}
			for _, op := range []string{".Lock()", ".Unlock()", ".Wait()", ".Broadcast()", ".Signal()", ".Do(", "close("} {
				if strings.Contains(t, op) {
					return "a method of Exclusive defers a synchronisation operation (`" + t + "`), which is executed without an announcement"
				}
			}
		}
	}
	return ""
}

// xtLive: the number of goroutines (other than the calling one) that are executing, or were created by, a method of
// Exclusive - found by function name in a goroutine dump, so it does not depend on which file the methods live in.
func xtLive() int {
	buf := make([]byte, 256<<10)
	for {
		n := runtime.Stack(buf, true)
		if n < len(buf) {
			buf = buf[:n]
			break
		}
		buf = make([]byte, 2*len(buf))
	}
	live := 0
	for i, b := range strings.Split(string(buf), "\n\n") {
		if i > 0 && (strings.Contains(b, ".(*Exclusive).") || strings.Contains(b, ".(*exclusiveItem).")) {
			live++
		}
	}
	return live
}

func xtWaitGone(deadline time.Duration) (int, bool) {
	end := time.Now().Add(deadline)
	n := xtLive()
	for n > 0 && time.Now().Before(end) {
		time.Sleep(300 * time.Microsecond)
		n = xtLive()
	}
	return n, n == 0
}

type xtLog struct {
	mu    sync.Mutex
	kinds map[int]int
	gids  map[int]int
	ev    []int
	rng   *rand.Rand
	noise bool
}

func xtGID(buf []byte) int {
	f := strings.Fields(string(buf))
	if len(f) >= 2 {
		if v, err := strconv.Atoi(f[1]); err == nil {
			return v
		}
	}
	return -1
}

// xtParent: the id of the goroutine that created the current one ("created by ... in goroutine N"), -1 if not printed.
func xtParent() int {
	buf := make([]byte, 16<<10)
	n := runtime.Stack(buf, false)
	s := string(buf[:n])
	i := strings.LastIndex(s, "created by ")
	if i < 0 {
		return -1
	}
	s = s[i:]
	if nl := strings.IndexByte(s, '\n'); nl >= 0 {
		s = s[:nl]
	}
	j := strings.LastIndex(s, " in goroutine ")
	if j < 0 {
		return -1
	}
	v, err := strconv.Atoi(strings.TrimSpace(s[j+len(" in goroutine "):]))
	if err != nil {
		return -1
	}
	return v
}

// add appends one record for the calling goroutine and then, to diversify the interleavings, yields or sleeps briefly.
func (l *xtLog) add(kind, a, b int) {
	var small [64]byte
	g := xtGID(small[:runtime.Stack(small[:], false)])
	l.mu.Lock()
	idx, ok := l.gids[g]
	if !ok {
		idx = len(l.gids)
		l.gids[g] = idx
		par := -1
		if p, ok := l.gids[xtParent()]; ok {
			par = p
		}
		l.ev = append(l.ev, idx, xtSPAWNED, par, 0)
	}
	l.ev = append(l.ev, idx, kind, a, b)
	r, d := 8, time.Duration(0)
	if l.noise {
		r = l.rng.Intn(8)
		d = time.Duration(l.rng.Intn(150)) * time.Microsecond
	}
	l.mu.Unlock()
	switch {
	case r < 2:
		time.Sleep(d)
	case r < 5:
		runtime.Gosched()
	}
}

func (l *xtLog) at(id int) {
	if k, ok := l.kinds[id]; ok {
		l.add(k, 0, 0)
	}
}

const (
	xsCall = iota
	xsCallAfter
	xsCallAsync
	xsCallAfterAsync
	xsStart
	xsStartAfter
	xsOptValue     // CallWithOptions(ExclusiveKey, ExclusiveValue, ExclusiveWait)
	xsOptWork      // CallWithOptions(ExclusiveKey, ExclusiveWork, ExclusiveWait)
	xsOptWorkStart // ... + ExclusiveStart(true)
	xsN
)

const (
	xmResolveReturn = iota // resolve, return
	xmNoResolve            // return without resolving
	xmAsyncWait            // another goroutine resolves; the function returns after it has
	xmAsyncRace            // another goroutine resolves; the function returns at once
	xmTwice                // resolve twice (the second is ignored), return
	xmLinger               // resolve, stay a while, return
	xmN
)

type xtCall struct {
	id, style, mode int
	wait, pre       time.Duration
	d1, d2          time.Duration
}

func (c *xtCall) start() bool {
	return c.style == xsStart || c.style == xsStartAfter || c.style == xsOptWorkStart
}
func (c *xtCall) workStyle() bool {
	return c.style == xsOptWork || c.style == xsOptWorkStart
}
func (c *xtCall) flags() int { return boolInt(c.start()) + 2*boolInt(c.workStyle()) }

func xtCode(r interface{}, err error) int {
	if err == errResolveNotCalled && r == nil {
		return 0
	}
	if v, ok := r.(int); ok && err == nil && v >= 1 {
		return v
	}
	return -1
}

func xtSleep(d time.Duration) {
	if d > 0 {
		time.Sleep(d)
	}
}

func init() {
	register("C09TRACE", func(h *hctx) {
		if !instrumented() {
			h.line("STAT c09trace_not_run 1")
			return
		}
		kinds, problem := xtLoadPoints(h.p("ptfile", ""))
		if problem == "" {
			problem = xtDeferred(h.p("ptfile", ""))
		}
		if problem != "" {
			h.line("INCONCLUSIVE C09/C10 trace: %s: the control flow of Exclusive.call cannot be mapped to the steps of the Exclusive protocol model", problem)
			return
		}
		quiesce(200*time.Microsecond, 2*time.Second)
		for i := 0; i < h.n; i++ {
			if !xtCase(h, i, kinds) {
				return
			}
		}
	})
}

func xtCase(h *hctx, id int, kinds map[int]int) bool {
	rng := h.rng
	if n, ok := xtWaitGone(2 * time.Second); !ok {
		h.line("STAT c09trace_skipped_library_goroutines_left %d", n)
		return true
	}
	// the program: 1-4 caller goroutines, 1-6 calls in all
	ncallers := 1 + rng.Intn(4)
	var progs [][]*xtCall
	var calls []*xtCall
	for g := 0; g < ncallers; g++ {
		k := 1
		if rng.Intn(3) == 0 {
			k = 2
		}
		if len(calls)+k > 6 {
			k = 1
		}
		var p []*xtCall
		for j := 0; j < k; j++ {
			c := &xtCall{id: len(calls), style: rng.Intn(xsN)}
			if c.workStyle() {
				c.mode = rng.Intn(xmN)
			}
			switch c.style {
			case xsCallAfter, xsCallAfterAsync, xsStartAfter:
				c.wait = time.Duration(30+rng.Intn(400)) * time.Microsecond
			case xsOptValue, xsOptWork, xsOptWorkStart:
				if rng.Intn(2) == 0 {
					c.wait = time.Duration(30+rng.Intn(400)) * time.Microsecond
				}
			}
			if rng.Intn(2) == 0 {
				c.pre = time.Duration(rng.Intn(300)) * time.Microsecond
			}
			if rng.Intn(2) == 0 {
				c.d1 = time.Duration(rng.Intn(300)) * time.Microsecond
			}
			if rng.Intn(2) == 0 {
				c.d2 = time.Duration(rng.Intn(300)) * time.Microsecond
			}
			p = append(p, c)
			calls = append(calls, c)
		}
		progs = append(progs, p)
	}
	lg := &xtLog{kinds: kinds, gids: map[int]int{}, rng: rand.New(rand.NewSource(rng.Int63())), noise: rng.Intn(8) != 0}
	e := new(Exclusive)
	const key = "k"
	var aux sync.WaitGroup // goroutines started by work functions
	var monMu sync.Mutex
	var monitors []string
	monitor := func(s string) { monMu.Lock(); monitors = append(monitors, s); monMu.Unlock() }

	value := func(c *xtCall) func() (interface{}, error) {
		return func() (interface{}, error) {
			lg.add(xtWSTART, c.id, 0)
			xtSleep(c.d1)
			x := 10 * (c.id + 1)
			lg.add(xtRESOLVE, c.id, x)
			return x, nil
		}
	}
	work := func(c *xtCall) WorkFunc {
		return func(resolve func(interface{}, error)) {
			lg.add(xtWSTART, c.id, 0)
			xtSleep(c.d1)
			x := 10 * (c.id + 1)
			switch c.mode {
			case xmResolveReturn:
				lg.add(xtRESOLVE, c.id, x)
				resolve(x, nil)
			case xmNoResolve:
			case xmAsyncWait, xmAsyncRace:
				done := make(chan struct{})
				aux.Add(1)
				go func() {
					defer aux.Done()
					defer close(done)
					xtSleep(c.d2)
					lg.add(xtRESOLVE, c.id, x)
					resolve(x, nil)
				}()
				if c.mode == xmAsyncWait {
					<-done
				}
			case xmTwice:
				lg.add(xtRESOLVE, c.id, x)
				resolve(x, nil)
				lg.add(xtRESOLVE, c.id, x+1)
				resolve(x+1, nil)
			case xmLinger:
				lg.add(xtRESOLVE, c.id, x)
				resolve(x, nil)
				xtSleep(c.d2 + 50*time.Microsecond)
			}
			lg.add(xtWRET, c.id, 0)
		}
	}
	async := func(c *xtCall, ch <-chan *ExclusiveOutcome) {
		lg.add(xtRET, c.id, boolInt(ch == nil))
		if ch == nil {
			return
		}
		o := <-ch
		if o == nil {
			lg.add(xtOUTCOME, c.id, -1)
			return
		}
		lg.add(xtOUTCOME, c.id, xtCode(o.Result, o.Error))
		select {
		case o2, ok := <-ch:
			if ok || o2 != nil {
				monitor("the outcome channel of an asynchronous call yielded a second value")
			}
		case <-time.After(2 * time.Second):
			monitor("the outcome channel of an asynchronous call was not closed after its value")
		}
	}

	setPolicy(lg)
	var callers sync.WaitGroup
	for _, p := range progs {
		p := p
		callers.Add(1)
		go func() {
			defer callers.Done()
			for _, c := range p {
				xtSleep(c.pre)
				lg.add(xtCALL, c.id, c.flags())
				switch c.style {
				case xsCall:
					r, err := e.Call(key, value(c))
					lg.add(xtOUTCOME, c.id, xtCode(r, err))
				case xsCallAfter:
					r, err := e.CallAfter(key, value(c), c.wait)
					lg.add(xtOUTCOME, c.id, xtCode(r, err))
				case xsCallAsync:
					async(c, e.CallAsync(key, value(c)))
				case xsCallAfterAsync:
					async(c, e.CallAfterAsync(key, value(c), c.wait))
				case xsStart:
					e.Start(key, value(c))
					lg.add(xtRET, c.id, 1)
				case xsStartAfter:
					e.StartAfter(key, value(c), c.wait)
					lg.add(xtRET, c.id, 1)
				case xsOptValue:
					async(c, e.CallWithOptions(ExclusiveKey(key), ExclusiveValue(value(c)), ExclusiveWait(c.wait)))
				case xsOptWork:
					async(c, e.CallWithOptions(ExclusiveWait(c.wait), ExclusiveWork(work(c)), ExclusiveKey(key)))
				case xsOptWorkStart:
					async(c, e.CallWithOptions(ExclusiveKey(key), ExclusiveWork(work(c)), ExclusiveWait(c.wait), ExclusiveStart(true)))
				}
			}
		}()
	}
	finished := make(chan struct{})
	go func() {
		callers.Wait()
		// A start-style call returns before its function has run, and a function may start a resolving goroutine (aux) when it
		// runs: first wait for the library's goroutines to be gone (every runner has left its last section, so no function is
		// running or will be started), only then for the goroutines the functions started.
		xtWaitGone(3 * time.Second)
		aux.Wait()
		close(finished)
	}()
	hung := false
	select {
	case <-finished:
	case <-time.After(4 * time.Second):
		hung = true
	}
	left, gone := 0, true
	if !hung {
		left, gone = xtWaitGone(3 * time.Second)
	}
	setPolicy(nil)
	lg.mu.Lock()
	if !hung && gone {
		maplen := -1
		v := reflect.ValueOf(e).Elem()
		for i := 0; i < v.NumField(); i++ {
			if v.Field(i).Kind() == reflect.Map {
				maplen = v.Field(i).Len()
				break
			}
		}
		lg.ev = append(lg.ev, 0, xtEND, maplen, 0)
	}
	ev := append([]int(nil), lg.ev...)
	lg.mu.Unlock()
	args := []int{int(h.seed), id, len(calls)}
	for _, c := range calls {
		args = append(args, c.flags())
	}
	args = append(args, len(ev)/4)
	args = append(args, ev...)
	h.line("F excl_trace t-%d-%d %s | 1", h.seed, id, ints(args))
	h.count("c09trace_cases", 1)
	h.count("c09trace_events", len(ev)/4)
	h.count("c09trace_calls", len(calls))
	h.count("c09trace_goroutines", len(lg.gids))
	for _, m := range monitors {
		h.line("MONITOR C10 %s (trace case %d)", m, id)
	}
	if hung {
		h.line("MONITOR C10 a call on the key (or a goroutine resolving its work) had not finished 4 s after the last call was made: %d call(s) of one key, every work function returns by itself (trace case %d; the trace up to the hang is in the excl_trace record)", len(calls), id)
		return false
	}
	if !gone {
		h.line("MONITOR C10 %d library goroutine(s) left 3 s after every call was answered and every work function had returned (trace case %d)", left, id)
		return false
	}
	return true
}
