//go:build verif

package bigbuff

import (
	"errors"
	"fmt"
	"os"
	"reflect"
	"runtime"
	"sort"
	"sync"
	"sync/atomic"
	"time"
	"unsafe"
)

// C14 — Workers. Encoding shared with checker/ad_workers.ml.
//
// C14K1 (gated, quiescent): every user function blocks on a gate owned by the driver, so the driver decides when each
// function ends; caller goroutines wait for a token before each operation, so the driver decides when each operation is
// invoked. After every ACTION SET (one or several tokens / gate releases issued together, i.e. concurrently) the driver
// waits for quiescence and records an observation. One K1 record per case:
//
//	K1 workers <case> <cfg> # <op> ; <op> ; ... | 1 ; 1 ; ...
//	cfg   thread scripts separated by -1:  k>0 Call(k) | 0 Wait | -2 Count | -3 Call(0) (must panic)
//	op    na (ty arg)*na  count qlen libg  nrun tag*nrun  nthreads (nouts out*)*nthreads
//	      action ty 0: thread `arg` invokes its next operation; ty 1: the function with tag `arg` is released
//	      tag of the j-th operation of thread t = 100*t + j; the function of that call returns (tag, errs[tag%3])
//	      out: 0 tag value err (Call returned) | 1 (panicked) | 2 (Wait returned) | 3 n (Count)
//	out   1 = "some interleaving of the model's internal steps with these actions ends in a quiescent state with
//	      exactly this observation" (the adapter tracks the SET of model states compatible with the history so far)
//
// C14L (lock-queue choreography): forces the ORDER of three critical sections on Workers.mutex — last worker exits
// (count 0, Broadcast), a new Call spawns a worker, and only then the woken Wait re-acquires the mutex — and checks that
// Wait has not returned while that worker's function is still held by its gate. See c14WaitOrder.
//
// C14K2 (free-running bursts): many concurrent Calls with random counts, no gates; property monitors evaluated by the
// harness (MONITOR lines) plus one `F c14_burst` record per burst compared with the model's terminal state.

var c14Errs = [3]error{nil, errors.New("c14 error A"), errors.New("c14 error B")}

func c14ErrCode(err error) int {
	for i, e := range c14Errs {
		if err == e {
			return i
		}
	}
	return 9
}

func init() {
	// a hang is reported by a MONITOR line; after a few of them the scenario stops (every further case would spend its
	// whole deadline, and goroutines of the abandoned Workers values pile up)
	register("C14K1", func(h *hctx) {
		hangs := 0
		for i := 0; i < h.n && hangs < 3; i++ {
			if !c14GatedCase(h, i) {
				hangs++
			}
		}
	})
	register("C14L", func(h *hctx) {
		if !c14MutexLayoutOK() {
			h.count("c14l_skipped_mutex_layout", 1)
			return
		}
		hangs := 0
		for i := 0; i < h.n && hangs < 2; i++ {
			if !c14WaitOrderCase(h, i) {
				hangs++
			}
		}
	})
	register("C14K2", func(h *hctx) {
		hangs := 0
		for i := 0; i < h.n && hangs < 2; i++ {
			if !c14Burst(h, i) {
				hangs++
			}
		}
	})
}

// ---------------------------------------------------------------------------------------------------- C14K1

type c14Thread struct {
	script []int // cfg codes
	tok    chan struct{}
	outs   [][]int
	issued int
}

// c14GatedCase returns false when the case got stuck (strand / no quiescence).
func c14GatedCase(h *hctx, id int) bool {
	w := new(Workers)
	var mu sync.Mutex // guards outs, started, ended
	started := map[int]int{}
	ended := map[int]int{}
	gates := map[int]chan struct{}{}
	released := map[int]bool{}
	base := libGoroutineCount()

	// ---- program ----
	nthreads := 2 + h.rng.Intn(5)
	maxk := 1 + h.rng.Intn(4)
	shape := h.rng.Intn(5)        // 0 random counts, 1 uniform, 2/4 decreasing over time, 3 increasing
	buildUp := h.rng.Intn(2) == 0 // driver prefers invocations while any is possible: the queue fills behind gated functions
	threads := make([]*c14Thread, nthreads)
	seq := 0
	total := 0
	for t := range threads {
		th := &c14Thread{tok: make(chan struct{}, 8)}
		nops := 1 + h.rng.Intn(3)
		for j := 0; j < nops; j++ {
			r := h.rng.Intn(100)
			switch {
			case r < 72:
				k := 1 + h.rng.Intn(maxk)
				switch shape {
				case 1:
					k = maxk
				case 2, 4:
					k = maxk - seq
					if k < 1 {
						k = 1
					}
				case 3:
					k = 1 + seq
					if k > 5 {
						k = 5
					}
				}
				seq++
				th.script = append(th.script, k)
				gates[100*t+j] = make(chan struct{})
				h.count("op_call", 1)
			case r < 84:
				th.script = append(th.script, 0)
				h.count("op_wait", 1)
			case r < 97:
				th.script = append(th.script, -2)
				h.count("op_count", 1)
			default:
				th.script = append(th.script, -3)
				h.count("op_call0", 1)
			}
			total++
		}
		threads[t] = th
	}
	var cfg []int
	for t, th := range threads {
		if t > 0 {
			cfg = append(cfg, -1)
		}
		cfg = append(cfg, th.script...)
	}

	// ---- caller goroutines ----
	for t, th := range threads {
		go func(t int, th *c14Thread) {
			for j, code := range th.script {
				<-th.tok
				var out []int
				switch {
				case code > 0:
					tag := 100*t + j
					gate := gates[tag]
					v, err := w.Call(code, func() (interface{}, error) {
						mu.Lock()
						started[tag]++
						mu.Unlock()
						<-gate
						mu.Lock()
						ended[tag]++
						mu.Unlock()
						return tag, c14Errs[tag%3]
					})
					val := -1
					if iv, ok := v.(int); ok {
						val = iv
					}
					out = []int{0, tag, val, c14ErrCode(err)}
				case code == 0:
					w.Wait()
					out = []int{2}
				case code == -2:
					out = []int{3, w.Count()}
				default:
					func() {
						defer func() {
							if recover() != nil {
								out = []int{1}
							}
						}()
						v, err := w.Call(0, func() (interface{}, error) { return -7, nil })
						val := -1
						if iv, ok := v.(int); ok {
							val = iv
						}
						out = []int{0, 100*t + j, val, c14ErrCode(err)}
					}()
				}
				mu.Lock()
				th.outs = append(th.outs, out)
				mu.Unlock()
			}
		}(t, th)
	}

	// ---- driver ----
	var ops, outs [][]int
	maxRun, maxReq, sawExitNonEmpty := 0, 0, false
	stuck := false
	for step := 0; step < 6*total+10; step++ {
		// available environment actions
		type act struct{ ty, arg int }
		var avail []act
		mu.Lock()
		done := 0
		for t, th := range threads {
			done += len(th.outs)
			if th.issued == len(th.outs) && th.issued < len(th.script) {
				avail = append(avail, act{0, t})
			}
		}
		var runTags []int
		for tag, n := range started {
			if n > ended[tag] && !released[tag] {
				runTags = append(runTags, tag)
			}
		}
		mu.Unlock()
		sort.Ints(runTags)
		for _, tag := range runTags {
			avail = append(avail, act{1, tag})
		}
		if done == total {
			break
		}
		if len(avail) == 0 {
			h.line("MONITOR C14 strand: case k1-%d-%d nothing can move but %d of %d operations have not returned (cfg %s)",
				h.seed, id, total-done, total, ints(cfg))
			stuck = true
			break
		}
		// choose 1 (mostly) to 3 simultaneous actions; bias towards invoking while functions are gated (queue builds up)
		na := 1
		if r := h.rng.Intn(100); r >= 70 && len(avail) > 1 {
			na = 2
			if r >= 90 && len(avail) > 2 {
				na = 3
			}
		}
		h.rng.Shuffle(len(avail), func(i, j int) { avail[i], avail[j] = avail[j], avail[i] })
		if len(avail) > 1 && avail[0].ty == 1 && (buildUp && h.rng.Intn(100) < 85 || na == 1 && h.rng.Intn(100) < 35) {
			for i, a := range avail {
				if a.ty == 0 {
					avail[0], avail[i] = avail[i], avail[0]
					break
				}
			}
		}
		chosen := avail[:na]
		op := []int{na}
		qBefore := c14QueueLen(w)
		for _, a := range chosen {
			op = append(op, a.ty, a.arg)
			if a.ty == 0 {
				th := threads[a.arg]
				if c := th.script[th.issued]; c > maxReq {
					maxReq = c
				}
				th.issued++
				th.tok <- struct{}{}
			} else {
				released[a.arg] = true
				close(gates[a.arg])
			}
		}
		if na > 1 {
			h.count("simultaneous_action_sets", 1)
		}
		opBase := append([]int(nil), op...)
		var ql int
		for try := 0; ; try++ {
			op = append([]int(nil), opBase...)
			fp, quiet := quiesceFP(150*time.Microsecond, 3*time.Second)
			if !quiet {
				h.line("MONITOR C14 no quiescence within 3s: case k1-%d-%d (cfg %s)", h.seed, id, ints(cfg))
				stuck = true
				break
			}
			// observation
			cnt := w.Count()
			ql = c14QueueLen(w)
			lib := libGoroutineCount() - base
			mu.Lock()
			runTags = runTags[:0]
			for tag, n := range started {
				if n > 1 {
					h.line("MONITOR C14 function of call %d executed %d times: case k1-%d-%d", tag, n, h.seed, id)
				}
				if n > ended[tag] {
					runTags = append(runTags, tag)
				}
			}
			sort.Ints(runTags)
			op = append(op, cnt, ql, lib, len(runTags))
			op = append(op, runTags...)
			op = append(op, nthreads)
			for _, th := range threads {
				op = append(op, len(th.outs))
				for _, o := range th.outs {
					op = append(op, o...)
				}
			}
			mu.Unlock()
			// the observation counts only if nothing has moved while it was read
			if fp2, quiet2 := quietFP(); (quiet2 && fp2 == fp) || try >= 50 {
				break
			}
			h.count("observation_retaken", 1)
			if os.Getenv("VERIF_DEBUG_FP") != "" {
				fp2, _ := quietFP()
				fmt.Fprintf(os.Stderr, "RETAKEN case %d step %d\n  before: %s\n  after:  %s\n", id, step, fp, fp2)
			}
		}
		if stuck {
			break
		}
		if len(runTags) > maxRun {
			maxRun = len(runTags)
		}
		if len(runTags) > maxReq {
			h.line("MONITOR C14 bound: %d functions running, largest count requested so far %d: case k1-%d-%d", len(runTags), maxReq, h.seed, id)
		}
		if len(chosen) == 1 && chosen[0].ty == 1 && qBefore > 0 && ql == qBefore {
			sawExitNonEmpty = true // a function ended, nothing was dequeued although the queue is non-empty: a worker left
		}
		ops = append(ops, op)
		outs = append(outs, []int{1})
	}
	if !stuck {
		// everything has returned: no worker may be left
		if !quiesce(150*time.Microsecond, 3*time.Second) || w.Count() != 0 || libGoroutineCount()-base != 0 {
			h.line("MONITOR C14 after all operations returned: Count()=%d, library goroutines=%d (want 0, 0): case k1-%d-%d",
				w.Count(), libGoroutineCount()-base, h.seed, id)
		}
	} else {
		// release whatever is still gated so that as little as possible leaks into the next case
		for tag, g := range gates {
			if !released[tag] {
				released[tag] = true
				close(g)
			}
		}
		for _, th := range threads {
			for i := 0; i < len(th.script); i++ {
				select {
				case th.tok <- struct{}{}:
				default:
				}
			}
		}
		time.Sleep(20 * time.Millisecond)
	}
	h.count("max_running_"+fmt.Sprint(maxRun), 1)
	if sawExitNonEmpty {
		h.count("worker_left_nonempty_queue", 1)
	}
	if len(ops) > 0 {
		h.line("K1 workers k1-%d-%d %s # %s | %s", h.seed, id, ints(cfg), joinRecs(ops), joinRecs(outs))
	}
	return !stuck
}

func c14QueueLen(w *Workers) int {
	mu := fld[sync.Mutex](w, "mutex")
	mu.Lock()
	defer mu.Unlock()
	return fldLen(w, "queue", reflect.Slice)
}

// ---------------------------------------------------------------------------------------------------- C14K2

// c14Burst returns false when a call or Wait hung.
func c14Burst(h *hctx, id int) bool {
	w := new(Workers)
	n := 6 + h.rng.Intn(30)
	uniform := h.rng.Intn(3) == 0
	maxk := 1 + h.rng.Intn(6)
	ks := make([]int, n)
	for i := range ks {
		if uniform {
			ks[i] = maxk
		} else {
			ks[i] = 1 + h.rng.Intn(maxk)
		}
	}
	spin := make([]int, n)
	for i := range spin {
		spin[i] = h.rng.Intn(4)
	}
	var running, maxReq, peak atomic.Int64
	execs := make([]atomic.Int64, n)
	type res struct {
		v   interface{}
		err error
	}
	results := make([]chan res, n)
	var bad atomic.Int64
	var monMu sync.Mutex
	monitor := func(format string, args ...interface{}) {
		monMu.Lock()
		defer monMu.Unlock()
		if bad.Add(1) <= 3 {
			h.line("MONITOR C14 "+format+fmt.Sprintf(": burst k2-%d-%d counts %s", h.seed, id, ints(ks)), args...)
		}
	}
	start := make(chan struct{})
	for i := 0; i < n; i++ {
		results[i] = make(chan res, 1)
		go func(i int) {
			<-start
			k := int64(ks[i])
			for { // the harness-side "largest count requested so far" is raised BEFORE the call is made
				m := maxReq.Load()
				if m >= k || maxReq.CompareAndSwap(m, k) {
					break
				}
			}
			v, err := w.Call(ks[i], func() (interface{}, error) {
				r := running.Add(1)
				m := maxReq.Load()
				if r > m {
					monitor("bound: %d functions running while the largest count requested so far is %d", r, m)
				}
				for {
					p := peak.Load()
					if r <= p || peak.CompareAndSwap(p, r) {
						break
					}
				}
				if c := int64(w.Count()); c < 1 || c > maxReq.Load() {
					monitor("Count()=%d sampled inside a running function, largest count requested so far %d", c, maxReq.Load())
				}
				execs[i].Add(1)
				switch spin[i] {
				case 1:
					runtime.Gosched()
				case 2:
					time.Sleep(time.Duration(20+37*i%200) * time.Microsecond)
				case 3:
					for j := 0; j < 3; j++ {
						runtime.Gosched()
					}
				}
				running.Add(-1)
				return i, c14Errs[i%3]
			})
			results[i] <- res{v, err}
		}(i)
	}
	close(start)
	deadline := time.After(4 * time.Second)
	own := 0
	for i := 0; i < n; i++ {
		select {
		case r := <-results[i]:
			if iv, ok := r.v.(int); ok && iv == i && r.err == c14Errs[i%3] {
				own++
			} else {
				monitor("result identity: call %d returned (%v, error code %d)", i, r.v, c14ErrCode(r.err))
			}
		case <-deadline:
			monitor("starvation: call %d (count %d) has not returned after 4s", i, ks[i])
			h.line("F c14_burst k2-%d-%d %s | %d %d %d %d", h.seed, id, ints(ks), own, -1, w.Count(), -1)
			return false
		}
	}
	once := 0
	for i := range execs {
		if e := execs[i].Load(); e == 1 {
			once++
		} else {
			monitor("exactly once: function %d executed %d times", i, e)
		}
	}
	waited := make(chan struct{})
	go func() { w.Wait(); close(waited) }()
	c1, c2 := -1, -1
	hung := false
	select {
	case <-waited:
		c1 = w.Count()
		c2 = w.Count()
		if c1 != 0 {
			monitor("Wait returned but Count()=%d", c1)
		}
	case <-time.After(4 * time.Second):
		monitor("Wait did not return within 4s after every call returned (Count()=%d)", w.Count())
		hung = true
	}
	if uniform && peak.Load() > int64(maxk) {
		monitor("bound: peak concurrency %d with every caller passing %d", peak.Load(), maxk)
	}
	h.count(fmt.Sprintf("peak_%d", peak.Load()), 1)
	h.count("burst_calls", n)
	if peak.Load() > 1 {
		h.count("bursts_with_overlap", 1)
	}
	h.line("F c14_burst k2-%d-%d %s | %d %d %d %d", h.seed, id, ints(ks), own, once, c1, c2)
	return !hung
}

// ---------------------------------------------------------------------------------------------------- C14L

// sync.Mutex internals (Go 1.18 .. 1.23: struct { state int32; sema uint32 }; state = waiters<<3 | starving<<2 | woken<<1 |
// locked). Read ONLY to verify the preconditions of the choreography (how many goroutines are queued on Workers.mutex,
// whether the mutex is in starvation mode); when the layout check fails the scenario is skipped, never reported.
const (
	c14MuLocked   = 1
	c14MuStarving = 4
	c14MuShift    = 3
)

func c14MuState(m *sync.Mutex) int32 { return atomic.LoadInt32((*int32)(unsafe.Pointer(m))) }

func c14MutexLayoutOK() bool {
	if unsafe.Sizeof(sync.Mutex{}) != 8 {
		return false
	}
	var m sync.Mutex
	if c14MuState(&m) != 0 {
		return false
	}
	m.Lock()
	if c14MuState(&m) != c14MuLocked {
		return false
	}
	queued := make(chan struct{})
	go func() { m.Lock(); m.Unlock(); close(queued) }()
	ok := c14Until(50*time.Millisecond, func() bool { return c14MuState(&m) == c14MuLocked|1<<c14MuShift })
	m.Unlock()
	<-queued
	return ok && c14MuState(&m) == 0
}

func c14Until(d time.Duration, cond func() bool) bool {
	end := time.Now().Add(d)
	for !cond() {
		if time.Now().After(end) {
			return false
		}
		runtime.Gosched()
	}
	return true
}

// One case = up to 3 repetitions of the choreography; a violation is reported only if 3 consecutive repetitions in
// which the forced order was achieved (all preconditions verified) ALL show it. Returns false on a hang.
func c14WaitOrderCase(h *hctx, id int) bool {
	viol := 0
	var last [3]int
	for rep := 0; rep < 3; rep++ {
		achieved, res, hung := c14WaitOrder(h)
		if hung {
			h.line("MONITOR C14 hang in the Wait-order choreography (a Call or Wait did not return within 2s): case l-%d-%d", h.seed, id)
			return false
		}
		if !achieved {
			h.count("c14l_order_not_achieved", 1)
			return true
		}
		h.count("c14l_order_achieved", 1)
		last = res
		if res[1] == 0 {
			if viol > 0 {
				h.count("c14l_transient_disagreement", viol)
			}
			break
		}
		viol++
	}
	if viol == 3 {
		h.line("MONITOR C14 Wait returned while a worker spawned before its wake-up is still running (count=%d): "+
			"3 of 3 repetitions, forced order worker-exit < Call < woken Wait verified on Workers.mutex: case l-%d-%d", last[0], h.seed, id)
	}
	// program: Call(1) ; Wait ; Call(1) -- result: Count(), Wait returned?, functions running, at the final quiescent point
	h.line("F c14_wait_order l-%d-%d 1 0 1 | %d %d %d", h.seed, id, last[0], last[1], last[2])
	return true
}

// c14WaitOrder runs the choreography once.
//
//  1. Call(1, f1), f1 held by a gate: one worker, count = 1. A goroutine parks in w.Wait() (confirmed: quiescent, one
//     goroutine in sync.Cond.Wait).
//  2. The harness locks w.mutex. A helper X queues on it (waiters = 1); f1's gate is opened: the worker finishes f1 and
//     queues for its loop-head section (waiters = 2); Call(1, f2) is started, f2 gated: it queues (waiters = 3). Each
//     is confirmed queued (waiter count in the mutex word) before the next is started, so the queue is X, worker, Call.
//  3. After > 1 ms the harness unlocks and immediately re-locks (barging past the woken X): X, having waited > 1 ms and
//     finding the mutex taken, switches it to STARVATION MODE and re-queues at the front (verified: starving bit set,
//     waiters = 3). From here sync.Mutex hands ownership over in FIFO order, arriving goroutines do not spin or barge
//     and queue at the tail (documented behaviour of sync.Mutex, sync/mutex.go "Mutex fairness"; the monitor TRUSTS it,
//     and the 3-repetitions rule guards against surprises).
//  4. The harness unlocks: X, then the worker's section (queue empty: count-- = 0, Broadcast: the woken waiter queues
//     LAST, exit), then the Call's section (count = 1, new worker spawned), then the waiter: it must see count = 1 and
//     park again. f2 starts and is held by its gate.
//  5. Quiescence. Wait must NOT have returned (theorem C14_wait_returns_at_zero: its return step is enabled only at
//     count = 0; the model run for exactly this order has it disabled).
//
// res = {Count(), 1 if Wait returned, functions running}.
func c14WaitOrder(h *hctx) (achieved bool, res [3]int, hung bool) {
	w := new(Workers)
	gate1, gate2 := make(chan struct{}), make(chan struct{})
	started1, started2 := make(chan struct{}), make(chan struct{})
	done1, done2, waited, xdone := make(chan struct{}), make(chan struct{}), make(chan struct{}), make(chan struct{})
	var running atomic.Int64
	go func() {
		w.Call(1, func() (interface{}, error) {
			running.Add(1)
			close(started1)
			<-gate1
			running.Add(-1)
			return 1, nil
		})
		close(done1)
	}()
	<-started1
	go func() { w.Wait(); close(waited) }()
	parked := quiesce(150*time.Microsecond, 2*time.Second)
	if parked {
		st, _ := goroutineStates()
		n := 0
		for _, s := range st {
			if s == "sync.Cond.Wait" {
				n++
			}
		}
		parked = n == 1
	}
	gate2Closed := false
	finish := func() {
		// let everything run to the end; Wait must return once the last worker has gone
		if !gate2Closed {
			gate2Closed = true
			close(gate2)
		}
		for _, c := range []chan struct{}{done1, done2, waited} {
			select {
			case <-c:
			case <-time.After(2 * time.Second):
				hung = true
				return
			}
		}
	}
	startCall2 := func() {
		go func() {
			w.Call(1, func() (interface{}, error) {
				running.Add(1)
				close(started2)
				<-gate2
				running.Add(-1)
				return 2, nil
			})
			close(done2)
		}()
	}
	if !parked {
		close(gate1)
		startCall2()
		finish()
		return false, res, hung
	}
	m := fld[sync.Mutex](w, "mutex")
	waiters := func(n int32) func() bool {
		return func() bool { s := c14MuState(m); return s&c14MuLocked != 0 && s>>c14MuShift == n }
	}
	m.Lock()
	go func() { m.Lock(); m.Unlock(); close(xdone) }()
	ok := c14Until(20*time.Millisecond, waiters(1))
	close(gate1)
	ok = ok && c14Until(20*time.Millisecond, waiters(2))
	startCall2()
	ok = ok && c14Until(20*time.Millisecond, waiters(3))
	if ok {
		time.Sleep(1200 * time.Microsecond)
		m.Unlock()
		m.Lock() // usually wins against the just woken X
		ok = c14Until(20*time.Millisecond, func() bool {
			s := c14MuState(m)
			return s&c14MuStarving != 0 && s>>c14MuShift == 3
		})
		select {
		case <-xdone: // X got the mutex before the harness re-locked it: no starvation mode, order not forced
			ok = false
		default:
		}
	}
	m.Unlock()
	if ok {
		select {
		case <-started2:
		case <-time.After(2 * time.Second):
			ok = false // Call#2's function never started: left to finish() (hang detection)
		}
	}
	select {
	case <-done1: // f1 finished and its Call returned
	case <-time.After(2 * time.Second):
		ok = false
	}
	if ok && !quiesce(150*time.Microsecond, 2*time.Second) {
		ok = false
	}
	if ok {
		res[0] = w.Count()
		select {
		case <-waited:
			res[1] = 1
		default:
		}
		res[2] = int(running.Load())
		ok = res[2] == 1 // f2 started and is held, f1 ended
	}
	finish()
	return ok, res, hung
}
