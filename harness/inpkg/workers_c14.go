//go:build verif

package bigbuff

import (
	"errors"
	"fmt"
	"runtime"
	"sort"
	"sync"
	"sync/atomic"
	"time"
)

// C14 — Workers. Encoding shared with checker/ad_workers.ml.
//
// C14K1 (gated, quiescent): every user function blocks on a gate owned by the driver, so the driver decides when each
// function ends; caller goroutines wait for a token before each operation, so the driver decides when each operation is
// invoked. After every ACTION SET (one or several tokens / gate releases issued together, i.e. concurrently) the driver
// waits for quiescence and records an observation. One K1 record per case:
//
//	K1 workers <case> <cfg> # <op> ; <op> ; ... | 1 ; 1 ; ...
//	cfg   thread scripts separated by -1:  k>0 Call(k) | 0 Wait | -2 Count | -3 Call(0) (must panic)
//	op    na (ty arg)*na  count qlen libg  nrun tag*nrun  nthreads (nouts out*)*nthreads
//	      action ty 0: thread `arg` invokes its next operation; ty 1: the function with tag `arg` is released
//	      tag of the j-th operation of thread t = 100*t + j; the function of that call returns (tag, errs[tag%3])
//	      out: 0 tag value err (Call returned) | 1 (panicked) | 2 (Wait returned) | 3 n (Count)
//	out   1 = "some interleaving of the model's internal steps with these actions ends in a quiescent state with
//	      exactly this observation" (the adapter tracks the SET of model states compatible with the history so far)
//
// C14K2 (free-running bursts): many concurrent Calls with random counts, no gates; property monitors evaluated by the
// harness (MONITOR lines) plus one `F c14_burst` record per burst compared with the model's terminal state.

var c14Errs = [3]error{nil, errors.New("c14 error A"), errors.New("c14 error B")}

func c14ErrCode(err error) int {
	for i, e := range c14Errs {
		if err == e {
			return i
		}
	}
	return 9
}

func init() {
	// a hang is reported by a MONITOR line; after a few of them the scenario stops (every further case would spend its
	// whole deadline, and goroutines of the abandoned Workers values pile up)
	register("C14K1", func(h *hctx) {
		hangs := 0
		for i := 0; i < h.n && hangs < 3; i++ {
			if !c14GatedCase(h, i) {
				hangs++
			}
		}
	})
	register("C14K2", func(h *hctx) {
		hangs := 0
		for i := 0; i < h.n && hangs < 2; i++ {
			if !c14Burst(h, i) {
				hangs++
			}
		}
	})
}

// ---------------------------------------------------------------------------------------------------- C14K1

type c14Thread struct {
	script []int // cfg codes
	tok    chan struct{}
	outs   [][]int
	issued int
}

// c14GatedCase returns false when the case got stuck (strand / no quiescence).
func c14GatedCase(h *hctx, id int) bool {
	w := new(Workers)
	var mu sync.Mutex // guards outs, started, ended
	started := map[int]int{}
	ended := map[int]int{}
	gates := map[int]chan struct{}{}
	released := map[int]bool{}
	base := libGoroutineCount()

	// ---- program ----
	nthreads := 2 + h.rng.Intn(5)
	maxk := 1 + h.rng.Intn(4)
	shape := h.rng.Intn(5)        // 0 random counts, 1 uniform, 2/4 decreasing over time, 3 increasing
	buildUp := h.rng.Intn(2) == 0 // driver prefers invocations while any is possible: the queue fills behind gated functions
	threads := make([]*c14Thread, nthreads)
	seq := 0
	total := 0
	for t := range threads {
		th := &c14Thread{tok: make(chan struct{}, 8)}
		nops := 1 + h.rng.Intn(3)
		for j := 0; j < nops; j++ {
			r := h.rng.Intn(100)
			switch {
			case r < 72:
				k := 1 + h.rng.Intn(maxk)
				switch shape {
				case 1:
					k = maxk
				case 2, 4:
					k = maxk - seq
					if k < 1 {
						k = 1
					}
				case 3:
					k = 1 + seq
					if k > 5 {
						k = 5
					}
				}
				seq++
				th.script = append(th.script, k)
				gates[100*t+j] = make(chan struct{})
				h.count("op_call", 1)
			case r < 84:
				th.script = append(th.script, 0)
				h.count("op_wait", 1)
			case r < 97:
				th.script = append(th.script, -2)
				h.count("op_count", 1)
			default:
				th.script = append(th.script, -3)
				h.count("op_call0", 1)
			}
			total++
		}
		threads[t] = th
	}
	var cfg []int
	for t, th := range threads {
		if t > 0 {
			cfg = append(cfg, -1)
		}
		cfg = append(cfg, th.script...)
	}

	// ---- caller goroutines ----
	for t, th := range threads {
		go func(t int, th *c14Thread) {
			for j, code := range th.script {
				<-th.tok
				var out []int
				switch {
				case code > 0:
					tag := 100*t + j
					gate := gates[tag]
					v, err := w.Call(code, func() (interface{}, error) {
						mu.Lock()
						started[tag]++
						mu.Unlock()
						<-gate
						mu.Lock()
						ended[tag]++
						mu.Unlock()
						return tag, c14Errs[tag%3]
					})
					val := -1
					if iv, ok := v.(int); ok {
						val = iv
					}
					out = []int{0, tag, val, c14ErrCode(err)}
				case code == 0:
					w.Wait()
					out = []int{2}
				case code == -2:
					out = []int{3, w.Count()}
				default:
					func() {
						defer func() {
							if recover() != nil {
								out = []int{1}
							}
						}()
						v, err := w.Call(0, func() (interface{}, error) { return -7, nil })
						val := -1
						if iv, ok := v.(int); ok {
							val = iv
						}
						out = []int{0, 100*t + j, val, c14ErrCode(err)}
					}()
				}
				mu.Lock()
				th.outs = append(th.outs, out)
				mu.Unlock()
			}
		}(t, th)
	}

	// ---- driver ----
	var ops, outs [][]int
	maxRun, maxReq, sawExitNonEmpty := 0, 0, false
	stuck := false
	for step := 0; step < 6*total+10; step++ {
		// available environment actions
		type act struct{ ty, arg int }
		var avail []act
		mu.Lock()
		done := 0
		for t, th := range threads {
			done += len(th.outs)
			if th.issued == len(th.outs) && th.issued < len(th.script) {
				avail = append(avail, act{0, t})
			}
		}
		var runTags []int
		for tag, n := range started {
			if n > ended[tag] && !released[tag] {
				runTags = append(runTags, tag)
			}
		}
		mu.Unlock()
		sort.Ints(runTags)
		for _, tag := range runTags {
			avail = append(avail, act{1, tag})
		}
		if done == total {
			break
		}
		if len(avail) == 0 {
			h.line("MONITOR C14 strand: case k1-%d-%d nothing can move but %d of %d operations have not returned (cfg %s)",
				h.seed, id, total-done, total, ints(cfg))
			stuck = true
			break
		}
		// choose 1 (mostly) to 3 simultaneous actions; bias towards invoking while functions are gated (queue builds up)
		na := 1
		if r := h.rng.Intn(100); r >= 70 && len(avail) > 1 {
			na = 2
			if r >= 90 && len(avail) > 2 {
				na = 3
			}
		}
		h.rng.Shuffle(len(avail), func(i, j int) { avail[i], avail[j] = avail[j], avail[i] })
		if len(avail) > 1 && avail[0].ty == 1 && (buildUp && h.rng.Intn(100) < 85 || na == 1 && h.rng.Intn(100) < 35) {
			for i, a := range avail {
				if a.ty == 0 {
					avail[0], avail[i] = avail[i], avail[0]
					break
				}
			}
		}
		chosen := avail[:na]
		op := []int{na}
		qBefore := c14QueueLen(w)
		for _, a := range chosen {
			op = append(op, a.ty, a.arg)
			if a.ty == 0 {
				th := threads[a.arg]
				if c := th.script[th.issued]; c > maxReq {
					maxReq = c
				}
				th.issued++
				th.tok <- struct{}{}
			} else {
				released[a.arg] = true
				close(gates[a.arg])
			}
		}
		if na > 1 {
			h.count("simultaneous_action_sets", 1)
		}
		if !quiesce(150*time.Microsecond, 3*time.Second) {
			h.line("MONITOR C14 no quiescence within 3s: case k1-%d-%d (cfg %s)", h.seed, id, ints(cfg))
			stuck = true
			break
		}
		// observation
		cnt := w.Count()
		ql := c14QueueLen(w)
		lib := libGoroutineCount() - base
		mu.Lock()
		runTags = runTags[:0]
		for tag, n := range started {
			if n > 1 {
				h.line("MONITOR C14 function of call %d executed %d times: case k1-%d-%d", tag, n, h.seed, id)
			}
			if n > ended[tag] {
				runTags = append(runTags, tag)
			}
		}
		sort.Ints(runTags)
		op = append(op, cnt, ql, lib, len(runTags))
		op = append(op, runTags...)
		op = append(op, nthreads)
		for _, th := range threads {
			op = append(op, len(th.outs))
			for _, o := range th.outs {
				op = append(op, o...)
			}
		}
		mu.Unlock()
		if len(runTags) > maxRun {
			maxRun = len(runTags)
		}
		if len(runTags) > maxReq {
			h.line("MONITOR C14 bound: %d functions running, largest count requested so far %d: case k1-%d-%d", len(runTags), maxReq, h.seed, id)
		}
		if len(chosen) == 1 && chosen[0].ty == 1 && qBefore > 0 && ql == qBefore {
			sawExitNonEmpty = true // a function ended, nothing was dequeued although the queue is non-empty: a worker left
		}
		ops = append(ops, op)
		outs = append(outs, []int{1})
	}
	if !stuck {
		// everything has returned: no worker may be left
		if !quiesce(150*time.Microsecond, 3*time.Second) || w.Count() != 0 || libGoroutineCount()-base != 0 {
			h.line("MONITOR C14 after all operations returned: Count()=%d, library goroutines=%d (want 0, 0): case k1-%d-%d",
				w.Count(), libGoroutineCount()-base, h.seed, id)
		}
	} else {
		// release whatever is still gated so that as little as possible leaks into the next case
		for tag, g := range gates {
			if !released[tag] {
				released[tag] = true
				close(g)
			}
		}
		for _, th := range threads {
			for i := 0; i < len(th.script); i++ {
				select {
				case th.tok <- struct{}{}:
				default:
				}
			}
		}
		time.Sleep(20 * time.Millisecond)
	}
	h.count("max_running_"+fmt.Sprint(maxRun), 1)
	if sawExitNonEmpty {
		h.count("worker_left_nonempty_queue", 1)
	}
	if len(ops) > 0 {
		h.line("K1 workers k1-%d-%d %s # %s | %s", h.seed, id, ints(cfg), joinRecs(ops), joinRecs(outs))
	}
	return !stuck
}

func c14QueueLen(w *Workers) int {
	w.mutex.Lock()
	defer w.mutex.Unlock()
	return len(w.queue)
}

// ---------------------------------------------------------------------------------------------------- C14K2

// c14Burst returns false when a call or Wait hung.
func c14Burst(h *hctx, id int) bool {
	w := new(Workers)
	n := 6 + h.rng.Intn(30)
	uniform := h.rng.Intn(3) == 0
	maxk := 1 + h.rng.Intn(6)
	ks := make([]int, n)
	for i := range ks {
		if uniform {
			ks[i] = maxk
		} else {
			ks[i] = 1 + h.rng.Intn(maxk)
		}
	}
	spin := make([]int, n)
	for i := range spin {
		spin[i] = h.rng.Intn(4)
	}
	var running, maxReq, peak atomic.Int64
	execs := make([]atomic.Int64, n)
	type res struct {
		v   interface{}
		err error
	}
	results := make([]chan res, n)
	var bad atomic.Int64
	var monMu sync.Mutex
	monitor := func(format string, args ...interface{}) {
		monMu.Lock()
		defer monMu.Unlock()
		if bad.Add(1) <= 3 {
			h.line("MONITOR C14 "+format+fmt.Sprintf(": burst k2-%d-%d counts %s", h.seed, id, ints(ks)), args...)
		}
	}
	start := make(chan struct{})
	for i := 0; i < n; i++ {
		results[i] = make(chan res, 1)
		go func(i int) {
			<-start
			k := int64(ks[i])
			for { // the harness-side "largest count requested so far" is raised BEFORE the call is made
				m := maxReq.Load()
				if m >= k || maxReq.CompareAndSwap(m, k) {
					break
				}
			}
			v, err := w.Call(ks[i], func() (interface{}, error) {
				r := running.Add(1)
				m := maxReq.Load()
				if r > m {
					monitor("bound: %d functions running while the largest count requested so far is %d", r, m)
				}
				for {
					p := peak.Load()
					if r <= p || peak.CompareAndSwap(p, r) {
						break
					}
				}
				if c := int64(w.Count()); c < 1 || c > maxReq.Load() {
					monitor("Count()=%d sampled inside a running function, largest count requested so far %d", c, maxReq.Load())
				}
				execs[i].Add(1)
				switch spin[i] {
				case 1:
					runtime.Gosched()
				case 2:
					time.Sleep(time.Duration(20+37*i%200) * time.Microsecond)
				case 3:
					for j := 0; j < 3; j++ {
						runtime.Gosched()
					}
				}
				running.Add(-1)
				return i, c14Errs[i%3]
			})
			results[i] <- res{v, err}
		}(i)
	}
	close(start)
	deadline := time.After(4 * time.Second)
	own := 0
	for i := 0; i < n; i++ {
		select {
		case r := <-results[i]:
			if iv, ok := r.v.(int); ok && iv == i && r.err == c14Errs[i%3] {
				own++
			} else {
				monitor("result identity: call %d returned (%v, error code %d)", i, r.v, c14ErrCode(r.err))
			}
		case <-deadline:
			monitor("starvation: call %d (count %d) has not returned after 4s", i, ks[i])
			h.line("F c14_burst k2-%d-%d %s | %d %d %d %d", h.seed, id, ints(ks), own, -1, w.Count(), -1)
			return false
		}
	}
	once := 0
	for i := range execs {
		if e := execs[i].Load(); e == 1 {
			once++
		} else {
			monitor("exactly once: function %d executed %d times", i, e)
		}
	}
	waited := make(chan struct{})
	go func() { w.Wait(); close(waited) }()
	c1, c2 := -1, -1
	hung := false
	select {
	case <-waited:
		c1 = w.Count()
		c2 = w.Count()
		if c1 != 0 {
			monitor("Wait returned but Count()=%d", c1)
		}
	case <-time.After(4 * time.Second):
		monitor("Wait did not return within 4s after every call returned (Count()=%d)", w.Count())
		hung = true
	}
	if uniform && peak.Load() > int64(maxk) {
		monitor("bound: peak concurrency %d with every caller passing %d", peak.Load(), maxk)
	}
	h.count(fmt.Sprintf("peak_%d", peak.Load()), 1)
	h.count("burst_calls", n)
	if peak.Load() > 1 {
		h.count("bursts_with_overlap", 1)
	}
	h.line("F c14_burst k2-%d-%d %s | %d %d %d %d", h.seed, id, ints(ks), own, once, c1, c2)
	return !hung
}
