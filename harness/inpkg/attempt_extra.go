//go:build verif

package bigbuff

// C20EDGE: two corners of LinearAttempt that the timed and deterministic scenarios do not reach.
//
// (a) "already closed and empty if the context was cancelled beforehand", for contexts whose cancellation shows in Err()
// but whose Done channel has not fired (a poll-only / lazily evaluated context, the shape of the contextNeverDone of the
// package's own example): LinearAttempt must hand back a channel that is closed and empty right away, must not start a
// producer and must not send a first value.
//
// (b) "yields non-decreasing timestamps", for the FIRST pair and rates of a few nanoseconds: the first value is the time
// of the call and the second is the first tick of a ticker started afterwards, so the second can never be before the first
// (later pairs at such rates are left alone: a raw time.Ticker itself yields slightly decreasing pairs below its jitter).
// A ticker started before the first value is taken shows up as a second value EARLIER than the first in most rounds.

import (
	"context"
	"errors"
	"time"
)

type attemptErrOnlyCtx struct {
	err  error
	done chan struct{} // never closed; nil in half of the cases (a receive from it blocks for ever either way)
}

func (c *attemptErrOnlyCtx) Deadline() (time.Time, bool)   { return time.Time{}, false }
func (c *attemptErrOnlyCtx) Done() <-chan struct{}         { return c.done }
func (c *attemptErrOnlyCtx) Value(interface{}) interface{} { return nil }
func (c *attemptErrOnlyCtx) Err() error                    { return c.err }

func init() {
	register("C20EDGE", func(h *hctx) {
		errs := []error{context.Canceled, context.DeadlineExceeded, errors.New("attempt harness: ended for a reason of its own")}
		for i := 0; i < h.n; i++ {
			// (a)
			ctx := &attemptErrOnlyCtx{err: errs[i%len(errs)]}
			if i%2 == 0 {
				ctx.done = make(chan struct{})
			}
			count := []int{1, 2, 3, 50}[h.rng.Intn(4)]
			rate := []time.Duration{time.Nanosecond, time.Microsecond, time.Millisecond, time.Hour}[h.rng.Intn(4)]
			before := libGoroutineCount()
			c := LinearAttempt(ctx, rate, count)
			select {
			case v, ok := <-c:
				if ok {
					h.line("MONITOR C20 the context was cancelled beforehand (Err() = %v, Done not fired) but the channel yielded a value %v instead of being closed and empty (count=%d rate=%v case %d)", ctx.err, v, count, rate, i)
				}
			default:
				h.line("MONITOR C20 the context was cancelled beforehand (Err() = %v, Done not fired) but the channel is not closed on return (count=%d rate=%v case %d)", ctx.err, count, rate, i)
			}
			deadline := time.Now().Add(2 * time.Second)
			for libGoroutineCount() > before && time.Now().Before(deadline) {
				time.Sleep(200 * time.Microsecond)
			}
			if n := libGoroutineCount(); n > before {
				h.line("MONITOR C20 the context was cancelled beforehand (Err() = %v, Done not fired) but a producer goroutine is alive 2 s later (%d library goroutines, %d before; count=%d rate=%v case %d)", ctx.err, n, before, count, rate, i)
				return
			}
			h.count("c20edge_erronly", 1)

			// (b)
			rate = time.Duration(1+h.rng.Intn(40)) * time.Nanosecond
			rounds, early := 300, 0
			var worst time.Duration
			for r := 0; r < rounds; r++ {
				lctx, cancel := context.WithCancel(context.Background())
				c := LinearAttempt(lctx, rate, 2)
				v0, ok0 := <-c
				v1, ok1 := <-c
				cancel()
				for range c {
				}
				if ok0 && ok1 && v1.Before(v0) {
					early++
					if d := v0.Sub(v1); d > worst {
						worst = d
					}
				}
			}
			if early >= 3 {
				h.line("MONITOR C20 timestamps decrease: the second value was EARLIER than the first in %d of %d rounds (by up to %v; rate=%v count=2): the first tick is not measured from after the first value (case %d)", early, rounds, worst, rate, i)
			}
			h.count("c20edge_firstpair_rounds", rounds)
		}
	})
}
