//go:build verif

package bigbuff

// C18DEADLINE — ExponentialRetry and the real waitDuration under contexts that REPORT A DEADLINE (monitor-only).  Prompted by a
// seeded "no point arming a timer when the context expires first" change in waitDuration: every context of C18K1/C18F/C18ERRS
// either has no deadline at all or is a standard library context, whose Done() closes when its deadline passes.
//
// A context's Deadline() is advice ("the time when work done on behalf of this context SHOULD be cancelled"); a context IS
// cancelled when Done() is closed / Err() is non-nil, and nothing obliges the two to coincide: the classic detached context
// `struct{ context.Context }` overriding Done/Err keeps its parent's Deadline() and is never cancelled; hand-made contexts cancel
// on their own terms.  Clauses of C18 checked with such contexts (deadline long past / just past / passing while retrying /
// far away; Done() nil, never closed, or closed later by the harness; Err() nil until then):
//   * "calls the operation repeatedly until it succeeds, returns an error wrapped by FatalError, or the context is cancelled":
//     a context that merely reports a deadline is not cancelled, so the loop must go on to the scripted success / fatal error
//     (exact number of calls, that call's result) — it must neither hang in a wait (>= 3 s without returning = hang; the delays are
//     slots x rate with tiny rates, at most a few dozen ms in total) nor give up with an error;
//   * "the delay before the k-th retry is a whole number of slots ... times the rate, and the wait is cut short by cancellation":
//     by cancellation ONLY.  A wait must end by itself after the delay (waitDuration(ctx, d) returns within 3 s for d <= 50 ms), and it
//     must not end early because a deadline is reported: flagged only when a wait of d >= 20 ms returned in less than d/2 while
//     Done() had not fired (timers never fire early, so any correct wait takes at least d);
//     a wait IS cut when the context's Done() closes (1 h wait returns within 3 s of the harness closing it, not before);
//   * "once the context is cancelled it never starts another call and ... returns the context's error with a nil result": standard
//     WithDeadline / WithTimeout contexts (and children of them) whose deadline passes while retrying: the closure returns
//     (nil, ctx.Err()) — or the scripted success, if that call was reached first — and no call starts after a call at whose
//     end the context was already cancelled; hand-made contexts cancelled during call j: exactly j calls, (nil, that error).
// The context's error is compared by identity with what the context's Err() returns, never by text.

import (
	"context"
	"fmt"
	"sync"
	"sync/atomic"
	"time"
)

// retryDetached: never cancelled, everything else (Deadline, Value) is the parent's.
type retryDetached struct{ context.Context }

func (retryDetached) Done() <-chan struct{} { return nil }
func (retryDetached) Err() error            { return nil }

// retryDlCtx: a hand-made context that reports a deadline and is cancelled by the harness only.
type retryDlCtx struct {
	mu       sync.Mutex
	deadline time.Time
	done     chan struct{}
	err      error
}

func (c *retryDlCtx) Deadline() (time.Time, bool)       { return c.deadline, true }
func (c *retryDlCtx) Done() <-chan struct{}             { return c.done }
func (c *retryDlCtx) Value(key interface{}) interface{} { return nil }
func (c *retryDlCtx) Err() error {
	c.mu.Lock()
	defer c.mu.Unlock()
	return c.err
}
func (c *retryDlCtx) cancel(e error) {
	c.mu.Lock()
	defer c.mu.Unlock()
	if c.err == nil {
		c.err = e
		close(c.done)
	}
}

var retryDlNames = []string{"long past", "just past", "passing during the retries / the wait", "far in the future"}

// retryDlWhen: the reported deadline, relative to now; span is roughly how long the retries / the wait will take.
func retryDlWhen(h *hctx, kind int, span time.Duration) time.Time {
	now := time.Now()
	switch kind {
	case 0:
		return now.Add(-time.Hour)
	case 1:
		return now.Add(-time.Duration(1 + h.rng.Intn(1000000)))
	case 2:
		if span < 4 {
			span = 4
		}
		return now.Add(span/8 + time.Duration(h.rng.Int63n(int64(span/2))))
	}
	return now.Add(time.Hour)
}

// retryDlContext makes a not-cancelled context reporting the given deadline.  shape 0: detached over a standard WithDeadline parent
// (Done() == nil); 1: the same, the parent explicitly cancelled as well; 2: hand-made, Done() a channel (returned for cancelling).
func retryDlContext(shape int, dl time.Time) (ctx context.Context, dc *retryDlCtx, cleanup func(), name string) {
	switch shape {
	case 0, 1:
		parent, cancel := context.WithDeadline(context.Background(), dl)
		if shape == 1 {
			cancel()
			return retryDetached{parent}, nil, cancel, "detached from a cancelled WithDeadline parent (Done()==nil, Err()==nil)"
		}
		return retryDetached{parent}, nil, cancel, "detached from a WithDeadline parent (Done()==nil, Err()==nil)"
	}
	dc = &retryDlCtx{deadline: dl, done: make(chan struct{})}
	return dc, dc, func() {}, "hand-made (Done() an open channel, Err()==nil)"
}

// retryDeadlineCase: k plain failures, then a success or a fatal error, real seams, under a context that reports a deadline and
// is not cancelled - or (hand-made contexts, one case in three) is cancelled by the operation during call cancelCall.
func retryDeadlineCase(h *hctx, id int) (ok bool) {
	slow := id%8 == 5
	rate := []time.Duration{1, 2, 5, 10, 20, 50}[h.rng.Intn(6)] * time.Microsecond
	k := 3 + h.rng.Intn(6)
	if slow {
		rate = time.Duration(6+h.rng.Intn(5)) * time.Millisecond
		k = 2 + h.rng.Intn(2)
	}
	span := rate * time.Duration(uint(1)<<uint(k)) // about the sum of the mean delays
	dlKind := id % 4
	shape := (id / 4) % 3
	ctx, dc, cleanup, ctxName := retryDlContext(shape, retryDlWhen(h, dlKind, span))
	defer cleanup()
	cancelCall := -1
	ce := &retryCtxErr{n: id}
	if dc != nil && h.rng.Intn(3) == 0 {
		cancelCall = 1 + h.rng.Intn(k+1)
	}
	fatal := h.rng.Intn(5) == 0
	termRes := interface{}(id*100 + 7)
	termErr := &retryBaseErr{id: id}

	oldCalc := calcExponentialRetry
	defer func() { calcExponentialRetry = oldCalc }()
	var delays []time.Duration
	calcExponentialRetry = func(d time.Duration, c uint32) time.Duration {
		r := oldCalc(d, c)
		delays = append(delays, r)
		return r
	}

	var (
		calls, overrun int
		starts, ends   []time.Time
	)
	fn := ExponentialRetry(ctx, rate, func() (interface{}, error) {
		starts = append(starts, time.Now())
		defer func() { ends = append(ends, time.Now()) }()
		if calls > k {
			if overrun++; overrun > retryOverrunLimit {
				panic(retryAbort{})
			}
			return nil, FatalError(retryOverrun{})
		}
		calls++
		if h.rng.Intn(3) == 0 {
			time.Sleep(time.Duration(h.rng.Intn(200)) * time.Microsecond)
		}
		if calls == cancelCall {
			dc.cancel(ce)
		}
		if calls <= k {
			return -calls, &retryBaseErr{id: -calls}
		}
		if fatal {
			return termRes, FatalError(FatalError(termErr))
		}
		return termRes, nil
	})
	var (
		res      interface{}
		err      error
		panicked interface{}
	)
	el, done := retryTimed(h, "closure (C18DEADLINE)", 3*time.Second, func() {
		defer func() { panicked = recover() }()
		res, err = fn()
	})
	desc := fmt.Sprintf("context %s reporting a deadline %s, rate %v, script of %d failures then %s, case=d%d", ctxName, retryDlNames[dlKind], rate, k,
		map[bool]string{false: "a success", true: "a fatal error"}[fatal], id)
	if cancelCall > 0 {
		desc += fmt.Sprintf(", cancelled by the operation during call %d", cancelCall)
	}
	h.count("retry_cases", 1)
	h.count(fmt.Sprintf("retry_deadline_%d_shape_%d", dlKind, shape), 1)
	if !done && panicked == nil {
		// calls/delays belong to the stuck goroutine: not read here
		h.line("MONITOR C18 the closure did not return within %v although the delays add up to a few dozen ms at most and the context is not cancelled: a retry stuck in its wait (%s)", el, desc)
		h.count("hang", 1)
		if dc != nil {
			dc.cancel(ce) // frees the goroutine if it waits for the context
		}
		return false
	}
	if panicked != nil {
		if _, abort := panicked.(retryAbort); abort {
			h.line("MONITOR C18 the closure keeps calling the operation after a fatal error (%s)", desc)
		} else {
			h.line("MONITOR C18 the closure panicked instead of returning (%v) (%s)", panicked, desc)
		}
		return true
	}
	total := calls + overrun
	if cancelCall > 0 && cancelCall <= k {
		h.count("retry_cancelled_by_operation", 1)
		switch {
		case total != cancelCall:
			h.line("MONITOR C18 the context was cancelled during call %d but the operation was called %d times (%s)", cancelCall, total, desc)
		case err == nil || error(ce) != err:
			h.line("MONITOR C18 the context was cancelled during call %d but the context's error was not returned (%s)", cancelCall, desc)
		case res != nil:
			h.line("MONITOR C18 the context's error was returned with a non-nil result (%s)", desc)
		}
	} else {
		switch {
		case total != k+1:
			h.line("MONITOR C18 the operation was called %d times, want %d: the context reports a deadline but was not cancelled, so the loop has to reach the scripted %s (error returned: %v) (%s)",
				total, k+1, map[bool]string{false: "success", true: "fatal error"}[fatal], err != nil, desc)
		case !fatal && (err != nil || res != termRes):
			h.line("MONITOR C18 the first success's result with a nil error was not returned (nil error: %v) (%s)", err == nil, desc)
		case fatal && (err == nil || err != error(termErr) || res != termRes):
			h.line("MONITOR C18 the fatal error's call result and fully unwrapped error were not returned (%s)", desc)
		}
	}
	// no wait ends early unless Done() fired: wait i lies between the end of call i and the start of call i+1
	for i := 0; i+1 < len(starts) && i < len(ends) && i < len(delays); i++ {
		if cancelCall > 0 && i+1 >= cancelCall {
			break
		}
		d, gap := delays[i], starts[i+1].Sub(ends[i])
		if d >= 20*time.Millisecond {
			h.count("retry_long_waits_measured", 1)
			if gap < d/2 {
				h.line("MONITOR C18 the wait before retry %d returned after %v although the delay was %v and the context was not cancelled: a wait is cut short by cancellation only (%s)", i+1, gap, d, desc)
			}
		}
	}
	return true
}

// retryDeadlineWaits: the real waitDuration, all combinations at once (each in its own goroutine).
func retryDeadlineWaits(h *hctx, round int) (hangs int) {
	var wg sync.WaitGroup
	var nh atomic.Int32
	run := func(f func()) {
		wg.Add(1)
		go func() { defer wg.Done(); f() }()
	}
	// (a) a reported deadline does not end the wait, and the wait ends by itself
	for dlKind := 0; dlKind < 4; dlKind++ {
		for shape := 0; shape < 3; shape++ {
			d := time.Duration(20+h.rng.Intn(30)) * time.Millisecond
			ctx, dc, cleanup, ctxName := retryDlContext(shape, retryDlWhen(h, dlKind, d))
			name := retryDlNames[dlKind]
			run(func() {
				defer cleanup()
				el, ok := retryTimed(h, "waitDuration", 3*time.Second, func() { waitDuration(ctx, d) })
				h.count("wait_full", 1)
				switch {
				case !ok:
					nh.Add(1)
					h.line("MONITOR C18 waitDuration(ctx, %v) did not return within %v: the context (%s) reports a deadline %s but is never cancelled, the wait has to end after the delay", d, el, ctxName, name)
					if dc != nil {
						dc.cancel(&retryCtxErr{})
					}
				case el < d/2:
					h.line("MONITOR C18 waitDuration(ctx, %v) returned after %v although the context (%s, deadline %s) was not cancelled: a wait is cut short by cancellation only", d, el, ctxName, name)
				}
			})
		}
	}
	// (b) the wait IS cut when Done() closes, whatever deadline is reported - and not before
	for dlKind := 0; dlKind < 4; dlKind++ {
		dc := &retryDlCtx{deadline: retryDlWhen(h, dlKind, 10*time.Millisecond), done: make(chan struct{})}
		after := time.Duration(2+h.rng.Intn(10)) * time.Millisecond
		name := retryDlNames[dlKind]
		run(func() {
			var issued, early atomic.Bool
			go func() { time.Sleep(after); issued.Store(true); dc.cancel(&retryCtxErr{}) }()
			el, ok := retryTimed(h, "waitDuration(1h)", 3*time.Second+after, func() {
				waitDuration(dc, time.Hour)
				early.Store(!issued.Load())
			})
			h.count("wait_cut_by_done", 1)
			if !ok {
				nh.Add(1)
				h.line("MONITOR C18 waitDuration(ctx, 1h) was not cut short by the cancellation of a hand-made context reporting a deadline %s (%v)", name, el)
			} else if early.Load() {
				h.line("MONITOR C18 waitDuration(ctx, 1h) returned before the hand-made context (deadline %s) was cancelled", name)
			}
		})
	}
	// (c) standard contexts: a deadline that passes cuts a 1 h wait (the context is then cancelled); a far one does not cut a short wait
	{
		dl := time.Duration(3+h.rng.Intn(12)) * time.Millisecond
		run(func() {
			ctx, cancel := context.WithTimeout(context.Background(), dl)
			defer cancel()
			var live atomic.Bool
			el, ok := retryTimed(h, "waitDuration(1h)", 3*time.Second+dl, func() {
				waitDuration(ctx, time.Hour)
				live.Store(ctx.Err() == nil)
			})
			h.count("wait_cut_by_std_deadline", 1)
			if !ok {
				nh.Add(1)
				h.line("MONITOR C18 waitDuration(ctx, 1h) was not cut short when the deadline (%v) of a WithTimeout context passed (%v)", dl, el)
			} else if live.Load() {
				h.line("MONITOR C18 waitDuration(ctx, 1h) returned while its WithTimeout(%v) context was not cancelled yet", dl)
			}
		})
		d := time.Duration(20+h.rng.Intn(20)) * time.Millisecond
		run(func() {
			ctx, cancel := context.WithTimeout(context.Background(), time.Hour)
			defer cancel()
			el, ok := retryTimed(h, "waitDuration", 3*time.Second, func() { waitDuration(ctx, d) })
			h.count("wait_full", 1)
			if !ok {
				nh.Add(1)
				h.line("MONITOR C18 waitDuration(ctx, %v) with a WithTimeout(1h) context did not return within %v", d, el)
			} else if el < d/2 {
				h.line("MONITOR C18 waitDuration(ctx, %v) with a live WithTimeout(1h) context returned after %v", d, el)
			}
		})
		// a context with a far deadline (1 h, 2 h: beyond the end of the wait or not) that is cancelled EXPLICITLY during the wait cuts it
		for _, far := range []time.Duration{time.Hour, 3 * time.Hour} {
			far := far
			after := time.Duration(3+h.rng.Intn(15)) * time.Millisecond
			run(func() {
				ctx, cancel := context.WithTimeout(context.Background(), far)
				defer cancel()
				go func() { time.Sleep(after); cancel() }()
				el, ok := retryTimed(h, "waitDuration(2h)", 3*time.Second+after, func() { waitDuration(ctx, 2*time.Hour) })
				h.count("wait_cut_by_explicit_cancel_of_deadline_ctx", 1)
				if !ok {
					nh.Add(1)
					h.line("MONITOR C18 waitDuration(ctx, 2h) was not cut short when its WithTimeout(%v) context was cancelled explicitly after %v (%v)", far, after, el)
				}
			})
		}
	}
	wg.Wait()
	return int(nh.Load())
}

// retryDeadlineStdCase: a standard context whose deadline passes while retrying.
func retryDeadlineStdCase(h *hctx, id int) (ok bool) {
	dl := time.Duration(1+h.rng.Intn(12)) * time.Millisecond
	var (
		ctx     context.Context
		cleanup []context.CancelFunc
		name    string
	)
	switch id % 3 {
	case 0:
		c, cancel := context.WithTimeout(context.Background(), dl)
		ctx, cleanup, name = c, append(cleanup, cancel), "WithTimeout"
	case 1:
		c, cancel := context.WithDeadline(context.Background(), time.Now().Add(dl))
		ctx, cleanup, name = c, append(cleanup, cancel), "WithDeadline"
	default:
		p, cancelP := context.WithDeadline(context.Background(), time.Now().Add(dl))
		c, cancel := context.WithCancel(context.WithValue(p, retryAbort{}, id))
		ctx, cleanup, name = c, append(cleanup, cancel, cancelP), "WithCancel child of a WithDeadline context"
	}
	defer func() {
		for _, c := range cleanup {
			c()
		}
	}()
	rate := []time.Duration{1, 10, 100, 1000, 5000}[h.rng.Intn(5)] * time.Microsecond
	k := -1 // failures before the scripted success; -1: never succeeds
	if h.rng.Intn(2) == 0 {
		k = 1 + h.rng.Intn(10)
	}
	okRes := interface{}(id*100 + 3)
	calls, afterCancel := 0, 0
	sawCancelled := false
	fn := ExponentialRetry(ctx, rate, func() (interface{}, error) {
		if sawCancelled {
			afterCancel++ // the previous call ended with the context cancelled: the check before this call cannot have passed
		}
		defer func() { sawCancelled = sawCancelled || ctx.Err() != nil }()
		calls++
		if h.rng.Intn(2) == 0 {
			time.Sleep(time.Duration(h.rng.Intn(500)) * time.Microsecond)
		}
		if k >= 0 && calls > k {
			return okRes, nil
		}
		return -calls, &retryBaseErr{id: -calls}
	})
	var (
		res      interface{}
		err      error
		panicked interface{}
	)
	el, done := retryTimed(h, "closure (C18DEADLINE std)", 3*time.Second+dl, func() {
		defer func() { panicked = recover() }()
		res, err = fn()
	})
	desc := fmt.Sprintf("%s, deadline in %v, rate %v, success after %d failures (-1: never), case=s%d", name, dl, rate, k, id)
	h.count("std_cases", 1)
	switch {
	case !done && panicked == nil:
		h.line("MONITOR C18 the closure did not return within %v although its context's deadline passed long ago (%s)", el, desc)
		h.count("hang", 1)
		return false
	case panicked != nil:
		h.line("MONITOR C18 the closure panicked instead of returning (%v) (%s)", panicked, desc)
	case afterCancel != 0:
		h.line("MONITOR C18 %d operation calls started after a call at whose end the context was already cancelled (%s)", afterCancel, desc)
	case err == nil:
		h.count("std_success_first", 1)
		if k < 0 || calls != k+1 || res != okRes {
			h.line("MONITOR C18 a nil error was returned after %d calls but not the scripted success's result after %d calls (%s)", calls, k+1, desc)
		}
	default:
		h.count("std_deadline_first", 1)
		switch {
		case ctx.Err() == nil || err != ctx.Err(): // context.DeadlineExceeded / context.Canceled: comparable
			h.line("MONITOR C18 an error other than the context's was returned although the operation only returns plain errors (context cancelled: %v) (%s)", ctx.Err() != nil, desc)
		case res != nil:
			h.line("MONITOR C18 the context's error was returned with a non-nil result (%s)", desc)
		case k >= 0 && calls > k:
			h.line("MONITOR C18 the context's error was returned although call %d had succeeded (%s)", calls, desc)
		}
	}
	return true
}

func init() {
	register("C18DEADLINE", func(h *hctx) {
		hangs := 0
		rounds := 1 + h.n/40
		for i := 0; i < h.n; i++ {
			if i%40 == 0 && i/40 < rounds {
				if hangs += retryDeadlineWaits(h, i/40); hangs >= 2 {
					// stuck goroutines (3 s each) - one more look at the closure itself, then stop
					retryDeadlineCase(h, 0)
					return
				}
			}
			if !retryDeadlineCase(h, i) {
				if hangs++; hangs >= 2 {
					return
				}
			}
			if i%2 == 1 && !retryDeadlineStdCase(h, i/2) {
				if hangs++; hangs >= 2 {
					return
				}
			}
		}
	})
}
