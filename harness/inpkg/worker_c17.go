//go:build verif

package bigbuff

import (
	"fmt"
	"strings"
	"sync"
	"sync/atomic"
	"time"
)

// C17 — Worker. Encodings shared with checker/ad_worker.ml:
//
//	model "workerk" (K1, quiescent view; Model/Worker.v kstep):
//	  ops:  0 Do (launched in its own goroutine) | 1 h  done() of holder h | 2 k  let instance k's function return
//	        | 3  Do(nil) / nil receiver (must panic, changes nothing)
//	  outs: 7 ints = Do calls returned, instances started, instances that saw stop, instance functions returned,
//	        library goroutines alive above the baseline (watchers + do goroutines + callers blocked in Do),
//	        Do calls still blocked, 0
//	model "worker" (K2, free running; Model/Worker.v step):
//	  ops:  0 tag Do | 1 tag done() of the holder returned by Do tag | 2 k  an event of the k-th started instance
//	  outs: 0 for Do/done; for instance events the phase: 1 function entered, 2 saw stop closed, 3 about to return
const (
	wkGap       = 120 * time.Microsecond
	wkDeadline  = 3 * time.Second
	wkMaxInst   = 96
	wkPeekLimit = 150 * time.Millisecond
	wkMaxBad    = 5 // after this many condemned cases the scenario stops early (the verdict is already a violation)
)

type wkRec struct {
	inv, ret int
	op, out  []int
}

type wkCase struct {
	h        *hctx
	id       string
	w        *Worker
	started  atomic.Int32
	saw      atomic.Int32
	returned atomic.Int32
	overlap  atomic.Int32
	gates    []chan struct{} // K1: the function returns only when the harness closes its gate
	delays   []time.Duration // K2: per instance delay between seeing stop and returning
	record   bool
	mu       sync.Mutex
	recs     []wkRec
	monitors atomic.Int32
}

var wkBad atomic.Int32

func (c *wkCase) monitor(format string, args ...interface{}) {
	if c.monitors.Add(1) == 1 {
		wkBad.Add(1)
	}
	c.h.line("MONITOR C17 case=%s %s", c.id, fmt.Sprintf(format, args...))
}

func (c *wkCase) log(inv, ret int, op, out []int) {
	if !c.record {
		return
	}
	c.mu.Lock()
	c.recs = append(c.recs, wkRec{inv, ret, op, out})
	c.mu.Unlock()
}

func wkSpin(d time.Duration) {
	if d <= 0 {
		return
	}
	if d > 80*time.Microsecond {
		time.Sleep(d)
		return
	}
	for t := time.Now(); time.Since(t) < d; {
	}
}

// fn is the instance function handed to every Do of the case.
func (c *wkCase) fn(stop <-chan struct{}) {
	t0 := tick()
	idx := int(c.started.Add(1)) - 1
	if n := c.overlap.Add(1); n > 1 {
		c.monitor("two instance functions running at once: instance %d entered while %d other(s) had not returned", idx, n-1)
	}
	c.log(t0, tick(), []int{2, idx}, []int{1})
	if stop == nil {
		c.monitor("instance %d was handed a nil stop channel", idx)
		c.overlap.Add(-1)
		c.returned.Add(1)
		return
	}
	if idx >= wkMaxInst {
		c.monitor("more than %d instances started", wkMaxInst)
		<-stop
		c.overlap.Add(-1)
		c.returned.Add(1)
		return
	}
	t1 := tick()
	<-stop
	c.saw.Add(1)
	c.log(t1, tick(), []int{2, idx}, []int{2})
	if c.gates != nil {
		<-c.gates[idx]
	} else if c.delays != nil {
		wkSpin(c.delays[idx])
	}
	t2 := tick()
	c.overlap.Add(-1)
	c.returned.Add(1)
	c.log(t2, tick(), []int{2, idx}, []int{3})
}

// peek reads the Worker's fields under its mutex without ever blocking for long: ok=false means mu stayed locked.
func (c *wkCase) peek() (stop chan struct{}, done chan struct{}, wg *sync.WaitGroup, ok bool) {
	limit := wkPeekLimit
	if c.monitors.Load() > 0 {
		limit = time.Millisecond // the case is already condemned: do not spend more time on it
	}
	for t0 := time.Now(); ; {
		if c.w.mu.TryLock() {
			stop, done, wg = c.w.stop, c.w.done, c.w.wg
			c.w.mu.Unlock()
			return stop, done, wg, true
		}
		if time.Since(t0) > limit {
			return nil, nil, nil, false
		}
		time.Sleep(50 * time.Microsecond)
	}
}

// checkHeld is evaluated by a caller that currently holds the worker (its Do returned, its done not yet called).
func (c *wkCase) checkHeld(who string) {
	stop, _, _, ok := c.peek()
	switch {
	case !ok:
		c.monitor("%s: the worker's mutex stayed locked for 150ms while a holder is outstanding", who)
	case stop == nil:
		c.monitor("%s: no instance exists (stop is nil) while a holder is outstanding", who)
	default:
		select {
		case <-stop:
			c.monitor("%s: the stop channel is closed while a holder is outstanding", who)
		default:
		}
	}
}

// checkIdle is evaluated after every holder is done and the library is quiescent.
func (c *wkCase) checkIdle(base int) {
	if s, r := int(c.started.Load()), int(c.returned.Load()); s != r {
		c.monitor("nobody holds the worker but %d of %d started instance functions have not been stopped", s-r, s)
	}
	if n := libGoroutineCount(); n != base {
		c.monitor("nobody holds the worker but %d library goroutine(s) remain above the baseline %d", n-base, base)
	}
	stop, done, wg, ok := c.peek()
	if !ok {
		c.monitor("nobody holds the worker but its mutex is still locked")
	} else if stop != nil || done != nil || wg != nil {
		c.monitor("nobody holds the worker but stop/done/wg are not all nil (%v %v %v)", stop != nil, done != nil, wg != nil)
	}
}

func wkMustPanic(c *wkCase, what string, f func()) {
	defer func() {
		if recover() == nil {
			c.monitor("%s did not panic", what)
		}
	}()
	f()
}

func init() {
	register("C17K1", func(h *hctx) {
		for i := 0; i < h.n && wkBad.Load() < wkMaxBad; i++ {
			wkK1Case(h, i)
		}
	})
	register("C17K2", func(h *hctx) {
		for i := 0; i < h.n && wkBad.Load() < wkMaxBad; i++ {
			wkK2Case(h, i)
		}
	})
}

// ---------------------------------------------------------------------------------------------------------------
// K1: one harness action at a time, quiescence after each, the observable vector compared with the model's
// ---------------------------------------------------------------------------------------------------------------
func wkK1Case(h *hctx, id int) {
	c := &wkCase{h: h, id: fmt.Sprintf("k1-%d-%d", h.seed, id), w: new(Worker), gates: make([]chan struct{}, wkMaxInst)}
	for i := range c.gates {
		c.gates[i] = make(chan struct{})
	}
	if !quiesce(wkGap, wkDeadline) {
		c.monitor("library not quiescent at case start")
	}
	base := libGoroutineCount()
	var retMu sync.Mutex
	var fresh []func()
	var holders []func()
	var holderDone []bool
	pending, released, totalDo := 0, 0, 0
	var ops, outs [][]int
	observe := func() []int {
		if !quiesce(wkGap, wkDeadline) {
			c.monitor("no quiescence within %v", wkDeadline)
		}
		retMu.Lock()
		for _, d := range fresh {
			holders = append(holders, d)
			holderDone = append(holderDone, false)
			pending--
		}
		fresh = nil
		retMu.Unlock()
		return []int{len(holders), int(c.started.Load()), int(c.saw.Load()), int(c.returned.Load()),
			libGoroutineCount() - base, pending, 0}
	}
	outstanding := func() []int {
		var l []int
		for i, d := range holderDone {
			if !d {
				l = append(l, i)
			}
		}
		return l
	}
	doOp := func() {
		pending++
		totalDo++
		go func() {
			d := c.w.Do(c.fn)
			retMu.Lock()
			fresh = append(fresh, d)
			retMu.Unlock()
		}()
		ops = append(ops, []int{0})
		outs = append(outs, observe())
		h.count("k1_do", 1)
		if pending > 0 {
			h.count("k1_do_blocked", 1)
		}
	}
	doneOp := func(i int) {
		c.checkHeld(fmt.Sprintf("before done() of holder %d", i))
		holders[i]()
		holderDone[i] = true
		ops = append(ops, []int{1, i})
		outs = append(outs, observe())
		h.count("k1_done", 1)
	}
	releaseOp := func() {
		close(c.gates[released])
		ops = append(ops, []int{2, released})
		released++
		outs = append(outs, observe())
		h.count("k1_release", 1)
	}
	nops := 5 + h.rng.Intn(16)
	for k := 0; k < nops; k++ {
		out := outstanding()
		canRelease := int(c.saw.Load()) > released
		r := h.rng.Intn(100)
		switch {
		case r < 3:
			wkMustPanic(c, "Do(nil)", func() { c.w.Do(nil) })
			wkMustPanic(c, "(*Worker)(nil).Do", func() { (*Worker)(nil).Do(c.fn) })
			ops = append(ops, []int{3})
			outs = append(outs, observe())
			h.count("k1_malformed", 1)
		case r < 40 && totalDo < 14 && pending < 3:
			doOp()
		case r < 78 && len(out) > 0:
			doneOp(out[h.rng.Intn(len(out))])
		case canRelease:
			releaseOp()
		case totalDo < 14 && pending < 3:
			doOp()
		case len(out) > 0:
			doneOp(out[h.rng.Intn(len(out))])
		}
	}
	// drain: call every outstanding done, let every stopped instance return, until nothing is left
	for guard := 0; guard < 200; guard++ {
		out := outstanding()
		if len(out) > 0 {
			doneOp(out[h.rng.Intn(len(out))])
			continue
		}
		if int(c.saw.Load()) > released {
			releaseOp()
			continue
		}
		break
	}
	if pending != 0 || len(outstanding()) != 0 {
		c.monitor("drain did not finish: %d Do calls blocked, %d holders outstanding", pending, len(outstanding()))
	}
	c.checkIdle(base)
	if int(c.started.Load()) >= 2 {
		h.count("k1_cases_with_restart", 1)
	}
	h.count("k1_instances", int(c.started.Load()))
	h.line("K1 workerk %s # %s | %s", c.id, joinRecs(ops), joinRecs(outs))
	if c.monitors.Load() > 0 {
		// leave nothing of a broken case behind that could disturb the next one
		for i := released; i < wkMaxInst; i++ {
			close(c.gates[i])
		}
		quiesce(wkGap, wkDeadline)
	}
}

// ---------------------------------------------------------------------------------------------------------------
// K2: free running holders; the history must be a history of the model, the monitors must hold throughout
// ---------------------------------------------------------------------------------------------------------------
type wkPlan struct {
	pre, hold []time.Duration
}

func wkDelay(h *hctx) time.Duration {
	switch r := h.rng.Intn(10); {
	case r < 4:
		return 0
	case r < 8:
		return time.Duration(h.rng.Intn(60)) * time.Microsecond
	default:
		return time.Duration(100+h.rng.Intn(300)) * time.Microsecond
	}
}

func wkK2Case(h *hctx, id int) {
	c := &wkCase{h: h, id: fmt.Sprintf("k2-%d-%d", h.seed, id), w: new(Worker), record: true,
		delays: make([]time.Duration, wkMaxInst)}
	for i := range c.delays {
		c.delays[i] = wkDelay(h)
	}
	if !quiesce(wkGap, wkDeadline) {
		c.monitor("library not quiescent at case start")
	}
	base := libGoroutineCount()
	var wg sync.WaitGroup
	start := make(chan struct{})
	hold := func(tag int, pre, dur time.Duration) {
		wkSpin(pre)
		inv := tick()
		d := c.w.Do(c.fn)
		c.log(inv, tick(), []int{0, tag}, []int{0})
		c.checkHeld(fmt.Sprintf("holder %d after Do", tag))
		wkSpin(dur)
		c.checkHeld(fmt.Sprintf("holder %d before done()", tag))
		inv = tick()
		d()
		c.log(inv, tick(), []int{1, tag}, []int{0})
	}
	nholds := 0
	if id%3 == 0 {
		// relay: the last done() of one holder races with the Do of the next
		rounds := 2 + h.rng.Intn(4)
		type leg struct{ relDelay, doDelay, hold time.Duration }
		legs := make([]leg, rounds)
		for i := range legs {
			legs[i] = leg{time.Duration(h.rng.Intn(40)) * time.Microsecond, time.Duration(h.rng.Intn(40)) * time.Microsecond, wkDelay(h)}
		}
		wg.Add(1)
		go func() {
			defer wg.Done()
			<-start
			inv := tick()
			d := c.w.Do(c.fn)
			c.log(inv, tick(), []int{0, 0}, []int{0})
			for i, l := range legs {
				var inner sync.WaitGroup
				inner.Add(2)
				next := make(chan func(), 1)
				go func(d func(), tag int) {
					defer inner.Done()
					wkSpin(l.relDelay)
					c.checkHeld(fmt.Sprintf("holder %d before done()", tag))
					inv := tick()
					d()
					c.log(inv, tick(), []int{1, tag}, []int{0})
				}(d, i)
				go func(tag int) {
					defer inner.Done()
					wkSpin(l.doDelay)
					inv := tick()
					nd := c.w.Do(c.fn)
					c.log(inv, tick(), []int{0, tag}, []int{0})
					c.checkHeld(fmt.Sprintf("holder %d after Do", tag))
					next <- nd
				}(i + 1)
				inner.Wait()
				d = <-next
				wkSpin(l.hold)
			}
			c.checkHeld("last holder before done()")
			inv = tick()
			d()
			c.log(inv, tick(), []int{1, len(legs)}, []int{0})
		}()
		nholds = rounds + 1
		h.count("k2_relay_cases", 1)
	} else {
		nthreads := 2 + h.rng.Intn(4)
		for t := 0; t < nthreads; t++ {
			iters := 1 + h.rng.Intn(3)
			p := wkPlan{}
			for i := 0; i < iters; i++ {
				p.pre = append(p.pre, wkDelay(h))
				p.hold = append(p.hold, wkDelay(h))
			}
			nholds += iters
			wg.Add(1)
			go func(t int, p wkPlan) {
				defer wg.Done()
				<-start
				for i := range p.pre {
					hold(t*100+i, p.pre[i], p.hold[i])
				}
			}(t, p)
		}
		h.count("k2_burst_cases", 1)
	}
	close(start)
	fin := make(chan struct{})
	go func() { wg.Wait(); close(fin) }()
	select {
	case <-fin:
	case <-time.After(20 * time.Second):
		c.monitor("holders did not all finish within 20s (a Do or the stop phase hangs)")
		return
	}
	if !quiesce(wkGap, wkDeadline) {
		c.monitor("no quiescence within %v after every holder was done", wkDeadline)
	}
	c.checkIdle(base)
	c.mu.Lock()
	parts := make([]string, len(c.recs))
	for i, r := range c.recs {
		parts[i] = fmt.Sprintf("%d %d : %s : %s", r.inv, r.ret, ints(r.op), ints(r.out))
	}
	c.mu.Unlock()
	h.line("K2 worker %s # %s", c.id, strings.Join(parts, " ; "))
	h.count("k2_holds", nholds)
	h.count("k2_instances", int(c.started.Load()))
	if c.started.Load() >= 2 {
		h.count("k2_cases_with_restart", 1)
	}
}
