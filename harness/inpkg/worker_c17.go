//go:build verif

package bigbuff

import (
	"fmt"
	"strings"
	"sync"
	"sync/atomic"
	"time"
)

// C17 — Worker. Encodings shared with checker/ad_worker.ml:
//
//	model "workerk" (K1, quiescent view; Model/Worker.v kstep):
//	  ops:  0 Do (launched in its own goroutine) | 1 h  done() of holder h | 2 k  let instance k's function return (it
//	        has seen stop) | 3  Do(nil) / nil receiver (must panic, changes nothing) | 4 k  instance k's function
//	        returns ON ITS OWN, stop still open (it leaves a helper goroutine watching the stop channel)
//	  outs: 8 ints = Do calls returned, instances started, instance functions that saw stop themselves, instance
//	        functions returned, library goroutines alive above the baseline (watchers + do goroutines + callers blocked
//	        in Do), Do calls still blocked, stop channels closed, 0
//	model "worker" (K2, free running; Model/Worker.v step):
//	  ops:  0 tag Do | 1 tag done() of the holder returned by Do tag | 2 k  an event of the k-th started instance
//	        | 3 k  the k-th started instance returns on its own
//	  outs: 0 for Do/done; for instance events the phase: 1 function entered, 2 saw stop closed, 3 about to return,
//	        4 returning on its own
//
// Every wait of the harness is bounded: a wait that expires is reported as a MONITOR line and the Worker is abandoned.
const (
	wkGap       = 120 * time.Microsecond
	wkDeadline  = 3 * time.Second
	wkMaxInst   = 96
	wkPeekLimit = 150 * time.Millisecond
	wkMaxBad    = 5 // after this many condemned cases the scenario stops early (the verdict is already a violation)
)

type wkRec struct {
	inv, ret int
	op, out  []int
}

type wkCase struct {
	h        *hctx
	id       string
	w        *Worker
	started  atomic.Int32
	saw      atomic.Int32
	returned atomic.Int32
	overlap  atomic.Int32
	sawFlag  []atomic.Bool   // instance idx saw its stop channel closed itself
	gates    []chan struct{} // K1: after seeing stop the function returns only when the harness closes its gate
	earlyG   []chan struct{} // K1: closed by the harness to make the function return on its own
	modes    []int           // K2: 0 run until stopped | 1 return at once | 2 return on its own after delays[idx]
	delays   []time.Duration // K2: per instance delay before returning
	record   bool
	mu       sync.Mutex
	recs     []wkRec
	stops    []<-chan struct{} // the stop channel handed to each started instance
	heldOn   []chan struct{}   // K2: the stop channels found current by some holder (checked against stops at the end)
	monitors atomic.Int32
}

var wkBad atomic.Int32

func (c *wkCase) monitor(format string, args ...interface{}) {
	if c.monitors.Add(1) == 1 {
		wkBad.Add(1)
	}
	c.h.line("MONITOR C17 case=%s %s", c.id, fmt.Sprintf(format, args...))
}

func (c *wkCase) log(inv, ret int, op, out []int) {
	if !c.record {
		return
	}
	c.mu.Lock()
	c.recs = append(c.recs, wkRec{inv, ret, op, out})
	c.mu.Unlock()
}

func wkSpin(d time.Duration) {
	if d <= 0 {
		return
	}
	if d > 80*time.Microsecond {
		time.Sleep(d)
		return
	}
	for t := time.Now(); time.Since(t) < d; {
	}
}

// fn is the instance function handed to every Do of the case.
func (c *wkCase) fn(stop <-chan struct{}) {
	t0 := tick()
	c.mu.Lock()
	idx := len(c.stops)
	c.stops = append(c.stops, stop)
	c.mu.Unlock()
	c.started.Add(1)
	if n := c.overlap.Add(1); n > 1 {
		c.monitor("two instance functions running at once: instance %d entered while %d other(s) had not returned", idx, n-1)
	}
	c.log(t0, tick(), []int{2, idx}, []int{1})
	leave := func() {
		c.overlap.Add(-1)
		c.returned.Add(1)
	}
	if stop == nil {
		c.monitor("instance %d was handed a nil stop channel", idx)
		leave()
		return
	}
	if idx >= wkMaxInst {
		c.monitor("more than %d instances started", wkMaxInst)
		<-stop
		leave()
		return
	}
	early := func() {
		// hand the stop channel to a helper whose lifetime is bound to it, then return without waiting for stop
		go func() { <-stop }()
		t := tick()
		leave()
		c.log(t, tick(), []int{3, idx}, []int{4})
	}
	t1 := tick()
	switch {
	case c.modes != nil && c.modes[idx] == 1:
		early()
		return
	case c.modes != nil && c.modes[idx] == 2:
		wkSpin(c.delays[idx])
		early()
		return
	case c.earlyG != nil:
		select {
		case <-stop:
		case <-c.earlyG[idx]:
			early()
			return
		}
	default:
		<-stop
	}
	c.sawFlag[idx].Store(true)
	c.saw.Add(1)
	c.log(t1, tick(), []int{2, idx}, []int{2})
	if c.gates != nil {
		<-c.gates[idx]
	} else if c.delays != nil {
		wkSpin(c.delays[idx])
	}
	t2 := tick()
	leave()
	c.log(t2, tick(), []int{2, idx}, []int{3})
}

// peek reads the Worker's fields under its mutex without ever blocking for long: ok=false means mu stayed locked.
func (c *wkCase) peek() (stop chan struct{}, done chan struct{}, wg *sync.WaitGroup, ok bool) {
	limit := wkPeekLimit
	if c.monitors.Load() > 0 {
		limit = time.Millisecond // the case is already condemned: do not spend more time on it
	}
	for t0 := time.Now(); ; {
		// Worker: mu is its only sync.Mutex, wg its only *sync.WaitGroup, stop and done its first and second chan struct{}
		if mu := fld[sync.Mutex](c.w, "mu"); mu.TryLock() {
			stop, done, wg = *fld[chan struct{}](c.w, "stop", 0), *fld[chan struct{}](c.w, "done", 1), *fld[*sync.WaitGroup](c.w, "wg")
			mu.Unlock()
			return stop, done, wg, true
		}
		if time.Since(t0) > limit {
			return nil, nil, nil, false
		}
		time.Sleep(50 * time.Microsecond)
	}
}

func (c *wkCase) instanceOf(stop chan struct{}) int {
	c.mu.Lock()
	defer c.mu.Unlock()
	for i, s := range c.stops {
		if s == (<-chan struct{})(stop) {
			return i
		}
	}
	return -1
}

// checkHeld is evaluated by a caller that currently holds the worker (its Do returned, its done not yet called).
// quiescent: the library is quiescent, so the instance's goroutine must already have been scheduled; otherwise the
// stop channel is only remembered and matched against the started instances at the end of the case (waiting for the
// goroutine here would hide late-start bugs).
func (c *wkCase) checkHeld(who string, quiescent bool) {
	stop, _, _, ok := c.peek()
	switch {
	case !ok:
		c.monitor("%s: the worker's mutex stayed locked for %v while a holder is outstanding", who, wkPeekLimit)
	case stop == nil:
		c.monitor("%s: no instance exists (stop is nil) while a holder is outstanding", who)
	default:
		select {
		case <-stop:
			c.monitor("%s: the stop channel is closed while a holder is outstanding", who)
			return
		default:
		}
		if !quiescent {
			c.mu.Lock()
			if n := len(c.heldOn); n == 0 || c.heldOn[n-1] != stop {
				c.heldOn = append(c.heldOn, stop)
			}
			c.mu.Unlock()
		} else if c.monitors.Load() == 0 && c.instanceOf(stop) < 0 {
			c.monitor("%s: Do returned but no instance was started while held (no function has been handed the current stop channel)", who)
		}
	}
}

// checkIdle is evaluated after every holder is done and the library is quiescent.
func (c *wkCase) checkIdle(base int) {
	c.mu.Lock()
	heldOn := append([]chan struct{}(nil), c.heldOn...)
	c.mu.Unlock()
	for _, s := range heldOn {
		if c.instanceOf(s) < 0 {
			c.monitor("Do returned but no instance was ever started for the stop channel that was current while held")
			break
		}
	}
	if s, r := int(c.started.Load()), int(c.returned.Load()); s != r {
		c.monitor("nobody holds the worker but %d of %d started instance functions have not been stopped", s-r, s)
	}
	c.mu.Lock()
	stops := append([]<-chan struct{}(nil), c.stops...)
	c.mu.Unlock()
	for i, s := range stops {
		if s == nil {
			continue
		}
		select {
		case <-s:
		default:
			c.monitor("nobody holds the worker but the stop channel of instance %d was never closed (anything watching it leaks)", i)
		}
	}
	if n := libGoroutineCount(); n != base {
		c.monitor("nobody holds the worker but %d library goroutine(s) remain above the baseline %d", n-base, base)
	}
	stop, done, wg, ok := c.peek()
	if !ok {
		c.monitor("nobody holds the worker but its mutex is still locked")
	} else if stop != nil || done != nil || wg != nil {
		c.monitor("nobody holds the worker but stop/done/wg are not all nil (%v %v %v)", stop != nil, done != nil, wg != nil)
	}
}

func (c *wkCase) stopsClosed() int {
	c.mu.Lock()
	defer c.mu.Unlock()
	n := 0
	for _, s := range c.stops {
		if s == nil {
			continue
		}
		select {
		case <-s:
			n++
		default:
		}
	}
	return n
}

// invalidDo calls Do with invalid input in its own goroutine: it must panic promptly (it never needs the mutex).
func (c *wkCase) invalidDo() {
	for _, v := range []struct {
		what string
		f    func()
	}{
		{"Do(nil)", func() { c.w.Do(nil) }},
		{"(*Worker)(nil).Do", func() { (*Worker)(nil).Do(c.fn) }},
	} {
		res := make(chan bool, 1)
		go func() {
			defer func() { res <- recover() != nil }()
			v.f()
		}()
		select {
		case p := <-res:
			if !p {
				c.monitor("%s did not panic", v.what)
			}
		case <-time.After(wkDeadline):
			c.monitor("%s neither panicked nor returned within %v (hang)", v.what, wkDeadline)
		}
	}
}

func init() {
	register("C17K1", func(h *hctx) {
		for i := 0; i < h.n && wkBad.Load() < wkMaxBad; i++ {
			wkK1Case(h, i)
		}
	})
	register("C17K2", func(h *hctx) {
		for i := 0; i < h.n && wkBad.Load() < wkMaxBad; i++ {
			wkK2Case(h, i)
		}
	})
}

// ---------------------------------------------------------------------------------------------------------------
// K1: one harness action at a time, quiescence after each, the observable vector compared with the model's
// ---------------------------------------------------------------------------------------------------------------
func wkK1Case(h *hctx, id int) {
	c := &wkCase{h: h, id: fmt.Sprintf("k1-%d-%d", h.seed, id), w: new(Worker), gates: make([]chan struct{}, wkMaxInst),
		earlyG: make([]chan struct{}, wkMaxInst), sawFlag: make([]atomic.Bool, wkMaxInst)}
	for i := range c.gates {
		c.gates[i] = make(chan struct{})
		c.earlyG[i] = make(chan struct{})
	}
	if !quiesce(wkGap, wkDeadline) {
		c.monitor("library not quiescent at case start")
	}
	base := libGoroutineCount()
	var retMu sync.Mutex
	var fresh []func()
	var holders []func()
	var holderDone []bool
	gateOpen := make([]bool, wkMaxInst)  // gates[i] closed by the harness
	earlyOpen := make([]bool, wkMaxInst) // earlyG[i] closed by the harness
	pending, totalDo := 0, 0
	var ops, outs [][]int
	outstanding := func() []int {
		var l []int
		for i, d := range holderDone {
			if !d {
				l = append(l, i)
			}
		}
		return l
	}
	observe := func() []int {
		if !quiesce(wkGap, wkDeadline) {
			c.monitor("no quiescence within %v", wkDeadline)
		}
		retMu.Lock()
		for _, d := range fresh {
			holders = append(holders, d)
			holderDone = append(holderDone, false)
			pending--
		}
		fresh = nil
		retMu.Unlock()
		if len(outstanding()) > 0 {
			c.checkHeld("at a quiescent point with a holder outstanding", true)
		}
		return []int{len(holders), int(c.started.Load()), int(c.saw.Load()), int(c.returned.Load()),
			libGoroutineCount() - base, pending, c.stopsClosed(), 0}
	}
	// the instance whose function saw stop and waits for its gate / the instance whose function is still running
	gated := func() int {
		for i := 0; i < int(c.started.Load()) && i < wkMaxInst; i++ {
			if c.sawFlag[i].Load() && !gateOpen[i] {
				return i
			}
		}
		return -1
	}
	running := func() int {
		i := int(c.started.Load()) - 1
		if i >= 0 && i < wkMaxInst && !c.sawFlag[i].Load() && !earlyOpen[i] {
			return i
		}
		return -1
	}
	doOp := func() {
		pending++
		totalDo++
		go func() {
			d := c.w.Do(c.fn)
			retMu.Lock()
			fresh = append(fresh, d)
			retMu.Unlock()
		}()
		ops = append(ops, []int{0})
		outs = append(outs, observe())
		h.count("k1_do", 1)
		if pending > 0 {
			h.count("k1_do_blocked", 1)
		}
	}
	doneOp := func(i int) {
		c.checkHeld(fmt.Sprintf("before done() of holder %d", i), true)
		holders[i]()
		holderDone[i] = true
		ops = append(ops, []int{1, i})
		outs = append(outs, observe())
		h.count("k1_done", 1)
	}
	releaseOp := func(i int) {
		close(c.gates[i])
		gateOpen[i] = true
		ops = append(ops, []int{2, i})
		outs = append(outs, observe())
		h.count("k1_release", 1)
	}
	earlyOp := func(i int) {
		close(c.earlyG[i])
		earlyOpen[i] = true
		ops = append(ops, []int{4, i})
		outs = append(outs, observe())
		h.count("k1_early_return", 1)
		if len(outstanding()) > 0 {
			h.count("k1_early_return_while_held", 1)
		}
	}
	invalidOp := func(key string) {
		c.invalidDo()
		ops = append(ops, []int{3})
		outs = append(outs, observe())
		h.count(key, 1)
	}
	if h.rng.Intn(3) == 0 {
		invalidOp("k1_invalid_on_fresh_worker") // a rejected Do on an idle Worker must leave it usable
	}
	nops := 5 + h.rng.Intn(16)
	for k := 0; k < nops && c.monitors.Load() == 0; k++ {
		out := outstanding()
		r := h.rng.Intn(100)
		idle := len(out) == 0 && pending == 0 && gated() < 0 && running() < 0
		switch {
		case r < 4 || (idle && r < 25):
			if idle {
				invalidOp("k1_invalid_on_idle_worker")
			} else {
				invalidOp("k1_invalid_in_use")
			}
		case r < 40 && totalDo < 14 && pending < 3:
			doOp()
		case r < 74 && len(out) > 0:
			doneOp(out[h.rng.Intn(len(out))])
		case r < 84 && running() >= 0:
			earlyOp(running())
		case gated() >= 0:
			releaseOp(gated())
		case totalDo < 14 && pending < 3:
			doOp()
		case len(out) > 0:
			doneOp(out[h.rng.Intn(len(out))])
		}
	}
	// drain: call every outstanding done, let every stopped instance return, until nothing is left
	for guard := 0; guard < 200 && c.monitors.Load() == 0; guard++ {
		out := outstanding()
		if len(out) > 0 {
			doneOp(out[h.rng.Intn(len(out))])
			continue
		}
		if g := gated(); g >= 0 {
			releaseOp(g)
			continue
		}
		break
	}
	if c.monitors.Load() == 0 {
		if pending != 0 || len(outstanding()) != 0 {
			c.monitor("drain did not finish: %d Do calls blocked, %d holders outstanding", pending, len(outstanding()))
		}
		c.checkIdle(base)
	}
	if int(c.started.Load()) >= 2 {
		h.count("k1_cases_with_restart", 1)
	}
	h.count("k1_instances", int(c.started.Load()))
	h.line("K1 workerk %s # %s | %s", c.id, joinRecs(ops), joinRecs(outs))
	if c.monitors.Load() > 0 {
		// abandon this Worker: let whatever can finish finish, so that it disturbs the next case as little as possible
		for i := 0; i < wkMaxInst; i++ {
			if !gateOpen[i] {
				close(c.gates[i])
			}
			if !earlyOpen[i] {
				close(c.earlyG[i])
			}
		}
		retMu.Lock()
		for _, d := range fresh {
			holders = append(holders, d)
			holderDone = append(holderDone, false)
		}
		fresh = nil
		retMu.Unlock()
		for i, d := range holderDone {
			if !d {
				holders[i]()
			}
		}
		quiesce(wkGap, wkDeadline)
		h.count("k1_abandoned", 1)
	}
}

// ---------------------------------------------------------------------------------------------------------------
// K2: free running holders; the history must be a history of the model, the monitors must hold throughout
// ---------------------------------------------------------------------------------------------------------------
type wkPlan struct {
	pre, hold []time.Duration
	invalid   []bool
	blind     []bool
}

func wkDelay(h *hctx) time.Duration {
	switch r := h.rng.Intn(10); {
	case r < 4:
		return 0
	case r < 8:
		return time.Duration(h.rng.Intn(60)) * time.Microsecond
	default:
		return time.Duration(100+h.rng.Intn(300)) * time.Microsecond
	}
}

func wkK2Case(h *hctx, id int) {
	c := &wkCase{h: h, id: fmt.Sprintf("k2-%d-%d", h.seed, id), w: new(Worker), record: true,
		delays: make([]time.Duration, wkMaxInst), modes: make([]int, wkMaxInst), sawFlag: make([]atomic.Bool, wkMaxInst)}
	earlyCase := h.rng.Intn(3) == 0 // in a third of the cases some instance functions return on their own
	for i := range c.delays {
		c.delays[i] = wkDelay(h)
		if earlyCase {
			switch r := h.rng.Intn(10); {
			case r < 3:
				c.modes[i] = 1
			case r < 6:
				c.modes[i] = 2
			}
		}
	}
	if earlyCase {
		h.count("k2_cases_with_early_returns", 1)
	}
	if !quiesce(wkGap, wkDeadline) {
		c.monitor("library not quiescent at case start")
	}
	base := libGoroutineCount()
	if h.rng.Intn(3) == 0 {
		c.invalidDo() // a rejected Do on a fresh Worker must leave it usable
		h.count("k2_invalid_on_fresh_worker", 1)
	}
	var wg sync.WaitGroup
	start := make(chan struct{})
	hold := func(tag int, pre, dur time.Duration, blind bool) {
		wkSpin(pre)
		inv := tick()
		d := c.w.Do(c.fn)
		c.log(inv, tick(), []int{0, tag}, []int{0})
		if !blind { // a blind hold does not look at the Worker: Do..done as tight as the plan says
			c.checkHeld(fmt.Sprintf("holder %d after Do", tag), false)
		}
		wkSpin(dur)
		if !blind {
			c.checkHeld(fmt.Sprintf("holder %d before done()", tag), false)
		}
		inv = tick()
		d()
		c.log(inv, tick(), []int{1, tag}, []int{0})
	}
	nholds := 0
	if id%3 == 0 {
		// relay: the last done() of one holder races with the Do of the next
		rounds := 2 + h.rng.Intn(4)
		type leg struct{ relDelay, doDelay, hold time.Duration }
		legs := make([]leg, rounds)
		for i := range legs {
			legs[i] = leg{time.Duration(h.rng.Intn(40)) * time.Microsecond, time.Duration(h.rng.Intn(40)) * time.Microsecond, wkDelay(h)}
		}
		wg.Add(1)
		go func() {
			defer wg.Done()
			<-start
			inv := tick()
			d := c.w.Do(c.fn)
			c.log(inv, tick(), []int{0, 0}, []int{0})
			for i, l := range legs {
				l := l
				var inner sync.WaitGroup
				inner.Add(2)
				next := make(chan func(), 1)
				go func(d func(), tag int) {
					defer inner.Done()
					wkSpin(l.relDelay)
					c.checkHeld(fmt.Sprintf("holder %d before done()", tag), false)
					inv := tick()
					d()
					c.log(inv, tick(), []int{1, tag}, []int{0})
				}(d, i)
				go func(tag int) {
					defer inner.Done()
					wkSpin(l.doDelay)
					inv := tick()
					nd := c.w.Do(c.fn)
					c.log(inv, tick(), []int{0, tag}, []int{0})
					c.checkHeld(fmt.Sprintf("holder %d after Do", tag), false)
					next <- nd
				}(i + 1)
				inner.Wait()
				d = <-next
				wkSpin(l.hold)
			}
			c.checkHeld("last holder before done()", false)
			inv = tick()
			d()
			c.log(inv, tick(), []int{1, len(legs)}, []int{0})
		}()
		nholds = rounds + 1
		h.count("k2_relay_cases", 1)
	} else {
		nthreads := 2 + h.rng.Intn(4)
		for t := 0; t < nthreads; t++ {
			iters := 1 + h.rng.Intn(3)
			p := wkPlan{}
			for i := 0; i < iters; i++ {
				p.pre = append(p.pre, wkDelay(h))
				p.hold = append(p.hold, wkDelay(h))
				p.invalid = append(p.invalid, h.rng.Intn(8) == 0)
				p.blind = append(p.blind, h.rng.Intn(3) == 0)
			}
			nholds += iters
			wg.Add(1)
			go func(t int, p wkPlan) {
				defer wg.Done()
				<-start
				for i := range p.pre {
					if p.invalid[i] {
						c.invalidDo() // between two holds the Worker may well be idle
						h.count("k2_invalid_between_holds", 1)
					}
					hold(t*100+i, p.pre[i], p.hold[i], p.blind[i])
				}
			}(t, p)
		}
		h.count("k2_burst_cases", 1)
	}
	close(start)
	fin := make(chan struct{})
	go func() { wg.Wait(); close(fin) }()
	select {
	case <-fin:
	case <-time.After(4 * wkDeadline):
		c.monitor("holders did not all finish within %v (a Do or the stop phase hangs)", 4*wkDeadline)
		return
	}
	if !quiesce(wkGap, wkDeadline) {
		c.monitor("no quiescence within %v after every holder was done", wkDeadline)
	}
	c.checkIdle(base)
	c.mu.Lock()
	parts := make([]string, len(c.recs))
	early := 0
	for i, r := range c.recs {
		parts[i] = fmt.Sprintf("%d %d : %s : %s", r.inv, r.ret, ints(r.op), ints(r.out))
		if r.op[0] == 3 {
			early++
		}
	}
	c.mu.Unlock()
	h.line("K2 worker %s # %s", c.id, strings.Join(parts, " ; "))
	h.count("k2_holds", nholds)
	h.count("k2_instances", int(c.started.Load()))
	h.count("k2_early_returns", early)
	if c.started.Load() >= 2 {
		h.count("k2_cases_with_restart", 1)
	}
}
