//go:build verif

package bigbuff

// Standalone monitor scenario for ChanPubSub prompted by a seeded "plausible improvement" change (SubscribeContext registering
// its context cleanup before it has subscribed): behaviour the random programs of C06K2 do not reach, because there a Send
// is in its delivery phase for microseconds only and no context is cancelled before SubscribeContext is called.
//
//   C06SUBCTX  1-3 standing manual subscribers, at least one of them slow (30-100 ms of "processing" before each receive,
//              then receive, then Wait: within the contract), so that every Send sits in its delivery phase for 30-100 ms.
//              During (mostly) and around each of 2-3 Sends, 2-5 goroutines call SubscribeContext with
//                (a) an already-cancelled context (cancel() called, or a deadline in the past),
//                (b) a context cancelled concurrently at a random offset (cancel() from another goroutine, or a timeout),
//                (c) a live context, cancelled later (at a random offset or when the case ends);
//              the iterator is run at once, after a short delay, or never (never: only (a)/(b), as the documentation demands).
//
// Monitors (evaluated by psRun.eval of pubsub_c06.go on the tick log, plus the end-of-case checks below):
//   C06  for every Send(v) that returned n, v was received exactly n times, by n distinct subscriptions;
//   C06  every subscription established before the Send began and not withdrawn before it returned is among them: the standing
//        subscribers receive EVERY message, and so does a live SubscribeContext subscription whose context was cancelled only
//        after the Send returned;
//   C06  no subscription receives a message twice, or one whose Send had returned before it subscribed; one global order;
//   C07  every call (Send, SubscribeContext, the iterator, Add, Wait) returns (3 s without returning = hang), none panics;
//   C07  when all calls have returned (every context cancelled, every iterator back) the subscriber count equals the number
//        of standing subscribers - whatever SubscribeContext does with a cancelled context, it must not leave a subscription
//        behind nor withdraw somebody else's - a later Send reaches exactly the standing subscribers, and after they left the
//        count is 0, Send returns 0 and the instance is not broken.
// Nothing here depends on HOW SubscribeContext treats a cancelled context (subscribing and unsubscribing at once, or not
// subscribing at all, are both fine).

import (
	"context"
	"fmt"
	"math"
	"math/rand"
	"sync"
	"sync/atomic"
	"time"
)

const (
	scPreCancelled = iota // (a)
	scConcurrent          // (b)
	scLive                // (c)
)

const (
	scRunNow = iota
	scRunLater
	scRunNever
)

type scJoiner struct {
	sub      *psSub
	send     int           // launched relative to the invocation of this Send
	at       time.Duration // offset from that invocation
	kind     int
	deadline bool          // the context ends by a deadline/timeout instead of a cancel() call ((a) and (b) only)
	cancelAt time.Duration // (b): offset from just before the SubscribeContext call; (c): from its return, 0 = when the case ends
	run      int
	runDelay time.Duration
}

type scPlan struct {
	standing [][]time.Duration // per standing subscriber: the processing time before each receive (cycled)
	gaps     []time.Duration   // one per Send: pause after it
	joiners  []scJoiner
}

func scRandomPlan(rng *rand.Rand) scPlan {
	var p scPlan
	ms := func(lo, hi int) time.Duration {
		return time.Duration(lo*1000+rng.Intn((hi-lo)*1000+1)) * time.Microsecond
	}
	k := 1 + rng.Intn(3)
	slow := rng.Intn(k) // this one is slow before every receive; the others are slow, fast or mixed
	for i := 0; i < k; i++ {
		var d []time.Duration
		mode := rng.Intn(3)
		for c := 0; c < 4; c++ {
			switch {
			case i == slow || mode == 0:
				d = append(d, ms(30, 100))
			case mode == 1:
				d = append(d, 0)
			default:
				d = append(d, []time.Duration{0, ms(0, 3), ms(30, 100)}[rng.Intn(3)])
			}
		}
		p.standing = append(p.standing, d)
	}
	ns := 2 + rng.Intn(2)
	for q := 0; q < ns; q++ {
		g := time.Duration(0)
		if rng.Intn(3) == 0 {
			g = ms(0, 15)
		}
		p.gaps = append(p.gaps, g)
		nj := 2 + rng.Intn(4)
		for i := 0; i < nj; i++ {
			j := scJoiner{send: q, kind: rng.Intn(3)}
			switch rng.Intn(8) {
			case 0:
				j.at = 0 // racing the start of the Send
			case 1:
				j.at = ms(30, 130) // around the end of the delivery, the acknowledgements, the gap, the next Send
			default:
				j.at = ms(2, 25) // the Send is delivering: the slow subscriber is not receiving yet
			}
			switch j.kind {
			case scPreCancelled:
				j.deadline = rng.Intn(4) == 0
				j.run = []int{scRunNow, scRunNow, scRunLater, scRunNever}[rng.Intn(4)]
			case scConcurrent:
				j.deadline = rng.Intn(4) == 0
				j.cancelAt = []time.Duration{ms(0, 1), ms(0, 10), ms(0, 60), ms(20, 120)}[rng.Intn(4)]
				j.run = []int{scRunNow, scRunNow, scRunLater, scRunNever}[rng.Intn(4)]
			case scLive:
				if rng.Intn(3) != 0 {
					j.cancelAt = ms(20, 300)
				}
				j.run = scRunNow // a live subscription must be received from at once
			}
			if j.run == scRunLater {
				j.runDelay = ms(0, 5)
			}
			p.joiners = append(p.joiners, j)
		}
	}
	return p
}

// scStanding: a standing manual subscriber that processes for delays[i] before its i-th receive.
func (r *psRun) scStanding(s *psSub, delays []time.Duration) {
	defer close(s.done)
	defer r.guard(fmt.Sprintf("standing subscriber %d", s.id))
	s.state.Store(1)
	a := tick()
	r.x.Add(1)
	b := tick()
	r.mu.Lock()
	s.addInv, s.addRet = a, b
	r.mu.Unlock()
	close(s.joined)
loop:
	for i := 0; ; i++ {
		s.state.Store(2)
		if d := delays[i%len(delays)]; d > 0 {
			select {
			case <-time.After(d):
			case <-s.stop:
				break loop
			}
		}
		select {
		case v := <-r.x.C():
			r.record(s, v, true)
			s.state.Store(3)
			r.x.Wait()
		case <-s.stop:
			break loop
		}
	}
	s.state.Store(4)
	s.markUnInv()
	r.x.Add(-1)
	s.unRet.Store(int64(tick()))
	s.state.Store(5)
}

// scJoin: one SubscribeContext life cycle, started `at` after `start`.
func (r *psRun) scJoin(j *scJoiner, start time.Time) {
	s := j.sub
	defer close(s.done)
	who := fmt.Sprintf("subscriber %d (SubscribeContext, %s)", s.id, psStyleName[s.plan.style])
	defer r.guard(who)
	if d := time.Until(start.Add(j.at)); d > 0 {
		time.Sleep(d)
	}
	var ctx context.Context
	var cancel context.CancelFunc
	switch {
	case j.deadline && j.kind == scPreCancelled:
		ctx, cancel = context.WithDeadline(context.Background(), time.Now().Add(-time.Second))
		s.markUnInv()
	case j.deadline:
		s.markUnInv() // a tick known to precede the expiry
		ctx, cancel = context.WithTimeout(context.Background(), j.cancelAt)
	default:
		ctx, cancel = context.WithCancel(context.Background())
	}
	defer cancel()
	finished := make(chan struct{})
	defer close(finished)
	canceller := func() {
		var timer <-chan time.Time
		if !j.deadline && (j.cancelAt > 0 || j.kind == scConcurrent) {
			timer = time.After(j.cancelAt) // (with a timeout context the expiry is the cancellation)
		}
		go func() {
			select {
			case <-timer:
			case <-s.stop:
			case <-finished:
				return
			}
			s.markUnInv()
			cancel()
		}()
	}
	switch j.kind {
	case scPreCancelled:
		s.markUnInv()
		cancel()
	case scConcurrent:
		canceller()
	}
	s.state.Store(1)
	a := tick()
	seq := r.x.SubscribeContext(ctx)
	b := tick()
	r.mu.Lock()
	s.addInv, s.addRet = a, b
	r.mu.Unlock()
	close(s.joined)
	if j.kind == scLive {
		canceller()
	}
	switch j.run {
	case scRunNever:
		s.state.Store(7)
		<-ctx.Done()
	default:
		if j.run == scRunLater && j.runDelay > 0 {
			time.Sleep(j.runDelay)
		}
		s.state.Store(2)
		for v := range seq {
			r.record(s, v, false)
		}
		s.unRet.Store(int64(tick()))
	}
	s.state.Store(5)
}

// scCase runs one plan on a fresh instance. Returns whether every monitor held.
func scCase(h *hctx, id string, plan scPlan) bool {
	deadline := time.Duration(h.pi("deadline_ms", 3000)) * time.Millisecond
	r := &psRun{h: h, id: id, x: NewChanPubSub(make(chan int)), begin: make(chan struct{})}
	r.sndState = make([]atomic.Int32, 1)
	r.sndDone = []chan struct{}{make(chan struct{})}
	hung := func(what string) bool {
		r.mon("C07", "hang: %s did not complete within %v; still blocked: %s", what, deadline, r.blockedReport())
		r.mu.Lock()
		r.eval(true)
		r.mu.Unlock()
		h.count("cases_hung", 1)
		return false
	}
	var probe *psSend
	if !r.call("probe Send", deadline, func() { probe = r.doSend(0, 1) }) {
		return hung("Send with no subscriber")
	}
	if probe != nil && probe.n != 0 {
		r.mon("C06", "Send with no subscriber returned %d", probe.n)
	}
	newSub := func(style int) *psSub {
		s := &psSub{id: len(r.subs) + 1, plan: psSubPlan{style: style}, joined: make(chan struct{}), done: make(chan struct{}),
			stop: make(chan struct{})}
		r.subs = append(r.subs, s)
		return s
	}
	nstay := len(plan.standing)
	var pre, stayers, leavers []chan struct{}
	for _, d := range plan.standing {
		s := newSub(psStayer)
		pre = append(pre, s.joined)
		stayers = append(stayers, s.done)
		go r.scStanding(s, d)
	}
	for i := range plan.joiners {
		j := &plan.joiners[i]
		style := psIterCancel
		switch {
		case j.run == scRunNever:
			style = psIterNeverRun
		case j.kind == scPreCancelled:
			style = psIterCancelThenRun
		}
		j.sub = newSub(style)
		leavers = append(leavers, j.sub.done)
		h.count(fmt.Sprintf("subctx_kind%d_run%d", j.kind, j.run), 1)
	}
	if !psWait(pre, deadline) {
		return hung("initial subscriptions")
	}
	r.t0 = time.Now()
	close(r.begin)
	go func() {
		defer close(r.sndDone[0])
		defer r.guard("sender 1")
		for q, gap := range plan.gaps {
			start := time.Now()
			for i := range plan.joiners {
				if plan.joiners[i].send == q {
					go r.scJoin(&plan.joiners[i], start)
				}
			}
			r.sndState[0].Store(int32(100 + q))
			r.doSend(1, 1000+q+1)
			r.sndState[0].Store(0)
			if gap > 0 {
				time.Sleep(gap)
			}
		}
		r.sndState[0].Store(-1)
	}()
	if !psWait(r.sndDone, deadline) {
		return hung("the sender")
	}
	for _, s := range r.subs {
		if s.plan.style != psStayer {
			close(s.stop)
		}
	}
	if !psWait(leavers, deadline) {
		return hung("SubscribeContext subscribers after their contexts were cancelled")
	}
	// all calls have returned: the count is the number of standing subscribers (the cleanup of a never-run iterator runs on
	// the context's AfterFunc goroutine: poll, then let a surplus unsubscribe land)
	count := func(want int, when string) bool {
		end := time.Now().Add(deadline)
		for int(psSubscribersOf(r.x).Load()) != want && time.Now().Before(end) {
			time.Sleep(100 * time.Microsecond)
		}
		time.Sleep(time.Millisecond)
		got := math.MinInt32
		if !r.call("Add(0)", deadline, func() { got = r.x.Add(0) }) {
			return hung("Add(0) " + when)
		}
		if got != want {
			r.mon("C07", "final count %s: Add(0) = %d, subscriptions minus unsubscriptions = %d", when, got, want)
		}
		return true
	}
	if !count(nstay, "with the standing subscribers, every SubscribeContext context cancelled and every iterator returned") {
		return false
	}
	if !r.call("final Send", deadline, func() { r.doSend(0, 9001) }) {
		return hung("Send after every SubscribeContext subscriber left")
	}
	for _, s := range r.subs {
		if s.plan.style == psStayer {
			close(s.stop)
		}
	}
	if !psWait(stayers, deadline) {
		return hung("standing subscribers leaving")
	}
	if !count(0, "after everybody left") {
		return false
	}
	var last *psSend
	if !r.call("last Send", deadline, func() { last = r.doSend(0, 2) }) {
		return hung("Send after everybody left")
	}
	if last != nil && last.n != 0 {
		r.mon("C06", "Send after everybody left returned %d", last.n)
	}
	select {
	case <-*psBrokenOf(r.x):
		r.mon("C07", "instance is broken after a contract-following run")
	default:
	}
	r.mu.Lock()
	r.eval(false)
	r.mu.Unlock()
	return r.failed == 0
}

func init() {
	register("C06SUBCTX", func(h *hctx) {
		rng := rand.New(rand.NewSource(h.seed + int64(h.pi("salt", 0))*1000003))
		plans := make([]scPlan, h.n)
		for i := range plans {
			plans[i] = scRandomPlan(rng)
		}
		// the cases mostly sleep: a few at a time, each on its own instance
		var bad atomic.Int32
		var wg sync.WaitGroup
		next := make(chan int)
		for w := 0; w < h.pi("par", 4); w++ {
			wg.Add(1)
			go func() {
				defer wg.Done()
				for i := range next {
					if bad.Load() >= 3 {
						h.count("cases_skipped_after_3_failures", 1)
						continue
					}
					if !scCase(h, fmt.Sprintf("subctx-%d.%d-%d", h.seed, h.pi("salt", 0), i), plans[i]) {
						bad.Add(1)
					}
					// a cleanup that runs on a goroutine of the context package can crash the process: keep what was found
					h.mu.Lock()
					h.out.Flush()
					h.mu.Unlock()
				}
			}()
		}
		for i := range plans {
			next <- i
		}
		close(next)
		wg.Wait()
	})
}
