//go:build verif

package bigbuff

// C15TRACE: trace acceptance for the Notifier's lock protocol model (Model/NotifierLock.v).  On an INSTRUMENTED build the
// synchronisation points of notifier.go announce themselves (with the goroutine that executes them) while several goroutines
// Subscribe / Unsubscribe / Publish on one Notifier, subscriber goroutines receive from the target channels and contexts are
// cancelled; the scenario logs, in the order they happen:
//
//	kind th a b c
//	 1 CALL Subscribe[Context]   th key target ctxmode(0 none | 1 live | 2 already cancelled)
//	 2 RET  Subscribe[Context]   th panicked
//	 3 CALL Unsubscribe          th key target
//	 4 RET  Unsubscribe          th panicked
//	 5 CALL Publish[Context]     th key pc(0 nil ctx | 1 ctx) pubid      (the value sent is pubid: unique in the case)
//	 6 RET  Publish[Context]     th panicked
//	 7 POINT                     th pk    the goroutine of th is ABOUT TO execute a synchronisation statement of notifier.go
//	       pk 1 mutex.Lock  2 mutex.Unlock  3 mutex.RLock  4 mutex.RUnlock  5 <publish ctx>.Err()  6 <publish ctx>.Done()
//	          7 <subscriber>.ctx.Err()  8 <subscriber>.ctx.Done()  9 reflect.Select
//	 8 RECVBEGIN                 - target          the subscriber goroutine of the target is about to receive
//	 9 RECV                      - target value    it has received value (= the pubid of the publish that sent it)
//	14 RECVABORT                 - target          it has given up this attempt without receiving (it will try again)
//	10 CANCEL begins / 11 has returned   - key target      the context the subscription (key,target) was registered with
//	12 PCANCEL begins / 13 has returned  - pubid           the context of that publish
//
//	F notifier_trace <id> <seed> <case> <sel> <nthreads> <ntargets> <nev> (<kind> <th> <a> <b> <c>)*nev | 1
//
// decided by checker/ad_notiftrace.ml against the extracted NotifierLock.step.  Deferred unlocks are not statements the
// instrumenter reports (a `defer` executes at the function's return): the release of the lock is tied to the RET record of the
// call; an explicit Unlock / RUnlock statement announces itself.  The points are found in the instrumenter's table by what they
// do (operation and callee expression); which function a Lock belongs to is known from the call the goroutine is in.

import (
	"bufio"
	"context"
	"math/rand"
	"os"
	"runtime"
	"strconv"
	"strings"
	"sync"
	"sync/atomic"
	"time"
)

type ntPolicy struct {
	kinds   map[int]int // point id (notifier.go only) -> pk, 0 = a synchronisation operation the model has no step for
	mu      sync.Mutex
	ev      []int
	gids    map[int]int // goroutine id -> thread index
	unknown int         // points executed by a goroutine the harness did not start
	other   int         // points with pk 0 executed
	rng     *rand.Rand
}

func ntGID() int {
	var buf [64]byte
	n := runtime.Stack(buf[:], false)
	f := strings.Fields(string(buf[:n]))
	if len(f) >= 2 {
		if v, err := strconv.Atoi(f[1]); err == nil {
			return v
		}
	}
	return -1
}

func (p *ntPolicy) add(kind, th, a, b, c int) {
	p.mu.Lock()
	p.ev = append(p.ev, kind, th, a, b, c)
	p.mu.Unlock()
}

func (p *ntPolicy) register(th int) {
	g := ntGID()
	p.mu.Lock()
	p.gids[g] = th
	p.mu.Unlock()
}

func (p *ntPolicy) at(id int) {
	pk, ok := p.kinds[id]
	if !ok {
		return
	}
	g := ntGID()
	p.mu.Lock()
	th, known := p.gids[g]
	switch {
	case !known:
		p.unknown++
	case pk == 0:
		p.other++
	default:
		p.ev = append(p.ev, 7, th, pk, 0, 0)
	}
	r := p.rng.Intn(8)
	d := time.Duration(p.rng.Intn(150)) * time.Microsecond
	p.mu.Unlock()
	switch {
	case r < 2:
		time.Sleep(d)
	case r < 5:
		runtime.Gosched()
	}
}

// ntLoadPoints reads the instrumenter's table: the points of notifier.go, classified by what they do.
func ntLoadPoints(path string) (kinds map[int]int, count map[int]int) {
	f, err := os.Open(path)
	if err != nil {
		return nil, nil
	}
	defer f.Close()
	kinds, count = map[int]int{}, map[int]int{}
	sc := bufio.NewScanner(f)
	for sc.Scan() {
		w := strings.Fields(sc.Text())
		if len(w) < 5 {
			continue
		}
		id, err := strconv.Atoi(w[0])
		if err != nil {
			continue
		}
		// in scope: the statements of notifier.go and, wherever they live, of the methods of Notifier / notifierSubscriber
		// (the instrumenter names the enclosing function in a field fn=...)
		scope := strings.SplitN(w[1], ":", 2)[0] == "notifier.go"
		for _, x := range w[5:] {
			if strings.HasPrefix(x, "fn=Notifier.") || strings.HasPrefix(x, "fn=notifierSubscriber.") {
				scope = true
			}
		}
		if !scope {
			continue
		}
		op, expr := w[3], w[4]
		depth := strings.Count(expr, ".") // ctx.Err: 1 (a context the function was given); keySubscriber.ctx.Err: 2 (a field)
		pk := 0
		switch {
		case op == "Lock" && strings.Contains(strings.ToLower(expr), "mutex"):
			pk = 1
		case op == "Unlock" && strings.Contains(strings.ToLower(expr), "mutex"):
			pk = 2
		case op == "RLock" && strings.Contains(strings.ToLower(expr), "mutex"):
			pk = 3
		case op == "RUnlock" && strings.Contains(strings.ToLower(expr), "mutex"):
			pk = 4
		case op == "Err" && depth == 1:
			pk = 5
		case op == "Done" && depth == 1:
			pk = 6
		case op == "Err" && depth >= 2:
			pk = 7
		case op == "Done" && depth >= 2:
			pk = 8
		case op == "Select" && strings.HasPrefix(expr, "reflect."):
			pk = 9
		}
		kinds[id] = pk
		count[pk]++
	}
	return
}

func init() {
	register("C15TRACE", func(h *hctx) {
		kinds, count := ntLoadPoints(h.p("ptfile", ""))
		if !instrumented() {
			h.line("STAT c15trace_not_run 1")
			return
		}
		if len(kinds) == 0 {
			h.line("INCONCLUSIVE C15 trace: no point table for notifier.go")
			return
		}
		if count[1] < 2 || count[3] < 1 || count[7] < 1 {
			h.line("INCONCLUSIVE C15 trace: notifier.go does not have a mutex.Lock() statement for each of SubscribeContext and Unsubscribe, a mutex.RLock() statement for PublishContext and a check of a subscriber's context (Lock=%d RLock=%d subscriber.ctx.Err=%d): its lock operations and its scan cannot be mapped to the steps of the NotifierLock model", count[1], count[3], count[7])
			return
		}
		sel := boolInt(count[9] > 0)
		for i := 0; i < h.n; i++ {
			if !ntTraceCase(h, i, kinds, sel) {
				return
			}
		}
	})
}

func ntSleep(us int) {
	switch {
	case us <= 0:
	case us == 1:
		runtime.Gosched()
	default:
		time.Sleep(time.Duration(us) * time.Microsecond)
	}
}

// ntCall runs f and reports whether it panicked.
func ntCall(f func()) (panicked bool) {
	defer func() {
		if recover() != nil {
			panicked = true
		}
	}()
	f()
	return false
}

type ntOwnerOp struct {
	kind int // 0 subscribe, 1 unsubscribe, 2 cancel the registered context
	cm   int
	pre  int  // microseconds to wait before (1: yield)
	aim  bool // then wait (at most 1 ms) until some Publish call is under way: the operation should meet a publish in flight
}

type ntPub struct {
	key    int
	pcmode int // 0 nil | 1 live, not cancelled | 2 cancelled after `after` us | 3 cancelled before the call
	after  int
	pre    int
	id     int
}

func ntDelay(rng *rand.Rand, max int) int {
	switch rng.Intn(4) {
	case 0:
		return 0
	case 1:
		return 1
	}
	return 2 + rng.Intn(max)
}

func ntTraceCase(h *hctx, id int, kinds map[int]int, sel int) bool {
	rng := h.rng
	const nkeys, ntargets = 2, 3
	keys := [nkeys]string{"k0", "k1"}
	var targets [ntargets]chan int
	for i := range targets {
		targets[i] = make(chan int)
	}
	// ---- the plan (all randomness is drawn here, from h.rng) ----
	perm := rng.Perm(nkeys * ntargets) // pair p: key p%nkeys, target p/nkeys; most cases crowd key 0
	if rng.Intn(3) != 0 {
		var k0, k1 []int
		for _, p := range perm {
			if p%nkeys == 0 {
				k0 = append(k0, p)
			} else {
				k1 = append(k1, p)
			}
		}
		perm = append(k0, k1...)
	}
	nown := 1 + rng.Intn(4)
	type owner struct {
		k, t int
		ops  []ntOwnerOp
	}
	owners := make([]owner, nown)
	for i := range owners {
		o := &owners[i]
		o.k, o.t = perm[i]%nkeys, perm[i]/nkeys
		subscribed, live := false, false
		for r, rounds := 0, 1+rng.Intn(2); r < rounds; r++ {
			if !subscribed && rng.Intn(10) == 0 {
				o.ops = append(o.ops, ntOwnerOp{1, 0, ntDelay(rng, 200), false}) // unmatched Unsubscribe: panics
			}
			cm := 1 // 0 no context 30% | 1 live 50% | 2 already cancelled 20%
			switch r := rng.Intn(10); {
			case r < 3:
				cm = 0
			case r < 5:
				cm = 2
			}
			o.ops = append(o.ops, ntOwnerOp{0, cm, ntDelay(rng, 300), rng.Intn(4) == 0})
			subscribed, live = true, cm == 1
			if rng.Intn(10) == 0 {
				o.ops = append(o.ops, ntOwnerOp{0, rng.Intn(3), ntDelay(rng, 100), false}) // duplicate Subscribe: panics
			}
			if live && rng.Intn(3) != 0 {
				o.ops = append(o.ops, ntOwnerOp{2, 0, ntDelay(rng, 500), rng.Intn(2) == 0})
			}
			if r < rounds-1 || rng.Intn(4) != 0 {
				o.ops = append(o.ops, ntOwnerOp{1, 0, ntDelay(rng, 600), rng.Intn(2) == 0})
				subscribed = false
			}
		}
	}
	npubth := 1 + rng.Intn(3)
	pubs := make([][]ntPub, npubth)
	nextPub := 1
	for i := range pubs {
		for j, n := 0, 1+rng.Intn(3); j < n; j++ {
			p := ntPub{key: boolInt(rng.Intn(10) >= 7), pre: ntDelay(rng, 400), id: nextPub}
			nextPub++
			switch r := rng.Intn(20); {
			case r < 10:
			case r < 13:
				p.pcmode = 1
			case r < 18:
				p.pcmode, p.after = 2, rng.Intn(700)
			default:
				p.pcmode = 3
			}
			pubs[i] = append(pubs[i], p)
		}
	}
	recvSeeds := [ntargets]int64{}
	for i := range recvSeeds {
		recvSeeds[i] = rng.Int63()
	}
	pol := &ntPolicy{kinds: kinds, gids: map[int]int{}, rng: rand.New(rand.NewSource(rng.Int63()))}

	// ---- the run ----
	n := new(Notifier)
	var cleanup []context.CancelFunc
	var cmu sync.Mutex
	keep := func(c context.CancelFunc) {
		cmu.Lock()
		cleanup = append(cleanup, c)
		cmu.Unlock()
	}
	setPolicy(pol)
	stop := make(chan struct{})
	var callers, cancellers, receivers sync.WaitGroup
	var inflight atomic.Int64 // Publish calls under way (steers some owner operations into a publish; not logged)
	for t := 0; t < ntargets; t++ {
		receivers.Add(1)
		go func(t int) {
			defer receivers.Done()
			r := rand.New(rand.NewSource(recvSeeds[t]))
			for {
				if r.Intn(4) != 0 {
					ntSleep(r.Intn(500))
				}
				select {
				case <-stop:
					return
				default:
				}
				// a receive attempt is a short window (sometimes a long one): a publish usually has to wait for the next window,
				// so that the log pins down when each delivery can have happened
				win := time.Duration(20+r.Intn(180)) * time.Microsecond
				if r.Intn(6) == 0 {
					win = time.Duration(200+r.Intn(2000)) * time.Microsecond
				}
				tm := time.NewTimer(win)
				pol.add(8, 0, t, 0, 0)
				select {
				case v := <-targets[t]:
					pol.add(9, 0, t, v, 0)
				case <-tm.C:
					pol.add(14, 0, t, 0, 0)
				case <-stop:
					tm.Stop()
					return
				}
				tm.Stop()
			}
		}(t)
	}
	for i := range owners {
		callers.Add(1)
		go func(th int, o owner) {
			defer callers.Done()
			pol.register(th)
			var regCancel context.CancelFunc // of the context the current subscription was registered with
			for _, op := range o.ops {
				ntSleep(op.pre)
				if op.aim {
					for end := time.Now().Add(time.Millisecond); inflight.Load() == 0 && time.Now().Before(end); {
						runtime.Gosched()
					}
					ntSleep(op.pre / 4)
				}
				switch op.kind {
				case 0:
					var ctx context.Context
					var cf context.CancelFunc
					if op.cm != 0 {
						ctx, cf = context.WithCancel(context.Background())
						keep(cf)
						if op.cm == 2 {
							cf()
						}
					}
					pol.add(1, th, o.k, o.t, op.cm)
					panicked := ntCall(func() {
						if ctx == nil {
							n.Subscribe(keys[o.k], targets[o.t])
						} else {
							n.SubscribeContext(ctx, keys[o.k], targets[o.t])
						}
					})
					pol.add(2, th, boolInt(panicked), 0, 0)
					if !panicked {
						regCancel = nil
						if op.cm == 1 {
							regCancel = cf
						}
					}
				case 1:
					pol.add(3, th, o.k, o.t, 0)
					panicked := ntCall(func() { n.Unsubscribe(keys[o.k], targets[o.t]) })
					pol.add(4, th, boolInt(panicked), 0, 0)
					if !panicked {
						regCancel = nil
					}
				case 2:
					if regCancel != nil {
						pol.add(10, 0, o.k, o.t, 0) // takes effect somewhere between the two records
						regCancel()
						pol.add(11, 0, o.k, o.t, 0)
						regCancel = nil
					}
				}
			}
		}(i, owners[i])
	}
	for i := range pubs {
		callers.Add(1)
		go func(th int, ps []ntPub) {
			defer callers.Done()
			pol.register(th)
			for _, p := range ps {
				p := p
				ntSleep(p.pre)
				var ctx context.Context
				var cf context.CancelFunc
				if p.pcmode != 0 {
					ctx, cf = context.WithCancel(context.Background())
					keep(cf)
				}
				if p.pcmode == 3 {
					pol.add(12, 0, p.id, 0, 0)
					cf()
					pol.add(13, 0, p.id, 0, 0)
				}
				pol.add(5, th, p.key, boolInt(ctx != nil), p.id)
				if p.pcmode == 2 {
					cancellers.Add(1)
					go func() {
						defer cancellers.Done()
						ntSleep(p.after)
						pol.add(12, 0, p.id, 0, 0)
						cf()
						pol.add(13, 0, p.id, 0, 0)
					}()
				}
				inflight.Add(1)
				panicked := ntCall(func() {
					if ctx == nil {
						n.Publish(keys[p.key], p.id)
					} else {
						n.PublishContext(ctx, keys[p.key], p.id)
					}
				})
				inflight.Add(-1)
				pol.add(6, th, boolInt(panicked), 0, 0)
			}
		}(nown+i, pubs[i])
	}
	done := make(chan struct{})
	go func() {
		callers.Wait()
		cancellers.Wait()
		close(done)
	}()
	select {
	case <-done:
	case <-time.After(5 * time.Second):
		setPolicy(nil)
		h.line("MONITOR C15 trace case %d: a Subscribe / Unsubscribe / Publish call is still blocked after 5 s although every target has a goroutine that keeps receiving", id)
		return false
	}
	close(stop)
	receivers.Wait()
	setPolicy(nil)
	for _, c := range cleanup {
		c()
	}
	pol.mu.Lock()
	ev := append([]int(nil), pol.ev...)
	unknown, other := pol.unknown, pol.other
	pol.mu.Unlock()
	if unknown > 0 || other > 0 {
		h.line("INCONCLUSIVE C15 trace: case %d executed %d synchronisation statement(s) of notifier.go in goroutines the harness did not start and %d of a kind the NotifierLock model has no step for (only mutex Lock/Unlock/RLock/RUnlock, context Err/Done and reflect.Select are mapped)", id, unknown, other)
		return false
	}
	npub := nextPub - 1
	args := append([]int{int(h.seed), id, sel, nown + npubth, ntargets, len(ev) / 5}, ev...)
	h.line("F notifier_trace t-%d-%d %s | 1", h.seed, id, ints(args))
	h.count("c15trace_cases", 1)
	h.count("c15trace_events", len(ev)/5)
	h.count("c15trace_publishes", npub)
	return true
}
