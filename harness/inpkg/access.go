//go:build verif

package bigbuff

// Access to unexported fields of the library's types that does not hard-code more than it must: a field is looked up by
// its current name and, if the library has renamed it, by being the nth field of its type in declaration order (n as in the
// source the harness was written against).  A rename of an unexported field therefore does not stop the harness from
// building or running; a change of the field's TYPE or role panics here, which ends the scenario abnormally ("cannot decide").

import (
	"fmt"
	"reflect"
	"unsafe"
)

func fldV(obj interface{}, name string, want func(reflect.Type) bool, nth int) reflect.Value {
	v := reflect.ValueOf(obj)
	if v.Kind() != reflect.Ptr || v.Elem().Kind() != reflect.Struct {
		panic(fmt.Sprintf("verif: fld(%T, %q): not a pointer to a struct", obj, name))
	}
	v = v.Elem()
	if f := v.FieldByName(name); f.IsValid() && want(f.Type()) {
		return f
	}
	k := 0
	for i := 0; i < v.NumField(); i++ {
		if want(v.Field(i).Type()) {
			if k == nth {
				return v.Field(i)
			}
			k++
		}
	}
	panic(fmt.Sprintf("verif: %T has no field %q and no field number %d of the expected type", obj, name, nth))
}

// fld returns a pointer to the field (see above); nth defaults to 0.
func fld[T any](obj interface{}, name string, nth ...int) *T {
	want := reflect.TypeOf((*T)(nil)).Elem()
	n := 0
	if len(nth) > 0 {
		n = nth[0]
	}
	f := fldV(obj, name, func(t reflect.Type) bool { return t == want }, n)
	return (*T)(unsafe.Pointer(f.UnsafeAddr()))
}

// fldLen is len() of a slice- or map-typed field.
func fldLen(obj interface{}, name string, kind reflect.Kind) int {
	return fldV(obj, name, func(t reflect.Type) bool { return t.Kind() == kind }, 0).Len()
}
