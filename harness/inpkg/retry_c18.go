//go:build verif

package bigbuff

import (
	"context"
	"fmt"
	"math"
	"math/rand"
	"sync/atomic"
	"time"
)

// C18 — ExponentialRetry. Encoding shared with checker/ad_retry.ml (model "retry", Model/Retry.v):
//   cfg : rate cancel_at nd d0 .. d(nd-1)      rate as passed to ExponentialRetry (ns); cancel_at = -1 never, 0 before the
//                                              first check, 2k-1 during call k, 2k during the wait after call k; d_i = what the
//                                              replaced calcExponentialRetry returns at its i-th call
//   ops : 0 hasr r            value() returns (r or nil, nil)
//         1 depth hasr r e    value() returns (r or nil, FatalError^depth(base error e))      depth 0 = plain error
//         9                   report of the invocation, seams replaced
//         8                   report of the invocation, real seams (no wait records)
//   outs: 0                   (outcome ops)
//         calls hasres res kind id nw (rate c d done)*nw        for 9;  without nw.. for 8
//         kind: 0 nil | 1 base error id | 2 the context's error | 3 script exhausted | 4 panic | 5 a fatal wrapper came back (id = depth)

type retryBaseErr struct{ id int }

func (e *retryBaseErr) Error() string { return fmt.Sprintf("base-%d", e.id) }

// retryWrapErr is a NON-fatal error whose Unwrap chain contains a fatal error (fmt.Errorf("%w", FatalError(e)) in spirit): for
// the loop it is a plain error (the operation did not return "an error wrapped by FatalError"); when a FatalError of it is
// returned, the fully unwrapped error is this very value.  For the model it is just the base error with this id.
type retryWrapErr struct {
	id    int
	inner error
}

func (e *retryWrapErr) Error() string { return fmt.Sprintf("wrapped-%d: %v", e.id, e.inner) }
func (e *retryWrapErr) Unwrap() error { return e.inner }

type retryOverrun struct{}

// retryAbort is panicked out of value() when the closure keeps calling it although the script is exhausted, the context is
// cancelled and a fatal error was returned.
type retryAbort struct{}

const retryOverrunLimit = 64

func (retryOverrun) Error() string { return "script overrun" }

// retryCtx is a context whose cancellation the harness controls synchronously and whose error is a unique value, so that
// "propagated as-is" is an identity comparison.
type retryCtx struct {
	done chan struct{}
	err  error
}

type retryCtxErr struct{ n int }

func (e *retryCtxErr) Error() string { return "retry-ctx-cancelled" }

func newRetryCtx(n int) *retryCtx { return &retryCtx{done: make(chan struct{})} }

func (c *retryCtx) Deadline() (time.Time, bool)       { return time.Time{}, false }
func (c *retryCtx) Done() <-chan struct{}             { return c.done }
func (c *retryCtx) Err() error                        { return c.err }
func (c *retryCtx) Value(key interface{}) interface{} { return nil }
func (c *retryCtx) cancel(e error) {
	if c.err == nil {
		c.err = e
		close(c.done)
	}
}

type retryOutcome struct {
	depth int // -1: success
	hasr  bool
	r     int
	e     int
}

func (o retryOutcome) op() []int {
	hr := 0
	if o.hasr {
		hr = 1
	}
	if o.depth < 0 {
		return []int{0, hr, o.r}
	}
	return []int{1, o.depth, hr, o.r, o.e}
}

func (o retryOutcome) ret() (interface{}, error) {
	var res interface{}
	if o.hasr {
		res = o.r
	}
	if o.depth < 0 {
		return res, nil
	}
	var err error = &retryBaseErr{id: o.e}
	if o.e%4 == 3 {
		err = &retryWrapErr{id: o.e, inner: FatalError(&retryBaseErr{id: -o.e})}
	}
	for i := 0; i < o.depth; i++ {
		err = FatalError(err)
	}
	return res, err
}

// retryClassify maps what the closure returned to the out encoding.
func retryClassify(res interface{}, err error, ctxErr error) []int {
	out := []int{0, 0}
	if res != nil {
		if v, ok := res.(int); ok {
			out = []int{1, v}
		} else {
			out = []int{1, -999}
		}
	}
	switch e := err.(type) {
	case nil:
		return append(out, 0, 0)
	case *retryBaseErr:
		return append(out, 1, e.id)
	case *retryWrapErr:
		return append(out, 1, e.id)
	case retryOverrun:
		return append(out, 3, 0)
	case fatalError:
		depth := 0
		var in error = e
		for {
			f, ok := in.(fatalError)
			if !ok {
				break
			}
			depth++
			in = f.err
		}
		return append(out, 5, depth)
	default:
		if ctxErr != nil && err == ctxErr {
			return append(out, 2, 0)
		}
		return append(out, 6, 0) // an error from nowhere
	}
}

type retryCase struct {
	rate     int
	cancelAt int
	ds       []int
	script   []retryOutcome
	nilCtx   bool
}

type retryRun struct {
	calls     int     // value() calls that consumed an outcome
	overrun   int     // value() calls beyond the script
	waits     [][]int // rate, c, returned d, ctx done at entry of waitDuration (-1: waitDuration not reached)
	cancelled bool
}

func retryK1Case(h *hctx, id int) {
	cs := retryGenCase(h, id)
	ctxErr := &retryCtxErr{n: id}
	rc := newRetryCtx(id)
	var ctx context.Context = rc
	if cs.nilCtx {
		ctx = nil
		cs.cancelAt = -1
	}
	oldCalc, oldWait := calcExponentialRetry, waitDuration
	defer func() { calcExponentialRetry, waitDuration = oldCalc, oldWait }()

	var run *retryRun
	var script []retryOutcome
	var cancelAt int
	var ds []int
	calcExponentialRetry = func(d time.Duration, c uint32) time.Duration {
		i := len(run.waits)
		v := 0
		if i < len(ds) {
			v = ds[i]
		}
		run.waits = append(run.waits, []int{int(d), int(c), v, -1})
		return time.Duration(v)
	}
	waitDuration = func(wctx context.Context, d time.Duration) {
		i := len(run.waits) - 1
		if i < 0 || run.waits[i][3] != -1 {
			h.line("MONITOR C18 waitDuration called without a fresh calcExponentialRetry result case=k%d", id)
			return
		}
		if int(d) != run.waits[i][2] {
			h.line("MONITOR C18 waitDuration got d=%d but calcExponentialRetry returned %d case=k%d", int(d), run.waits[i][2], id)
		}
		if cs.nilCtx {
			if wctx == nil || wctx.Err() != nil || wctx.Done() != nil {
				h.line("MONITOR C18 nil ctx was not replaced by a background context case=k%d", id)
			}
		} else if wctx != ctx {
			h.line("MONITOR C18 waitDuration got a different context case=k%d", id)
		}
		done := 0
		if wctx != nil && wctx.Err() != nil {
			done = 1
		}
		run.waits[i][3] = done
		if cancelAt == 2*run.calls {
			rc.cancel(ctxErr)
			run.cancelled = true
		}
	}
	value := func() (interface{}, error) {
		if run.cancelled {
			h.line("MONITOR C18 value() started after the context was cancelled case=k%d call=%d", id, run.calls+1)
		}
		if run.calls >= len(script) {
			// beyond the script: stop the loop by every means the closure should honour, and bail out if it honours none
			run.overrun++
			if run.overrun > retryOverrunLimit {
				panic(retryAbort{})
			}
			if !cs.nilCtx {
				rc.cancel(ctxErr)
			}
			return nil, FatalError(retryOverrun{})
		}
		o := script[run.calls]
		run.calls++
		if cancelAt == 2*run.calls-1 {
			rc.cancel(ctxErr)
			run.cancelled = true
		}
		return o.ret()
	}
	fn := ExponentialRetry(ctx, time.Duration(cs.rate), value)

	invoke := func(sub string, c retryCase) {
		run = &retryRun{}
		script, cancelAt, ds = c.script, c.cancelAt, c.ds
		if cancelAt == 0 {
			rc.cancel(ctxErr)
			run.cancelled = true
		}
		var res interface{}
		var err error
		panicked := false
		func() {
			defer func() {
				if r := recover(); r != nil {
					panicked = true
					if _, ok := r.(retryAbort); ok {
						h.line("MONITOR C18 the closure keeps calling value() after a fatal error and cancellation case=k%d%s", id, sub)
					} else {
						h.line("MONITOR C18 the closure panicked: %v case=k%d%s", r, id, sub)
					}
				}
			}()
			res, err = fn()
		}()
		var ops, outs [][]int
		for _, o := range c.script {
			ops = append(ops, o.op())
			outs = append(outs, []int{0})
		}
		var cerr error
		if rc.err != nil {
			cerr = rc.err
		}
		fin := []int{run.calls}
		fin = append(fin, retryClassify(res, err, cerr)...)
		if panicked {
			fin[3], fin[4] = 4, 0
		}
		fin = append(fin, len(run.waits))
		for _, w := range run.waits {
			fin = append(fin, w...)
		}
		ops = append(ops, []int{9})
		outs = append(outs, fin)
		cfg := append([]int{cs.rate, c.cancelAt, len(c.ds)}, c.ds...)
		h.line("K1 retry k%d%s %s # %s | %s", id, sub, ints(cfg), joinRecs(ops), joinRecs(outs))
		// property-level monitors on the implementation's observable behaviour
		if _, isFatal := err.(fatalError); isFatal {
			h.line("MONITOR C18 a fatal wrapper was returned case=k%d%s", id, sub)
		}
		if err != nil && cerr != nil && err == cerr && res != nil {
			h.line("MONITOR C18 context error returned with a non-nil result case=k%d%s", id, sub)
		}
		for i, w := range run.waits {
			want := i + 1
			if want > 31 {
				want = 31
			}
			if w[1] != want {
				h.line("MONITOR C18 retry %d computed its delay with c=%d, want %d case=k%d%s", i+1, w[1], want, id, sub)
				break
			}
		}
		h.count("k1_invocations", 1)
		h.count(fmt.Sprintf("k1_ret_kind_%d", fin[3]), 1)
		if len(run.waits) > 31 {
			h.count("k1_cap_crossed", 1)
		}
		switch {
		case c.cancelAt < 0:
			h.count("k1_cancel_never", 1)
		case c.cancelAt == 0:
			h.count("k1_cancel_before_first", 1)
		case c.cancelAt%2 == 1:
			h.count("k1_cancel_in_call", 1)
		default:
			h.count("k1_cancel_in_wait", 1)
		}
	}
	invoke("", cs)
	// the same closure invoked again: the counter and the script position of the closure start afresh; only possible
	// while the context is still live
	if rc.err == nil && h.rng.Intn(3) == 0 {
		cs2 := retryGenCase(h, id+500000)
		cs2.rate, cs2.nilCtx = cs.rate, cs.nilCtx
		if cs.nilCtx {
			cs2.cancelAt = -1
		}
		invoke("b", cs2)
		h.count("k1_reinvoked", 1)
	}
}

func retryGenCase(h *hctx, id int) retryCase {
	var cs retryCase
	switch h.rng.Intn(8) {
	case 0:
		cs.rate = 0
	case 1:
		cs.rate = -1 - h.rng.Intn(1000000)
	case 2:
		cs.rate = int(defaultExponentialRetryRate)
	case 3:
		cs.rate = 1
	case 4:
		cs.rate = 1 + h.rng.Intn(1<<32)
	default:
		cs.rate = 1 + h.rng.Intn(5000000)
	}
	// number of plain failures before the terminal outcome
	var nplain int
	switch r := h.rng.Intn(100); {
	case r < 45:
		nplain = h.rng.Intn(7)
	case r < 75:
		nplain = 7 + h.rng.Intn(24)
	default:
		nplain = 31 + h.rng.Intn(10)
	}
	val := func(k int) (bool, int) {
		if h.rng.Intn(3) == 0 {
			return false, 0
		}
		return true, (id%100000)*100 + k + 1
	}
	for k := 0; k < nplain; k++ {
		o := retryOutcome{depth: 0, e: 1000 + k}
		if h.rng.Intn(4) == 0 {
			o.hasr, o.r = val(k) // a plain failure may carry a result too: it must be dropped
		}
		cs.script = append(cs.script, o)
	}
	term := h.rng.Intn(100)
	switch {
	case term < 40: // success
		hr, r := val(nplain)
		cs.script = append(cs.script, retryOutcome{depth: -1, hasr: hr, r: r})
	case term < 85: // fatal, depth 1..4
		hr, r := val(nplain)
		cs.script = append(cs.script, retryOutcome{depth: 1 + h.rng.Intn(4), hasr: hr, r: r, e: 7000 + id%1000})
	default: // no terminal outcome: the script runs out (or the context is cancelled first)
	}
	// outcomes after the terminal one: never consumed
	for k := h.rng.Intn(3); k > 0 && term < 85; k-- {
		hr, r := val(len(cs.script))
		cs.script = append(cs.script, retryOutcome{depth: h.rng.Intn(3) - 1, hasr: hr, r: r, e: 9000 + k})
	}
	// delays returned by the replaced calcExponentialRetry: positive, zero, negative, all distinct where non-zero
	for k := 0; k < len(cs.script)+1; k++ {
		switch h.rng.Intn(6) {
		case 0:
			cs.ds = append(cs.ds, 0)
		case 1:
			cs.ds = append(cs.ds, -(k + 1))
		default:
			cs.ds = append(cs.ds, (k+1)*1000003+h.rng.Intn(1000))
		}
	}
	// cancellation point
	maxT := 2*(nplain+1) + 1
	switch r := h.rng.Intn(100); {
	case r < 35:
		cs.cancelAt = -1
	case r < 42:
		cs.cancelAt = 0
	case r < 55:
		cs.cancelAt = 2*(nplain+1) - 1 // during the terminal call: the in-flight call ends the loop
	default:
		cs.cancelAt = h.rng.Intn(maxT + 1)
	}
	cs.nilCtx = h.rng.Intn(12) == 0
	return cs
}

// ---- the REAL calcExponentialRetry / waitDuration, and end-to-end runs with the real seams ----

func retrySlotCheck(rate, c, d int) (ok bool, j int) {
	if rate <= 0 || d%rate != 0 {
		return false, 0
	}
	j = d / rate
	sh := c
	if sh > 31 || sh < 0 {
		sh = 31
	}
	return j >= 0 && j < 1<<uint(sh), j
}

func retryCallCalc(h *hctx, rate time.Duration, c uint32) (d time.Duration, ok bool) {
	defer func() {
		if r := recover(); r != nil {
			h.line("MONITOR C18 calcExponentialRetry(%d, %d) panicked: %v", int64(rate), c, r)
			ok = false
		}
	}()
	return calcExponentialRetry(rate, c), true
}

// retryTimed runs f in its own goroutine; ok = it returned normally within the limit (a panic of f is reported here).
func retryTimed(h *hctx, what string, limit time.Duration, f func()) (time.Duration, bool) {
	done := make(chan bool, 1)
	t0 := time.Now()
	go func() {
		defer func() {
			if r := recover(); r != nil {
				h.line("MONITOR C18 %s panicked: %v", what, r)
				done <- false
			}
		}()
		f()
		done <- true
	}()
	select {
	case ok := <-done:
		return time.Since(t0), ok
	case <-time.After(limit):
		return time.Since(t0), false
	}
}

func retryFScenario(h *hctx) {
	// 1. the implementation's constants against the model's
	h.line("F retry_consts c0 | %d %d", maxShiftUint32, int64(defaultExponentialRetryRate))

	// 2. range of the real delay computation: every c in 0..40 (and a few huge ones) x rates x draws
	draws := h.pi("draws", h.n) // VERIF_N = draws per (c, rate): 12 quick, 60 thorough
	rates := []int{1, 3, 1000, 999983, int(defaultExponentialRetryRate), 1 << 30}
	cs := make([]uint32, 0, 48)
	for c := uint32(0); c <= 40; c++ {
		cs = append(cs, c)
	}
	cs = append(cs, 1<<16, 1<<31, math.MaxUint32)
	id := 0
	for _, c := range cs {
		for _, rate := range rates {
			n := draws
			if c <= 2 {
				n = 240 // enough to see every slot (miss probability < 1e-25)
			}
			seen := map[int]bool{}
			for k := 0; k < n; k++ {
				d, ok := retryCallCalc(h, time.Duration(rate), c)
				if !ok {
					break
				}
				cc := int(c)
				if cc > 1000 {
					cc = 1000 // the model clamps as well; keep the record small
				}
				good, j := retrySlotCheck(rate, cc, int(d))
				if !good {
					h.line("MONITOR C18 calcExponentialRetry(%d, %d) = %d is not j*rate with 0 <= j < 2^min(c,31)", rate, c, int64(d))
				}
				seen[j] = true
				h.line("F retry_slot s%d %d %d %d | 1", id, rate, cc, int64(d))
				id++
				h.count("calc_samples", 1)
			}
			if c <= 2 && len(seen) != 1<<c {
				h.line("MONITOR C18 calcExponentialRetry(%d, %d): only %d of %d slots ever drawn in %d draws", rate, c, len(seen), 1<<c, n)
			}
		}
	}

	// 3. exact delay against a twin of the global generator (math/rand seeded identically)
	seed := h.seed ^ 0x5eed
	rand.Seed(seed)
	twin := rand.New(rand.NewSource(seed))
	sync := true
	for i := 0; i < 4; i++ {
		if rand.Int63() != twin.Int63() {
			sync = false
		}
	}
	if sync {
		nEx := h.pi("exact", 50*h.n)
		for k := 0; k < nEx; k++ {
			c := uint32(h.rng.Intn(44))
			rate := 1 + h.rng.Intn(1<<30-1)
			raw := twin.Int63()
			d, ok := retryCallCalc(h, time.Duration(rate), c)
			if !ok {
				break
			}
			h.line("F retry_calc e%d %d %d %d | %d", k, rate, c, raw&(1<<40-1), int64(d))
			h.count("calc_exact", 1)
		}
	} else {
		h.count("calc_exact_twin_unavailable", 1)
	}

	// 4. the real waitDuration
	slack := 3 * time.Second
	for _, d := range []time.Duration{0, -1, -123124, math.MinInt64} {
		for _, ctx := range []context.Context{nil, context.Background()} {
			d, ctx := d, ctx
			if el, ok := retryTimed(h, "waitDuration(d <= 0)", slack, func() { waitDuration(ctx, d) }); !ok || el > time.Second {
				h.line("MONITOR C18 waitDuration(d=%d <= 0) did not return at once (%v)", int64(d), el)
			}
			h.count("wait_nonpositive", 1)
		}
	}
	{
		ctx, cancel := context.WithCancel(context.Background())
		cancel()
		if el, ok := retryTimed(h, "waitDuration(1h)", slack, func() { waitDuration(ctx, time.Hour) }); !ok || el > time.Second {
			h.line("MONITOR C18 waitDuration with a cancelled context did not return promptly (%v)", el)
		}
		h.count("wait_cancelled_before", 1)
	}
	for k := 0; k < 3; k++ {
		ctx, cancel := context.WithCancel(context.Background())
		var issued, early atomic.Bool
		go func() { time.Sleep(15 * time.Millisecond); issued.Store(true); cancel() }()
		el, ok := retryTimed(h, "waitDuration(1h)", slack, func() {
			waitDuration(ctx, time.Hour)
			early.Store(!issued.Load())
		})
		if !ok {
			h.line("MONITOR C18 waitDuration was not cut short by cancellation (%v)", el)
		} else if early.Load() {
			h.line("MONITOR C18 waitDuration(1h) returned before the cancellation")
		}
		cancel()
		h.count("wait_cancelled_during", 1)
	}
	{
		d := 25 * time.Millisecond
		el, ok := retryTimed(h, "waitDuration(25ms)", slack, func() { waitDuration(context.Background(), d) })
		if !ok {
			h.line("MONITOR C18 waitDuration(25ms) did not return (%v)", el)
		} else if el < d {
			h.line("MONITOR C18 waitDuration(25ms) returned early after %v", el)
		}
		h.count("wait_timer", 1)
	}

	// 5. end to end with the real seams: short scripts at a 1µs rate (delays < 2^12 µs)
	nReal := h.pi("real", 5*h.n)
	for k := 0; k < nReal; k++ {
		retryRealCase(h, k)
	}

	// 6. end to end: a real wait (rate 1h) is cut by cancellation and no call starts afterwards
	for k := 0; k < 3; k++ {
		ctx, cancel := context.WithCancel(context.Background())
		calls, after := 0, 0
		cancelled := make(chan struct{})
		fn := ExponentialRetry(ctx, time.Hour, func() (interface{}, error) {
			calls++
			select {
			case <-cancelled:
				after++
			default:
			}
			return calls, &retryBaseErr{id: calls}
		})
		var res interface{}
		var err error
		go func() { time.Sleep(30 * time.Millisecond); cancel(); close(cancelled) }() // closed only once ctx IS cancelled
		el, ok := retryTimed(h, "closure with 1h slots", slack, func() { res, err = fn() })
		switch {
		case !ok:
			h.line("MONITOR C18 a closure waiting for 1h slots did not return after cancellation (%v)", el)
		case err != context.Canceled || res != nil:
			h.line("MONITOR C18 after cancellation in a wait the closure returned (%v, %v)", res, err)
		case after != 0:
			h.line("MONITOR C18 %d calls started after the cancellation", after)
		case calls < 1:
			h.line("MONITOR C18 no call was made")
		}
		cancel()
		h.count("real_wait_cut", 1)
	}
}

func retryRealCase(h *hctx, id int) {
	nplain := h.rng.Intn(12)
	var script []retryOutcome
	for k := 0; k < nplain; k++ {
		script = append(script, retryOutcome{depth: 0, e: 1000 + k})
	}
	hasr := h.rng.Intn(3) != 0
	if h.rng.Intn(2) == 0 {
		script = append(script, retryOutcome{depth: -1, hasr: hasr, r: id*100 + 1})
	} else {
		script = append(script, retryOutcome{depth: 1 + h.rng.Intn(4), hasr: hasr, r: id*100 + 2, e: 7000 + id})
	}
	cancelAt := -1
	switch h.rng.Intn(4) {
	case 0:
		cancelAt = 0
	case 1:
		cancelAt = 2*(1+h.rng.Intn(nplain+1)) - 1 // during some call
	}
	ctx, cancel := context.WithCancel(context.Background())
	defer cancel()
	calls, overrun := 0, 0
	fn := ExponentialRetry(ctx, time.Microsecond, func() (interface{}, error) {
		if calls >= len(script) {
			if overrun++; overrun > retryOverrunLimit {
				panic(retryAbort{})
			}
			cancel()
			return nil, FatalError(retryOverrun{})
		}
		o := script[calls]
		calls++
		if cancelAt == 2*calls-1 {
			cancel()
		}
		return o.ret()
	})
	if cancelAt == 0 {
		cancel()
	}
	var res interface{}
	var err error
	if el, ok := retryTimed(h, "closure with real seams", 20*time.Second, func() { res, err = fn() }); !ok {
		h.line("MONITOR C18 closure with real seams did not return (%v) case=r%d", el, id)
		return
	}
	var ops, outs [][]int
	for _, o := range script {
		ops = append(ops, o.op())
		outs = append(outs, []int{0})
	}
	fin := append([]int{calls}, retryClassify(res, err, ctx.Err())...)
	ops = append(ops, []int{8})
	outs = append(outs, fin)
	h.line("K1 retry r%d %d %d 0 # %s | %s", id, int(time.Microsecond), cancelAt, joinRecs(ops), joinRecs(outs))
	h.count("real_runs", 1)
}

func init() {
	register("C18K1", func(h *hctx) {
		for i := 0; i < h.n; i++ {
			retryK1Case(h, i)
		}
	})
	register("C18F", retryFScenario)
}
