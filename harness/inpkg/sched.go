//go:build verif

package bigbuff

import (
	"sync"
	"sync/atomic"
	"time"
)

// verifP is called by the INSTRUMENTED copy of the library (harness/cmd/instr) before every synchronisation
// operation. With no policy installed it is one atomic load.
type policy interface{ at(id int) }

type policyBox struct{ p policy }

var verifPolicy atomic.Pointer[policyBox]

func verifP(id int) {
	if b := verifPolicy.Load(); b != nil {
		b.p.at(id)
	}
}

func setPolicy(p policy) {
	if p == nil {
		verifPolicy.Store(nil)
		return
	}
	verifPolicy.Store(&policyBox{p})
}

// instrumented reports whether the library under test was built with verifP hooks (probe: a Buffer operation hits some).
func instrumented() bool {
	c := &countPolicy{hits: map[int]int{}}
	setPolicy(c)
	b := new(Buffer)
	_ = b.Put(nil, 1)
	_ = b.Close()
	setPolicy(nil)
	c.mu.Lock()
	defer c.mu.Unlock()
	return len(c.hits) > 0
}

// countPolicy records how often each point is hit (the dry run of a sweep).
type countPolicy struct {
	mu   sync.Mutex
	hits map[int]int
}

func (c *countPolicy) at(id int) {
	c.mu.Lock()
	c.hits[id]++
	c.mu.Unlock()
}

// delayPolicy sleeps for d at the k-th hit of one point: it opens exactly one race window.
type delayPolicy struct {
	id, k int
	d     time.Duration
	n     atomic.Int64
	fired atomic.Bool
}

func (p *delayPolicy) at(id int) {
	if id != p.id {
		return
	}
	if int(p.n.Add(1)) == p.k {
		p.fired.Store(true)
		time.Sleep(p.d)
	}
}

// randomPolicy: every point yields or sleeps briefly with a seeded probability (PCT-flavoured noise).
type randomPolicy struct {
	mu   sync.Mutex
	s    uint64
	prob uint64 // out of 1024
	max  time.Duration
}

func (p *randomPolicy) at(id int) {
	p.mu.Lock()
	p.s = p.s*6364136223846793005 + 1442695040888963407
	r := p.s >> 33
	p.mu.Unlock()
	if r%1024 < p.prob {
		time.Sleep(time.Duration(r>>10) % p.max)
	}
}
