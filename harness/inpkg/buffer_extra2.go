//go:build verif

package bigbuff

// More standalone monitor scenarios for the Buffer, prompted by a second round of seeded "plausible improvement" changes
// (see buffer_extra.go): a Put whose context becomes done while it runs, a Range whose callback ends its goroutine, consumed
// prefixes of several hundred thousand values, and contexts that carry a cancellation cause.

import (
	"context"
	"errors"
	"runtime"
	"sync"
	"sync/atomic"
	"time"
)

// countdownCtx is a well-behaved context.Context (Done and Err agree, cancellation is permanent) that becomes cancelled at
// the moment it is consulted (Err or Done) for the (k+1)th time: the first k consultations see a live context.  It stands
// for "the producer's context was cancelled at some point during the call", placed deterministically.
type countdownCtx struct {
	context.Context
	cancel context.CancelFunc
	k      int32
	calls  atomic.Int32
}

func newCountdownCtx(k int) *countdownCtx {
	c := &countdownCtx{k: int32(k)}
	c.Context, c.cancel = context.WithCancel(context.Background())
	return c
}

func (c *countdownCtx) consult() {
	if c.calls.Add(1) > c.k {
		c.cancel()
	}
}
func (c *countdownCtx) Err() error            { c.consult(); return c.Context.Err() }
func (c *countdownCtx) Done() <-chan struct{} { c.consult(); return c.Context.Done() }

func init() {
	// C01CTXPUT checks C01 "All successful Put calls ... form one total order in which each call's values are contiguous and in
	// argument order, consistent with ... every producer's program order. ... no gap, duplicate, reordering, invented value":
	// the put order consists of the batches of the SUCCESSFUL Puts and of nothing else, so a Put that returned an error has
	// contributed none of its values (neither to Slice nor to what a consumer reads), and a Put that returned nil all of them,
	// contiguous and in argument order.  The Puts carry batches from a few values to 20,000 values and contexts that are nil,
	// live, already cancelled, cancelled by another goroutine while the Put runs, or become cancelled at their k-th
	// consultation (k = 0, 1, 2, ...) i.e. at a chosen point inside the Put; two producers run concurrently.
	register("C01CTXPUT", func(h *hctx) {
		const tagMul = 1000000
		type put struct {
			size, kind, k int
			err           error
		}
		for i := 0; i < h.n; i++ {
			b := new(Buffer)
			c, err := b.NewConsumer() // never commits: nothing is reclaimed, Slice holds the whole put order
			if err != nil {
				h.line("MONITOR C01 ctx-put case %d: NewConsumer failed", i)
				return
			}
			nprod := 1 + h.rng.Intn(2)
			var puts []*put
			prods := make([][]int, nprod) // producer -> the ids of its Puts, in program order
			for p := 0; p < nprod; p++ {
				for q, nq := 0, 1+h.rng.Intn(3); q < nq; q++ {
					pt := &put{kind: h.rng.Intn(8), k: h.rng.Intn(6)}
					switch h.rng.Intn(6) {
					case 0:
						pt.size = 1 + h.rng.Intn(300)
					case 1:
						pt.size = []int{4095, 4096, 4097, 8192, 8193, 16384, 16385}[h.rng.Intn(7)]
					default:
						pt.size = 5000 + h.rng.Intn(15001)
					}
					prods[p] = append(prods[p], len(puts))
					puts = append(puts, pt)
				}
			}
			var wg sync.WaitGroup
			for p := 0; p < nprod; p++ {
				ids := prods[p]
				// everything random is drawn here, on the scenario's goroutine
				ctxs := make([]context.Context, len(ids))
				after := make([]func(), len(ids))
				for j, id := range ids {
					pt := puts[id]
					switch {
					case pt.kind == 0:
						ctxs[j] = nil
					case pt.kind == 1:
						ctxs[j] = context.Background()
					case pt.kind == 2: // cancelled by another goroutine while (or before, or after) the Put runs
						cctx, cancel := context.WithCancel(context.Background())
						d := time.Duration(h.rng.Intn(200)) * time.Microsecond
						tm := time.AfterFunc(d, cancel)
						ctxs[j], after[j] = cctx, func() { tm.Stop(); cancel() }
					default: // becomes cancelled at consultation k+1
						cc := newCountdownCtx(pt.k)
						ctxs[j], after[j] = cc, cc.cancel
					}
				}
				wg.Add(1)
				go func() {
					defer wg.Done()
					for j, id := range ids {
						pt := puts[id]
						vals := make([]interface{}, pt.size)
						for x := range vals {
							vals[x] = id*tagMul + x
						}
						pt.err = b.Put(ctxs[j], vals...)
						if after[j] != nil {
							after[j]()
						}
					}
				}()
			}
			wg.Wait()
			nok, nfail, want := 0, 0, 0
			for _, pt := range puts {
				if pt.err == nil {
					nok++
					want += pt.size
				} else {
					nfail++
				}
			}
			// check decides whether seq is a concatenation of the whole batches of the successful Puts, each once, the Puts of
			// one producer in program order
			check := func(what string, seq []interface{}) bool {
				seen := make([]bool, len(puts))
				for at := 0; at < len(seq); {
					v, ok := seq[at].(int)
					if !ok || v < 0 || v/tagMul >= len(puts) {
						h.line("MONITOR C01 ctx-put: %s holds a value that nobody put at position %d: %v (case %d)", what, at, seq[at], i)
						return false
					}
					id, x := v/tagMul, v%tagMul
					pt := puts[id]
					if pt.err != nil {
						h.line("MONITOR C01 ctx-put: a Put of %d values returned an error (context kind %d, cancelled at consultation %d) yet %s holds values of its batch (position %d holds its value number %d): only successful Puts form the put order (case %d)", pt.size, pt.kind, pt.k+1, what, at, x, i)
						return false
					}
					if x != 0 || seen[id] {
						h.line("MONITOR C01 ctx-put: in %s the values of one successful Put of %d values are not contiguous, in argument order and each once: position %d holds its value number %d (case %d)", what, pt.size, at, x, i)
						return false
					}
					seen[id] = true
					if at+pt.size > len(seq) {
						h.line("MONITOR C01 ctx-put: %s ends after %d of the %d values of a successful Put (case %d)", what, len(seq)-at, pt.size, i)
						return false
					}
					for y := 1; y < pt.size; y++ {
						if w, ok := seq[at+y].(int); !ok || w != v+y {
							h.line("MONITOR C01 ctx-put: in %s the values of one successful Put of %d values are not contiguous and in argument order: position %d holds %v, expected %d (case %d)", what, pt.size, at+y, seq[at+y], v+y, i)
							return false
						}
					}
					at += pt.size
				}
				for id, pt := range puts {
					if pt.err == nil && !seen[id] {
						h.line("MONITOR C01 ctx-put: a Put of %d values returned nil but %s holds none of its values (case %d)", pt.size, what, i)
						return false
					}
				}
				// program order: the batches of one producer appear in the order of its calls
				pos := make(map[int]int)
				for at := 0; at < len(seq); {
					id := seq[at].(int) / tagMul
					pos[id] = at
					at += puts[id].size
				}
				for _, ids := range prods {
					prev := -1
					for _, id := range ids {
						if at, ok := pos[id]; ok {
							if at < prev {
								h.line("MONITOR C01 ctx-put: in %s the batches of one producer are not in the order of its Put calls (case %d)", what, i)
								return false
							}
							prev = at
						}
					}
				}
				return true
			}
			good := check("Slice", b.Slice())
			if good {
				// what a consumer reads: up to a marker put by a Put that certainly comes last
				if err := b.Put(nil, -1); err != nil {
					h.line("MONITOR C01 ctx-put case %d: Put(nil ctx) on an open Buffer failed: %v", i, err)
					return
				}
				got := make([]interface{}, 0, want)
				for len(got) <= want+tagMul {
					gctx, cancel := context.WithTimeout(context.Background(), 5*time.Second)
					v, err := c.Get(gctx)
					cancel()
					if err != nil {
						h.line("MONITOR C01 ctx-put: the consumer's Get number %d failed (%d values were put by successful Puts, then a marker) (case %d)", len(got), want, i)
						good = false
						break
					}
					if v == -1 {
						break
					}
					got = append(got, v)
				}
				if good {
					check("the consumer's stream", got)
				}
			}
			_ = c.Rollback()
			_ = c.Close()
			_ = b.Close()
			h.count("c01ctxput_cases", 1)
			h.count("c01ctxput_puts_ok", nok)
			h.count("c01ctxput_puts_failed", nfail)
		}
	})

	// C04GOEXIT checks C04 "closing a consumer releases its hold in the same way. Hence with consumers that keep up, Size returns
	// to the backlog of the slowest open consumer": a consumer that was driven by Range / Buffer.Range (which "encapsulate
	// automatic commits and rollbacks": whatever way the callback leaves - return false, panic, runtime.Goexit as done by
	// testing.T.FailNow, a cancelled context - nothing stays uncommitted) and is then closed does not pin the buffer: its Close
	// returns, and, another consumer having committed all but m values, Size returns to m within the cooldown plus slack
	// without any further operation.
	register("C04GOEXIT", func(h *hctx) {
		bad := 0
		for i := 0; i < h.n && bad < 3; i++ {
			cd := time.Duration(0)
			if h.rng.Intn(2) == 1 {
				cd = time.Duration(1+h.rng.Intn(8)) * time.Millisecond
			}
			b := new(Buffer)
			if err := b.SetCleanerConfig(CleanerConfig{Cleaner: DefaultCleaner, Cooldown: cd}); err != nil {
				h.line("MONITOR C04 goexit case %d: SetCleanerConfig failed: %v", i, err)
				return
			}
			a, err1 := b.NewConsumer()
			keeper, err2 := b.NewConsumer()
			if err1 != nil || err2 != nil {
				h.line("MONITOR C04 goexit case %d: NewConsumer failed", i)
				return
			}
			n := 4 + h.rng.Intn(40)
			vals := make([]interface{}, n)
			for k := range vals {
				vals[k] = k
			}
			_ = b.Put(context.Background(), vals...)
			m := h.rng.Intn(4) // the keeper's backlog
			for k := 0; k < n-m; k++ {
				if _, err := keeper.Get(context.Background()); err != nil {
					h.line("MONITOR C04 goexit case %d: Get %d failed: %v", i, k, err)
					return
				}
			}
			_ = keeper.Commit()
			at := h.rng.Intn(n - 1)         // index at which the callback leaves
			how := h.rng.Intn(4)            // 0 Goexit, 1 panic, 2 return false, 3 cancel the context and return true
			viaBuffer := h.rng.Intn(2) == 1 // Buffer.Range instead of the package's Range
			hows := []string{"called runtime.Goexit", "panicked", "returned false", "cancelled the Range's context"}[how]
			ctx, cancel := context.WithCancel(context.Background())
			exited := make(chan struct{})
			go func() {
				defer close(exited)
				defer func() { _ = recover() }()
				fn := func(index int, value interface{}) bool {
					if index == at {
						switch how {
						case 0:
							runtime.Goexit()
						case 1:
							panic("verif: callback panic")
						case 2:
							return false
						default:
							cancel()
						}
					}
					return true
				}
				if viaBuffer {
					_ = b.Range(ctx, a, fn)
				} else {
					_ = Range(ctx, a, fn)
				}
			}()
			select {
			case <-exited:
			case <-time.After(5 * time.Second):
				h.line("MONITOR C04 goexit case %d: Range over %d available values did not end within 5 s (callback %s at index %d)", i, n, hows, at)
				cancel()
				return
			}
			cancel()
			// the worker is gone; its consumer is closed, which releases its hold
			closed := make(chan struct{})
			go func() { _ = a.Close(); close(closed) }()
			hung := false
			select {
			case <-closed:
			case <-time.After(3 * time.Second):
				hung = true
				bad++
				h.line("MONITOR C04 closing a consumer does not release its hold: Close of a consumer whose Range had ended (callback %s at index %d of %d, Buffer.Range=%v) is still blocked after 3 s, Size %d although the only other consumer has a backlog of %d (cooldown %v, case %d)", hows, at, n, viaBuffer, b.Size(), m, cd, i)
				_ = a.Rollback() // lets the Close finish so that the scenario can go on
				select {
				case <-closed:
				case <-time.After(3 * time.Second):
				}
			}
			if !hung {
				// quiet from here on (Size only takes the read lock)
				bound := 2*cd + 2*time.Second
				deadline := time.Now().Add(bound)
				for b.Size() != m && time.Now().Before(deadline) {
					time.Sleep(200 * time.Microsecond)
				}
				if sz := b.Size(); sz != m {
					bad++
					h.line("MONITOR C04 Size is %d and not the backlog %d of the only open consumer %v after the other consumer (Range callback %s at index %d of %d, Buffer.Range=%v) was closed (cooldown %v, case %d)", sz, m, bound, hows, at, n, viaBuffer, cd, i)
				}
			}
			_ = keeper.Rollback()
			_ = keeper.Close()
			_ = b.Close()
			h.count("c04goexit_cases", 1)
			h.count("c04goexit_how_"+[]string{"goexit", "panic", "false", "cancel"}[how], 1)
		}
	})

	// C04HUGE checks C04 "Whenever at least one consumer is open and every open consumer has committed past a prefix of the
	// buffer, that prefix is removed within a bounded delay (the configured cooldown plus scheduling latency) even if no further
	// operation ever happens, and closing a consumer releases its hold in the same way. Hence ... Size returns to the backlog of
	// the slowest open consumer" for prefixes of 150,000-300,000 values that become reclaimable by ONE commit or by the close
	// of the slowest consumer (C04BIG does the same with 4,500-13,500 values): the delay is bounded whatever the length of the
	// prefix, nothing is left for "a later cycle" that no operation will ever trigger.
	register("C04HUGE", func(h *hctx) {
		bad := 0
		for i := 0; i < h.n && bad < 2; i++ {
			cd := []time.Duration{0, 10 * time.Millisecond}[i%2]
			total := 150000 + h.rng.Intn(150001)
			ncons := 1 + h.rng.Intn(2)
			variant := 0 // 0: every consumer reads and commits once; 1: the slowest (it read nothing) is closed
			if ncons == 2 && i%4 >= 2 {
				variant = 1
			}
			backlog := 0 // what the slowest consumer that stays open leaves unread
			if h.rng.Intn(2) == 1 {
				backlog = 1 + h.rng.Intn(70000)
			}
			b := new(Buffer)
			if err := b.SetCleanerConfig(CleanerConfig{Cleaner: DefaultCleaner, Cooldown: cd}); err != nil {
				h.line("MONITOR C04 huge case %d: SetCleanerConfig failed: %v", i, err)
				return
			}
			cs := make([]Consumer, ncons)
			for k := range cs {
				c, err := b.NewConsumer()
				if err != nil {
					h.line("MONITOR C04 huge case %d: NewConsumer failed", i)
					return
				}
				cs[k] = c
			}
			vals := make([]interface{}, total)
			for k := range vals {
				vals[k] = k
			}
			_ = b.Put(context.Background(), vals...)
			for k, c := range cs {
				if variant == 1 && k == 0 {
					continue
				}
				m := total
				if k == ncons-1 {
					m = total - backlog
				}
				for x := 0; x < m; x++ {
					if v, err := c.Get(context.Background()); err != nil || v != x {
						h.line("MONITOR C04 huge case %d: Get %d returned (%v, %v)", i, x, v, err)
						return
					}
				}
				_ = c.Commit()
			}
			if variant == 1 {
				_ = cs[0].Close()
			}
			// quiet from here on (Size only takes the read lock)
			bound := 2*cd + 2*time.Second
			deadline := time.Now().Add(bound)
			for b.Size() != backlog && time.Now().Before(deadline) {
				time.Sleep(500 * time.Microsecond)
			}
			if sz := b.Size(); sz != backlog {
				bad++
				h.line("MONITOR C04 Size is %d and not the backlog %d of the slowest open consumer %v after the last state change: %d of the %d values that every open consumer has committed past are still held (cooldown %v, %d consumers, %s, case %d)", sz, backlog, bound, sz-backlog, total-backlog, cd, ncons, []string{"every consumer committed once", "the slowest consumer was closed"}[variant], i)
			}
			for k, c := range cs {
				if variant == 1 && k == 0 {
					continue
				}
				_ = c.Close()
			}
			_ = b.Close()
			h.count("c04huge_cases", 1)
			h.count("c04huge_values", total)
		}
	})

	// C05CAUSE checks C05 "WaitCond returns nil only after its predicate returned true with the lock held, and otherwise returns
	// the context's error even if nobody ever broadcasts" (and, for a blocked Get, "returns promptly once ... its context is
	// cancelled"): the context's error is ctx.Err() - context.Canceled or context.DeadlineExceeded, what callers compare the
	// result with - also when the context carries a cancellation CAUSE (context.WithCancelCause, WithTimeoutCause,
	// WithDeadlineCause, or a child of such a context), which is a different, arbitrary error.
	register("C05CAUSE", func(h *hctx) {
		type reasonErr struct{ error }
		for i := 0; i < h.n; i++ {
			var cause error = reasonErr{errors.New("verif: the reason")}
			switch h.rng.Intn(4) {
			case 0:
				cause = context.Canceled // the "other" sentinel for the deadline kinds, the same one for the cancel kinds
			case 1:
				cause = context.DeadlineExceeded
			}
			kind := h.rng.Intn(5)
			child := h.rng.Intn(3) == 0
			pre := h.rng.Intn(3) == 0                                  // done before the call
			wait := time.Duration(h.rng.Intn(3000)) * time.Microsecond // otherwise: done this long after the call started
			// mk returns the context and a function that makes it done now (nil for the deadline kinds, which become done by
			// themselves after d)
			mk := func(d time.Duration) (context.Context, func(), func()) {
				var ctx context.Context
				var fire, release func()
				switch kind {
				case 0, 1:
					c, cancel := context.WithCancelCause(context.Background())
					ctx, fire, release = c, func() { cancel(cause) }, func() { cancel(nil) }
				case 2:
					c, cancel := context.WithTimeoutCause(context.Background(), d, cause)
					ctx, release = c, cancel
				case 3:
					c, cancel := context.WithDeadlineCause(context.Background(), time.Now().Add(d), cause)
					ctx, release = c, cancel
				default: // a deadline context with a cause that is cancelled (without a cause) before the deadline
					c, cancel := context.WithTimeoutCause(context.Background(), time.Hour, cause)
					ctx, fire, release = c, cancel, cancel
				}
				if child {
					c, cancel := context.WithCancel(ctx)
					prev := release
					ctx, release = c, func() { cancel(); prev() }
				}
				return ctx, fire, release
			}
			kinds := []string{"WithCancelCause", "WithCancelCause", "WithTimeoutCause", "WithDeadlineCause", "WithTimeoutCause cancelled early"}[kind]
			d := wait
			if pre {
				d = 0
			}
			makeDone := func(ctx context.Context, fire func()) bool {
				if fire != nil {
					fire()
				}
				select {
				case <-ctx.Done():
					return true
				case <-time.After(5 * time.Second):
					h.line("MONITOR C05 cause case %d: a %s context did not become done", i, kinds)
					return false
				}
			}
			// ---- WaitCond called directly, nobody ever broadcasts, the predicate is never true
			{
				ctx, fire, release := mk(d)
				if pre && !makeDone(ctx, fire) {
					return
				}
				cond := sync.NewCond(new(sync.Mutex))
				out := make(chan error, 1)
				go func() {
					cond.L.Lock()
					defer cond.L.Unlock()
					out <- WaitCond(ctx, cond, func() bool { return false })
				}()
				if !pre && fire != nil {
					time.Sleep(wait)
					fire()
				}
				select {
				case err := <-out:
					if want := ctx.Err(); err == nil || err != want {
						h.line("MONITOR C05 WaitCond whose predicate never was true did not return the context's error: its context (%s, child=%v, done before the call=%v) has Err() %v and a different cancellation cause; returned: %s (case %d)", kinds, child, pre, errKind(want), errKind(err), i)
					}
				case <-time.After(3 * time.Second):
					h.line("MONITOR C05 WaitCond did not return within 3 s after its context (%s, child=%v) was done (case %d)", kinds, child, i)
					release()
					return
				}
				release()
			}
			// ---- a Get blocked at the tail of the buffer
			{
				b := new(Buffer)
				c, err := b.NewConsumer()
				if err != nil {
					h.line("MONITOR C05 cause case %d: NewConsumer failed", i)
					return
				}
				ctx, fire, release := mk(wait + time.Millisecond) // not done before the call: the Get has to go through the blocking path
				type res struct {
					v   interface{}
					err error
				}
				out := make(chan res, 1)
				go func() {
					v, err := c.Get(ctx)
					out <- res{v, err}
				}()
				if fire != nil {
					time.Sleep(wait)
					fire()
				}
				select {
				case r := <-out:
					want := ctx.Err()
					if r.err == nil || want == nil || !errors.Is(r.err, want) || (cause != want && errors.Is(r.err, cause)) {
						h.line("MONITOR C05 a Get blocked on an empty buffer whose context became done did not return the context's error: the context (%s, child=%v) has Err() %v and a different cancellation cause; returned value %v, error: %s (case %d)", kinds, child, errKind(want), r.v, errKind(r.err), i)
					}
				case <-time.After(3 * time.Second):
					h.line("MONITOR C05 a blocked Get did not return within 3 s after its context (%s, child=%v) was done (case %d)", kinds, child, i)
					release()
					return
				}
				release()
				// it consumed nothing: the next Get returns the next value put
				_ = b.Put(context.Background(), 7)
				gctx, gcancel := context.WithTimeout(context.Background(), 3*time.Second)
				if v, err := c.Get(gctx); err != nil || v != 7 {
					h.line("MONITOR C05 the Get after a Get that failed with its context's error returned (%v, %s), expected the first value put (case %d)", v, errKind(err), i)
				}
				gcancel()
				_ = c.Rollback()
				_ = c.Close()
				_ = b.Close()
			}
			h.count("c05cause_cases", 1)
			h.count([]string{"c05cause_cancelcause", "c05cause_cancelcause", "c05cause_timeoutcause", "c05cause_deadlinecause", "c05cause_timeoutcause_cancelled"}[kind], 1)
			if pre {
				h.count("c05cause_done_before_call", 1)
			}
		}
	})
}

// errKind maps an error to a small enum for monitor texts (never the error's own text).
func errKind(err error) string {
	switch {
	case err == nil:
		return "nil"
	case err == context.Canceled:
		return "context.Canceled"
	case err == context.DeadlineExceeded:
		return "context.DeadlineExceeded"
	case errors.Is(err, context.Canceled):
		return "an error wrapping context.Canceled"
	case errors.Is(err, context.DeadlineExceeded):
		return "an error wrapping context.DeadlineExceeded"
	}
	return "an error that is neither context.Canceled nor context.DeadlineExceeded"
}
