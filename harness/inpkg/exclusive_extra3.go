//go:build verif

package bigbuff

// C10NORESOLVE: "a work function that returns without resolving yields the resolve-not-called error instead of a hang" -
// also when the work function is wrapped: by ExclusiveRateLimit with a LIVE context (the rate limiter only adds a cool-down
// after the work function has returned; it does not wait for a resolve that will never come), by a pass-through
// ExclusiveWrapper, by both.  Every call is answered within a generous bound, the answer of the unresolved execution is an
// error, a later call on the key is answered by a later execution, no per-key state remains.

import (
	"context"
	"errors"
	"time"
)

func init() {
	register("C10NORESOLVE", func(h *hctx) {
		for i := 0; i < h.n; i++ {
			var e Exclusive
			key := i
			ctx, cancel := context.WithCancel(context.Background())
			rate := time.Duration(50+h.rng.Intn(2000)) * time.Microsecond
			var opts []ExclusiveOption
			opts = append(opts, ExclusiveKey(key))
			ran := make(chan struct{}, 4)
			workDone := make(chan struct{})
			opts = append(opts, ExclusiveWork(func(resolve func(interface{}, error)) {
				ran <- struct{}{} // returns without calling resolve
				close(workDone)
			}))
			shape := i % 5
			if shape == 4 {
				// the limiter's context is cancelled during the cool-down after the work function returned: the answer is still
				// the resolve-not-called error (an outcome of the execution), not the limiter context's error, which no
				// execution produced
				rate = time.Duration(20+h.rng.Intn(30)) * time.Millisecond
				opts = append(opts, ExclusiveRateLimit(ctx, rate))
			}
			if shape == 0 || shape == 2 {
				opts = append(opts, ExclusiveRateLimit(ctx, rate))
			}
			if shape == 1 || shape == 2 {
				opts = append(opts, ExclusiveWrapper(func(w WorkFunc) WorkFunc {
					return func(resolve func(interface{}, error)) { w(resolve) }
				}))
			}
			if shape == 3 {
				opts = append(opts, ExclusiveRateLimit(ctx, rate), ExclusiveWait(time.Duration(h.rng.Intn(300))*time.Microsecond))
			}
			h.rng.Shuffle(len(opts)-1, func(a, b int) { opts[a+1], opts[b+1] = opts[b+1], opts[a+1] })
			out := e.CallWithOptions(opts...)
			if shape == 4 {
				select {
				case <-workDone:
				case <-time.After(3 * time.Second):
				}
				cancel()
			}
			var first *ExclusiveOutcome
			select {
			case first = <-out:
			case <-time.After(3 * time.Second):
				h.line("MONITOR C10 a call whose work function returned without resolving was never answered (3 s; options shape %d: 0 rate limit with a live context, 1 pass-through wrapper, 2 both, 3 rate limit + wait, 4 rate limit cancelled during the cool-down; rate %v; case %d): expected the resolve-not-called error", shape, rate, i)
				cancel()
				return
			}
			if shape == 4 && first != nil && (errors.Is(first.Error, context.Canceled) || errors.Is(first.Error, context.DeadlineExceeded)) {
				h.line("MONITOR C10 a call whose work function returned without resolving was answered with the rate limiter's context error (the context was cancelled during the cool-down): an outcome that no execution produced, expected the resolve-not-called error (case %d)", i)
			}
			if first == nil || first.Error == nil {
				h.line("MONITOR C10 a call whose work function returned without resolving was answered without an error (shape %d, case %d)", shape, i)
			}
			select {
			case <-ran:
			default:
				h.line("MONITOR C10 a call was answered although its work function never ran (shape %d, case %d)", shape, i)
			}
			// a later call on the key is answered by a later execution
			type res struct {
				v   interface{}
				err error
			}
			done := make(chan res, 1)
			go func() {
				v, err := e.Call(key, func() (interface{}, error) { return i + 1000000, nil })
				done <- res{v, err}
			}()
			select {
			case r := <-done:
				if r.err != nil || r.v != i+1000000 {
					h.line("MONITOR C10 the call after an unresolved execution returned (%v, %v), expected its own result (shape %d, case %d)", r.v, r.err, shape, i)
				}
			case <-time.After(3 * time.Second):
				h.line("MONITOR C10 the call after an unresolved execution was never answered (3 s; shape %d, case %d)", shape, i)
				cancel()
				return
			}
			end := time.Now().Add(3 * time.Second)
			for soMapLen(&e) != 0 && time.Now().Before(end) {
				time.Sleep(200 * time.Microsecond)
			}
			if n := soMapLen(&e); n != 0 {
				h.line("MONITOR C10 %d keys still have state 3 s after every call was answered (shape %d, case %d)", n, shape, i)
			}
			cancel()
			h.count("c10noresolve_cases", 1)
		}
	})
}
