//go:build verif

package bigbuff

// C08TRACE: trace acceptance for the ChanCaster protocol model (Model/CasterAbs.v, with the state word of Model/Caster.v
// carried along through Model/CasterBridge.v).  On an INSTRUMENTED build every synchronisation point of chancaster.go
// announces itself through verifP BEFORE the operation executes; contract-following programs (receivers register with
// Add(1), then receive on C or give up with Add(-1); unbuffered channel; 1-2 senders with 1-2 Sends each; 1-4 receivers with
// 1-2 registrations each, some deregistering mid-Send, some registering during a Send) are run and one log per case is
// written, in the order things happen and with the thread that does them:
//
//	F caster_trace <id> <seed> <case> <S> <R> <complete> <eu> <eru> <nev> (<thread> <kind> <arg>)*nev | 1
//	   kind 1 Send(arg) called | 2 Send returned arg | 3 Send panicked | 4 POINT op | 5 Add(arg) called | 6 Add returned arg
//	      | 7 Add panicked | 8 about to receive on C | 9 received arg from C | 10 every call has returned, Add(0) = arg
//	   op (kind 4): 1 Load 2 CompareAndSwap 3 Add 4 Lock 5 RLock 6 send 7 recv 8 Unlock 9 RUnlock 10 Store 11 Swap
//	   threads 0..S-1 are the senders, S..S+R-1 the receivers; complete = 0 if the case was abandoned (a call hung);
//	   eu / eru = 1 if the file(s) of Send and Add have mutex.Unlock() / mutex.RUnlock() as statements of their own (announced)
//	   rather than deferred (never announced: the instrumenter does not touch defer statements)
//
// The points are found in the instrumenter's table (parameter ptfile) by WHAT THEY DO - the operation a point announces; which
// model step it is follows from the call the announcing goroutine is in and from where the model says that call is - never
// by line numbers or point ids.  checker/ad_castertrace.ml decides the log with the extracted CasterAbs.step.

import (
	"bufio"
	"fmt"
	"math/rand"
	"os"
	"runtime"
	"sort"
	"strconv"
	"strings"
	"sync"
	"time"
)

var ctrOpCode = map[string]int{"Load": 1, "CompareAndSwap": 2, "Add": 3, "Lock": 4, "RLock": 5, "send": 6, "recv": 7,
	"Unlock": 8, "RUnlock": 9, "Store": 10, "Swap": 11}

type ctrPoint struct {
	op   int
	file string
	desc string
}

type ctrWait struct {
	op, n int
	ch    chan struct{}
}

type ctrPolicy struct {
	pts     map[int]ctrPoint
	ns      int
	mu      sync.Mutex
	ev      []int
	gids    map[int]int
	rng     *rand.Rand
	opCount [12]int // announcements by sender threads, per op
	waits   []*ctrWait
	unknown string // an announcement by a caster thread that is none of the operations above
	hit     map[int]bool
	hitFile map[string]bool
}

func ctrGID() int {
	var buf [64]byte
	n := runtime.Stack(buf[:], false)
	f := strings.Fields(string(buf[:n]))
	if len(f) >= 2 {
		if v, err := strconv.Atoi(f[1]); err == nil {
			return v
		}
	}
	return -1
}

// enter makes the calling goroutine thread th of the case
func (p *ctrPolicy) enter(th int) {
	g := ctrGID()
	p.mu.Lock()
	p.gids[g] = th
	p.mu.Unlock()
}

func (p *ctrPolicy) log(th, kind, arg int) {
	p.mu.Lock()
	p.ev = append(p.ev, th, kind, arg)
	p.mu.Unlock()
}

// after returns a channel that is closed when the senders have announced operation op for the n-th time
func (p *ctrPolicy) after(op, n int) chan struct{} {
	w := &ctrWait{op: op, n: n, ch: make(chan struct{})}
	p.waits = append(p.waits, w) // only called before the threads start
	return w.ch
}

func (p *ctrPolicy) at(id int) {
	g := ctrGID()
	p.mu.Lock()
	th, ok := p.gids[g]
	if !ok {
		p.mu.Unlock()
		return
	}
	pt := p.pts[id]
	if pt.op == 0 && p.unknown == "" {
		p.unknown = pt.desc
		if p.unknown == "" {
			p.unknown = fmt.Sprintf("point %d (not in the table)", id)
		}
	}
	p.ev = append(p.ev, th, 4, pt.op)
	p.hit[pt.op] = true
	if p.hitFile != nil {
		p.hitFile[pt.file] = true
	}
	if th < p.ns && pt.op > 0 {
		p.opCount[pt.op]++
		for _, w := range p.waits {
			if w.ch != nil && w.op == pt.op && p.opCount[pt.op] >= w.n {
				close(w.ch)
				w.ch = nil
			}
		}
	}
	r := p.rng.Intn(16)
	d := time.Duration(p.rng.Intn(120)) * time.Microsecond
	p.mu.Unlock()
	switch {
	case r < 2:
		time.Sleep(d)
	case r < 7:
		runtime.Gosched()
	}
}

func ctrLoadPoints(path string) map[int]ctrPoint {
	f, err := os.Open(path)
	if err != nil {
		return nil
	}
	defer f.Close()
	m := map[int]ctrPoint{}
	sc := bufio.NewScanner(f)
	for sc.Scan() {
		w := strings.Fields(sc.Text()) // id file:line stmt-type op callee [fn=function]
		if len(w) < 5 {
			continue
		}
		id, err := strconv.Atoi(w[0])
		if err != nil {
			continue
		}
		desc := w[1] + " " + w[3] + " " + w[4]
		if len(w) > 5 {
			desc += " " + w[5] // fn=<function> (newer instrumenter)
		}
		m[id] = ctrPoint{op: ctrOpCode[w[3]], file: strings.SplitN(w[1], ":", 2)[0], desc: desc}
	}
	return m
}

func init() {
	register("C08TRACE", func(h *hctx) {
		pts := ctrLoadPoints(h.p("ptfile", ""))
		if !instrumented() {
			h.line("STAT c08trace_not_run 1")
			return
		}
		if len(pts) == 0 {
			h.line("INCONCLUSIVE C08 trace: no point table")
			return
		}
		// probe: two registrations, one Send, two receives must announce the operations the protocol is made of
		{
			pol := &ctrPolicy{pts: pts, ns: 1, gids: map[int]int{}, rng: rand.New(rand.NewSource(1)), hit: map[int]bool{}, hitFile: map[string]bool{}}
			x := NewChanCaster(make(chan int))
			setPolicy(pol)
			var wg, regd sync.WaitGroup
			regd.Add(2)
			for k := 1; k <= 2; k++ {
				k := k
				wg.Add(1)
				go func() {
					defer wg.Done()
					defer func() { _ = recover() }()
					pol.enter(k)
					func() {
						defer regd.Done()
						x.Add(1)
					}()
					<-x.C
				}()
			}
			wg.Add(1)
			go func() {
				defer wg.Done()
				defer func() { _ = recover() }()
				pol.enter(0)
				regd.Wait()
				x.Send(1)
			}()
			done := make(chan struct{})
			go func() { wg.Wait(); close(done) }()
			ok := true
			select {
			case <-done:
			case <-time.After(5 * time.Second):
				ok = false
			}
			setPolicy(nil)
			pol.mu.Lock()
			var missing []string
			for _, o := range []string{"Load", "CompareAndSwap", "Add", "send"} {
				if !pol.hit[ctrOpCode[o]] {
					missing = append(missing, o)
				}
			}
			hitFile := map[string]bool{}
			for f := range pol.hitFile {
				hitFile[f] = true
			}
			pol.mu.Unlock()
			if len(missing) > 0 {
				h.line("INCONCLUSIVE C08 trace: two registrations, a Send and two receives on a ChanCaster did not announce %v (finished: %v): the word and channel operations of the protocol cannot be found in the instrumented source", missing, ok)
				return
			}
			if !ok {
				h.line("MONITOR C08 hang: Add(1) x 2, Send, two receives on an unbuffered ChanCaster did not finish within 5 s (trace probe)")
			}
			// does the source of Send / Add release its locks by statements of their own (then they are announced) or by defer?
			for _, pt := range pts {
				if hitFile[pt.file] && pt.op == 8 {
					ctrExplicit[0] = 1
				}
				if hitFile[pt.file] && pt.op == 9 {
					ctrExplicit[1] = 1
				}
			}
			h.line("STAT c08trace_explicit_unlock %d", ctrExplicit[0])
			h.line("STAT c08trace_explicit_runlock %d", ctrExplicit[1])
		}
		for i := 0; i < h.n; i++ {
			if !ctrCase(h, i, pts) {
				return
			}
		}
	})
}

var ctrExplicit [2]int

type ctrRecvPlan struct {
	pause    int
	late     chan struct{} // register only after this (nil: at once)
	behave   int           // 0 receive (or give up when the senders are done) | 1 deregister on a trigger | 2 receive with a timeout
	trig     chan struct{}
	timeout  time.Duration
	rounds   int
	early    bool
	pauseTwo int
}

func ctrCase(h *hctx, id int, pts map[int]ctrPoint) bool {
	rng := h.rng
	S, R := 1+rng.Intn(2), 1+rng.Intn(4)
	pol := &ctrPolicy{pts: pts, ns: S, gids: map[int]int{}, rng: rand.New(rand.NewSource(rng.Int63())), hit: map[int]bool{}}
	x := NewChanCaster(make(chan int))
	base := (id%1000 + 1) * 100

	// triggers a REGISTERED receiver may wait for before giving up: all of them are announced by a Send whether or not this
	// receiver ever takes its copy (Lock, the slow-path Load, the arming CAS, the first channel send)
	safe := [][2]int{{4, 1}, {1, 2}, {2, 1}, {6, 1}}
	// a receiver that is not registered yet may wait for anything
	anyT := [][2]int{{4, 1}, {2, 1}, {6, 1}, {6, 2}, {1, 3}, {2, 2}, {4, 2}, {1, 2}}

	plans := make([]*ctrRecvPlan, R)
	nearly := 0
	for i := range plans {
		pl := &ctrRecvPlan{pause: rng.Intn(30), behave: rng.Intn(3), rounds: 1, pauseTwo: rng.Intn(20)}
		if rng.Intn(3) == 0 {
			t := anyT[rng.Intn(len(anyT))]
			pl.late = pol.after(t[0], t[1])
		} else {
			pl.early = true
			nearly++
		}
		if pl.behave == 1 {
			if rng.Intn(5) == 0 {
				pl.trig = nil // gives up at once
			} else {
				t := safe[rng.Intn(len(safe))]
				pl.trig = pol.after(t[0], t[1])
			}
		}
		pl.timeout = time.Duration(rng.Intn(400)) * time.Microsecond
		if rng.Intn(3) == 0 {
			pl.rounds = 2
		}
		plans[i] = pl
	}
	nsends := make([]int, S)
	spause := make([]int, S)
	for j := range nsends {
		nsends[j] = 1
		if rng.Intn(3) == 0 {
			nsends[j] = 2
		}
		spause[j] = rng.Intn(30)
	}
	phased := rng.Intn(4) != 0

	startSend := make(chan struct{})
	sendersDone := make(chan struct{})
	var registered, all, senders sync.WaitGroup
	isDone := func() bool {
		select {
		case <-sendersDone:
			return true
		default:
			return false
		}
	}

	setPolicy(pol)
	for i, pl := range plans {
		th, pl := S+i, pl
		all.Add(1)
		if pl.early {
			registered.Add(1)
		}
		go func() {
			defer all.Done()
			pol.enter(th)
			marked := !pl.early
			mark := func() {
				if !marked {
					marked = true
					registered.Done()
				}
			}
			defer mark()
			add := func(d int) (ok bool) {
				defer func() {
					if e := recover(); e != nil {
						pol.log(th, 7, 0)
						ok = false
					}
				}()
				pol.log(th, 5, d)
				r := x.Add(d)
				pol.log(th, 6, r)
				return true
			}
			for round := 0; round < pl.rounds; round++ {
				if round > 0 {
					if isDone() {
						return
					}
					casterTracePause(pl.pauseTwo)
				} else {
					if pl.late != nil {
						select {
						case <-pl.late:
						case <-sendersDone:
						}
					}
					casterTracePause(pl.pause)
				}
				if !add(1) {
					return
				}
				mark()
				behave := pl.behave
				if round > 0 {
					behave = 0
				}
				switch behave {
				case 1:
					if pl.trig != nil {
						select {
						case <-pl.trig:
						case <-sendersDone:
						}
					}
					casterTracePause(pl.pauseTwo)
					if !add(-1) {
						return
					}
				default:
					var tmo <-chan time.Time
					if behave == 2 {
						tmo = time.After(pl.timeout)
					}
					pol.log(th, 8, 0)
					select {
					case v := <-x.C:
						pol.log(th, 9, v)
					case <-tmo:
						if !add(-1) {
							return
						}
					case <-sendersDone:
						if !add(-1) {
							return
						}
					}
				}
			}
		}()
	}
	for j := 0; j < S; j++ {
		th := j
		all.Add(1)
		senders.Add(1)
		go func() {
			defer all.Done()
			defer senders.Done()
			pol.enter(th)
			<-startSend
			for k := 0; k < nsends[th]; k++ {
				casterTracePause(spause[th])
				v := base + th*10 + k + 1
				func() {
					defer func() {
						if e := recover(); e != nil {
							pol.log(th, 3, 0)
						}
					}()
					pol.log(th, 1, v)
					r := x.Send(v)
					pol.log(th, 2, r)
				}()
			}
		}()
	}
	if phased {
		regd := make(chan struct{})
		go func() { registered.Wait(); close(regd) }()
		select {
		case <-regd:
		case <-time.After(2 * time.Second):
		}
	}
	close(startSend)
	go func() { senders.Wait(); close(sendersDone) }()
	fin := make(chan struct{})
	go func() { all.Wait(); close(fin) }()
	complete := 1
	select {
	case <-fin:
	case <-time.After(3 * time.Second):
		complete = 0
		st, _ := goroutineStates()
		keys := make([]string, 0, len(st))
		for g, s := range st {
			keys = append(keys, g+"="+s)
		}
		sort.Strings(keys)
		h.line("MONITOR C08 hang: a Send or Add of a contract-following program was still blocked after 3 s (trace case %d: %d senders, %d receivers; goroutines: %v)", id, S, R, keys)
	}
	setPolicy(nil)
	if complete == 1 {
		func() {
			defer func() {
				if e := recover(); e != nil {
					h.line("MONITOR C08 Add(0) panicked after all calls of a contract-following program returned (trace case %d)", id)
					complete = 0
				}
			}()
			pol.log(0, 10, x.Add(0))
		}()
	}
	pol.mu.Lock()
	ev := append([]int(nil), pol.ev...)
	unknown := pol.unknown
	pol.mu.Unlock()
	if unknown != "" {
		h.line("INCONCLUSIVE C08 trace: a goroutine inside ChanCaster.Send/Add announced `%s`, an operation the protocol model has no step for (case %d): the source's control flow cannot be mapped to the steps of CasterAbs", unknown, id)
		return false
	}
	args := append([]int{int(h.seed), id, S, R, complete, ctrExplicit[0], ctrExplicit[1], len(ev) / 3}, ev...)
	h.line("F caster_trace t-%d-%d %s | 1", h.seed, id, ints(args))
	h.count("c08trace_cases", 1)
	h.count("c08trace_events", len(ev)/3)
	nabs, ncasretry, ndereg, nrecv, nlate := 0, 0, 0, 0, 0
	lastOp := map[int]int{}
	inLock := map[int]bool{} // senders between the announcement of Lock and their return
	for k := 0; k+2 < len(ev); k += 3 {
		th, kind, arg := ev[k], ev[k+1], ev[k+2]
		if th < S && kind == 4 && arg == 4 {
			inLock[th] = true
		} else if th < S && (kind == 2 || kind == 3) {
			delete(inLock, th)
		}
		switch {
		case kind == 4 && arg == 5 && th >= S && len(inLock) > 0:
			nlate++
		case kind == 4 && arg == 7:
			nabs++
		case kind == 4 && arg == 1 && th < S && lastOp[th] == 2:
			ncasretry++
		case kind == 5 && arg == -1:
			ndereg++
		case kind == 9:
			nrecv++
		}
		if kind == 4 {
			lastOp[th] = arg
		} else if kind == 1 {
			lastOp[th] = 0
		}
	}
	h.count("c08trace_absorbed_copies", nabs)
	h.count("c08trace_arming_cas_retries", ncasretry)
	h.count("c08trace_deregistrations", ndereg)
	h.count("c08trace_values_received", nrecv)
	h.count("c08trace_rlock_announced_during_a_send", nlate)
	if complete == 0 {
		h.count("c08trace_incomplete", 1)
		return false // the blocked goroutines are abandoned; do not pile up more of them
	}
	return true
}

func casterTracePause(n int) {
	for i := 0; i < n; i++ {
		runtime.Gosched()
	}
}
