//go:build verif

package bigbuff

// Shared by every slice: the delay-bounded sweep driver (plain runs, a dry run that counts the synchronisation points a
// scenario hits, then one run per (point, k-th hit) with a delay injected there) and two small helpers.  Kept free of any
// reference to a particular type of the library, so that each property's harness binary is built from its own files only.

import (
	"fmt"
	"sort"
	"time"
)

func boolInt(b bool) int {
	if b {
		return 1
	}
	return 0
}

func waitLibBaseline(base int, deadline time.Duration) (int, bool) {
	end := time.Now().Add(deadline)
	n := libGoroutineCount()
	for n > base && time.Now().Before(end) {
		time.Sleep(500 * time.Microsecond)
		n = libGoroutineCount()
	}
	return n, n <= base
}

type timedCase struct {
	name string
	run  func(h *hctx, id string, inject time.Duration)
	// delay to inject at a point, and how many hits of each point to try
	delay time.Duration
	hits  int
}

func timedSweep(h *hctx, tag string, cases []timedCase) {
	inst := instrumented()
	h.line("STAT instrumented %d", boolInt(inst))
	maxPoints := h.pi("points", 1<<30)
	shard, nshards := h.pi("shard", 0), h.pi("nshards", 1)
	for ci, tc := range cases {
		// plain runs (no injected delay), h.n of them
		reps := h.n
		if reps > 50 {
			reps = 50
		}
		for r := 0; r < reps; r++ {
			if r%nshards != shard {
				continue
			}
			setPolicy(nil)
			tc.run(h, fmt.Sprintf("%s-%s-%d-plain%d", tag, tc.name, h.seed, r), 0)
			h.count("plain_runs", 1)
		}
		if !inst {
			continue
		}
		// dry run: which points does this scenario hit, how often
		cp := &countPolicy{hits: map[int]int{}}
		setPolicy(cp)
		tc.run(h, fmt.Sprintf("%s-%s-%d-dry", tag, tc.name, h.seed), 0)
		setPolicy(nil)
		cp.mu.Lock()
		// a copy: a goroutine left over from the dry run (a timer goroutine, a watcher) may still announce points through cp
		ids := make([]int, 0, len(cp.hits))
		hits := make(map[int]int, len(cp.hits))
		for id, n := range cp.hits {
			ids = append(ids, id)
			hits[id] = n
		}
		cp.mu.Unlock()
		sort.Ints(ids)
		// rotate by seed so that a bounded budget covers different points on different seeds
		if len(ids) > 0 {
			rot := int(h.seed+int64(ci)) % len(ids)
			ids = append(ids[rot:], ids[:rot]...)
		}
		done := 0
		for idx, id := range ids {
			if done >= maxPoints {
				break
			}
			if idx%nshards != shard {
				continue
			}
			for k := 1; k <= tc.hits && k <= hits[id]; k++ {
				dp := &delayPolicy{id: id, k: k, d: tc.delay}
				setPolicy(dp)
				tc.run(h, fmt.Sprintf("%s-%s-%d-p%d.%d", tag, tc.name, h.seed, id, k), tc.delay)
				setPolicy(nil)
				h.count("sweep_runs", 1)
				if dp.fired.Load() {
					h.count("sweep_delays_fired", 1)
				}
				done++
			}
		}
		h.count("sweep_points_"+tc.name, len(ids))
	}
}
