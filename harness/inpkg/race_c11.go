//go:build verif

package bigbuff

// Scenario C11RACE — free-running concurrent workloads over the public API of every concurrency-safe type, meant to be
// run in a `-race` build. The scenario itself emits only STAT lines (and MONITOR lines if a workload hangs); the
// verdict is the race detector's: the framework greps the process output for "WARNING: DATA RACE" blocks that contain
// a library (non-test, non zz_verif_) frame.
//
// Every value passed through the library is a freshly allocated *c11val whose fields the receiving side READS, so a
// missing happens-before edge on a hand-over is a report, too.

import (
	"context"
	"math/rand"
	"sync"
	"sync/atomic"
	"time"
)

type c11val struct {
	a, b int
	s    []int
}

var c11sinkV atomic.Int64

func c11new(r *rand.Rand) *c11val {
	n := r.Intn(1000)
	return &c11val{a: n, b: n + 1, s: []int{n, n + 2}}
}

// c11read reads every word of a value received from the library.
func c11read(v interface{}) {
	switch x := v.(type) {
	case *c11val:
		if x != nil {
			c11sinkV.Add(int64(x.a + x.b + len(x.s) + x.s[0] + x.s[1]))
		}
	case nil:
	default:
		c11sinkV.Add(1)
	}
}

type c11group struct {
	wg sync.WaitGroup
}

func (g *c11group) run(fn func()) {
	g.wg.Add(1)
	go func() {
		defer g.wg.Done()
		fn()
	}()
}

// c11rngs pre-draws independent generators (h.rng itself is not safe for concurrent use).
func c11rngs(h *hctx, n int) []*rand.Rand {
	out := make([]*rand.Rand, n)
	for i := range out {
		out[i] = rand.New(rand.NewSource(h.rng.Int63()))
	}
	return out
}

func init() {
	register("C11RACE", func(h *hctx) {
		// k scales every workload; quick tier (VERIF_N 200..400) stays well under 20 s in a -race build.
		k := h.n
		if k < 40 {
			k = 40
		}
		if k > 4000 {
			k = 4000
		}
		def := 2 + k/20
		if def > 40 {
			def = 40
		}
		rounds := h.pi("rounds", def)
		limit := time.Duration(h.pi("limit_s", 15)) * time.Second
		loads := []struct {
			name string
			fn   func(h *hctx, k int)
		}{
			{"buffer", c11Buffer}, {"channel", c11Channel}, {"chancaster", c11Caster}, {"chanpubsub", c11PubSub},
			{"exclusive", c11Exclusive}, {"workers", c11Workers}, {"worker", c11Worker}, {"notifier", c11Notifier},
			{"waitcond", c11WaitCond}, {"context", c11Context},
			{"bufferbatch", c11BufferBatch}, {"combinerace", c11CombineRace}, {"callable", c11Callable},
		}
		only := h.p("only", "")
		for r := 0; r < rounds; r++ {
			for _, l := range loads {
				if only != "" && only != l.name {
					continue
				}
				done := make(chan struct{})
				t0 := time.Now()
				go func() {
					defer close(done)
					l.fn(h, k)
				}()
				select {
				case <-done:
					h.count("c11_"+l.name+"_runs", 1)
					h.count("c11_"+l.name+"_ms", int(time.Since(t0)/time.Millisecond))
				case <-time.After(limit):
					h.line("MONITOR C11 workload %s did not finish within %v (seed %d round %d)", l.name, limit, h.seed, r)
					return
				}
			}
		}
		h.count("c11_sink_nonzero", func() int {
			if c11sinkV.Load() != 0 {
				return 1
			}
			return 0
		}())
	})
}

// ---------------------------------------------------------------------------------------------------------------
// Buffer and its consumers
// ---------------------------------------------------------------------------------------------------------------
func c11Buffer(h *hctx, k int) {
	rs := c11rngs(h, 12)
	b := new(Buffer)
	// the documented proviso: the first call on a zero-value Buffer completes before the Buffer is shared
	if rs[0].Intn(2) == 0 {
		_ = b.SetCleanerConfig(CleanerConfig{
			Cleaner: FixedBufferCleaner(48, 24, func(n FixedBufferCleanerNotification) {
				c11sinkV.Add(int64(n.Size + n.Trim + len(n.Offsets)))
				for i := range n.Offsets { // the notification is the callback's own value
					n.Offsets[i] = -1
				}
			}),
			Cooldown: time.Duration(rs[0].Intn(3)) * time.Millisecond,
		})
	} else {
		_ = b.Size()
	}
	ctx, cancel := context.WithTimeout(context.Background(), 8*time.Second)
	defer cancel()
	var g c11group
	var puts, gets atomic.Int64
	nprod, ncons := 3, 4
	per := k / nprod
	var prodWG sync.WaitGroup
	for p := 0; p < nprod; p++ {
		r := rs[1+p]
		prodWG.Add(1)
		g.run(func() {
			defer prodWG.Done()
			for i := 0; i < per; i++ {
				vals := make([]interface{}, 1+r.Intn(3))
				for j := range vals {
					vals[j] = c11new(r)
				}
				if err := b.Put(ctx, vals...); err != nil {
					return
				}
				puts.Add(int64(len(vals)))
				if r.Intn(8) == 0 {
					time.Sleep(time.Duration(r.Intn(200)) * time.Microsecond)
				}
			}
		})
	}
	for c := 0; c < ncons; c++ {
		r := rs[4+c]
		g.run(func() {
			cons, err := b.NewConsumer()
			if err != nil {
				return
			}
			defer func() {
				_ = cons.Rollback()
				if r.Intn(2) == 0 {
					_ = cons.Close()
					<-cons.Done()
				}
			}()
			// a second goroutine shares the SAME consumer (Commit/Rollback/Diff race with this one's Get)
			stopPeer := make(chan struct{})
			peerDone := make(chan struct{})
			pr := rand.New(rand.NewSource(r.Int63()))
			go func() {
				defer close(peerDone)
				for {
					select {
					case <-stopPeer:
						return
					default:
					}
					switch pr.Intn(4) {
					case 0:
						_ = cons.Commit()
					case 1:
						_ = cons.Rollback()
					case 2:
						if d, ok := b.Diff(cons); ok {
							c11sinkV.Add(int64(d))
						}
					default:
						time.Sleep(time.Duration(pr.Intn(300)) * time.Microsecond)
					}
				}
			}()
			defer func() { close(stopPeer); <-peerDone }()
			pend := 0
			for i := 0; i < per*2; i++ {
				switch x := r.Intn(100); {
				case x < 60:
					gctx, gcancel := context.WithTimeout(ctx, 2*time.Millisecond)
					v, err := cons.Get(gctx)
					gcancel()
					if err == nil {
						c11read(v)
						gets.Add(1)
						pend++
					} else if err != context.DeadlineExceeded {
						return // consumer/buffer closed, or the consumer fell behind a forced cleanup
					}
				case x < 75:
					if pend > 0 {
						_ = cons.Commit()
						pend = 0
					}
				case x < 82:
					if pend > 0 {
						_ = cons.Rollback()
						pend = 0
					}
				case x < 90:
					d, ok := b.Diff(cons)
					if ok {
						c11sinkV.Add(int64(d))
					}
				case x < 96:
					if pend == 0 {
						rctx, rcancel := context.WithTimeout(ctx, 3*time.Millisecond)
						n := 0
						_ = b.Range(rctx, cons, func(index int, value interface{}) bool {
							c11read(value)
							n++
							return n < 5
						})
						rcancel()
					}
				default:
					select {
					case <-cons.Done():
						return
					default:
					}
				}
			}
		})
	}
	stopObs := make(chan struct{})
	var obs c11group
	setcfg := h.pi("setcfg", 1) == 1
	for o := 0; o < 2; o++ {
		r := rs[8+o]
		obs.run(func() {
			for {
				select {
				case <-stopObs:
					return
				default:
				}
				switch r.Intn(6) {
				case 0:
					c11sinkV.Add(int64(b.Size()))
				case 1:
					sl := b.Slice() // documented to be a copy: the caller may scribble over it
					for i, v := range sl {
						c11read(v)
						sl[i] = nil
					}
				case 2:
					c11sinkV.Add(int64(b.CleanerConfig().Cooldown))
				case 3:
					// concurrent SetCleanerConfig is within the documented contract; on the unchanged tree it exposes
					// finding F5 (b.cleaner written under b.mutex here, read unlocked by Buffer.ensure in every other
					// call: buffer.go:171 vs buffer.go:435). `setcfg=0` leaves it out.
					if setcfg && r.Intn(10) == 0 {
						_ = b.SetCleanerConfig(CleanerConfig{Cleaner: DefaultCleaner, Cooldown: time.Duration(r.Intn(2)) * time.Millisecond})
					}
				case 4:
					select {
					case <-b.Done():
					default:
					}
				default:
					time.Sleep(50 * time.Microsecond)
				}
			}
		})
	}
	// Close races with everything else: either once the producers are done or in the middle of the run
	r := rs[10]
	g.run(func() {
		if r.Intn(3) == 0 {
			time.Sleep(time.Duration(1+r.Intn(4)) * time.Millisecond)
		} else {
			prodWG.Wait()
		}
		_ = b.Close()
	})
	g.wg.Wait()
	<-b.Done()
	close(stopObs)
	obs.wg.Wait()
	for _, v := range b.Slice() {
		c11read(v)
	}
	h.count("c11_buffer_puts", int(puts.Load()))
	h.count("c11_buffer_gets", int(gets.Load()))
}

// ---------------------------------------------------------------------------------------------------------------
// Channel
// ---------------------------------------------------------------------------------------------------------------
func c11Channel(h *hctx, k int) {
	rs := c11rngs(h, 8)
	src := make(chan *c11val, 8)
	parent, cancelParent := context.WithCancel(context.Background())
	defer cancelParent()
	c, err := NewChannel(parent, 200*time.Microsecond, src)
	if err != nil {
		h.t.Fatal(err)
	}
	var g c11group
	var gets atomic.Int64
	stop := make(chan struct{})
	g.run(func() { // feeder
		r := rs[0]
		for i := 0; i < k; i++ {
			select {
			case src <- c11new(r):
			case <-stop:
				return
			}
		}
	})
	var users sync.WaitGroup
	for u := 0; u < 4; u++ {
		r := rs[1+u]
		users.Add(1)
		g.run(func() {
			defer users.Done()
			for i := 0; i < k/2; i++ {
				switch x := r.Intn(100); {
				case x < 55:
					ctx, cancel := context.WithTimeout(context.Background(), time.Millisecond)
					v, err := c.Get(ctx)
					cancel()
					if err == nil {
						c11read(v)
						gets.Add(1)
					} else if err != context.DeadlineExceeded {
						return
					}
				case x < 70:
					_ = c.Commit()
				case x < 82:
					_ = c.Rollback()
				case x < 94:
					bf := c.Buffer() // a new copy per the doc: the caller may scribble over it
					for i, v := range bf {
						c11read(v)
						bf[i] = nil
					}
				default:
					select {
					case <-c.Done():
						return
					default:
					}
				}
			}
		})
	}
	g.run(func() { // Close (or parent cancel) racing with the users
		r := rs[6]
		switch r.Intn(3) {
		case 0:
			time.Sleep(time.Duration(1+r.Intn(5)) * time.Millisecond)
			_ = c.Close()
		case 1:
			time.Sleep(time.Duration(1+r.Intn(5)) * time.Millisecond)
			cancelParent()
		default:
			users.Wait()
			_ = c.Close()
		}
		<-c.Done()
		close(stop)
	})
	g.wg.Wait()
	for _, v := range c.Buffer() {
		c11read(v)
	}
	h.count("c11_channel_gets", int(gets.Load()))
}

// ---------------------------------------------------------------------------------------------------------------
// ChanCaster
// ---------------------------------------------------------------------------------------------------------------
func c11Caster(h *hctx, k int) {
	rs := c11rngs(h, 10)
	x := NewChanCaster(make(chan *c11val))
	var g c11group
	var recvd, sent atomic.Int64
	stop := make(chan struct{})
	for i := 0; i < 5; i++ {
		r := rs[i]
		g.run(func() {
			for {
				select {
				case <-stop:
					return
				default:
				}
				x.Add(1)
				var tmo <-chan time.Time
				if r.Intn(3) == 0 {
					tmo = time.After(time.Duration(r.Intn(300)) * time.Microsecond)
				}
				select {
				case v := <-x.C:
					c11read(v)
					recvd.Add(1)
				case <-tmo:
					x.Add(-1)
				case <-stop:
					x.Add(-1)
					return
				}
			}
		})
	}
	var senders sync.WaitGroup
	for i := 0; i < 3; i++ {
		r := rs[5+i]
		senders.Add(1)
		go func() {
			defer senders.Done()
			for j := 0; j < k/2; j++ {
				sent.Add(int64(x.Send(c11new(r))))
				if r.Intn(4) == 0 {
					time.Sleep(time.Duration(r.Intn(100)) * time.Microsecond)
				}
				c11sinkV.Add(int64(x.Add(0)))
			}
		}()
	}
	senders.Wait()
	close(stop)
	g.wg.Wait()
	h.count("c11_caster_sent", int(sent.Load()))
	h.count("c11_caster_received", int(recvd.Load()))
}

// ---------------------------------------------------------------------------------------------------------------
// ChanPubSub
// ---------------------------------------------------------------------------------------------------------------
func c11PubSub(h *hctx, k int) {
	rs := c11rngs(h, 12)
	x := NewChanPubSub(make(chan *c11val))
	var g c11group
	var recvd, sent atomic.Int64
	ctx, cancel := context.WithCancel(context.Background())
	defer cancel()
	// iterator-style subscribers that join and leave repeatedly
	for i := 0; i < 3; i++ {
		r := rs[i]
		g.run(func() {
			for ctx.Err() == nil {
				n, want := 0, 1+r.Intn(6)
				for v := range x.SubscribeContext(ctx) {
					c11read(v)
					recvd.Add(1)
					n++
					if n >= want {
						break
					}
				}
				if r.Intn(2) == 0 {
					time.Sleep(time.Duration(r.Intn(200)) * time.Microsecond)
				}
			}
		})
	}
	// manual subscribers (Add / C / Wait / Add(-1))
	for i := 0; i < 3; i++ {
		r := rs[3+i]
		g.run(func() {
			for ctx.Err() == nil {
				x.Subscribe()
				n, want := 0, 1+r.Intn(6)
			loop:
				for {
					select {
					case v := <-x.C():
						x.Wait()
						c11read(v)
						recvd.Add(1)
						n++
						if n >= want {
							break loop
						}
					case <-ctx.Done():
						break loop
					}
				}
				x.Unsubscribe()
				c11sinkV.Add(int64(x.Add(0)))
			}
		})
	}
	var senders sync.WaitGroup
	for i := 0; i < 3; i++ {
		r := rs[6+i]
		senders.Add(1)
		go func() {
			defer senders.Done()
			for j := 0; j < k/2; j++ {
				sent.Add(int64(x.Send(c11new(r))))
				if r.Intn(4) == 0 {
					time.Sleep(time.Duration(r.Intn(100)) * time.Microsecond)
				}
			}
		}()
	}
	senders.Wait()
	cancel()
	g.wg.Wait()
	h.count("c11_pubsub_sent", int(sent.Load()))
	h.count("c11_pubsub_received", int(recvd.Load()))
}

// ---------------------------------------------------------------------------------------------------------------
// Exclusive — every call style over shared keys
// ---------------------------------------------------------------------------------------------------------------
func c11Exclusive(h *hctx, k int) {
	rs := c11rngs(h, 8)
	var e Exclusive
	ctx, cancel := context.WithCancel(context.Background())
	defer cancel()
	// per-key plain (non-atomic) state touched only inside work functions: mutual exclusion per key, and the
	// happens-before edge between consecutive executions of one key, make this race free.
	const nkeys = 3
	type cell struct{ n int }
	var cells [nkeys]cell
	var execs atomic.Int64
	var g c11group
	// option values built once and used by every goroutine at the same time, under different keys (an option is a
	// value: using it for several calls shares nothing between them)
	sharedOpts := []ExclusiveOption{
		ExclusiveRateLimit(ctx, 50*time.Microsecond),
		ExclusiveRateLimit(ctx, 150*time.Microsecond),
		ExclusiveWrapper(func(w WorkFunc) WorkFunc {
			return func(resolve func(interface{}, error)) { w(resolve) }
		}),
	}
	for i := 0; i < 6; i++ {
		r := rs[i]
		g.run(func() {
			opts := make([]ExclusiveOption, 0, 8)
			for j := 0; j < k/3; j++ {
				key := r.Intn(nkeys)
				val := c11new(r)
				work := func() (interface{}, error) {
					cells[key].n++
					execs.Add(1)
					c11read(val) // supplied by the caller goroutine before the call
					return &c11val{a: cells[key].n, b: key, s: []int{1, 2}}, nil
				}
				switch r.Intn(10) {
				case 8, 9:
					o := <-e.CallWithOptions(ExclusiveKey(key), ExclusiveValue(work), sharedOpts[r.Intn(len(sharedOpts))])
					c11read(o.Result)
				case 0:
					v, _ := e.Call(key, work)
					c11read(v)
				case 1:
					v, _ := e.CallAfter(key, work, time.Duration(r.Intn(300))*time.Microsecond)
					c11read(v)
				case 2:
					o := <-e.CallAsync(key, work)
					c11read(o.Result)
				case 3:
					o := <-e.CallAfterAsync(key, work, time.Duration(r.Intn(300))*time.Microsecond)
					c11read(o.Result)
				case 4:
					e.Start(key, work)
				case 5:
					e.StartAfter(key, work, time.Duration(r.Intn(300))*time.Microsecond)
				case 6:
					o := <-e.CallWithOptions(ExclusiveKey(key), ExclusiveWork(func(resolve func(interface{}, error)) {
						v, err := work()
						resolve(v, err)
					}), ExclusiveWrapper(func(w WorkFunc) WorkFunc {
						return func(resolve func(interface{}, error)) { w(resolve) }
					}))
					c11read(o.Result)
				default:
					opts = append(opts[:0], ExclusiveKey(key), ExclusiveValue(work),
						ExclusiveRateLimit(ctx, time.Duration(1+r.Intn(200))*time.Microsecond))
					ch := e.CallWithOptions(opts...)
					for i := range opts { // the caller's slice: overwritten while the work may still be running
						opts[i] = nil
					}
					c11read((<-ch).Result)
				}
			}
		})
	}
	g.wg.Wait()
	// drain the Start-ed work: a synchronous call per key completes after everything queued before it
	for key := 0; key < nkeys; key++ {
		v, _ := e.Call(key, func() (interface{}, error) { return &c11val{a: cells[key].n, s: []int{0, 0}}, nil })
		c11read(v)
	}
	h.count("c11_exclusive_execs", int(execs.Load()))
}

// ---------------------------------------------------------------------------------------------------------------
// Workers
// ---------------------------------------------------------------------------------------------------------------
func c11Workers(h *hctx, k int) {
	rs := c11rngs(h, 8)
	var w Workers
	var g c11group
	var calls atomic.Int64
	for i := 0; i < 6; i++ {
		r := rs[i]
		g.run(func() {
			for j := 0; j < k/3; j++ {
				in := c11new(r)
				fn := func() (interface{}, error) {
					c11read(in)
					calls.Add(1)
					return &c11val{a: in.a, b: 1, s: []int{in.b, 0}}, nil
				}
				switch r.Intn(5) {
				case 0, 1:
					v, _ := w.Call(1+r.Intn(4), fn)
					c11read(v)
				case 2:
					v, _ := w.Wrap(1+r.Intn(4), fn)()
					c11read(v)
				case 3:
					c11sinkV.Add(int64(w.Count()))
				default:
					if r.Intn(4) == 0 {
						w.Wait()
					}
				}
			}
		})
	}
	g.wg.Wait()
	w.Wait()
	h.count("c11_workers_calls", int(calls.Load()))
}

// ---------------------------------------------------------------------------------------------------------------
// Worker
// ---------------------------------------------------------------------------------------------------------------
func c11Worker(h *hctx, k int) {
	rs := c11rngs(h, 6)
	var x Worker
	var g c11group
	var runs atomic.Int64
	for i := 0; i < 5; i++ {
		r := rs[i]
		g.run(func() {
			for j := 0; j < k/4; j++ {
				in := c11new(r)
				done := x.Do(func(stop <-chan struct{}) {
					c11read(in)
					runs.Add(1)
					<-stop
				})
				if r.Intn(3) == 0 {
					time.Sleep(time.Duration(r.Intn(100)) * time.Microsecond)
				}
				done()
			}
		})
	}
	g.wg.Wait()
	h.count("c11_worker_runs", int(runs.Load()))
}

// ---------------------------------------------------------------------------------------------------------------
// Notifier
// ---------------------------------------------------------------------------------------------------------------
func c11Notifier(h *hctx, k int) {
	rs := c11rngs(h, 10)
	var n Notifier
	var g c11group
	var recvd atomic.Int64
	stop := make(chan struct{})
	keys := []interface{}{"a", 7, struct{ x int }{1}}
	for i := 0; i < 5; i++ {
		r := rs[i]
		g.run(func() {
			for {
				select {
				case <-stop:
					return
				default:
				}
				key := keys[r.Intn(len(keys))]
				ch := make(chan *c11val)
				ctx, cancel := context.WithCancel(context.Background())
				var cancelSub context.CancelFunc
				if r.Intn(2) == 0 {
					n.SubscribeContext(ctx, key, ch)
				} else {
					cancelSub = n.SubscribeCancel(ctx, key, ch)
				}
				want := 1 + r.Intn(5)
				tmo := time.After(time.Duration(200+r.Intn(800)) * time.Microsecond)
			loop:
				for got := 0; got < want; {
					select {
					case v := <-ch:
						c11read(v)
						recvd.Add(1)
						got++
					case <-tmo:
						break loop
					case <-stop:
						break loop
					}
				}
				// the subscription's context is always cancelled before Unsubscribe (as the doc demands)
				if cancelSub != nil {
					cancelSub() // Unsubscribe happens in SubscribeCancel's goroutine
					cancel()
				} else {
					cancel()
					n.Unsubscribe(key, ch)
				}
			}
		})
	}
	var pubs sync.WaitGroup
	for i := 0; i < 3; i++ {
		r := rs[5+i]
		pubs.Add(1)
		go func() {
			defer pubs.Done()
			for j := 0; j < k/2; j++ {
				key := keys[r.Intn(len(keys))]
				if r.Intn(3) == 0 {
					n.Publish(key, c11new(r)) // subscribers always cancel eventually, so this returns
				} else {
					ctx, cancel := context.WithTimeout(context.Background(), time.Duration(100+r.Intn(900))*time.Microsecond)
					n.PublishContext(ctx, key, c11new(r))
					cancel()
				}
			}
		}()
	}
	pubs.Wait()
	close(stop)
	g.wg.Wait()
	h.count("c11_notifier_received", int(recvd.Load()))
}

// ---------------------------------------------------------------------------------------------------------------
// WaitCond
// ---------------------------------------------------------------------------------------------------------------
func c11WaitCond(h *hctx, k int) {
	rs := c11rngs(h, 8)
	var mu sync.Mutex
	cond := sync.NewCond(&mu)
	counter := 0
	var payload *c11val // guarded by mu
	var g c11group
	var woke, cancelled atomic.Int64
	total := k / 2
	for i := 0; i < 4; i++ {
		r := rs[i]
		g.run(func() {
			for j := 0; j < k/8; j++ {
				mu.Lock()
				target := counter + 1 + r.Intn(3)
				if target > total {
					target = total
				}
				var ctx context.Context
				var cancel context.CancelFunc = func() {}
				switch r.Intn(3) {
				case 0:
					ctx, cancel = context.WithTimeout(context.Background(), time.Duration(r.Intn(400))*time.Microsecond)
				case 1:
					ctx = context.Background()
				}
				err := WaitCond(ctx, cond, func() bool { return counter >= target })
				if err == nil {
					c11read(payload)
					woke.Add(1)
				} else {
					cancelled.Add(1)
				}
				mu.Unlock()
				cancel()
			}
		})
	}
	for i := 0; i < 2; i++ {
		r := rs[4+i]
		g.run(func() {
			for {
				mu.Lock()
				if counter >= total {
					mu.Unlock()
					return
				}
				counter++
				payload = c11new(r)
				cond.Broadcast()
				mu.Unlock()
				if r.Intn(3) == 0 {
					time.Sleep(time.Duration(r.Intn(150)) * time.Microsecond)
				}
			}
		})
	}
	g.wg.Wait()
	h.count("c11_waitcond_woke", int(woke.Load()))
	h.count("c11_waitcond_cancelled", int(cancelled.Load()))
}

// ---------------------------------------------------------------------------------------------------------------
// Context combinators
// ---------------------------------------------------------------------------------------------------------------
func c11Context(h *hctx, k int) {
	rs := c11rngs(h, 4)
	r := rs[0]
	type ckey struct{}
	for i := 0; i < k/4; i++ {
		var g c11group
		// CombineContext: cancels of the components race with each other and with readers of the result
		base, cancelBase := context.WithCancel(context.WithValue(context.Background(), ckey{}, c11new(r)))
		n := 1 + r.Intn(3)
		others := make([]context.Context, n)
		cancels := make([]context.CancelFunc, n)
		for j := range others {
			others[j], cancels[j] = context.WithCancel(context.Background())
		}
		if r.Intn(4) == 0 {
			others = append(others, nil)
		}
		comb := CombineContext(base, others...)
		for j := range others { // the caller's slice: overwritten right after the call
			others[j] = nil
		}
		for j := 0; j < n; j++ {
			c, d := cancels[j], time.Duration(r.Intn(100))*time.Microsecond
			g.run(func() { time.Sleep(d); c() })
		}
		g.run(func() { <-comb.Done(); c11sinkV.Add(int64(len(comb.Err().Error()))); c11read(comb.Value(ckey{})) })
		g.run(func() { _ = comb.Err(); cancelBase() })

		// ConflatedContext: cancelled once ALL are
		m := 1 + r.Intn(3)
		cctxs := make([]context.Context, m)
		ccancels := make([]context.CancelFunc, m)
		for j := range cctxs {
			cctxs[j], ccancels[j] = context.WithCancel(context.WithValue(context.Background(), ckey{}, c11new(r)))
		}
		conf, cancelConf := ConflatedContext(cctxs...)
		for j := range cctxs {
			cctxs[j] = nil
		}
		for j := 0; j < m; j++ {
			c, d := ccancels[j], time.Duration(r.Intn(100))*time.Microsecond
			g.run(func() { time.Sleep(d); c() })
		}
		g.run(func() { <-conf.Done(); c11read(conf.Value(ckey{})) })

		// ChainAfterFunc: f runs exactly once although both contexts are cancelled concurrently; what f writes
		// (a plain variable) is read after the channel it closes
		p, cancelP := context.WithCancel(context.Background())
		o, cancelO := context.WithCancel(context.Background())
		var got *c11val
		ran := make(chan struct{})
		src := c11new(r)
		ChainAfterFunc(p, o, func() { got = &c11val{a: src.a, s: []int{src.b, 1}}; close(ran) })
		g.run(func() { cancelO() })
		g.run(func() { cancelP() })
		g.run(func() { <-ran; c11read(got) })

		g.wg.Wait()
		cancelConf()
		cancelBase()
	}
	h.count("c11_context_iters", k/4)
}

// ---------------------------------------------------------------------------------------------------------------
// Buffer.Put with a caller-OWNED, reused batch slice (spare capacity), put while the buffer is empty
// ---------------------------------------------------------------------------------------------------------------
// The library must not retain the caller's memory: after Put returns, the producer keeps reading its batch (and the
// spare capacity behind it), then refills and re-puts it, while a consumer drains and commits (so the cleaner reclaims
// the prefix) and another producer appends. Besides the race detector, the content is checked (MONITOR line).
func c11BufferBatch(h *hctx, k int) {
	rs := c11rngs(h, 6)
	b := new(Buffer)
	_ = b.SetCleanerConfig(CleanerConfig{Cleaner: DefaultCleaner, Cooldown: time.Duration(rs[0].Intn(2)) * time.Millisecond})
	cons, err := b.NewConsumer()
	if err != nil {
		h.t.Fatal(err)
	}
	ctx, cancel := context.WithTimeout(context.Background(), 8*time.Second)
	defer cancel()
	stop := make(chan struct{})
	var g, prods c11group
	var drained, clobbered atomic.Int64
	iters := k / 2 // per round; the number of rounds already grows with k
	if iters > 150 {
		iters = 150
	}
	g.run(func() { // drain: every value is committed at once, so the buffer is regularly empty
		for {
			select {
			case <-stop:
				return
			default:
			}
			gctx, gcancel := context.WithTimeout(ctx, time.Millisecond)
			v, err := cons.Get(gctx)
			gcancel()
			if err == nil {
				c11read(v)
				drained.Add(1)
				_ = cons.Commit()
			} else if err != context.DeadlineExceeded {
				return
			}
		}
	})
	for p := 0; p < 2; p++ {
		r := rs[1+p]
		prods.run(func() {
			batch := make([]interface{}, 0, 8) // reused for every Put; cap > len always
			mine := make([]*c11val, 0, 8)
			for i := 0; i < iters; i++ {
				// wait (briefly) for the buffer to be empty
				for w := 0; w < 40 && b.Size() != 0; w++ {
					time.Sleep(25 * time.Microsecond)
				}
				n := 1 + r.Intn(4)
				batch, mine = batch[:0], mine[:0]
				for j := 0; j < n; j++ {
					v := c11new(r)
					batch = append(batch, v) // refill: WRITES the caller's memory
					mine = append(mine, v)
				}
				if err := b.Put(ctx, batch...); err != nil {
					return
				}
				// keep reading the batch and its spare capacity while consumer, cleaner and the other producers work
				for round := 0; round < 6; round++ {
					full := batch[:cap(batch)]
					for j := range full {
						x, _ := full[j].(*c11val)
						if (j < n && x != mine[j]) || (j >= n && full[j] != nil) {
							clobbered.Add(1)
						}
					}
					time.Sleep(time.Duration(20+r.Intn(60)) * time.Microsecond)
				}
				for j := range batch[:cap(batch)] { // wipe the whole array (the caller's own writes)
					batch[:cap(batch)][j] = nil
				}
			}
		})
	}
	r := rs[4]
	prods.run(func() { // single literal values from a third goroutine (appends behind whatever is buffered)
		for i := 0; i < iters; i++ {
			if b.Put(ctx, c11new(r)) != nil {
				return
			}
			time.Sleep(time.Duration(50+r.Intn(150)) * time.Microsecond)
		}
	})
	prods.wg.Wait()
	close(stop)
	g.wg.Wait()
	_ = cons.Rollback()
	_ = b.Close()
	<-b.Done()
	if n := clobbered.Load(); n != 0 {
		h.line("MONITOR C11 Buffer.Put: the library wrote into the caller's batch slice (%d observations, seed %d)", n, h.seed)
	}
	h.count("c11_bufferbatch_drained", int(drained.Load()))
}

// ---------------------------------------------------------------------------------------------------------------
// CombineContext with many others, one of the first of which is cancelled WHILE the call wires them up
// ---------------------------------------------------------------------------------------------------------------
func c11CombineRace(h *hctx, k int) {
	r := c11rngs(h, 1)[0]
	iters := k / 2
	if iters > 150 {
		iters = 150
	}
	for it := 0; it < iters; it++ {
		n := 8 + r.Intn(57)
		ctxs := make([]context.Context, n)
		cancels := make([]context.CancelFunc, n)
		for i := range ctxs {
			ctxs[i], cancels[i] = context.WithCancel(context.Background())
		}
		var flag atomic.Bool
		var wg sync.WaitGroup
		victim, spin := r.Intn(2), r.Intn(64)*20
		wg.Add(1)
		go func() {
			defer wg.Done()
			for !flag.Load() {
			}
			for s := 0; s < spin; s++ { // vary where in the call the cancellation lands
				_ = flag.Load()
			}
			cancels[victim]()
		}()
		parent, cancelParent := context.Background(), context.CancelFunc(func() {})
		if r.Intn(2) == 0 {
			parent, cancelParent = context.WithCancel(parent)
		}
		flag.Store(true)
		comb := CombineContext(parent, ctxs...)
		for i := range ctxs { // the caller's slice is the caller's again
			ctxs[i] = nil
		}
		wg.Wait()
		select {
		case <-comb.Done():
			c11sinkV.Add(int64(len(comb.Err().Error())))
		case <-time.After(5 * time.Second):
			h.line("MONITOR C11 CombineContext result not cancelled although one of the others was (seed %d)", h.seed)
			return
		}
		for _, c := range cancels {
			c()
		}
		cancelParent()
		if it%8 == 7 {
			time.Sleep(200 * time.Microsecond) // let the after-func goroutines drain
		}
	}
	h.count("c11_combinerace_iters", iters)
}

// ---------------------------------------------------------------------------------------------------------------
// Callable: one Callable shared by several goroutines, each with its own reused args / results memory
// ---------------------------------------------------------------------------------------------------------------
func c11Callable(h *hctx, k int) {
	rs := c11rngs(h, 4)
	callable := NewCallable(func(a *c11val, b int) (*c11val, int) {
		return &c11val{a: a.a + b, b: b, s: []int{a.b, b}}, a.a
	})
	var g c11group
	for i := 0; i < 4; i++ {
		r := rs[i]
		g.run(func() {
			args := make([]interface{}, 2, 4)
			for j := 0; j < k/4; j++ {
				args[0], args[1] = c11new(r), r.Intn(100)
				var out *c11val
				var n int
				if err := Call(callable, CallArgs(args...), CallResults(&out, &n)); err != nil {
					h.line("MONITOR C11 Call failed: %v", err)
					return
				}
				c11read(out)
				c11sinkV.Add(int64(n))
				args[0], args[1] = nil, nil // the caller's slice, reused
			}
		})
	}
	g.wg.Wait()
	h.count("c11_callable_calls", k)
}
