//go:build verif

package bigbuff

// C06TRACE (a stage of C06 and C07): trace acceptance for the ChanPubSub protocol models (Model/PubSubSplit.v for the shared
// state and the sender, every atomic operation of Send a step of its own; Model/PubSubIdx.v for the subscribers, every
// subscription an index; composed in Model/PubSubTraceAux.v).  On an INSTRUMENTED build every synchronisation point of
// chanpubsub.go and of the embedded ChanCaster announces itself through verifP BEFORE the operation executes;
// contract-following programs are run (1-2 senders with 1-3 Sends each; 1-4 manual subscribers with 1-2 subscriptions each:
// Add(1) ... receive, then Wait ... Add(-1); some unsubscribe before ever receiving or in the middle of a Send, some on a
// timeout, some subscribe while a Send is under way, some are slow between the receive and Wait, some stay subscribed) and
// one log per case is written, in the order things happen and with the thread that does them:
//
//	F pubsub_trace <id> <seed> <case> <S> <R> <complete> <nev> (<thread> <kind> <arg>)*nev | 1
//	   kind 1 Send(arg) called | 2 Send returned arg | 3 Send panicked | 4 POINT class | 5 Add(arg) called | 6 Add returned arg
//	      | 7 Add panicked | 8 about to receive on C | 9 received arg | 10 every call has returned, Add(0) = arg
//	      | 11 Wait called | 12 Wait returned | 13 Wait panicked | 20 SubscribeContext called | 21 SubscribeContext returned
//	      | 22 cancel called | 23 cancel returned | 24 iterator invoked | 25 iterator returned | 26 SubscribeContext / iterator panicked
//	      | 27 the loop body breaks
//	   class (kind 4): see pstrClassify; threads 0..S-1 are the senders, S..S+R-1 the subscribers, S+R..S+2R-1 the cancellers of
//	   the iterator subscriptions, S+2R..S+3R-1 their AfterFunc goroutines; complete = 0 if a call hung
//
// About a third of the subscribers subscribe through SubscribeContext instead: the iterator is run at once and left by a
// cancellation (on a trigger, possibly in the middle of a Send) or by a break after a few values, or it is never run and the
// context cancelled, or the context is cancelled first and the iterator run afterwards.  cancel() is always called by the
// subscription's own canceller goroutine, so that the AfterFunc goroutine that runs x.Unsubscribe can be attributed to its
// subscription by the goroutine that created it (printed by runtime.Stack).  The adapter ties WHO unsubscribes to the extracted
// PubSubIter.istep.
//
// The points are found in the instrumenter's table (parameter ptfile) by WHAT THEY DO - the operation and the field it is
// applied to (x.subscribers.Load, x.sendingMu.TryRLock, x.pongC.Broadcast, the caster's x.state.CompareAndSwap, a channel send ...);
// which model step an announcement belongs to follows from the call the announcing goroutine is in and from where the model
// says that call is - never from line numbers or point ids.  checker/ad_pubsubtrace.ml decides the log with the extracted
// PubSubTraceAux.jstep / PubSubSplit.xstep.

import (
	"bufio"
	"context"
	"fmt"
	"math/rand"
	"os"
	"reflect"
	"runtime"
	"sort"
	"strconv"
	"strings"
	"sync"
	"sync/atomic"
	"time"
)

type pstrPoint struct {
	cls  int
	desc string
}

// pstrClassify: the class of a point, from the operation it announces, the callee expression and the enclosing function
//
//	1 subscribers.Load  2 subscribers.Add/CompareAndSwap/Store/Swap  3 sendMu.Lock  4 sendMu.Unlock  5 sendingMu.Lock  6 sendingMu.Unlock
//	7 sendingMu.RLock  8 sendingMu.TryRLock  9 sendingMu.RUnlock  10 pongC.L.Lock  11 pongC.L.Unlock  12 pongC.Wait  13 pongC.Broadcast
//	14 pongC.Signal  15 (caster) state.Load  16 state.CompareAndSwap  17 state.Add  18 state.Store/Swap  19 channel send  20 channel receive
//	21 the caster's own mutex (not part of the PubSub models)  22 a call of an instrumented method (x.ping.Add, x.Add, x.Wait: its
//	operations are announced inside)  23 a select outside SubscribeContext (checkBroken)  24 any point of markBroken
//	25 a select of SubscribeContext's iterator  26 context.AfterFunc  28 the x.Add(-1) of Unsubscribe  0 anything else
func pstrClassify(op, callee, fn string) int {
	if strings.HasSuffix(fn, ".markBroken") || fn == "markBroken" {
		return 24
	}
	suf := func(s string) bool { return strings.HasSuffix(callee, s) }
	nm := pstrFieldNames()
	switch {
	case suf("." + nm["subscribers"] + ".Load"):
		return 1
	case suf("." + nm["subscribers"] + ".Add"), suf("." + nm["subscribers"] + ".CompareAndSwap"), suf("." + nm["subscribers"] + ".Store"), suf("." + nm["subscribers"] + ".Swap"):
		return 2
	case suf("." + nm["sendMu"] + ".Lock"):
		return 3
	case suf("." + nm["sendMu"] + ".Unlock"):
		return 4
	case suf("." + nm["sendingMu"] + ".Lock"):
		return 5
	case suf("." + nm["sendingMu"] + ".Unlock"):
		return 6
	case suf("." + nm["sendingMu"] + ".RLock"):
		return 7
	case suf("." + nm["sendingMu"] + ".TryRLock"):
		return 8
	case suf("." + nm["sendingMu"] + ".RUnlock"):
		return 9
	case suf("." + nm["pongC"] + ".L.Lock"):
		return 10
	case suf("." + nm["pongC"] + ".L.Unlock"):
		return 11
	case suf("." + nm["pongC"] + ".Wait"):
		return 12
	case suf("." + nm["pongC"] + ".Broadcast"):
		return 13
	case suf("." + nm["pongC"] + ".Signal"):
		return 14
	case suf("." + nm["state"] + ".Load"):
		return 15
	case suf("." + nm["state"] + ".CompareAndSwap"):
		return 16
	case suf("." + nm["state"] + ".Add"):
		return 17
	case suf("." + nm["state"] + ".Store"), suf("." + nm["state"] + ".Swap"):
		return 18
	case suf("." + nm["mutex"] + ".Lock"), suf("." + nm["mutex"] + ".Unlock"), suf("." + nm["mutex"] + ".RLock"), suf("." + nm["mutex"] + ".RUnlock"):
		return 21
	case suf("." + nm["ping"] + ".Add"):
		return 22
	}
	switch op {
	case "send":
		return 19
	case "recv":
		return 20
	case "select":
		// the select of checkBroken is a no-op; every other select of the file belongs to SubscribeContext's iterator, whatever the
		// function it sits in is called (the iterator body may be a closure of SubscribeContext or a method of its own)
		if strings.HasSuffix(fn, "checkBroken") {
			return 23
		}
		return 25
	case "AfterFunc":
		if callee == "context.AfterFunc" {
			return 26
		}
	case "Add", "Wait":
		if strings.Count(callee, ".") == 1 { // x.Add / x.Wait: a method of the receiver itself
			if op == "Add" && (strings.HasSuffix(fn, ".Unsubscribe") || fn == "Unsubscribe") {
				return 28
			}
			return 22
		}
	}
	return 0
}

// pstrFieldNames: the names the fields of ChanPubSub and ChanCaster have in the source under test, found by their TYPES (each role
// has a type of its own: the sender mutex is the sync.Mutex, the sending lock the sync.RWMutex, the pong condition the *sync.Cond,
// the subscriber count the atomic.Int32, the caster the embedded ChanCaster; in ChanCaster the state word is the atomic.Uint64 and
// its lock the sync.RWMutex), so that a renamed unexported field is still recognised; a role whose type is not unique keeps the name
// the unchanged source uses.
var pstrNamesOnce sync.Once
var pstrNames map[string]string

func pstrFieldNames() map[string]string {
	pstrNamesOnce.Do(func() {
		pstrNames = map[string]string{"subscribers": "subscribers", "sendMu": "sendMu", "sendingMu": "sendingMu", "pongC": "pongC",
			"state": "state", "mutex": "mutex", "ping": "ping"}
		uniq := func(t reflect.Type, want func(reflect.Type) bool) string {
			name, n := "", 0
			for i := 0; i < t.NumField(); i++ {
				if want(t.Field(i).Type) {
					name, n = t.Field(i).Name, n+1
				}
			}
			if n == 1 {
				return name
			}
			return ""
		}
		is := func(x interface{}) func(reflect.Type) bool {
			tx := reflect.TypeOf(x)
			return func(t reflect.Type) bool { return t == tx }
		}
		ps := reflect.TypeOf(ChanPubSub[chan int, int]{})
		cs := reflect.TypeOf(ChanCaster[chan int, int]{})
		set := func(role, name string) {
			if name != "" {
				pstrNames[role] = name
			}
		}
		set("sendMu", uniq(ps, is(sync.Mutex{})))
		set("sendingMu", uniq(ps, is(sync.RWMutex{})))
		set("pongC", uniq(ps, is((*sync.Cond)(nil))))
		set("subscribers", uniq(ps, is(atomic.Int32{})))
		set("ping", uniq(ps, func(t reflect.Type) bool { return t == cs }))
		set("state", uniq(cs, is(atomic.Uint64{})))
		set("mutex", uniq(cs, is(sync.RWMutex{})))
	})
	return pstrNames
}

type pstrWait struct {
	cls, n int
	ch     chan struct{}
}

type pstrPolicy struct {
	pts     map[int]pstrPoint
	ns      int
	mu      sync.Mutex
	ev      []int
	gids    map[int]int
	rng     *rand.Rand
	clCount [32]int // announcements by sender threads, per class
	waits   []*pstrWait
	unknown string
	hit     map[int]bool
	nr      int          // subscriber slots
	notOurs map[int]bool // goroutines that are neither registered nor created by a registered subscriber / canceller
	naux    int
}

// pstrParent: the id of the goroutine that created the current one ("created by ... in goroutine N"), -1 if not printed.
func pstrParent() int {
	buf := make([]byte, 16<<10)
	n := runtime.Stack(buf, false)
	s := string(buf[:n])
	i := strings.LastIndex(s, "created by ")
	if i < 0 {
		return -1
	}
	s = s[i:]
	if nl := strings.IndexByte(s, '\n'); nl >= 0 {
		s = s[:nl]
	}
	j := strings.LastIndex(s, " in goroutine ")
	if j < 0 {
		return -1
	}
	v, err := strconv.Atoi(strings.TrimSpace(s[j+len(" in goroutine "):]))
	if err != nil {
		return -1
	}
	return v
}

func pstrGID() int {
	var buf [64]byte
	n := runtime.Stack(buf[:], false)
	f := strings.Fields(string(buf[:n]))
	if len(f) >= 2 {
		if v, err := strconv.Atoi(f[1]); err == nil {
			return v
		}
	}
	return -1
}

// enter makes the calling goroutine thread th of the case
func (p *pstrPolicy) enter(th int) {
	g := pstrGID()
	p.mu.Lock()
	p.gids[g] = th
	p.mu.Unlock()
}

func (p *pstrPolicy) log(th, kind, arg int) {
	p.mu.Lock()
	p.ev = append(p.ev, th, kind, arg)
	p.mu.Unlock()
}

// after returns a channel that is closed when the senders have announced an operation of class cls for the n-th time
func (p *pstrPolicy) after(cls, n int) chan struct{} {
	w := &pstrWait{cls: cls, n: n, ch: make(chan struct{})}
	p.waits = append(p.waits, w) // only called before the threads start
	return w.ch
}

func (p *pstrPolicy) at(id int) {
	g := pstrGID()
	p.mu.Lock()
	th, ok := p.gids[g]
	if !ok && p.nr > 0 && !p.notOurs[g] {
		// the AfterFunc goroutine of an iterator subscription: created by the subscription's canceller (or, if the context was
		// already cancelled when AfterFunc registered, by the subscriber itself)
		p.mu.Unlock()
		parent := pstrParent()
		p.mu.Lock()
		if pt, ok2 := p.gids[parent]; ok2 && pt >= p.ns && pt < p.ns+2*p.nr {
			th, ok = p.ns+2*p.nr+(pt-p.ns)%p.nr, true
			p.gids[g] = th
			p.naux++
		} else {
			if p.notOurs == nil {
				p.notOurs = map[int]bool{}
			}
			p.notOurs[g] = true
		}
	}
	if !ok {
		p.mu.Unlock()
		return
	}
	pt := p.pts[id]
	if pt.cls == 0 && p.unknown == "" {
		p.unknown = pt.desc
		if p.unknown == "" {
			p.unknown = fmt.Sprintf("point %d (not in the table)", id)
		}
	}
	p.ev = append(p.ev, th, 4, pt.cls)
	p.hit[pt.cls] = true
	if th < p.ns && pt.cls > 0 {
		p.clCount[pt.cls]++
		for _, w := range p.waits {
			if w.ch != nil && w.cls == pt.cls && p.clCount[pt.cls] >= w.n {
				close(w.ch)
				w.ch = nil
			}
		}
	}
	r := p.rng.Intn(16)
	d := time.Duration(p.rng.Intn(120)) * time.Microsecond
	p.mu.Unlock()
	switch {
	case r < 2:
		time.Sleep(d)
	case r < 7:
		runtime.Gosched()
	}
}

func pstrLoadPoints(path string) map[int]pstrPoint {
	f, err := os.Open(path)
	if err != nil {
		return nil
	}
	defer f.Close()
	m := map[int]pstrPoint{}
	sc := bufio.NewScanner(f)
	for sc.Scan() {
		w := strings.Fields(sc.Text()) // id file:line stmt-type op callee fn=function
		if len(w) < 5 {
			continue
		}
		id, err := strconv.Atoi(w[0])
		if err != nil {
			continue
		}
		fn := ""
		if len(w) > 5 && strings.HasPrefix(w[5], "fn=") {
			fn = w[5][3:]
		}
		m[id] = pstrPoint{cls: pstrClassify(w[3], w[4], fn), desc: w[1] + " " + w[3] + " " + w[4] + " fn=" + fn}
	}
	return m
}

func pstrPause(n int) {
	for i := 0; i < n; i++ {
		runtime.Gosched()
	}
}

func init() {
	register("C06TRACE", func(h *hctx) {
		pts := pstrLoadPoints(h.p("ptfile", ""))
		if !instrumented() {
			h.line("STAT c06trace_not_run 1")
			return
		}
		if len(pts) == 0 {
			h.line("INCONCLUSIVE C06 trace: no point table")
			return
		}
		// probe: two subscriptions, one Send, two receive/Wait cycles, two unsubscribes must announce the operations the protocol is made of
		{
			pol := &pstrPolicy{pts: pts, ns: 1, gids: map[int]int{}, rng: rand.New(rand.NewSource(1)), hit: map[int]bool{}}
			x := NewChanPubSub(make(chan int))
			ch := x.C()
			setPolicy(pol)
			var wg, regd sync.WaitGroup
			regd.Add(2)
			for k := 1; k <= 2; k++ {
				k := k
				wg.Add(1)
				go func() {
					defer wg.Done()
					defer func() { _ = recover() }()
					pol.enter(k)
					func() {
						defer regd.Done()
						x.Add(1)
					}()
					<-ch
					x.Wait()
					x.Add(-1)
				}()
			}
			wg.Add(1)
			go func() {
				defer wg.Done()
				defer func() { _ = recover() }()
				pol.enter(0)
				regd.Wait()
				x.Send(1)
			}()
			done := make(chan struct{})
			go func() { wg.Wait(); close(done) }()
			ok := true
			select {
			case <-done:
			case <-time.After(5 * time.Second):
				ok = false
			}
			setPolicy(nil)
			pol.mu.Lock()
			var missing []string
			names := map[int]string{1: "subscribers.Load", 2: "subscribers.Add", 3: "sendMu.Lock", 5: "sendingMu.Lock", 6: "sendingMu.Unlock",
				7: "sendingMu.RLock", 8: "sendingMu.TryRLock", 10: "pongC.L.Lock", 13: "pongC.Broadcast", 15: "state.Load",
				16: "state.CompareAndSwap", 17: "state.Add", 19: "channel-send"}
			for _, c := range []int{1, 2, 3, 5, 6, 7, 8, 10, 13, 15, 16, 17, 19} {
				if !pol.hit[c] {
					missing = append(missing, names[c])
				}
			}
			pol.mu.Unlock()
			if len(missing) > 0 {
				h.line("INCONCLUSIVE C06 trace: two subscriptions, a Send, two receive/Wait cycles and two unsubscribes on a ChanPubSub did not announce %v (finished: %v): the lock, counter, condition and channel operations of the protocol cannot be found in the instrumented source", missing, ok)
				return
			}
			if !ok {
				// the blocked goroutines are abandoned; the cases below still run until the first one that hangs, so that the
				// adapter can say which step of the protocol the log departs from
				h.line("MONITOR C07 hang: Add(1) x 2, Send, two receive/Wait cycles, Add(-1) x 2 on a ChanPubSub did not finish within 5 s (trace probe)")
			}
		}
		for i := 0; i < h.n; i++ {
			if !pstrCase(h, i, pts) {
				return
			}
		}
	})
}

type pstrSubPlan struct {
	pause    int
	late     chan struct{} // subscribe only after this (nil: at once)
	lateTmo  time.Duration
	style    int // 0 receive | 1 unsubscribe on a trigger without ever receiving | 2 receive, give up on a trigger | 3 receive with a timeout
	trig     chan struct{}
	trigTmo  time.Duration
	timeout  time.Duration
	quota    int // leave after this many receipts (0: when the senders are done)
	stay     bool
	lives    int
	early    bool
	pauseTwo int
	slow     int // between the receive and Wait: 0 nothing | 1 yields | 2 sleep | 3 until another Send queues (or a timeout)
	slowN    int
	slowD    time.Duration
	slowT    chan struct{}
	iter     bool // subscribes through SubscribeContext
	imode    int  // 0 run the iterator, leave by cancellation | 1 run it, break after quota values | 2 never run it, cancel | 3 cancel first, then run it
}

func pstrCase(h *hctx, id int, pts map[int]pstrPoint) bool {
	rng := h.rng
	S, R := 1+rng.Intn(2), 1+rng.Intn(4)
	pol := &pstrPolicy{pts: pts, ns: S, nr: R, gids: map[int]int{}, rng: rand.New(rand.NewSource(rng.Int63())), hit: map[int]bool{}}
	x := NewChanPubSub(make(chan int))
	ch := x.C()
	base := (id%1000 + 1) * 100
	withIter := h.pi("iter", 1) != 0
	libBase := libGoroutineCount()

	// (class, n-th announcement by a sender): every wait on one of these also ends when the senders are done or on a timeout
	trigs := [][2]int{{3, 1}, {5, 1}, {1, 2}, {17, 1}, {15, 1}, {15, 2}, {16, 1}, {19, 1}, {19, 2}, {6, 1}, {10, 1}, {3, 2}, {5, 2}, {16, 3}, {19, 3}}
	pick := func() chan struct{} {
		t := trigs[rng.Intn(len(trigs))]
		return pol.after(t[0], t[1])
	}

	plans := make([]*pstrSubPlan, R)
	for i := range plans {
		pl := &pstrSubPlan{pause: rng.Intn(30), style: []int{0, 0, 0, 1, 2, 2, 3, 3}[rng.Intn(8)], lives: 1, pauseTwo: rng.Intn(20)}
		if rng.Intn(3) == 0 {
			pl.late = pick()
			pl.lateTmo = time.Duration(200+rng.Intn(2000)) * time.Microsecond
		} else {
			pl.early = true
		}
		if pl.style == 1 || pl.style == 2 {
			if rng.Intn(6) != 0 {
				pl.trig = pick()
			} else {
				c := make(chan struct{})
				close(c)
				pl.trig = c // gives up at once
			}
			pl.trigTmo = time.Duration(200+rng.Intn(2500)) * time.Microsecond
		}
		pl.timeout = time.Duration(rng.Intn(900)) * time.Microsecond
		if rng.Intn(3) == 0 {
			pl.quota = 1 + rng.Intn(3)
		}
		pl.stay = rng.Intn(4) == 0
		if rng.Intn(3) == 0 {
			pl.lives = 2
		}
		pl.slow = rng.Intn(6)
		if pl.slow > 3 {
			pl.slow = 0
		}
		pl.slowN = rng.Intn(40)
		pl.slowD = time.Duration(rng.Intn(300)) * time.Microsecond
		if pl.slow == 3 {
			pl.slowT = pol.after(3, 2)
			pl.slowD = time.Duration(100+rng.Intn(900)) * time.Microsecond
		}
		if withIter && rng.Intn(3) == 0 {
			pl.iter = true
			pl.imode = []int{0, 0, 0, 1, 1, 2, 3}[rng.Intn(7)]
			pl.lives = 1
			if pl.trig == nil {
				pl.trig = pick()
				pl.trigTmo = time.Duration(200+rng.Intn(2500)) * time.Microsecond
			}
			if pl.imode == 1 && pl.quota == 0 {
				pl.quota = 1 + rng.Intn(3)
			}
		}
		plans[i] = pl
	}
	nsends := make([]int, S)
	spause := make([]int, S)
	for j := range nsends {
		nsends[j] = 1 + rng.Intn(3)
		spause[j] = rng.Intn(30)
	}
	phased := rng.Intn(6) != 0

	startSend := make(chan struct{})
	sendersDone := make(chan struct{})
	var registered, all, senders sync.WaitGroup

	setPolicy(pol)
	for i, pl := range plans {
		th, pl := S+i, pl
		all.Add(1)
		if pl.early {
			registered.Add(1)
		}
		go func() {
			defer all.Done()
			pol.enter(th)
			marked := !pl.early
			mark := func() {
				if !marked {
					marked = true
					registered.Done()
				}
			}
			defer mark()
			add := func(d int) (ok bool) {
				defer func() {
					if e := recover(); e != nil {
						pol.log(th, 7, 0)
						ok = false
					}
				}()
				pol.log(th, 5, d)
				r := x.Add(d)
				pol.log(th, 6, r)
				return true
			}
			wait := func() (ok bool) {
				defer func() {
					if e := recover(); e != nil {
						pol.log(th, 13, 0)
						ok = false
					}
				}()
				pol.log(th, 11, 0)
				x.Wait()
				pol.log(th, 12, 0)
				return true
			}
			if pl.iter {
				if pl.late != nil {
					select {
					case <-pl.late:
					case <-sendersDone:
					case <-time.After(pl.lateTmo):
					}
				}
				pstrPause(pl.pause)
				ctx, cancel := context.WithCancel(context.Background()) // cancel is called by the canceller goroutine below, always
				var seq func(func(int) bool)
				okSub := func() (ok bool) {
					defer func() {
						if e := recover(); e != nil {
							pol.log(th, 26, 0)
							ok = false
						}
					}()
					pol.log(th, 20, 0)
					seq = x.SubscribeContext(ctx)
					pol.log(th, 21, 0)
					return true
				}()
				mark()
				if !okSub {
					return
				}
				// the canceller of this subscription (its own goroutine: the AfterFunc goroutine is attributed through it)
				cth := S + R + (th - S)
				goCancel := make(chan struct{})
				cancelled := make(chan struct{})
				all.Add(1)
				go func() {
					defer all.Done()
					defer close(cancelled)
					pol.enter(cth)
					switch pl.imode {
					case 0:
						select {
						case <-pl.trig:
						case <-sendersDone:
						}
					case 1:
						select {
						case <-goCancel: // the loop was left by a break
						case <-sendersDone:
						}
					case 2:
						select {
						case <-pl.trig:
						case <-sendersDone:
						case <-time.After(pl.trigTmo):
						}
					case 3:
						<-goCancel
					}
					pstrPause(pl.pauseTwo)
					pol.log(cth, 22, 0)
					cancel()
					pol.log(cth, 23, 0)
				}()
				switch pl.imode {
				case 2:
					return // never runs the iterator
				case 3:
					close(goCancel)
					<-cancelled
				}
				func() {
					defer func() {
						if e := recover(); e != nil {
							pol.log(th, 26, 0)
						}
					}()
					got := 0
					pol.log(th, 24, 0)
					for v := range seq {
						pol.log(th, 9, v)
						got++
						if pl.imode == 1 && got >= pl.quota {
							pol.log(th, 27, 0)
							break
						}
					}
					pol.log(th, 25, 0)
				}()
				if pl.imode == 1 {
					close(goCancel)
				}
				return
			}
			for life := 0; life < pl.lives; life++ {
				if life > 0 {
					select {
					case <-sendersDone:
						return
					default:
					}
					pstrPause(pl.pauseTwo)
				} else {
					if pl.late != nil {
						select {
						case <-pl.late:
						case <-sendersDone:
						case <-time.After(pl.lateTmo):
						}
					}
					pstrPause(pl.pause)
				}
				if !add(1) {
					return
				}
				mark()
				if pl.style == 1 && life == 0 {
					select {
					case <-pl.trig:
					case <-sendersDone:
					case <-time.After(pl.trigTmo):
					}
					pstrPause(pl.pauseTwo)
					if !add(-1) {
						return
					}
					continue
				}
				got := 0
			cycle:
				for {
					var tmo <-chan time.Time
					var trig chan struct{}
					if pl.style == 3 {
						tmo = time.After(pl.timeout)
					}
					if pl.style == 2 && life == 0 {
						trig = pl.trig
					}
					pol.log(th, 8, 0)
					select {
					case v := <-ch:
						pol.log(th, 9, v)
						switch pl.slow {
						case 1:
							pstrPause(pl.slowN)
						case 2:
							time.Sleep(pl.slowD)
						case 3:
							select {
							case <-pl.slowT:
							case <-time.After(pl.slowD):
							}
						}
						if !wait() {
							return
						}
						got++
						if pl.quota > 0 && got >= pl.quota {
							if !add(-1) {
								return
							}
							break cycle
						}
					case <-trig:
						if !add(-1) {
							return
						}
						break cycle
					case <-tmo:
						if !add(-1) {
							return
						}
						break cycle
					case <-sendersDone:
						if pl.stay && life == pl.lives-1 {
							return // stays subscribed: no Send is in progress and none will come
						}
						if !add(-1) {
							return
						}
						break cycle
					}
				}
			}
		}()
	}
	for j := 0; j < S; j++ {
		th := j
		all.Add(1)
		senders.Add(1)
		go func() {
			defer all.Done()
			defer senders.Done()
			pol.enter(th)
			<-startSend
			for k := 0; k < nsends[th]; k++ {
				pstrPause(spause[th])
				v := base + th*10 + k + 1
				func() {
					defer func() {
						if e := recover(); e != nil {
							pol.log(th, 3, 0)
						}
					}()
					pol.log(th, 1, v)
					r := x.Send(v)
					pol.log(th, 2, r)
				}()
			}
		}()
	}
	if phased {
		regd := make(chan struct{})
		go func() { registered.Wait(); close(regd) }()
		select {
		case <-regd:
		case <-time.After(2 * time.Second):
		}
	}
	close(startSend)
	go func() { senders.Wait(); close(sendersDone) }()
	fin := make(chan struct{})
	go func() { all.Wait(); close(fin) }()
	complete := 1
	select {
	case <-fin:
	case <-time.After(3 * time.Second):
		complete = 0
		st, _ := goroutineStates()
		keys := make([]string, 0, len(st))
		for g, s := range st {
			keys = append(keys, g+"="+s)
		}
		sort.Strings(keys)
		h.line("MONITOR C07 hang: a Send, Add or Wait of a contract-following program was still blocked after 3 s (trace case %d: %d senders, %d subscribers; goroutines: %v)", id, S, R, keys)
	}
	if complete == 1 {
		// the AfterFunc goroutines (x.Unsubscribe after a cancellation) are not in the wait group
		if n, ok := waitLibBaseline(libBase, 3*time.Second); !ok {
			complete = 0
			h.line("MONITOR C07 hang: %d goroutine(s) of the library (the Unsubscribe of a cancelled SubscribeContext) still there 3 s after every call of a contract-following program returned (trace case %d)", n-libBase, id)
		}
	}
	setPolicy(nil)
	if complete == 1 {
		func() {
			defer func() {
				if e := recover(); e != nil {
					h.line("MONITOR C07 Add(0) panicked after all calls of a contract-following program returned (trace case %d): %.100v", id, e)
					complete = 0
				}
			}()
			pol.log(0, 10, x.Add(0))
		}()
	}
	pol.mu.Lock()
	ev := append([]int(nil), pol.ev...)
	unknown := pol.unknown
	pol.mu.Unlock()
	if unknown != "" {
		h.line("INCONCLUSIVE C06 trace: a goroutine inside ChanPubSub.Send/Add/Wait announced `%s`, an operation the protocol models have no step for (case %d): the source's control flow cannot be mapped to the steps of PubSubSplit / PubSubIdx", unknown, id)
		return false
	}
	args := append([]int{int(h.seed), id, S, R, complete, len(ev) / 3}, ev...)
	h.line("F pubsub_trace t-%d-%d %s | 1", h.seed, id, ints(args))
	h.count("c06trace_cases", 1)
	h.count("c06trace_events", len(ev)/3)
	// what the traces exercised
	nabs, nspin, nunsub, nsub, nrecv, nlate, nsendCalls, nzero, nslowzero, ncasretry, ntryfail := 0, 0, 0, 0, 0, 0, 0, 0, 0, 0, 0
	niter, nafter, niterUnsub := 0, 0, 0
	inPing := map[int]bool{}  // senders between the announcement of sendingMu.Lock and that of sendingMu.Unlock
	armedBy := map[int]bool{} // senders that announced a channel send in this call
	lastCls := map[int]int{}
	for k := 0; k+2 < len(ev); k += 3 {
		th, kind, arg := ev[k], ev[k+1], ev[k+2]
		if th < S && kind == 4 {
			switch arg {
			case 5:
				inPing[th] = true
			case 6:
				delete(inPing, th)
			case 19:
				armedBy[th] = true
			case 15:
				if lastCls[th] == 16 {
					ncasretry++
				}
			}
		}
		switch {
		case kind == 1:
			nsendCalls++
			delete(armedBy, th)
		case kind == 2 && arg == 0:
			nzero++
			if armedBy[th] {
				nslowzero++
			}
		case kind == 4 && arg == 7 && th >= S && len(inPing) > 0:
			nlate++
		case kind == 4 && arg == 20:
			nabs++
		case kind == 4 && arg == 15 && th >= S:
			nspin++
		case kind == 4 && arg == 8 && th >= S && len(inPing) > 0:
			ntryfail++
		case kind == 5 && arg == -1:
			nunsub++
		case kind == 5 && arg == 1:
			nsub++
		case kind == 9:
			nrecv++
		case kind == 20:
			niter++
			nsub++
		case kind == 4 && arg == 28:
			nunsub++
			if th >= S+2*R {
				nafter++
			} else {
				niterUnsub++
			}
		}
		if kind == 4 {
			lastCls[th] = arg
		} else if kind == 1 {
			lastCls[th] = 0
		}
	}
	h.count("c06trace_sends", nsendCalls)
	h.count("c06trace_sends_returning_0", nzero)
	h.count("c06trace_sends_returning_0_after_arming", nslowzero)
	h.count("c06trace_subscribes", nsub)
	h.count("c06trace_unsubscribes", nunsub)
	h.count("c06trace_copies_absorbed_by_unsubscribes", nabs)
	h.count("c06trace_spin_loads_by_unsubscribes", nspin)
	h.count("c06trace_tryrlock_announced_during_a_ping_phase", ntryfail)
	h.count("c06trace_rlock_announced_during_a_ping_phase", nlate)
	h.count("c06trace_arming_cas_retries", ncasretry)
	h.count("c06trace_values_received", nrecv)
	h.count("c06trace_iterator_subscriptions", niter)
	h.count("c06trace_unsubscribes_by_afterfunc_goroutine", nafter)
	h.count("c06trace_unsubscribes_by_iterator_defer", niterUnsub)
	if complete == 0 {
		h.count("c06trace_incomplete", 1)
		return false // the blocked goroutines are abandoned; do not pile up more of them
	}
	return true
}
