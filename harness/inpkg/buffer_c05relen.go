//go:build verif

package bigbuff

// C05RELEN (C05 only; it calls the unexported Buffer.cleanupLogic directly, so it lives in a file of its own): a Get parked at
// the end of a NON-EMPTY buffer (the values are retained for a slower consumer) must return once a value is put, also when
// a reclamation of k values and a Put of k values both land before the woken waiter gets the lock back - the buffer then has
// the length it had when the waiter last looked, but a different content.  The harness takes the Buffer's write lock, queues
// a Put of k values behind it, runs one cleaner pass itself (which reclaims the k values the slow consumer has meanwhile
// committed and broadcasts: the waiter queues behind the Put), and releases the lock.

import (
	"context"
	"sync"
	"time"
)

func init() {
	register("C05RELEN", func(h *hctx) {
		for i := 0; i < h.n; i++ {
			b := new(Buffer)
			*fld[*CleanerConfig](b, "cleaner") = &CleanerConfig{Cleaner: DefaultCleaner, Cooldown: time.Hour} // the harness is the cleaner
			slow, err1 := b.NewConsumer()
			fast, err2 := b.NewConsumer()
			if err1 != nil || err2 != nil {
				return
			}
			n := 3 + h.rng.Intn(6)
			k := 1 + h.rng.Intn(n-1)
			for v := 0; v < n; v++ {
				_ = b.Put(context.Background(), v)
			}
			for v := 0; v < n; v++ {
				_, _ = fast.Get(context.Background())
			}
			_ = fast.Commit()
			type res struct {
				v   interface{}
				err error
			}
			got := make(chan res, 1)
			gctx, gcancel := context.WithCancel(context.Background())
			go func() {
				v, err := fast.Get(gctx) // parks: nothing beyond n
				got <- res{v, err}
			}()
			if !quiesce(150*time.Microsecond, 3*time.Second) {
				gcancel()
				continue
			}
			for v := 0; v < k; v++ {
				_, _ = slow.Get(context.Background())
			}
			_ = slow.Commit() // broadcasts; the waiter looks again (same length, nothing new) and parks again
			if !quiesce(150*time.Microsecond, 3*time.Second) {
				gcancel()
				continue
			}
			mu := fld[sync.RWMutex](b, "mutex")
			mu.Lock()
			put := make(chan struct{})
			go func() {
				defer close(put)
				vals := make([]interface{}, k)
				for x := range vals {
					vals[x] = n + x
				}
				_ = b.Put(context.Background(), vals...)
			}()
			time.Sleep(2 * time.Millisecond) // the Put is queued on the lock
			b.cleanupLogic()                 // reclaims the k committed values, broadcasts: the waiter queues behind the Put
			mu.Unlock()
			select {
			case r := <-got:
				if r.err != nil || r.v != n {
					h.line("MONITOR C05 relen case %d: the parked Get returned (%v, %v), expected %d", i, r.v, r.err, n)
				}
			case <-time.After(3 * time.Second):
				h.line("MONITOR C05 a Get parked at the end of a buffer of %d values is still parked 3 s after %d values were reclaimed and %d new values put in one go (same length, new content): the value %d it waits for is available (case %d)", n, k, k, n, i)
				gcancel()
				<-got
			}
			<-put
			gcancel()
			_ = fast.Rollback()
			_ = slow.Close()
			_ = fast.Close()
			_ = b.Close()
			h.count("c05relen_cases", 1)
		}
	})
}
