//go:build verif

package bigbuff

func init() {
	// Pure cleaner functions: exhaustive small domain plus seeded large values, each line "F fn id args | result".
	register("C03F", func(h *hctx) {
		id := 0
		emit := func(fn string, args []int, res int) {
			h.line("F %s f%d %s | %d", fn, id, ints(args), res)
			id++
		}
		// exhaustive: size 0..6, offsets lists of length <= 4 over -2..8
		var rec func(size int, offs []int, depth int)
		rec = func(size int, offs []int, depth int) {
			cp := append([]int(nil), offs...)
			emit("default_cleaner", append([]int{size}, cp...), DefaultCleaner(size, cp))
			h.count("default_exhaustive", 1)
			if depth == 0 {
				return
			}
			for o := -2; o <= 8; o++ {
				rec(size, append(offs, o), depth-1)
			}
		}
		maxLen := h.pi("maxlen", 3)
		for size := 0; size <= 6; size++ {
			rec(size, nil, maxLen)
		}
		// fixed cleaner: max/target over -1..8, size 0..8, a few offset lists; callback consistency
		lists := [][]int{{}, {0}, {3}, {-1, 5}, {9, 2, 4}, {7, 7}}
		for mx := -1; mx <= 8; mx++ {
			for tg := -1; tg <= 8; tg++ {
				for size := 0; size <= 8; size++ {
					for _, l := range lists {
						var got *FixedBufferCleanerNotification
						f := FixedBufferCleaner(mx, tg, func(n FixedBufferCleanerNotification) { got = &n })
						r := f(size, l)
						emit("fixed_cleaner", append([]int{mx, tg, size}, l...), r)
						h.count("fixed_exhaustive", 1)
						if size > mx {
							if got == nil || got.Max != mx || got.Target != tg || got.Size != size || got.Trim != r {
								h.line("MONITOR C03 fixed-callback mismatch max=%d target=%d size=%d", mx, tg, size)
							}
						} else if got != nil {
							h.line("MONITOR C03 fixed-callback called without forced trim max=%d target=%d size=%d", mx, tg, size)
						}
					}
				}
			}
		}
		// seeded large values
		for i := 0; i < h.n; i++ {
			size := h.rng.Intn(1 << 20)
			n := h.rng.Intn(8)
			switch h.rng.Intn(8) { // a share of long lists, of small sizes, of huge sizes
			case 0:
				n = 8 + h.rng.Intn(40)
			case 1:
				size = h.rng.Intn(12)
			case 2:
				size = 1<<40 + h.rng.Intn(1<<20)
			}
			offs := make([]int, n)
			for j := range offs {
				switch h.rng.Intn(5) {
				case 0:
					offs[j] = -h.rng.Intn(1 << 20)
				case 1:
					offs[j] = size + h.rng.Intn(100)
				case 2:
					offs[j] = size
				default:
					offs[j] = h.rng.Intn(size + 1)
				}
			}
			emit("default_cleaner", append([]int{size}, offs...), DefaultCleaner(size, append([]int(nil), offs...)))
			mx, tg := h.rng.Intn(1<<20), h.rng.Intn(1<<20)
			emit("fixed_cleaner", append([]int{mx, tg, size}, offs...), FixedBufferCleaner(mx, tg, nil)(size, append([]int(nil), offs...)))
			h.count("seeded", 2)
		}
	})
}
