//go:build verif

package bigbuff

import (
	"context"
	"fmt"
	"math/rand"
	"reflect"
	"runtime"
	"sort"
	"sync"
	"sync/atomic"
	"time"
)

// C09 / C10: bigbuff.Exclusive.
//
// Every call made by the harness supplies its OWN function (unique id fid); a function records the logical tick at
// which it started, resolved and returned, and resolves with the value fid*10+variant (never nil) and optionally an
// error that carries fid. From the ticks alone the monitors decide, per key:
//   C09 overlap              two executions of one key overlap (start of the next before the return of the previous)
//   C09 independence         a call on an idle key did not complete while another key's work function was held
//   C10 hang                 a call (or its API entry) did not finish within the deadline after all gates were opened
//   C10 outcome-count        an async channel yielded a second value / was not closed / a start-style call got a channel
//   C10 stale-result         an outcome produced by an execution that STARTED BEFORE the call was made
//   C10 cross-key            an outcome produced by an execution of another key
//   C10 outcome-not-resolved-value   an outcome that is not the (result, error) its execution resolved with
//                            (so callers coalesced into one execution cannot differ: `coalesced-differ` is reported too)
//   C10 unanswered-after-resolve   at a quiescent point where a work function had RESOLVED and its return was still held by
//                            the harness, a blocking/async caller that was (as its eventual outcome shows) coalesced into
//                            that very execution had not been answered yet. Callers receive the outcome of the execution
//                            when it is resolved, not when the work function returns: the abstract model answers every
//                            attached waiter at resolution (`complete` moves gwx* to gd*, and each PDrain is enabled without
//                            waiting for PReturn); an implementation that wakes only some of them (Signal for Broadcast)
//                            leaves the others waiting for the finisher's broadcast, i.e. for the return of a work function
//                            that may itself be waiting (ExclusiveRateLimit, or a function that waits for its callers)
//   C10 misuse-no-panic      a call without a work function (nil value / no ExclusiveWork) or on a nil receiver did not panic.
//                            Such misuse calls are sprinkled over the scripts (each in its own goroutine, under recover, on
//                            idle keys, keys with work running, in the gap, inside a CallAfter wait); they are NOT calls of
//                            the history, and a rejected call must leave nothing behind: all the monitors below (answered
//                            within the deadline, residue, fresh-call) still have to hold for the ordinary calls of that key
//   C10 resolve-not-called   nil result without errResolveNotCalled, or errResolveNotCalled with no matching execution
//                            that returned without resolving after the call was made
//   C10 fn-supplier          the executed function was executed twice, started before the call that supplied it, or its
//                            supplier (a blocking/async call) was not answered by that very execution
//   C10 start-not-followed   a Start/StartAfter (or any call) with no execution of its key starting after it
//   C10 execs-gt-calls       more executions than calls on a key
//   C10 residue              key map not empty / library goroutines above the baseline after everything finished
//   C10 fresh-call           a fresh Call afterwards did not behave like a first call (own function, run once, own result)
//
// Records: `F exclusive_case <id> <keys> <calls> <execs> <phasemask> | 1` and, per key,
// `F exclusive_ineq <id>.k<key> <issuedc> <issueds> <started> <answered> | 1` (the checker adapter evaluates the
// inequalities proved for terminal states of the abstract model, and, for small counts, that the extracted model has a
// terminal state with exactly these counts).

const (
	exCall = iota
	exCallAfter
	exCallAsync
	exCallAfterAsync
	exStart
	exStartAfter
	exOptWork      // CallWithOptions(ExclusiveWork, [ExclusiveWait])
	exOptWorkStart // CallWithOptions(ExclusiveWork, ExclusiveStart(true), [ExclusiveWait])
	exNStyles
)

var exStyleName = [...]string{"call", "callafter", "callasync", "callafterasync", "start", "startafter", "optwork", "optworkstart"}

func exIsStart(style int) bool {
	return style == exStart || style == exStartAfter || style == exOptWorkStart
}
func exIsWork(style int) bool { return style == exOptWork || style == exOptWorkStart }

// function behaviours
const (
	exModeValue     = iota // value style: resolve and return coincide
	exModeResolve          // work style: resolve, (gate), return
	exModeNoResolve        // work style: return without resolving
	exModeTwice            // work style: resolve twice (the second must be ignored), return
)

// error kinds
const (
	exErrNil = iota
	exErrNotCalled
	exErrFn
	exErrOther
)

type exFnErr struct{ fid int }

func (e *exFnErr) Error() string { return fmt.Sprintf("fn %d failed", e.fid) }

type exFn struct {
	env         *exEnv
	fid, key    int
	call        int // index of the supplying call
	mode        int
	fail        bool
	inner       time.Duration // ungated functions: time between resolve and return
	gateResolve chan struct{}
	gateReturn  chan struct{}
	relResolve  bool // controller's view
	relReturn   bool
	// written under env.mu
	execs                              int
	startTick, resolveTick, returnTick int
	seenStart                          bool
}

func (f *exFn) result() int { return f.fid*10 + f.mode }
func (f *exFn) err() error {
	if f.fail {
		return &exFnErr{f.fid}
	}
	return nil
}
func (f *exFn) errKind() int {
	if f.fail {
		return exErrFn
	}
	return exErrNil
}

func (f *exFn) begin() {
	f.env.mu.Lock()
	f.execs++
	if f.startTick == 0 {
		f.startTick = tick()
	} else {
		tick()
	}
	f.env.mu.Unlock()
	select {
	case f.env.started <- f:
	default:
	}
}

func (f *exFn) mark(p *int) {
	f.env.mu.Lock()
	*p = tick()
	f.env.mu.Unlock()
}

func (f *exFn) value() (interface{}, error) {
	f.begin()
	<-f.gateResolve
	<-f.gateReturn
	if f.inner > 0 {
		time.Sleep(f.inner)
	}
	f.mark(&f.resolveTick)
	f.mark(&f.returnTick)
	return f.result(), f.err()
}

func (f *exFn) work(resolve func(interface{}, error)) {
	f.begin()
	switch f.mode {
	case exModeNoResolve:
		<-f.gateResolve
		<-f.gateReturn
		if f.inner > 0 {
			time.Sleep(f.inner)
		}
	default:
		<-f.gateResolve
		f.mark(&f.resolveTick)
		resolve(f.result(), f.err())
		if f.mode == exModeTwice {
			resolve(-7, nil)
		}
		<-f.gateReturn
		if f.inner > 0 {
			time.Sleep(f.inner)
		}
	}
	f.mark(&f.returnTick)
}

type exCallRec struct {
	id, key, style int
	fn             *exFn
	wait           time.Duration
	inv            int
	done           chan struct{}
	// written before close(done)
	ret     int
	got     bool
	res     int // -1: nil result, -2: not an int
	errk    int
	errFid  int
	badChan string
}

type exEnv struct {
	h       *hctx
	e       *Exclusive
	keys    []interface{}
	mu      sync.Mutex
	calls   []*exCallRec
	fns     []*exFn
	started chan *exFn
	fidBase int
	id      string
	phases  int
	gapSeen map[[2]int]bool // (call, fn): call was unanswered at a quiescent point where fn had resolved, return held
	gapFns  map[int]bool    // functions for which such a quiescent point was observed
	quiet   int             // tick at which every call had finished and the key map was checked (before the fresh calls)
}

var exKeyPool = []interface{}{nil, "k1", 2}

// exKeyObj: keys may be pointers (identity, not contents, is the key: two distinct pointers with equal pointees are two keys,
// and a pointer stays the same key while its pointee changes - the harness changes it before every call) or other
// comparable non-scalar values
type exKeyObj struct{ v int }

func newExEnv(h *hctx, id string, nkeys int) *exEnv {
	keys := exKeyPool[:nkeys]
	if h.rng.Intn(3) == 0 {
		keys = []interface{}{&exKeyObj{}, &exKeyObj{}, [2]int{1, 2}}[:nkeys]
		h.count("env_with_pointer_keys", 1)
	}
	return &exEnv{h: h, e: new(Exclusive), keys: keys, started: make(chan *exFn, 4096), id: id,
		gapSeen: map[[2]int]bool{}, gapFns: map[int]bool{}}
}

func (env *exEnv) monitor(prop, format string, args ...interface{}) {
	env.h.line("MONITOR %s %s case=%s", prop, fmt.Sprintf(format, args...), env.id)
}

func exClosed() chan struct{} { c := make(chan struct{}); close(c); return c }

// issue makes one call in its own goroutine (so that a hang inside the API is observable).
func (env *exEnv) issue(style, key, mode int, fail, gated bool, wait, inner time.Duration) *exCallRec {
	env.mu.Lock()
	f := &exFn{env: env, fid: len(env.fns) + 1, key: key, call: len(env.calls), mode: mode, fail: fail, inner: inner}
	if gated {
		f.gateResolve, f.gateReturn = make(chan struct{}), make(chan struct{})
	} else {
		f.gateResolve, f.gateReturn = exClosed(), exClosed()
		f.relResolve, f.relReturn = true, true
	}
	c := &exCallRec{id: len(env.calls), key: key, style: style, fn: f, wait: wait, done: make(chan struct{}), res: -1}
	env.fns = append(env.fns, f)
	env.calls = append(env.calls, c)
	if ko, ok := env.keys[key].(*exKeyObj); ok {
		ko.v++ // the pointee changes between calls; the key does not
	}
	c.inv = tick()
	env.mu.Unlock()
	env.h.count("style_"+exStyleName[style], 1)
	k := env.keys[key]
	finish := func(v interface{}, err error) {
		c.got = true
		switch x := v.(type) {
		case nil:
			c.res = -1
		case int:
			c.res = x
		default:
			c.res = -2
		}
		switch x := err.(type) {
		case nil:
			c.errk = exErrNil
		case *exFnErr:
			c.errk, c.errFid = exErrFn, x.fid
		default:
			if err == errResolveNotCalled {
				c.errk = exErrNotCalled
			} else {
				c.errk = exErrOther
			}
		}
	}
	fromChan := func(ch <-chan *ExclusiveOutcome) {
		if ch == nil {
			c.badChan = "nil-channel"
			return
		}
		var o *ExclusiveOutcome
		t := time.NewTimer(exHangDeadline + 2*time.Second)
		defer t.Stop()
		select {
		case o = <-ch:
		case <-t.C:
			return // reported as a hang by the controller (done is never closed in time)
		}
		if o == nil {
			c.badChan = "closed-without-outcome"
			return
		}
		finish(o.Result, o.Error)
		select {
		case o2, ok := <-ch:
			if ok || o2 != nil {
				c.badChan = "second-outcome"
			}
		case <-time.After(2 * time.Second):
			c.badChan = "not-closed"
		}
	}
	go func() {
		defer func() {
			env.mu.Lock()
			c.ret = tick()
			env.mu.Unlock()
			close(c.done)
		}()
		switch style {
		case exCall:
			finish(env.e.Call(k, f.value))
		case exCallAfter:
			finish(env.e.CallAfter(k, f.value, wait))
		case exCallAsync:
			fromChan(env.e.CallAsync(k, f.value))
		case exCallAfterAsync:
			fromChan(env.e.CallAfterAsync(k, f.value, wait))
		case exStart:
			env.e.Start(k, f.value)
		case exStartAfter:
			env.e.StartAfter(k, f.value, wait)
		case exOptWork:
			fromChan(env.e.CallWithOptions(ExclusiveKey(k), ExclusiveWait(wait), ExclusiveWork(f.work)))
		case exOptWorkStart:
			if ch := env.e.CallWithOptions(ExclusiveWork(f.work), ExclusiveKey(k), ExclusiveStart(true), ExclusiveWait(wait)); ch != nil {
				c.badChan = "start-style-returned-channel"
			}
		}
	}()
	return c
}

const exHangDeadline = 2 * time.Second

// after a few hangs / residue failures the remaining cases of a scenario are skipped (each costs a full deadline)
var exHangs, exResidues int

func exGiveUp(h *hctx) bool {
	if exHangs >= 3 || exResidues >= 8 {
		h.count("cases_skipped_after_hangs", 1)
		return true
	}
	return false
}

func (env *exEnv) pollStarted() {
	for {
		select {
		case f := <-env.started:
			f.seenStart = true
		default:
			return
		}
	}
}

func (env *exEnv) releaseAll() {
	env.mu.Lock()
	fns := append([]*exFn(nil), env.fns...)
	env.mu.Unlock()
	for _, f := range fns {
		env.release(f, true, true)
	}
}

func (env *exEnv) release(f *exFn, res, ret bool) {
	if res && !f.relResolve {
		f.relResolve = true
		close(f.gateResolve)
	}
	if ret && !f.relReturn {
		f.relReturn = true
		close(f.gateReturn)
	}
}

func (env *exEnv) waitAll(d time.Duration) bool {
	t := time.NewTimer(d)
	defer t.Stop()
	env.mu.Lock()
	calls := append([]*exCallRec(nil), env.calls...)
	env.mu.Unlock()
	for _, c := range calls {
		select {
		case <-c.done:
		case <-t.C:
			return false
		}
	}
	return true
}

func exDone(c *exCallRec) bool {
	select {
	case <-c.done:
		return true
	default:
		return false
	}
}

func (env *exEnv) mapLen() int {
	mu := fld[sync.Mutex](env.e, "mutex")
	mu.Lock()
	n := fldLen(env.e, "work", reflect.Map)
	mu.Unlock()
	return n
}

// finishCase: open every gate, wait for every call, check for residue, make a fresh call, evaluate the monitors.
func (env *exEnv) finishCase(base int, slack time.Duration) {
	h := env.h
	env.releaseAll()
	if !env.waitAll(exHangDeadline + slack) {
		exHangs++
		for _, c := range env.calls {
			if !exDone(c) {
				env.monitor("C10", "hang call=%d style=%s key=%d mode=%d", c.id, exStyleName[c.style], c.key, c.fn.mode)
			}
		}
		h.line("F exclusive_case %s %d %d 0 0 | 1", env.id, len(env.keys), len(env.calls))
		return
	}
	env.residue(base, "after-calls")
	env.mu.Lock()
	env.quiet = tick()
	env.mu.Unlock()
	// a fresh call on every key behaves like a first call
	for key := range env.keys {
		c := env.issue(exCall, key, exModeValue, false, false, 0, 0)
		select {
		case <-c.done:
			env.mu.Lock()
			ok := c.got && c.res == c.fn.result() && c.errk == exErrNil && c.fn.execs == 1
			env.mu.Unlock()
			if !ok {
				env.monitor("C10", "fresh-call key=%d got=%v res=%d errk=%d execs=%d", key, c.got, c.res, c.errk, c.fn.execs)
			}
		case <-time.After(exHangDeadline):
			env.monitor("C10", "hang fresh-call key=%d", key)
			return
		}
	}
	env.residue(base, "after-fresh-call")
	env.evaluate()
}

func (env *exEnv) residue(base int, when string) {
	end := time.Now().Add(2 * time.Second)
	for {
		n, g := env.mapLen(), libGoroutineCount()
		if n == 0 && g <= base {
			return
		}
		if time.Now().After(end) {
			env.monitor("C10", "residue %s map-entries=%d lib-goroutines=%d baseline=%d", when, n, g, base)
			exResidues++
			return
		}
		time.Sleep(300 * time.Microsecond)
	}
}

func (env *exEnv) evaluate() {
	h := env.h
	env.mu.Lock()
	defer env.mu.Unlock()
	byFid := map[int]*exFn{}
	for _, f := range env.fns {
		byFid[f.fid] = f
	}
	totalExecs := 0
	for key := range env.keys {
		var execs []*exFn
		issuedc, issueds, answered := 0, 0, 0
		for _, f := range env.fns {
			if f.key == key && f.startTick > 0 {
				execs = append(execs, f)
			}
		}
		sort.Slice(execs, func(i, j int) bool { return execs[i].startTick < execs[j].startTick })
		totalExecs += len(execs)
		// C09: executions of one key never overlap
		for i := 0; i+1 < len(execs); i++ {
			a, b := execs[i], execs[i+1]
			if a.returnTick == 0 || a.returnTick > b.startTick {
				env.monitor("C09", "overlap key=%d fn=%d [start %d resolve %d return %d] next fn=%d start %d", key, a.fid, a.startTick,
					a.resolveTick, a.returnTick, b.fid, b.startTick)
			}
		}
		for _, f := range execs {
			if f.returnTick == 0 {
				env.monitor("C10", "hang exec key=%d fn=%d never returned", key, f.fid)
			}
			sup := env.calls[f.call]
			if f.execs != 1 {
				env.monitor("C10", "fn-supplier executed-%d-times key=%d fn=%d", f.execs, key, f.fid)
			}
			if sup.inv > f.startTick {
				env.monitor("C10", "fn-supplier started-before-supplied key=%d fn=%d", key, f.fid)
			}
			if !exIsStart(sup.style) && sup.got {
				mine := sup.res == f.result() || (f.mode == exModeNoResolve && sup.res == -1 && sup.errk == exErrNotCalled)
				if !mine {
					env.monitor("C10", "fn-supplier not-coalesced key=%d fn=%d supplier call=%d got res=%d", key, f.fid, sup.id, sup.res)
				}
			}
		}
		groups := map[int][2]int{}
		for _, c := range env.calls {
			if c.key != key {
				continue
			}
			if c.badChan != "" {
				env.monitor("C10", "outcome-count %s call=%d style=%s", c.badChan, c.id, exStyleName[c.style])
			}
			// every call is followed by an execution of its key that starts after it (the harness's own fresh calls, made
			// after everything had finished, do not count as followers of earlier calls)
			followed := false
			for _, f := range execs {
				if f.startTick > c.inv && (c.inv > env.quiet || f.startTick < env.quiet) {
					followed = true
				}
			}
			if !followed {
				env.monitor("C10", "start-not-followed call=%d style=%s key=%d inv=%d", c.id, exStyleName[c.style], key, c.inv)
			}
			if exIsStart(c.style) {
				issueds++
				if c.got {
					env.monitor("C10", "outcome-count start-style call=%d received an outcome", c.id)
				}
				continue
			}
			issuedc++
			if !c.got {
				if c.badChan == "" {
					env.monitor("C10", "outcome-count call=%d style=%s returned without an outcome", c.id, exStyleName[c.style])
				}
				continue
			}
			answered++
			switch {
			case c.res == -1:
				ok := false
				if c.errk == exErrNotCalled {
					for _, f := range execs {
						if f.mode == exModeNoResolve && f.startTick > c.inv && f.returnTick != 0 && f.returnTick < c.ret {
							ok = true
						}
					}
				}
				if !ok {
					env.monitor("C10", "resolve-not-called call=%d key=%d nil result errk=%d without a matching execution", c.id, key, c.errk)
				}
			case c.res < 0 || byFid[c.res/10] == nil:
				env.monitor("C10", "outcome-not-resolved-value call=%d unknown result %d", c.id, c.res)
			default:
				f := byFid[c.res/10]
				if g, seen := groups[f.fid]; seen && (g[0] != c.res || g[1] != c.errk) {
					env.monitor("C10", "coalesced-differ fn=%d (%d,%d) vs (%d,%d)", f.fid, g[0], g[1], c.res, c.errk)
				}
				groups[f.fid] = [2]int{c.res, c.errk}
				if f.key != key {
					env.monitor("C10", "cross-key call=%d key=%d answered by fn=%d of key=%d", c.id, key, f.fid, f.key)
				}
				if f.startTick == 0 || f.startTick < c.inv {
					env.monitor("C10", "stale-result call=%d key=%d inv=%d answered by fn=%d started=%d", c.id, key, c.inv, f.fid, f.startTick)
				}
				if f.mode == exModeNoResolve || c.res != f.result() || c.errk != f.errKind() || (c.errk == exErrFn && c.errFid != f.fid) {
					env.monitor("C10", "outcome-not-resolved-value call=%d res=%d errk=%d fn=%d resolved (%d,%d) mode=%d", c.id, c.res,
						c.errk, f.fid, f.result(), f.errKind(), f.mode)
				}
				if f.resolveTick == 0 || f.resolveTick > c.ret {
					env.monitor("C10", "outcome-not-resolved-value call=%d answered before fn=%d resolved", c.id, f.fid)
				}
			}
		}
		for _, f := range execs {
			if !env.gapFns[f.fid] {
				continue
			}
			coalesced := 0
			for _, c := range env.calls {
				if c.key != key || exIsStart(c.style) || !c.got || c.res != f.result() {
					continue
				}
				coalesced++
				if env.gapSeen[[2]int{c.id, f.fid}] {
					env.monitor("C10", "unanswered-after-resolve call=%d style=%s key=%d fn=%d (work resolved at %d, return still held; "+
						"the call was answered by this execution only at %d)", c.id, exStyleName[c.style], key, f.fid, f.resolveTick, c.ret)
				}
			}
			h.count("gapcheck_execs", 1)
			if coalesced >= 3 {
				h.count("gapcheck_execs_ge3_callers", 1)
				env.phases |= exPhCoalesced3
			}
			h.count(fmt.Sprintf("gapcheck_callers_%d", coalesced), 1)
		}
		if len(execs) > issuedc+issueds {
			env.monitor("C10", "execs-gt-calls key=%d execs=%d calls=%d", key, len(execs), issuedc+issueds)
		}
		if issuedc+issueds > 0 {
			h.line("F exclusive_ineq %s.k%d %d %d %d %d | 1", env.id, key, issuedc, issueds, len(execs), answered)
			if len(execs) < issuedc+issueds {
				h.count("keys_with_coalescing", 1)
			}
		}
	}
	h.count("calls", len(env.calls))
	h.count("executions", totalExecs)
	h.line("F exclusive_case %s %d %d %d %d | 1", env.id, len(env.keys), len(env.calls), totalExecs, env.phases)
}

// quiesceCheck waits for quiescence; at a quiescent point every function that has resolved and is blocked on its return
// gate has finished `resolve`, so every caller coalesced into its execution must already hold its outcome. Which
// callers those are is only known from their eventual outcome, so the unanswered ones are remembered here and judged
// in evaluate (a caller that was merely waiting for the NEXT execution is not a violation).
func (env *exEnv) quiesceCheck() bool {
	if !quiesce(150*time.Microsecond, 2*time.Second) {
		env.h.count("quiesce_timeouts", 1)
		return false
	}
	env.pollStarted()
	env.mu.Lock()
	defer env.mu.Unlock()
	for _, f := range env.fns {
		if f.startTick == 0 || f.resolveTick == 0 || f.returnTick != 0 || f.relReturn || !f.relResolve ||
			(f.mode != exModeResolve && f.mode != exModeTwice) {
			continue
		}
		env.gapFns[f.fid] = true
		for _, c := range env.calls {
			if c.key == f.key && !exIsStart(c.style) && !exDone(c) {
				env.gapSeen[[2]int{c.id, f.fid}] = true
			}
		}
	}
	return true
}

// ---- misuse calls ----------------------------------------------------------------------------------------------------

const exNMisuse = 8

var exMisuseName = [exNMisuse]string{"call_nil", "callasync_nil", "startafter_nil", "options_without_work", "callafter_nil", "start_nil",
	"options_start_without_work", "nil_receiver"}

// misuse makes one call that is documented to panic, in its own goroutine and under recover. It is not part of the
// history. (The nil-receiver variant touches no state at all.)
func (env *exEnv) misuse(variant, key int) {
	k := env.keys[key]
	res := make(chan bool, 1)
	go func() {
		defer func() { res <- recover() != nil }()
		switch variant {
		case 0:
			_, _ = env.e.Call(k, nil)
		case 1:
			_ = env.e.CallAsync(k, nil)
		case 2:
			env.e.StartAfter(k, nil, time.Millisecond)
		case 3:
			_ = env.e.CallWithOptions(ExclusiveKey(k))
		case 4:
			_, _ = env.e.CallAfter(k, nil, 2*time.Millisecond)
		case 5:
			env.e.Start(k, nil)
		case 6:
			_ = env.e.CallWithOptions(ExclusiveStart(true), ExclusiveKey(k), ExclusiveWait(time.Millisecond))
		default:
			_, _ = (*Exclusive)(nil).Call(k, func() (interface{}, error) { return nil, nil })
		}
	}()
	env.h.count("misuse_"+exMisuseName[variant], 1)
	select {
	case panicked := <-res:
		if !panicked {
			env.monitor("C10", "misuse-no-panic %s key=%d returned normally", exMisuseName[variant], key)
		}
	case <-time.After(exHangDeadline):
		env.monitor("C10", "hang misuse %s key=%d neither returned nor panicked", exMisuseName[variant], key)
	}
}

// ---- phases, as seen by the controller ------------------------------------------------------------------------------

const (
	exPhIdle = 1 << iota
	exPhSleepWin
	exPhRunning
	exPhGap
	exPhBusy
	exPhCoalesced3 // a resolve-to-return gap was observed at quiescence on an execution with >= 3 coalesced callers
)

func (env *exEnv) phaseOf(key int) (int, string) {
	env.pollStarted()
	env.mu.Lock()
	defer env.mu.Unlock()
	busy, sleepwin := false, false
	for _, f := range env.fns {
		if f.key != key {
			continue
		}
		if f.seenStart && f.returnTick == 0 {
			if f.resolveTick != 0 && f.mode != exModeValue {
				return exPhGap, "gap"
			}
			return exPhRunning, "running"
		}
	}
	for _, c := range env.calls {
		if c.key != key {
			continue
		}
		if c.fn.startTick == 0 && !exDone(c) {
			busy = true
			if c.wait > 0 {
				sleepwin = true
			}
		}
	}
	if sleepwin {
		return exPhSleepWin, "sleepwin"
	}
	if busy {
		return exPhBusy, "busy"
	}
	return exPhIdle, "idle"
}

// heldKeys: keys on which some started function is still gated
func (env *exEnv) held() (running []*exFn) {
	env.pollStarted()
	env.mu.Lock()
	defer env.mu.Unlock()
	for _, f := range env.fns {
		if f.seenStart && f.returnTick == 0 && (!f.relResolve || !f.relReturn) {
			running = append(running, f)
		}
	}
	return
}

// quietKey: no function of the key, started or not, is still gated (so after quiescence the key is idle)
func (env *exEnv) quietKey(key int) bool {
	env.mu.Lock()
	defer env.mu.Unlock()
	for _, f := range env.fns {
		if f.key == key && (!f.relResolve || !f.relReturn) {
			return false
		}
	}
	return true
}

const exIndependenceDeadline = 500 * time.Millisecond

// probe: while a work function of another key is held, a call on an idle key completes promptly
func (env *exEnv) probe() bool {
	hs := env.held()
	if len(hs) == 0 || len(env.keys) < 2 {
		return false
	}
	for key := range env.keys {
		if !env.quietKey(key) {
			continue
		}
		if !env.quiesceCheck() {
			return false
		}
		if hs = env.held(); len(hs) == 0 {
			return false
		}
		c := env.issue(exCall, key, exModeValue, false, false, 0, 0)
		select {
		case <-c.done:
			env.h.count("independence_probes", 1)
		case <-time.After(exIndependenceDeadline):
			env.monitor("C09", "independence call on key=%d did not complete within %v while fn=%d of key=%d was held", key,
				exIndependenceDeadline, hs[0].fid, hs[0].key)
		}
		return true
	}
	return false
}

func exRandStyle(rng *rand.Rand) int {
	r := rng.Intn(100)
	switch {
	case r < 16:
		return exCall
	case r < 28:
		return exCallAfter
	case r < 40:
		return exCallAsync
	case r < 50:
		return exCallAfterAsync
	case r < 60:
		return exStart
	case r < 68:
		return exStartAfter
	case r < 90:
		return exOptWork
	default:
		return exOptWorkStart
	}
}

func exRandMode(rng *rand.Rand, style int) int {
	if !exIsWork(style) {
		return exModeValue
	}
	r := rng.Intn(100)
	switch {
	case r < 55:
		return exModeResolve
	case r < 80:
		return exModeNoResolve
	default:
		return exModeTwice
	}
}

func exRandWait(rng *rand.Rand, style int, long bool) time.Duration {
	switch style {
	case exCallAfter, exCallAfterAsync, exStartAfter:
	case exOptWork, exOptWorkStart:
		if rng.Intn(3) != 0 {
			return 0
		}
	default:
		return 0
	}
	if long {
		return time.Duration(4+rng.Intn(5)) * time.Millisecond
	}
	return time.Duration(1+rng.Intn(3)) * time.Millisecond
}

func init() {
	register("C09K1", func(h *hctx) {
		for i := 0; i < h.n; i++ {
			exK1Case(h, i)
		}
	})
	register("C09K2", func(h *hctx) {
		for i := 0; i < h.n; i++ {
			exK2Case(h, i)
		}
	})
	register("C09S", func(h *hctx) { timedSweep(h, "c09", exSweepVariants()) })
}

// coalesceScript: 3-6 blocking/async callers coalesced into ONE execution whose function (supplied by the last attacher:
// work style, gated) resolves while its return is held; the quiescent point in between is checked by quiesceCheck.
// Variant 0: the callers queue up behind a running predecessor; variant 1: they arrive inside a CallAfter wait.
func (env *exEnv) coalesceScript(rng *rand.Rand, key int) {
	h := env.h
	blocking := []int{exCall, exCallAsync, exOptWork, exCallAsync, exCall}
	more := 1 + rng.Intn(4) // callers besides the first and the last
	mode := exModeResolve
	if rng.Intn(4) == 0 {
		mode = exModeTwice
	}
	var last *exCallRec
	if rng.Intn(2) == 0 {
		p := env.issue(exOptWork, key, exModeResolve, false, true, 0, 0)
		env.quiesceCheck()
		for j := 0; j <= more; j++ {
			st := blocking[rng.Intn(len(blocking))]
			env.issue(st, key, exRandMode(rng, st), rng.Intn(4) == 0, false, 0, 0)
			if rng.Intn(2) == 0 {
				time.Sleep(time.Duration(50+rng.Intn(200)) * time.Microsecond)
			}
		}
		last = env.issue(exOptWork, key, mode, rng.Intn(4) == 0, true, 0, 0)
		env.quiesceCheck()
		env.release(p.fn, true, true)
		h.count("coalesce_script_behind_predecessor", 1)
	} else {
		first := exCallAfter
		if rng.Intn(2) == 0 {
			first = exCallAfterAsync
		}
		env.issue(first, key, exModeValue, false, false, time.Duration(5+rng.Intn(4))*time.Millisecond, 0)
		for j := 0; j < more; j++ {
			time.Sleep(time.Duration(100+rng.Intn(300)) * time.Microsecond)
			st := blocking[rng.Intn(len(blocking))]
			env.issue(st, key, exRandMode(rng, st), rng.Intn(4) == 0, false, 0, 0)
		}
		time.Sleep(time.Duration(100+rng.Intn(300)) * time.Microsecond)
		last = env.issue(exOptWork, key, mode, rng.Intn(4) == 0, true, 0, 0)
		h.count("coalesce_script_callafter_window", 1)
	}
	env.quiesceCheck() // the wait is over / the predecessor has finished: last.fn should be running now
	env.release(last.fn, true, false)
	env.quiesceCheck() // resolved, return held: every coalesced caller must be answered HERE
	if rng.Intn(2) == 0 {
		env.release(last.fn, true, true)
		env.quiesceCheck()
	}
}

// ---- K1: gated scripts ---------------------------------------------------------------------------------------------

func exK1Case(h *hctx, i int) {
	if exGiveUp(h) {
		return
	}
	rng := h.rng
	base, _ := waitLibBaseline(0, 20*time.Millisecond)
	nkeys := 1 + rng.Intn(3)
	env := newExEnv(h, fmt.Sprintf("k1-%d-%d", h.seed, i), nkeys)
	nact := 5 + rng.Intn(12)
	settle := func() {
		switch r := rng.Intn(10); {
		case r < 6:
			env.quiesceCheck()
		case r < 9:
			time.Sleep(time.Duration(100+rng.Intn(500)) * time.Microsecond)
		}
	}
	if rng.Intn(10) < 3 {
		env.coalesceScript(rng, rng.Intn(nkeys))
		nact = 2 + rng.Intn(6)
	}
	forceProbe := nkeys >= 2 && rng.Intn(3) == 0 && len(env.calls) == 0
	nextKey := -1 // after releasing only the resolve gate, usually call into the resolve-to-return gap
	for a := 0; a < nact; a++ {
		if forceProbe && a == 1 {
			env.quiesceCheck()
			if env.probe() {
				continue
			}
		}
		if rng.Intn(100) < 12 {
			key := rng.Intn(nkeys)
			_, name := env.phaseOf(key)
			h.count("misuse_at_"+name, 1)
			env.misuse(rng.Intn(exNMisuse), key)
		}
		hs := env.held()
		r := rng.Intn(100)
		switch {
		case r < 55 || len(hs) == 0 || (forceProbe && a == 0) || nextKey >= 0:
			key := rng.Intn(nkeys)
			if nextKey >= 0 {
				key, nextKey = nextKey, -1
			}
			if forceProbe && a == 0 {
				key = 0
			}
			ph, name := env.phaseOf(key)
			env.phases |= ph
			h.count("phase_at_call_"+name, 1)
			style := exRandStyle(rng)
			if forceProbe && a == 0 {
				style = exOptWork
			}
			mode := exRandMode(rng, style)
			gated := rng.Intn(100) < 60 || (forceProbe && a == 0)
			wait := exRandWait(rng, style, rng.Intn(2) == 0)
			if forceProbe && a == 0 {
				wait = 0
			}
			var inner time.Duration
			if !gated && rng.Intn(2) == 0 {
				inner = time.Duration(rng.Intn(400)) * time.Microsecond
			}
			env.issue(style, key, mode, rng.Intn(4) == 0, gated, wait, inner)
			if wait > 0 && rng.Intn(2) == 0 {
				// stay inside the CallAfter window: no quiescence wait
				time.Sleep(time.Duration(100+rng.Intn(400)) * time.Microsecond)
				if rng.Intn(4) == 0 {
					h.count("misuse_at_sleepwin", 1)
					env.misuse(rng.Intn(exNMisuse), key)
				}
				continue
			}
		case r < 72:
			f := hs[rng.Intn(len(hs))]
			env.release(f, true, false)
			h.count("act_release_resolve", 1)
			if f.mode != exModeValue && rng.Intn(10) < 7 {
				nextKey = f.key
			}
		case r < 92:
			f := hs[rng.Intn(len(hs))]
			env.release(f, true, true)
			h.count("act_release_return", 1)
		default:
			if !env.probe() {
				f := hs[rng.Intn(len(hs))]
				env.release(f, true, true)
			}
		}
		settle()
	}
	env.finishCase(base, 0)
	h.count("cases", 1)
}

// ---- K2: free-running bursts ---------------------------------------------------------------------------------------

func exK2Case(h *hctx, i int) {
	if exGiveUp(h) {
		return
	}
	base, _ := waitLibBaseline(0, 20*time.Millisecond)
	nkeys := 1 + h.rng.Intn(3)
	env := newExEnv(h, fmt.Sprintf("k2-%d-%d", h.seed, i), nkeys)
	env.phases = exPhBusy
	ng := 4 + h.rng.Intn(9)
	var wg sync.WaitGroup
	for g := 0; g < ng; g++ {
		rng := rand.New(rand.NewSource(h.rng.Int63()))
		wg.Add(1)
		go func() {
			defer wg.Done()
			for m := 2 + rng.Intn(3); m > 0; m-- {
				if rng.Intn(100) < 15 {
					env.misuse(rng.Intn(exNMisuse), rng.Intn(nkeys))
				}
				style := exRandStyle(rng)
				c := env.issue(style, rng.Intn(nkeys), exRandMode(rng, style), rng.Intn(4) == 0, false, exRandWait(rng, style, false),
					time.Duration(rng.Intn(500))*time.Microsecond)
				if rng.Intn(3) != 0 {
					select {
					case <-c.done:
					case <-time.After(exHangDeadline + 3*time.Second):
						return
					}
				}
				if d := rng.Intn(300); d > 0 && rng.Intn(2) == 0 {
					time.Sleep(time.Duration(d) * time.Microsecond)
				}
			}
		}()
	}
	wg.Wait()
	env.finishCase(base, 3*time.Second)
	h.count("cases", 1)
}

// ---- S: delay-bounded sweep over the synchronisation points of exclusive.go ------------------------------------------

func exSweepVariants() []timedCase {
	gap := func(h *hctx) { time.Sleep(time.Duration(200+h.rng.Intn(300)) * time.Microsecond) }
	waitStart := func(env *exEnv, c *exCallRec, d time.Duration) {
		end := time.Now().Add(d)
		for time.Now().Before(end) {
			env.mu.Lock()
			s := c.fn.startTick
			env.mu.Unlock()
			if s != 0 {
				return
			}
			time.Sleep(50 * time.Microsecond)
		}
	}
	mk := func(name string, body func(h *hctx, env *exEnv, inject time.Duration)) timedCase {
		return timedCase{name: name, delay: 2 * time.Millisecond, hits: 2, run: func(h *hctx, id string, inject time.Duration) {
			if exGiveUp(h) {
				return
			}
			base, _ := waitLibBaseline(0, 20*time.Millisecond)
			env := newExEnv(h, id, 1)
			env.phases = exPhGap
			body(h, env, inject)
			time.Sleep(inject)
			env.finishCase(base, 2*inject)
			h.count("cases", 1)
		}}
	}
	return []timedCase{
		// A resolved but held; B arrives in the resolve-to-return gap; a Start arrives while B waits; A returns; a second
		// Start arrives around the hand-over to B, whose function is held for a while
		mk("gap", func(h *hctx, env *exEnv, inject time.Duration) {
			// three callers coalesced into A's execution: two arrive inside the CallAfter wait of the first, A (the last
			// attacher, so its function is the one executed) resolves and is held before returning
			env.issue(exCallAfterAsync, 0, exModeValue, false, false, 2*time.Millisecond, 0)
			gap(h)
			env.issue(exCall, 0, exModeValue, false, false, 0, 0)
			gap(h)
			a := env.issue(exOptWork, 0, exModeResolve, false, true, 0, 0)
			waitStart(env, a, 100*time.Millisecond+inject)
			env.release(a.fn, true, false)
			env.quiesceCheck() // resolved, return held: all three must have their outcome here
			b := env.issue(exCall, 0, exModeValue, false, true, 0, 0)
			gap(h)
			env.misuse(h.rng.Intn(exNMisuse), 0)
			env.issue(exStart, 0, exModeValue, false, false, 0, 0)
			gap(h)
			env.release(a.fn, true, true)
			gap(h)
			env.issue(exStart, 0, exModeValue, false, false, 0, 0)
			time.Sleep(time.Millisecond)
			env.release(b.fn, true, true)
			gap(h)
			env.issue(exCallAsync, 0, exModeValue, true, false, 0, 0)
		}),
		// the same around a CallAfter wait: B and a StartAfter arrive while the runner sleeps
		mk("after", func(h *hctx, env *exEnv, inject time.Duration) {
			a := env.issue(exCallAfter, 0, exModeValue, false, true, 2*time.Millisecond, 0)
			gap(h)
			env.misuse(h.rng.Intn(exNMisuse), 0)
			env.issue(exCallAsync, 0, exModeValue, false, false, 0, 0)
			gap(h)
			env.issue(exStartAfter, 0, exModeValue, false, false, time.Millisecond, 0)
			time.Sleep(2500 * time.Microsecond)
			env.issue(exCall, 0, exModeValue, false, false, 0, 0)
			gap(h)
			env.release(a.fn, true, true)
			gap(h)
			env.issue(exStart, 0, exModeValue, false, false, 0, 0)
		}),
		// a work function that never resolves, with callers of all kinds attached before and during
		mk("noresolve", func(h *hctx, env *exEnv, inject time.Duration) {
			a := env.issue(exOptWork, 0, exModeNoResolve, false, true, 0, 0)
			waitStart(env, a, 100*time.Millisecond+inject)
			env.issue(exOptWork, 0, exModeNoResolve, false, false, 0, 200*time.Microsecond)
			gap(h)
			env.issue(exCall, 0, exModeValue, false, false, 0, 0)
			gap(h)
			env.issue(exOptWorkStart, 0, exModeTwice, false, false, 0, 0)
			gap(h)
			env.release(a.fn, true, true)
			gap(h)
			env.issue(exCallAsync, 0, exModeValue, false, false, 0, 0)
		}),
	}
}

// ---------------------------------------------------------------------------------------------------------------
// C10ASYNC: the work function hands `resolve` to another goroutine and returns at (nearly) the same instant, so the
// asynchronous resolve races the forced errResolveNotCalled applied when the work function returns.  Exactly one of the
// two must take effect for the execution: every coalesced caller gets exactly one outcome, all of them the same one,
// either the resolved (value, nil) or (nil, errResolveNotCalled).  (A panic in the library - send on / close of a closed
// channel - ends the scenario abnormally, which is reported as such.)
// ---------------------------------------------------------------------------------------------------------------
func init() {
	register("C10ASYNC", func(h *hctx) {
		var e Exclusive
		type got struct {
			n     int
			res   interface{}
			err   error
			extra bool
		}
		read := func(ch <-chan *ExclusiveOutcome) got {
			var g got
			select {
			case o, ok := <-ch:
				if ok && o != nil {
					g.n, g.res, g.err = 1, o.Result, o.Error
				}
			case <-time.After(3 * time.Second):
				return g
			}
			select {
			case o, ok := <-ch:
				if ok && o != nil {
					g.extra = true
				}
			case <-time.After(200 * time.Microsecond):
			}
			return g
		}
		asyncWon, forcedWon := 0, 0
		var sink atomic.Int64
		if runtime.GOMAXPROCS(0) < 2 {
			defer runtime.GOMAXPROCS(runtime.GOMAXPROCS(2))
		}
		for i := 0; i < h.n; i++ {
			key, val := i, 1000+i
			spin := h.rng.Intn(256)
			var execs atomic.Int32
			work := func(resolve func(interface{}, error)) {
				execs.Add(1)
				var spinning, flag atomic.Int32
				go func() {
					spinning.Store(1)
					for flag.Load() == 0 { // busy-wait on another thread: released a few nanoseconds before the return
					}
					resolve(val, nil)
				}()
				for spinning.Load() == 0 {
					runtime.Gosched()
				}
				flag.Store(1)
				for k := 0; k < spin; k++ { // sweep where the return lands relative to the asynchronous resolve
					sink.Add(1)
				}
			}
			chA := e.CallWithOptions(ExclusiveKey(key), ExclusiveWork(work), ExclusiveWait(150*time.Microsecond))
			chB := e.CallWithOptions(ExclusiveKey(key), ExclusiveWork(work), ExclusiveWait(150*time.Microsecond))
			a, b := read(chA), read(chB)
			for j, g := range []got{a, b} {
				if g.n != 1 {
					h.line("MONITOR C10 async-resolve: caller %d of batch %d was not answered within 3 s", j, i)
					return
				}
				if g.extra {
					h.line("MONITOR C10 async-resolve: caller %d of batch %d received a second outcome", j, i)
				}
				okAsync := g.err == nil && g.res == val
				okForced := g.res == nil && g.err == errResolveNotCalled
				if !okAsync && !okForced {
					h.line("MONITOR C10 async-resolve: caller %d of batch %d got (%v, %v), neither the resolved value nor resolve-not-called", j, i, g.res, g.err)
				}
			}
			if execs.Load() == 1 && (a.res != b.res || a.err != b.err) {
				h.line("MONITOR C10 async-resolve: the two coalesced callers of batch %d got different outcomes: (%v, %v) and (%v, %v)", i, a.res, a.err, b.res, b.err)
			}
			if a.err == nil {
				asyncWon++
			} else {
				forcedWon++
			}
		}
		h.count("async_resolve_won", asyncWon)
		h.count("forced_resolve_won", forcedWon)
		// (the two callers of a batch may have been served by two executions - the second registering after the first
		// started - in which case each execution has its own race and only the per-caller checks apply)
	})
}

// ---------------------------------------------------------------------------------------------------------------
// C09RATE: ExclusiveRateLimit's context is cancelled while the rate-limited work function is still executing.  The
// context only cuts the pacing wait short: the key stays held until the work function has RETURNED, so a later call under
// the same key (not guarded by that context) must not start before.
// ---------------------------------------------------------------------------------------------------------------
func init() {
	register("C09RATE", func(h *hctx) {
		for i := 0; i < h.n; i++ {
			var e Exclusive
			key := i
			rctx, cancel := context.WithCancel(context.Background())
			started, release := make(chan struct{}), make(chan struct{})
			var aRunning atomic.Bool
			aDone := make(chan *ExclusiveOutcome, 1)
			go func() {
				aDone <- <-e.CallWithOptions(ExclusiveKey(key), ExclusiveWork(func(resolve func(interface{}, error)) {
					aRunning.Store(true)
					close(started)
					<-release
					if h.rng != nil && i%2 == 0 {
						resolve(1, nil) // resolved, but not yet returned
						time.Sleep(100 * time.Microsecond)
					}
					aRunning.Store(false)
				}), ExclusiveRateLimit(rctx, time.Duration(50+i%300)*time.Microsecond))
			}()
			select {
			case <-started:
			case <-time.After(3 * time.Second):
				h.line("MONITOR C09 rate-limited work function did not start within 3 s (case %d)", i)
				cancel()
				return
			}
			cancel() // mid-flight
			time.Sleep(time.Duration(i%5) * 50 * time.Microsecond)
			overlapped := make(chan bool, 1)
			bDone := make(chan struct{})
			go func() {
				defer close(bDone)
				_, _ = e.Call(key, func() (interface{}, error) {
					overlapped <- aRunning.Load()
					return 2, nil
				})
			}()
			select {
			case ov := <-overlapped:
				if ov {
					h.line("MONITOR C09 overlap: a call started under key %d while the rate-limited work function of the previous call was still executing (its rate-limit context had been cancelled mid-flight; case %d)", key, i)
				} else {
					h.line("MONITOR C09 harness: second call ran although the first function was never released (case %d)", i)
				}
			case <-time.After(time.Duration(200+i%3*100) * time.Microsecond):
				// correct: B is waiting for A's function to return
			}
			close(release)
			for _, ch := range []interface{}{aDone, bDone} {
				switch c := ch.(type) {
				case chan *ExclusiveOutcome:
					select {
					case <-c:
					case <-time.After(3 * time.Second):
						h.line("MONITOR C09 rate-limited call did not return within 3 s of its function returning (case %d)", i)
						return
					}
				case chan struct{}:
					select {
					case <-c:
					case <-time.After(3 * time.Second):
						h.line("MONITOR C09 call queued behind a rate-limited call did not return within 3 s (case %d)", i)
						return
					}
				}
			}
			select {
			case <-overlapped: // B ran after the release: fine
			default:
			}
			h.count("c09rate_cases", 1)
		}
	})
}
