//go:build verif

package bigbuff

// Standalone monitor scenarios for the Channel prompted by seeded "plausible improvement" changes: behaviour that the random
// histories of C13K1/C13K2 and the shutdown cases of C12LEAK do not reach (a Channel built on a context that is cancelled
// already, thousands of uncommitted values, callers that modify the slice returned by Buffer). Public API only.

import (
	"context"
	"errors"
	"fmt"
	"sync"
	"time"
)

// chxGuard runs f in a goroutine of its own and reports the value it panicked with (nil if none) and whether it returned
// within 3 s.
func chxGuard(f func()) (pan interface{}, returned bool) {
	out := make(chan interface{}, 1)
	go func() {
		defer func() { out <- recover() }()
		f()
	}()
	select {
	case r := <-out:
		return r, true
	case <-time.After(3 * time.Second):
		return nil, false
	}
}

// chxDeadCtx is a context of a type the context package does not know that has ended already, with an error of its own.
type chxDeadCtx struct {
	done chan struct{}
	err  error
}

func (d *chxDeadCtx) Deadline() (time.Time, bool)       { return time.Time{}, false }
func (d *chxDeadCtx) Done() <-chan struct{}             { return d.done }
func (d *chxDeadCtx) Err() error                        { return d.err }
func (d *chxDeadCtx) Value(key interface{}) interface{} { return nil }

type chxKey struct{}

var chxKindNames = []string{"WithCancel cancelled before NewChannel", "WithDeadline in the past", "WithTimeout 0",
	"WithCancelCause cancelled with a custom cause", "a foreign context type that has ended with its own error",
	"WithValue child of a cancelled context", "cancelled right after NewChannel returned", "WithTimeout of some microseconds"}

// chxRef is the cursor specification of C13 for a source stream base, base+1, ...: c values are committed, t have been taken
// from the source, p (c <= p <= t) is the position the next Get delivers.
type chxRef struct {
	h       *hctx
	what    string
	ch      *Channel
	ctx     context.Context
	base    int
	c, p, t int
	bad     bool
}

func (r *chxRef) fail(format string, args ...interface{}) {
	if !r.bad {
		r.h.line("MONITOR C13 %s: %s", r.what, fmt.Sprintf(format, args...))
	}
	r.bad = true
}

// get performs m Gets; each must return the value under the cursor (a replayed one while p < t, else the next of the source).
func (r *chxRef) get(m int) {
	for j := 0; j < m && !r.bad; j++ {
		v, err := r.ch.Get(r.ctx)
		want := r.base + r.p
		replay := r.p < r.t
		if err != nil {
			r.fail("Get failed (%v) on an open Channel; expected stream position %d (replay=%v; committed %d, delivered %d, taken %d)", err, r.p, replay, r.c, r.p, r.t)
			return
		}
		if iv, ok := v.(int); !ok || iv != want {
			r.fail("Get returned %v, expected the value at stream position %d (= %d; replay=%v; committed %d, delivered %d, taken %d)", v, r.p, want, replay, r.c, r.p, r.t)
			return
		}
		r.p++
		if r.p > r.t {
			r.t = r.p
		}
	}
}

func (r *chxRef) commit() {
	if r.bad {
		return
	}
	err := r.ch.Commit()
	if (err != nil) != (r.p == r.c) {
		r.fail("Commit returned %v with %d values delivered and not committed", err, r.p-r.c)
		return
	}
	r.c = r.p
}

func (r *chxRef) rollback() {
	if r.bad {
		return
	}
	err := r.ch.Rollback()
	if (err != nil) != (r.p == r.c) {
		r.fail("Rollback returned %v with %d values delivered and not committed", err, r.p-r.c)
		return
	}
	r.p = r.c
}

// pending is what Buffer must return: the values taken and not committed, in source order.
func (r *chxRef) pending() []int {
	l := make([]int, 0, r.t-r.c)
	for k := r.c; k < r.t; k++ {
		l = append(l, r.base+k)
	}
	return l
}

func chxSame(b []interface{}, want []int) (int, bool) {
	if len(b) != len(want) {
		return -1, false
	}
	for k := range b {
		if iv, ok := b[k].(int); !ok || iv != want[k] {
			return k, false
		}
	}
	return 0, true
}

// buffer checks "the committed values followed by Buffer() are exactly the prefix of the source stream that has been taken".
func (r *chxRef) buffer(when string) {
	if r.bad {
		return
	}
	r.checkSlice(when, "Buffer()", r.ch.Buffer(), r.pending())
}

func (r *chxRef) checkSlice(when, name string, b []interface{}, want []int) {
	if r.bad {
		return
	}
	if at, ok := chxSame(b, want); !ok {
		if at < 0 {
			r.fail("%s: %s has %d values, expected the %d values taken and not committed (stream positions %d..%d; committed %d, delivered %d, taken %d)", when, name, len(b), len(want), r.c, r.t-1, r.c, r.p, r.t)
		} else {
			r.fail("%s: %s[%d] = %v, expected %d (stream position %d; committed %d, delivered %d, taken %d)", when, name, at, b[at], want[at], r.c+at, r.c, r.p, r.t)
		}
	}
}

// chxScribble is a caller doing what it likes with a slice it was given: it always changes at least one element (len >= 2).
func chxScribble(b []interface{}, mode int) string {
	switch mode % 4 {
	case 0:
		for k := range b {
			b[k] = nil
		}
		return "set to nil"
	case 1:
		for k := range b {
			b[k] = -1 - k
		}
		return "overwritten with other values"
	case 2:
		for i, j := 0, len(b)-1; i < j; i, j = i+1, j-1 {
			b[i], b[j] = b[j], b[i]
		}
		return "reversed"
	default:
		n := len(b)
		b = b[:0]
		for k := 0; k < n; k++ {
			b = append(b, "junk")
		}
		return "truncated and refilled"
	}
}

func init() {
	// C12PRECANCEL: "Closing a ... Channel, explicitly or by cancelling the context it was built on, terminates, closes its Done
	// channel, makes later ... Get and Commit return an error rather than block or panic, and makes a second Close return an
	// error ... no goroutine started by the library is still running" - for Channels whose context has ended BEFORE NewChannel
	// is called (cancelled, deadline passed, timeout 0, custom cause, foreign context type, child of a cancelled context) or
	// ends right after it returned, with the explicit Close that every caller defers: after Done, racing the close by the
	// context, or two at once. No Close may panic or block; a Close after Done was seen closed is a second close (error); of all
	// the explicit Closes at most one returns nil; the one made after all others returns an error.
	register("C12PRECANCEL", func(h *hctx) {
		for i := 0; i < h.n; i++ {
			if !chxPrecancelCase(h, i) {
				return
			}
		}
	})

	// C13BIG: "Every value a Channel takes from its source is returned by Get in source order, replayed in the same order after
	// Rollback, and dropped from its pending buffer only by Commit, so at any quiescent point the committed values followed by
	// Buffer() are exactly the prefix of the source stream that has been taken" - with thousands (one case in six: tens of
	// thousands) of values taken and not committed, a Rollback, a partial re-read of k of them, a Commit, and then random
	// rounds of large Get runs / Rollback / Commit / Buffer against the cursor specification; finally nothing beyond what was
	// delivered is missing from the source, and Close does not drop the pending values.
	register("C13BIG", func(h *hctx) {
		for i := 0; i < h.n; i++ {
			i := i
			done := make(chan interface{}, 1)
			go func() {
				defer func() { done <- recover() }()
				chxBigCase(h, i)
			}()
			select {
			case r := <-done:
				if r != nil {
					h.line("MONITOR C13 big case %d: a Channel method panicked: %v", i, r)
				}
			case <-time.After(60 * time.Second):
				h.line("MONITOR C13 big case %d: did not finish within 60 s", i)
				return
			}
		}
	})

	// C13ALIAS: values are "dropped from its pending buffer only by Commit" and "the committed values followed by Buffer() are
	// exactly the prefix of the source stream that has been taken": what a caller does to a slice it got from Buffer() (set to
	// nil, overwritten, reversed, refilled) is not a Commit - the next Buffer(), and the replay after Rollback, still report the
	// values taken and not committed; open Channel, Channel closed explicitly, Channel closed by its context, first call before
	// and second after the close. And the other direction: a result of Buffer() is the pending values at that point, also when
	// it is read after the Channel has delivered, rolled back and committed further.
	register("C13ALIAS", func(h *hctx) {
		for i := 0; i < h.n; i++ {
			i := i
			pan, ok := chxGuardLong(func() { chxAliasCase(h, i) })
			if !ok {
				h.line("MONITOR C13 alias case %d: did not finish within 30 s", i)
				return
			}
			if pan != nil {
				h.line("MONITOR C13 alias case %d: a Channel method panicked: %v", i, pan)
			}
		}
	})
}

func chxGuardLong(f func()) (pan interface{}, returned bool) {
	out := make(chan interface{}, 1)
	go func() {
		defer func() { out <- recover() }()
		f()
	}()
	select {
	case r := <-out:
		return r, true
	case <-time.After(30 * time.Second):
		return nil, false
	}
}

// chxPrecancelCase returns false if the scenario cannot go on (something is blocked for good).
func chxPrecancelCase(h *hctx, id int) bool {
	rng := h.rng
	waitLibBaseline(0, 20*time.Millisecond)
	base := libGoroutineCount()
	kind := id % len(chxKindNames)
	mode := rng.Intn(3)
	var ctx context.Context
	var cancels []func()
	late := func() {}
	bg := context.Background()
	switch kind {
	case 0:
		c, cancel := context.WithCancel(bg)
		cancel()
		ctx = c
	case 1:
		c, cancel := context.WithDeadline(bg, time.Now().Add(-time.Duration(1+rng.Intn(1000))*time.Millisecond))
		cancels = append(cancels, cancel)
		ctx = c
	case 2:
		c, cancel := context.WithTimeout(bg, 0)
		cancels = append(cancels, cancel)
		ctx = c
	case 3:
		c, cancel := context.WithCancelCause(bg)
		cancel(errors.New("verif: custom cause"))
		ctx = c
	case 4:
		d := &chxDeadCtx{done: make(chan struct{}), err: errors.New("verif: custom context error")}
		close(d.done)
		ctx = d
	case 5:
		p, cancel := context.WithCancel(bg)
		c, cancel2 := context.WithCancel(context.WithValue(p, chxKey{}, id))
		cancels = append(cancels, cancel2)
		cancel()
		ctx = c
	case 6:
		c, cancel := context.WithCancel(bg)
		late = cancel
		ctx = c
	default:
		c, cancel := context.WithTimeout(bg, time.Duration(rng.Intn(300))*time.Microsecond)
		cancels = append(cancels, cancel)
		ctx = c
	}
	defer func() {
		for _, f := range cancels {
			f()
		}
	}()
	what := fmt.Sprintf("Channel on a context %s (case %d, mode %d)", chxKindNames[kind], id, mode)
	src := make(chan int, 4)
	src <- 1
	src <- 2
	rate := time.Duration(0)
	if rng.Intn(2) == 0 {
		rate = time.Millisecond
	}
	var c *Channel
	var nerr error
	if pan, ok := chxGuard(func() { c, nerr = NewChannel(ctx, rate, src) }); pan != nil || !ok {
		h.line("MONITOR C12 %s: NewChannel panicked (%v) or blocked (returned=%v)", what, pan, ok)
		return ok
	}
	late()
	if nerr != nil || c == nil {
		// refusing to build a Channel on an ended context is not what C12 is about; nothing to close then
		h.count("c12pre_newchannel_refused", 1)
		return true
	}
	waitDone := func() bool {
		var d <-chan struct{}
		if pan, ok := chxGuard(func() { d = c.Done() }); pan != nil || !ok {
			h.line("MONITOR C12 %s: Done() panicked (%v) or blocked (returned=%v)", what, pan, ok)
			return false
		}
		select {
		case <-d:
			return true
		case <-time.After(3 * time.Second):
			h.line("MONITOR C12 %s: Done not closed 3 s after the context had ended", what)
			return false
		}
	}
	// doClose: one explicit Close; ok=false if it panicked or blocked
	doClose := func(nth string) (err error, ok bool) {
		pan, ret := chxGuard(func() { err = c.Close() })
		if pan != nil {
			h.line("MONITOR C12 %s: %s explicit Close panicked: %v", what, nth, pan)
			return nil, false
		}
		if !ret {
			h.line("MONITOR C12 %s: %s explicit Close did not return within 3 s: %s", what, nth, libGoroutineDump())
			return nil, false
		}
		return err, true
	}
	earlier := 1
	if mode == 2 {
		earlier = 2
	}
	alive := true // false once something is blocked for good
	nils := 0
	switch mode {
	case 0: // the caller sees Done first: the Channel is closed, its Close is a second close
		if !waitDone() {
			return false
		}
		err, ok := doClose("the first")
		if !ok {
			alive = false
		} else if err == nil {
			h.line("MONITOR C12 %s: Close returned nil although Done was closed already (closed by its context: this is a second close)", what)
		}
	case 1: // the deferred Close runs at once, possibly before the close by the context
		err, ok := doClose("the first")
		if !ok {
			alive = false
		} else if err == nil {
			nils++
		}
	default: // two at once
		var wg sync.WaitGroup
		var mu sync.Mutex
		for k := 0; k < 2; k++ {
			wg.Add(1)
			go func() {
				defer wg.Done()
				err, ok := doClose("one of two concurrent")
				mu.Lock()
				if !ok {
					alive = false
				} else if err == nil {
					nils++
				}
				mu.Unlock()
			}()
		}
		wg.Wait()
		if nils > 1 {
			h.line("MONITOR C12 %s: two concurrent Closes both returned nil", what)
		}
	}
	if alive && mode != 0 && !waitDone() {
		alive = false
	}
	if alive {
		for k, gctx := range []context.Context{nil, context.Background()} {
			var gerr error
			var v interface{}
			if pan, ok := chxGuard(func() { v, gerr = c.Get(gctx) }); pan != nil || !ok {
				h.line("MONITOR C12 %s: Get (%d) on the closed Channel panicked (%v) or blocked (returned=%v)", what, k, pan, ok)
				alive = alive && ok
			} else if gerr == nil {
				h.line("MONITOR C12 %s: Get on the closed Channel returned %v without an error", what, v)
			}
		}
	}
	if alive {
		var cerr error
		if pan, ok := chxGuard(func() { cerr = c.Commit() }); pan != nil || !ok {
			h.line("MONITOR C12 %s: Commit on the closed Channel panicked (%v) or blocked (returned=%v)", what, pan, ok)
			alive = alive && ok
		} else if cerr == nil {
			h.line("MONITOR C12 %s: Commit on the closed Channel returned nil", what)
		}
	}
	if alive {
		if err, ok := doClose("the last"); !ok {
			alive = false
		} else if err == nil {
			h.line("MONITOR C12 %s: a Close made after Done was closed and after %d earlier explicit Close(s) had returned returned nil", what, earlier)
		}
	}
	if alive {
		select {
		case <-c.Done():
		default:
			h.line("MONITOR C12 %s: Done is open again", what)
		}
	}
	for _, f := range cancels {
		f()
	}
	if !alive {
		return false
	}
	if n, ok := waitLibBaseline(base, 2*time.Second); !ok {
		h.line("MONITOR C12 %s: %d library goroutine(s) left after the Channel was closed and its context cancelled: %s", what, n-base, libGoroutineDump())
	}
	h.count(fmt.Sprintf("c12pre_kind_%d", kind), 1)
	h.count(fmt.Sprintf("c12pre_mode_%d", mode), 1)
	return true
}

func chxBigCase(h *hctx, id int) {
	rng := h.rng
	n := 1100 + rng.Intn(8000)
	huge := id%6 == 5
	if huge {
		n = 66000 + rng.Intn(5000) // beyond 16 bits
	}
	extra := 200 + rng.Intn(2000)
	total := n + extra
	base := (id + 1) * 1000000
	src := make(chan int, total)
	for k := 0; k < total; k++ {
		src <- base + k
	}
	gctx, gcancel := context.WithTimeout(context.Background(), 20*time.Second)
	defer gcancel()
	c, err := NewChannel(context.Background(), time.Millisecond, src)
	if err != nil {
		h.line("MONITOR C13 big case %d: NewChannel failed: %v", id, err)
		return
	}
	defer func() { _ = c.Close() }()
	r := &chxRef{h: h, ch: c, ctx: gctx, base: base}
	// some values delivered and committed first, so that the pending buffer does not start at the start of its array
	pre := 0
	if rng.Intn(2) == 0 {
		pre = 1 + rng.Intn(50)
		n -= pre
		r.what = fmt.Sprintf("big case %d, %d values committed first", id, pre)
		r.get(pre)
		r.commit()
	}
	var k int
	switch rng.Intn(6) {
	case 0, 1:
		k = 1 + rng.Intn(20)
	case 2, 3:
		k = 1 + rng.Intn(n-1)
	case 4:
		k = n - 1 - rng.Intn(3)
	default:
		k = n
	}
	r.what = fmt.Sprintf("big case %d (%d committed first, then %d values taken without a commit, Rollback, %d re-read, Commit)", id, pre, n, k)
	r.get(n)
	if rng.Intn(2) == 0 {
		r.buffer("after the take")
	}
	r.rollback()
	if rng.Intn(3) == 0 {
		r.buffer("after the Rollback")
	}
	r.get(k)
	r.commit()
	r.buffer("after the Commit of the re-read values")
	// the rest is replayed in order, followed by new values from the source
	r.get(rng.Intn(n - k + extra/2 + 1))
	r.buffer("after the replay")
	rounds := 4 + rng.Intn(6)
	for j := 0; j < rounds && !r.bad; j++ {
		switch x := rng.Intn(10); {
		case x < 4:
			room := (r.t - r.p) + (total - r.t)
			if room > 0 {
				m := 1 + rng.Intn(room)
				if rng.Intn(3) == 0 && m > 30 {
					m = 1 + rng.Intn(30)
				}
				r.get(m)
			}
		case x < 6:
			r.rollback()
		case x < 8:
			r.commit()
		default:
			r.buffer(fmt.Sprintf("round %d", j))
		}
	}
	r.buffer("at the end")
	if !r.bad && len(src) != total-r.t {
		r.fail("%d values are left in the source, expected %d (%d of %d were delivered)", len(src), total-r.t, r.t, total)
	}
	// Close is not a Commit: the values taken and not committed are still reported
	_ = c.Close()
	select {
	case <-c.Done():
	case <-time.After(3 * time.Second):
		r.fail("Done not closed 3 s after Close returned")
	}
	r.buffer("after Close")
	if !r.bad && len(src) != total-r.t {
		r.fail("after Close %d values are left in the source, expected %d", len(src), total-r.t)
	}
	h.count("c13big_cases", 1)
	if huge {
		h.count("c13big_huge", 1)
	}
	if k < n {
		h.count("c13big_partial_reread", 1)
	}
	h.count("c13big_values", r.t)
}

func chxAliasCase(h *hctx, id int) {
	rng := h.rng
	base := (id + 1) * 1000
	const total = 60
	src := make(chan int, total)
	for k := 0; k < total; k++ {
		src <- base + k
	}
	parent, cancelParent := context.WithCancel(context.Background())
	defer cancelParent()
	gctx, gcancel := context.WithTimeout(context.Background(), 10*time.Second)
	defer gcancel()
	c, err := NewChannel(parent, time.Millisecond, src)
	if err != nil {
		h.line("MONITOR C13 alias case %d: NewChannel failed: %v", id, err)
		return
	}
	defer func() { _ = c.Close() }()
	r := &chxRef{h: h, ch: c, ctx: gctx, base: base, what: fmt.Sprintf("alias case %d", id)}
	// a state with at least two values taken and not committed, possibly some of them rolled back and not re-read
	if rng.Intn(3) > 0 {
		r.get(1 + rng.Intn(5))
		r.commit()
	}
	r.get(2 + rng.Intn(10))
	if rng.Intn(2) == 0 {
		r.rollback()
		r.get(rng.Intn(r.t - r.c + 1))
	}
	if r.bad {
		return
	}
	phaseOpen := rng.Intn(3) > 0
	if phaseOpen {
		// (1) open Channel: the caller modifies a result; Buffer and the replay are unaffected
		b1 := c.Buffer()
		r.checkSlice("open Channel", "Buffer()", b1, r.pending())
		how := chxScribble(b1, rng.Intn(4))
		r.buffer("open Channel, after the caller had " + how + " the slice returned by the previous Buffer()")
		r.rollback()
		if rng.Intn(2) == 0 {
			r.get(r.t - r.c) // replay of everything pending
		} else {
			r.get(rng.Intn(r.t - r.c + 1))
		}
		// (2) the other direction: a result held while the Channel moves on (Commit clears what it drops)
		held := c.Buffer()
		heldWant := r.pending()
		r.checkSlice("open Channel", "Buffer()", held, heldWant)
		if r.p == r.c {
			r.get(1)
		}
		r.commit()
		r.get(1 + rng.Intn(4))
		if rng.Intn(2) == 0 {
			r.rollback()
			r.get(rng.Intn(r.t - r.c + 1))
		}
		r.checkSlice("read after the Channel had committed, delivered and rolled back further", "the slice returned by an earlier Buffer()", held, heldWant)
		if r.t-r.c < 2 {
			r.get(2)
		}
		if r.bad {
			return
		}
		h.count("c13alias_open", 1)
	}
	// (3) a result obtained before the close, modified after it
	before := c.Buffer()
	want := r.pending()
	r.checkSlice("before the close", "Buffer()", before, want)
	byCtx := rng.Intn(2) == 0
	closed := "closed by Close"
	if byCtx {
		closed = "closed by its context"
		cancelParent()
	} else {
		_ = c.Close()
	}
	select {
	case <-c.Done():
	case <-time.After(3 * time.Second):
		r.fail("Done not closed 3 s after the Channel was %s", closed)
		return
	}
	if rng.Intn(2) == 0 {
		how := chxScribble(before, rng.Intn(4))
		r.buffer("Channel " + closed + ", after the caller had " + how + " the slice returned by Buffer() before the close")
	}
	// (4) the documented salvage: wait for Done, call Buffer; the caller consumes the result; a second look must see the same
	for round := 0; round < 2+rng.Intn(2) && !r.bad; round++ {
		b := c.Buffer()
		r.checkSlice(fmt.Sprintf("Channel %s, Buffer call %d after Done", closed, round+1), "Buffer()", b, want)
		if r.bad {
			return
		}
		how := chxScribble(b, rng.Intn(4))
		switch rng.Intn(4) {
		case 0:
			_ = c.Rollback() // allowed regardless of the close; only moves the cursor
		case 1:
			_, _ = c.Get(gctx)
		case 2:
			_ = c.Commit()
		}
		r.buffer(fmt.Sprintf("Channel %s, after the caller had %s the slice returned by Buffer call %d after Done", closed, how, round+1))
	}
	if !r.bad && len(src) != total-r.t {
		r.fail("%d values are left in the source, expected %d", len(src), total-r.t)
	}
	h.count("c13alias_cases", 1)
	if byCtx {
		h.count("c13alias_closed_by_context", 1)
	}
}
