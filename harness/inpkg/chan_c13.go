//go:build verif

package bigbuff

import (
	"context"
	"fmt"
	"sync"
	"sync/atomic"
	"time"
)

// Encoding shared with checker/main.ml (module ChanM):
//   ops:  0 Get | 1 GetCancelled | 2 Commit | 3 Rollback | 4 Buffer | 5 Close | 6 Cancel(parent ctx) | 7 v SrcSend | 8 SrcClose | 9 SrcPeek
//   outs: 0 v RVal | 1 REmpty | 2 RErr | 3 ROk | 4 n v.. RBuf

const chanGetTimeout = 6 * time.Millisecond

// chanDoGet performs one Get. With quiescent=true (sequential scenarios) an empty attempt is observed WITHOUT a deadline:
// the Get runs in a goroutine; if it has not returned once every goroutine of the package is parked (so at least one
// attempt found nothing and the Get is waiting for its next poll), its context is cancelled and the result is REmpty.
// With quiescent=false (concurrent scenarios) a generous deadline is used instead.
func chanDoGet(c *Channel, timeout time.Duration) []int { return chanDoGetMode(c, timeout, false) }

func chanDoGetMode(c *Channel, timeout time.Duration, quiescent bool) []int {
	if !quiescent {
		ctx, cancel := context.WithTimeout(context.Background(), timeout)
		defer cancel()
		v, err := c.Get(ctx)
		if err == nil {
			return []int{0, v.(int)}
		}
		if err == context.DeadlineExceeded {
			return []int{1}
		}
		return []int{2}
	}
	ctx, cancel := context.WithCancel(context.Background())
	defer cancel()
	type res struct {
		v   interface{}
		err error
	}
	ch := make(chan res, 1)
	go func() { v, err := c.Get(ctx); ch <- res{v, err} }()
	select {
	case r := <-ch:
		if r.err == nil {
			return []int{0, r.v.(int)}
		}
		return []int{2}
	case <-time.After(300 * time.Microsecond):
	}
	for i := 0; i < 50; i++ {
		if quiesce(150*time.Microsecond, 100*time.Millisecond) {
			break
		}
	}
	select {
	case r := <-ch:
		if r.err == nil {
			return []int{0, r.v.(int)}
		}
		return []int{2}
	default:
	}
	cancel()
	r := <-ch
	if r.err == nil {
		return []int{0, r.v.(int)}
	}
	if r.err == context.Canceled && (*fld[context.Context](c, "ctx")).Err() == nil {
		return []int{1}
	}
	if r.err == context.Canceled {
		// both the caller's context and the Channel are cancelled: the Channel was closed meanwhile
		return []int{2}
	}
	return []int{2}
}

// flipCtx reports live on the first Err() call and cancelled afterwards: the caller's context is cancelled right after
// Get's up-front check. A Get that finds a value must still return it (the value has left the source).
type flipCtx struct {
	context.Context
	n atomic.Int32
}

func (f *flipCtx) Err() error {
	if f.n.Add(1) == 1 {
		return nil
	}
	return context.Canceled
}

func chanDoGetFlip(c *Channel) []int {
	v, err := c.Get(&flipCtx{Context: context.Background()})
	if err == nil {
		return []int{0, v.(int)}
	}
	if err == context.Canceled && (*fld[context.Context](c, "ctx")).Err() == nil {
		return []int{1} // found nothing on its single attempt, then saw the cancellation
	}
	return []int{2}
}

func errOut(err error) []int {
	if err != nil {
		return []int{2}
	}
	return []int{3}
}

func bufOut(l []interface{}) []int {
	r := []int{4, len(l)}
	for _, v := range l {
		r = append(r, v.(int))
	}
	return r
}

func init() {
	register("C13K1", func(h *hctx) {
		for i := 0; i < h.n; i++ {
			chanK1Case(h, i)
		}
	})
	register("C13K2", func(h *hctx) {
		for i := 0; i < h.n; i++ {
			chanK2Case(h, i)
		}
	})
}

func chanK1Case(h *hctx, id int) {
	src := make(chan int, 256)
	parent, cancelParent := context.WithCancel(context.Background())
	defer cancelParent()
	c, err := NewChannel(parent, time.Millisecond, src)
	if err != nil {
		h.t.Fatal(err)
	}
	defer c.Close()
	nops := 6 + h.rng.Intn(24)
	closeBias := h.pi("closebias", 0) == 1 // C12: make Close/Cancel (often right after a Rollback) frequent
	var ops, outs [][]int
	next := 1 + id*1000
	srcClosed := false
	queued := 0 // values we believe are still in the source (to bias towards non-empty Gets)
	closedAt := -1
	for k := 0; k < nops; k++ {
		r := h.rng.Intn(100)
		if closeBias && closedAt < 0 && k > 4 && h.rng.Intn(6) == 0 {
			r = 95 + h.rng.Intn(3)
		}
		switch {
		case r < 24 && !srcClosed:
			burst := 1 + h.rng.Intn(3)
			for b := 0; b < burst; b++ {
				src <- next
				ops = append(ops, []int{7, next})
				outs = append(outs, []int{3})
				next++
				queued++
			}
			h.count("op_srcsend", burst)
		case r < 62:
			// Get: avoid spending the timeout too often on an empty source
			if queued == 0 && closedAt < 0 && h.rng.Intn(100) < 70 {
				k--
				if !srcClosed {
					src <- next
					ops = append(ops, []int{7, next})
					outs = append(outs, []int{3})
					next++
					queued++
				} else {
					k++
				}
				continue
			}
			var o []int
			if h.rng.Intn(6) == 0 {
				o = chanDoGetFlip(c)
				h.count("get_flipctx", 1)
			} else {
				o = chanDoGetMode(c, chanGetTimeout, true)
			}
			ops = append(ops, []int{0})
			outs = append(outs, o)
			if o[0] == 0 {
				h.count("get_val", 1)
			} else if o[0] == 1 {
				h.count("get_empty", 1)
			} else {
				h.count("get_err", 1)
			}
			if queued > 0 && o[0] == 0 {
				// may have been a replay; queued is only a heuristic
				queued--
			}
		case r < 74:
			ops = append(ops, []int{2})
			outs = append(outs, errOut(c.Commit()))
			h.count("op_commit", 1)
		case r < 86:
			ops = append(ops, []int{3})
			outs = append(outs, errOut(c.Rollback()))
			h.count("op_rollback", 1)
		case r < 93:
			ops = append(ops, []int{4})
			outs = append(outs, bufOut(c.Buffer()))
			h.count("op_buffer", 1)
		case r < 95:
			ctx, cancel := context.WithCancel(context.Background())
			cancel()
			_, err := c.Get(ctx)
			ops = append(ops, []int{1})
			outs = append(outs, errOut(err))
			h.count("op_getcancelled", 1)
		case r < 97:
			ops = append(ops, []int{5})
			outs = append(outs, errOut(c.Close()))
			h.count("op_close", 1)
			if closedAt < 0 {
				closedAt = k
			}
		case r < 98:
			cancelParent()
			<-c.Done()
			ops = append(ops, []int{6})
			outs = append(outs, []int{3})
			h.count("op_cancel", 1)
			if closedAt < 0 {
				closedAt = k
			}
		default:
			if !srcClosed {
				close(src)
				srcClosed = true
				ops = append(ops, []int{8})
				outs = append(outs, []int{3})
				h.count("op_srcclose", 1)
			}
		}
	}
	// final observation: Buffer, and what is left in the source
	ops = append(ops, []int{4})
	outs = append(outs, bufOut(c.Buffer()))
	// and what is left in the source (drained: this is the last thing done with it)
	left := []interface{}{}
	for {
		select {
		case v, ok := <-src:
			if ok {
				left = append(left, v)
				continue
			}
		default:
		}
		break
	}
	ops = append(ops, []int{9})
	outs = append(outs, bufOut(left))
	h.line("K1 chan k1-%d-%d # %s | %s", h.seed, id, joinRecs(ops), joinRecs(outs))
}

type hrec struct {
	inv, ret int
	op, out  []int
}

func chanK2Case(h *hctx, id int) {
	src := make(chan int, 64)
	c, err := NewChannel(context.Background(), time.Millisecond, src)
	if err != nil {
		h.t.Fatal(err)
	}
	defer c.Close()
	var mu sync.Mutex
	var recs []hrec
	logop := func(inv int, op []int, out []int) {
		ret := tick()
		mu.Lock()
		recs = append(recs, hrec{inv, ret, op, out})
		mu.Unlock()
	}
	nthreads := 2 + h.rng.Intn(3)
	nops := 3 + h.rng.Intn(4)
	pre := h.rng.Intn(4)
	next := 1
	for i := 0; i < pre; i++ {
		inv := tick()
		src <- next
		logop(inv, []int{7, next}, []int{3})
		next++
	}
	type plan struct{ kinds []int }
	plans := make([]plan, nthreads)
	for t := range plans {
		for k := 0; k < nops; k++ {
			r := h.rng.Intn(100)
			kind := 0
			switch {
			case r < 45:
				kind = 0
			case r < 62:
				kind = 2
			case r < 80:
				kind = 3
			case r < 94:
				kind = 4
			case r < 97:
				kind = 5
			default:
				kind = 1
			}
			plans[t].kinds = append(plans[t].kinds, kind)
		}
	}
	feed := 2 + h.rng.Intn(5)
	var wg sync.WaitGroup
	start := make(chan struct{})
	wg.Add(1)
	go func() {
		defer wg.Done()
		<-start
		for i := 0; i < feed; i++ {
			inv := tick()
			v := next + i
			src <- v
			logop(inv, []int{7, v}, []int{3})
			if h.seed%2 == 0 {
				time.Sleep(time.Duration(100+(i*37)%400) * time.Microsecond)
			}
		}
	}()
	for t := 0; t < nthreads; t++ {
		wg.Add(1)
		go func(p plan) {
			defer wg.Done()
			<-start
			for _, kind := range p.kinds {
				inv := tick()
				switch kind {
				case 0:
					logop(inv, []int{0}, chanDoGet(c, 40*time.Millisecond))
				case 1:
					ctx, cancel := context.WithCancel(context.Background())
					cancel()
					_, err := c.Get(ctx)
					logop(inv, []int{1}, errOut(err))
				case 2:
					logop(inv, []int{2}, errOut(c.Commit()))
				case 3:
					logop(inv, []int{3}, errOut(c.Rollback()))
				case 4:
					logop(inv, []int{4}, bufOut(c.Buffer()))
				case 5:
					logop(inv, []int{5}, errOut(c.Close()))
				}
			}
		}(plans[t])
	}
	close(start)
	wg.Wait()
	inv := tick()
	logop(inv, []int{4}, bufOut(c.Buffer()))
	parts := ""
	for i, r := range recs {
		if i > 0 {
			parts += " ; "
		}
		parts += fmt.Sprintf("%d %d : %s : %s", r.inv, r.ret, ints(r.op), ints(r.out))
	}
	h.line("K2 chan k2-%d-%d # %s", h.seed, id, parts)
	h.count("k2_ops", len(recs))
}

// ---------------------------------------------------------------------------------------------------------------
// C13WIN: the parent context is cancelled while a Get is INSIDE its critical section, between its c.ctx.Err() check and
// the receive from the source.  Done is closed under the Channel's mutex (cleanup -> Close), so it cannot close before
// that Get has left the critical section: a value is never taken from the source once Done is closed.  The window is
// hit deterministically through a context whose Err() (only ever called under c.mutex) cancels the parent and then
// watches c.done for a while before answering.
// ---------------------------------------------------------------------------------------------------------------
type winCtx struct {
	context.Context
	armed        atomic.Bool
	cancelParent context.CancelFunc
	done         chan struct{}
	sawDone      atomic.Bool
}

func (w *winCtx) Err() error {
	e := w.Context.Err()
	if e == nil && w.armed.CompareAndSwap(true, false) {
		w.cancelParent()
		select {
		case <-w.done:
			w.sawDone.Store(true)
		case <-time.After(15 * time.Millisecond):
		}
	}
	return e // the answer as of the start of the call
}

func init() {
	register("C13WIN", func(h *hctx) {
		for i := 0; i < h.n; i++ {
			src := make(chan int, 4)
			for k := 0; k < 3; k++ {
				src <- 100*i + k
			}
			parent, cancelParent := context.WithCancel(context.Background())
			// the hook goes around the Channel's own context (the watcher goroutine waits on the same underlying context
			// whichever of the two values it reads)
			c, cerr := NewChannel(parent, time.Millisecond, src)
			if cerr != nil {
				h.line("MONITOR C13 window case %d: NewChannel failed: %v", i, cerr)
				return
			}
			pctx := fld[context.Context](c, "ctx")
			w := &winCtx{Context: *pctx, cancelParent: cancelParent, done: *fld[chan struct{}](c, "done")}
			*pctx = w
			pre := h.rng.Intn(3)
			for k := 0; k < pre; k++ {
				if _, err := c.Get(context.Background()); err != nil {
					h.line("MONITOR C13 window case %d: Get %d failed on an open Channel: %v", i, k, err)
				}
			}
			if pre > 0 && h.rng.Intn(2) == 0 {
				_ = c.Rollback() // the next Get serves a rolled-back value instead of the source
			}
			w.armed.Store(true)
			before := len(src)
			v, err := c.Get(context.Background())
			if w.sawDone.Load() && err == nil {
				h.line("MONITOR C13 window case %d: Get returned %v (source %d -> %d) although Done had been closed while it was still between its context check and the take", i, v, before, len(src))
			}
			if err != nil && !w.sawDone.Load() {
				h.line("MONITOR C13 window case %d: Get failed (%v) although the context was live at its check and Done was not closed", i, err)
			}
			select {
			case <-c.Done():
			case <-time.After(3 * time.Second):
				h.line("MONITOR C13 window case %d: Done not closed 3 s after the parent context was cancelled", i)
			}
			after := len(src)
			time.Sleep(200 * time.Microsecond)
			if _, err := c.Get(context.Background()); err == nil || len(src) != after {
				h.line("MONITOR C13 window case %d: a Get after Done was closed succeeded or took from the source", i)
			}
			cancelParent()
			h.count("c13_window_cases", 1)
		}
	})
}
