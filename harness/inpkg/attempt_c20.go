//go:build verif

package bigbuff

import (
	"context"
	"errors"
	"runtime"
	"strconv"
	"strings"
	"sync"
	"sync/atomic"
	"time"
)

// C20 — LinearAttempt. Encoding shared with checker/ad_attempt.ml (model "attempt", Model/Attempt.v kstep):
//   K1 cfg: <count>
//   ops:  0 Call | 1 Cancel | 2 Recv (non-blocking) | 3 Await (producer blocked in its select with a full buffer, or gone)
//   outs: 0 len  KRet | 1 KOk | 2 KVal | 3 KClosed | 4 KEmpty | 5 len live  KAw
//   F attempt_consts <id> | cap(c)
//   F attempt_obs <id> count nrecv maxlen nafter precancelled cancelled closedSeen firstImm sorted exited | 1
//       (one complete use of a real channel; decided by the extracted monitor obs_ok, C20_observation_monitor_sound)
// Scenarios: C20K1 (quiescent cases, no timing dependence), C20T (real tickers; per unit of n one millisecond-scale case and
// `race` nanosecond-scale cases with a spinning receiver and a context whose cancellation is instantaneous).
// MONITOR lines are emitted only for observations that cannot be explained by timing.

// attemptProducers reports the number of live goroutines started by LinearAttempt (a frame or creator line in attempt.go)
// and whether every one of them is parked in a select.
func attemptProducers() (n int, allSelect bool) {
	buf := make([]byte, 1<<16)
	for {
		m := runtime.Stack(buf, true)
		if m < len(buf) {
			buf = buf[:m]
			break
		}
		buf = make([]byte, 2*len(buf))
	}
	allSelect = true
	for i, b := range strings.Split(string(buf), "\n\n") {
		if i == 0 || !strings.Contains(b, "/attempt.go:") || !strings.Contains(b, "LinearAttempt") {
			continue
		}
		n++
		nl := strings.IndexByte(b, '\n')
		if nl < 0 {
			allSelect = false
			continue
		}
		hdr := b[:nl]
		lb, rb := strings.IndexByte(hdr, '['), strings.LastIndexByte(hdr, ']')
		if lb < 0 || rb < lb {
			allSelect = false
			continue
		}
		state := hdr[lb+1 : rb]
		if c := strings.IndexByte(state, ','); c >= 0 {
			state = state[:c]
		}
		if state != "select" {
			allSelect = false
		}
	}
	return
}

// attemptWaitGone waits until no more than base LinearAttempt goroutines are alive.
func attemptWaitGone(base int, deadline time.Duration) bool {
	end := time.Now().Add(deadline)
	for {
		if n, _ := attemptProducers(); n <= base {
			return true
		}
		if time.Now().After(end) {
			return false
		}
		time.Sleep(100 * time.Microsecond)
	}
}

func attemptB2i(b bool) int {
	if b {
		return 1
	}
	return 0
}

// attemptFails counts the MONITOR lines of the running scenario: every failed monitor costs a deadline, so a scenario stops
// generating cases after a few of them (the verdict is already decided).
var attemptFails int

const attemptMaxFails = 4

func attemptMonitor(h *hctx, format string, args ...interface{}) {
	attemptFails++
	h.line("MONITOR C20 "+format, args...)
}

func attemptCutShort(h *hctx, i int) bool {
	if attemptFails >= attemptMaxFails {
		h.line("MONITOR C20 scenario cut short after %d failed monitors (%d of %d cases run)", attemptFails, i, h.n)
		return true
	}
	return false
}

func init() {
	register("C20K1", func(h *hctx) {
		attemptFails = 0
		attemptConsts(h)
		attemptInvalid(h)
		for i := 0; i < h.n; i++ {
			if attemptCutShort(h, i) {
				break
			}
			attemptK1Case(h, i)
		}
	})
	// C20T: per unit of n, one case with a millisecond-scale ticker and `race` cases with a microsecond-scale ticker (a tick
	// is pending at almost every select, so the select between ctx.Done and the tick is a real race after the cancellation)
	register("C20T", func(h *hctx) {
		attemptFails = 0
		attemptConsts(h)
		attemptPromptness(h)
		race := h.pi("race", 4)
		for i := 0; i < h.n; i++ {
			if attemptCutShort(h, i) {
				break
			}
			attemptTimedCase(h, i*(race+1), false)
			for k := 1; k <= race; k++ {
				attemptTimedCase(h, i*(race+1)+k, true)
			}
		}
	})
}

// attemptConsts reports the capacity of a real channel returned by LinearAttempt.
func attemptConsts(h *hctx) {
	base, _ := attemptProducers()
	ctx, cancel := context.WithCancel(context.Background())
	c := LinearAttempt(ctx, time.Hour, 2)
	h.line("F attempt_consts consts-%d | %d", h.seed, cap(c))
	cancel()
	if !attemptWaitGone(base, 2*time.Second) {
		attemptMonitor(h, "consts: producer goroutine still alive 2s after cancel (count=2 rate=1h)")
	}
}

// attemptInvalid exercises the documented panics (not part of the property): the harness must merely survive them.
func attemptInvalid(h *hctx) {
	try := func(ctx context.Context, rate time.Duration, count int) {
		cctx := ctx
		var cancel context.CancelFunc
		if ctx != nil {
			cctx, cancel = context.WithCancel(ctx)
			defer cancel()
		}
		defer func() {
			if recover() != nil {
				h.count("invalid_panicked", 1)
			} else {
				h.count("invalid_returned", 1)
			}
		}()
		LinearAttempt(cctx, rate, count)
	}
	try(nil, time.Millisecond, 1)
	try(context.Background(), 0, 1)
	try(context.Background(), -time.Second, 3)
	try(context.Background(), time.Millisecond, 0)
	try(context.Background(), time.Millisecond, -2)
}

// ---------------------------------------------------------------------------------------------------------------------
// K1: deterministic, quiescent cases decided by the model (kstep)
// ---------------------------------------------------------------------------------------------------------------------
func attemptK1Case(h *hctx, id int) {
	const settleDeadline = 3 * time.Second
	fast := h.rng.Intn(5) < 3
	count := 1 + h.rng.Intn(5)
	rate := time.Hour
	if fast {
		rate = time.Duration(1000+h.rng.Intn(2001)) * time.Microsecond
	}
	// how the context ends (the model's cancel step): explicit cancel, or a context that reports DeadlineExceeded or an
	// error of its own; a pre-cancelled case may also use a real deadline in the past
	kind := h.rng.Intn(4)
	pre := h.rng.Intn(6) == 0
	ctx, cancel := attemptNewCtx(kind)
	if pre && h.rng.Intn(3) == 0 {
		cancel()
		var cf context.CancelFunc
		ctx, cf = context.WithDeadline(context.Background(), time.Now().Add(-time.Second))
		cancel = func() { cf() }
		kind = 4
	}
	defer cancel()
	h.count("k1_ctxkind_"+strconv.Itoa(kind), 1)
	base, _ := attemptProducers()
	var ops, outs [][]int
	cancelled := false
	var c <-chan time.Time
	caseid := func() string { return "k1-" + strconv.FormatInt(h.seed, 10) + "-" + strconv.Itoa(id) }

	doCancel := func() {
		cancel()
		cancelled = true
		if !attemptWaitGone(base, settleDeadline) {
			attemptMonitor(h, "%s: producer goroutine still alive %v after the context ended (count=%d rate=%v ctxkind=%d)", caseid(), settleDeadline, count, rate, kind)
		}
		ops = append(ops, []int{1})
		outs = append(outs, []int{1})
		h.count("k1_cancel", 1)
	}
	doRecv := func() int {
		ops = append(ops, []int{2})
		select {
		case _, ok := <-c:
			if ok {
				outs = append(outs, []int{2})
				h.count("k1_recv_val", 1)
				return 2
			}
			outs = append(outs, []int{3})
			h.count("k1_recv_closed", 1)
			return 3
		default:
			outs = append(outs, []int{4})
			h.count("k1_recv_empty", 1)
			return 4
		}
	}
	// doAwait waits until the producer is gone, or the buffer is full and (observed afterwards) the producer is parked in
	// its select: from then on nothing changes until the next receive or the cancellation.
	doAwait := func() (alive bool) {
		end := time.Now().Add(settleDeadline)
		for {
			l := len(c)
			n, allSel := attemptProducers()
			if n <= base {
				ops = append(ops, []int{3})
				outs = append(outs, []int{5, len(c), 0})
				return false
			}
			if l == cap(c) && allSel {
				ops = append(ops, []int{3})
				outs = append(outs, []int{5, l, 1})
				return true
			}
			if time.Now().After(end) {
				attemptMonitor(h, "%s: producer neither parked with a full buffer nor gone after %v (len=%d cap=%d producers=%d)",
					caseid(), settleDeadline, l, cap(c), n-base)
				ops = append(ops, []int{3})
				outs = append(outs, []int{5, l, 1})
				return true
			}
			time.Sleep(150 * time.Microsecond)
		}
	}

	if pre {
		doCancel()
		h.count("k1_precancelled", 1)
	}
	c = LinearAttempt(ctx, rate, count)
	ops = append(ops, []int{0})
	outs = append(outs, []int{0, len(c)})
	if count == 1 {
		h.count("k1_count1", 1)
	}
	if !fast {
		// no tick will ever arrive: every observation is deterministic
		h.count("k1_slow", 1)
		steps := 1 + h.rng.Intn(3+count)
		for k := 0; k < steps; k++ {
			if r := h.rng.Intn(100); r < 70 {
				doRecv()
			} else if r < 85 && !cancelled {
				doCancel()
			}
		}
		if !cancelled {
			doCancel()
		}
		doRecv()
		doRecv()
	} else {
		// ticks arrive every rate: observe only in states the ticker cannot change (after Await, or after the producer is gone)
		h.count("k1_fast", 1)
		rounds := 1 + h.rng.Intn(count+2)
		alive := true
		for k := 0; k < rounds && !cancelled; k++ {
			alive = doAwait()
			h.count("k1_await", 1)
			r := h.rng.Intn(100)
			switch {
			case r < 78:
				doRecv()
				if !alive {
					doRecv()
				}
			case r < 90:
				doCancel()
			}
		}
		if !cancelled {
			doAwait()
			doCancel()
		}
		doRecv()
		doRecv()
		doRecv()
	}
	h.line("K1 attempt %s %d # %s | %s", caseid(), count, joinRecs(ops), joinRecs(outs))
}

// ---------------------------------------------------------------------------------------------------------------------
// timed cases: real tickers, receiver paces and cancellation instants from the seed
// ---------------------------------------------------------------------------------------------------------------------
type attemptParams struct {
	count, pace, slowK, plan, j int
	endKind                     int // 0 WithCancel | 1..3 attemptNewCtx kinds | 4 real WithTimeout / WithDeadline
	rate, off, deadline         time.Duration
	cancelBeforeFirst, race     bool
}

// attemptCtx is a minimal context whose cancellation is a few dozen nanoseconds (Err and the close of Done change together
// under one mutex, as in the standard cancelCtx): it makes "receives begun after cancel() returned" a sharp observation.
type attemptCtx struct {
	mu   sync.Mutex
	done chan struct{}
	end  error // what Err reports once Done is closed (nil: context.Canceled)
	err  error
}

var errAttemptEnded = errors.New("attempt harness: context ended for a reason of its own")

// attemptNewCtx makes a context that ends, when its cancel function is called, in one of the ways a context can end:
// kind 0 context.WithCancel | 1 custom, Canceled | 2 custom, DeadlineExceeded | 3 custom, an error of its own.
func attemptNewCtx(kind int) (context.Context, func()) {
	switch kind {
	case 0:
		return context.WithCancel(context.Background())
	case 2:
		fc := &attemptCtx{done: make(chan struct{}), end: context.DeadlineExceeded}
		return fc, fc.cancel
	case 3:
		fc := &attemptCtx{done: make(chan struct{}), end: errAttemptEnded}
		return fc, fc.cancel
	default:
		fc := &attemptCtx{done: make(chan struct{})}
		return fc, fc.cancel
	}
}

func (c *attemptCtx) Deadline() (time.Time, bool)   { return time.Time{}, false }
func (c *attemptCtx) Done() <-chan struct{}         { return c.done }
func (c *attemptCtx) Value(interface{}) interface{} { return nil }
func (c *attemptCtx) Err() error {
	c.mu.Lock()
	defer c.mu.Unlock()
	return c.err
}
func (c *attemptCtx) cancel() {
	c.mu.Lock()
	if c.err == nil {
		c.err = c.end
		if c.err == nil {
			c.err = context.Canceled
		}
		close(c.done)
	}
	c.mu.Unlock()
}

type attemptObs struct {
	nrecv, nafter, maxLen                                            int
	cancelledBeforeClose, closedSeen, firstImm, sorted, exited, zero bool
	pre                                                              bool // the context was done before LinearAttempt checked it
}

func attemptTimedCase(h *hctx, id int, race bool) {
	rng := h.rng
	var p attemptParams
	p.count = 1 + rng.Intn(6)
	switch r := rng.Intn(100); {
	case r < 65:
		p.rate = time.Duration(2000+rng.Intn(3001)) * time.Microsecond // 2..5 ms
	case r < 82:
		p.rate = time.Duration(200+rng.Intn(800)) * time.Microsecond
	default:
		p.rate = time.Duration(1+rng.Intn(40)) * time.Microsecond // a tick is pending at almost every select
	}
	p.pace = rng.Intn(3)      // 0 prompt | 1 slow | 2 absent for a while, then prompt
	p.slowK = 1 + rng.Intn(3) // slow: sleeps slowK*rate between receives
	// plan: 0 never cancel | 1 timer | 2 after the j-th receive | 3 right after the call | 4 before the call
	switch r := rng.Intn(100); {
	case r < 30:
		p.plan = 0
	case r < 60:
		p.plan = 1
	case r < 82:
		p.plan = 2
	case r < 92:
		p.plan = 3
	default:
		p.plan = 4
	}
	switch r := rng.Intn(100); {
	case r < 30:
		p.endKind = 0
	case r < 40:
		p.endKind = 1
	case r < 60:
		p.endKind = 2
	case r < 75:
		p.endKind = 3
	default:
		p.endKind = 4
		if p.plan == 2 || p.plan == 3 {
			p.endKind = 2 // the receiver decides the instant: a custom context that reports DeadlineExceeded
		}
	}
	if race {
		p.endKind = 1 + rng.Intn(3)
		// a tick is pending at every select (periods down to 1ns), the receiver spins on non-blocking receives, and the
		// cancellation is issued by the receiver itself after its j-th value (or by a timer)
		p.race = true
		p.count = 8 + rng.Intn(60)
		p.rate = []time.Duration{1, 1, 10, 100, 1000}[rng.Intn(5)] * time.Nanosecond
		p.pace = 0
		p.plan = 2
		if rng.Intn(6) == 0 {
			p.plan = 1
		}
	}
	p.j = 1 + rng.Intn(p.count)
	paceFactor := 1
	if p.pace == 1 {
		paceFactor = 1 + p.slowK
	}
	p.off = time.Duration(rng.Int63n(int64(p.rate)*int64(p.count+1)*int64(paceFactor) + 1))
	p.cancelBeforeFirst = rng.Intn(2) == 0
	p.deadline = 20*p.rate + 200*time.Millisecond
	if p.deadline < 400*time.Millisecond {
		p.deadline = 400 * time.Millisecond
	}
	caseid := "t-" + strconv.FormatInt(h.seed, 10) + "-" + strconv.Itoa(id)
	if race {
		h.count("t_race_cases", 1)
	} else {
		h.count("t_pace_"+[]string{"prompt", "slow", "absent"}[p.pace], 1)
		h.count("t_plan_"+[]string{"never", "timer", "afterj", "aftercall", "precancelled"}[p.plan], 1)
	}
	h.count("t_ctxkind_"+strconv.Itoa(p.endKind), 1)

	o := attemptRunTimed(p)
	if !o.sorted {
		// The order of the values is the order of the ticker's own timestamps, and time.Ticker computes them as
		// Now()-delta with two separate clock readings: with periods below its jitter a raw Ticker already yields
		// decreasing pairs (measured: 27 of 20000 at 1us). Timestamps are therefore compared only for periods >= 1ms,
		// only decreases of more than half a period count, and a case is reported only if it reproduces.
		h.count("t_unordered_first_run", 1)
		if o2 := attemptRunTimed(p); o2.sorted {
			h.count("t_unordered_not_reproduced", 1)
			o.sorted = true
		}
	}
	if o.nafter > 0 {
		h.count("t_cases_with_values_after_cancel", 1)
	}
	if o.nafter >= 2 {
		h.count("t_cases_with_two_after_cancel", 1)
	}
	if o.cancelledBeforeClose && o.nrecv > 0 && o.nrecv < p.count {
		h.count("t_cases_cut_short_by_cancel", 1)
	}
	if !o.cancelledBeforeClose && o.closedSeen {
		h.count("t_cases_completed", 1)
	}
	pre := o.pre
	desc := func() string {
		return caseid + " count=" + strconv.Itoa(p.count) + " rate=" + p.rate.String() + " pace=" + strconv.Itoa(p.pace) +
			" plan=" + strconv.Itoa(p.plan) + " ctxkind=" + strconv.Itoa(p.endKind) + " nrecv=" + strconv.Itoa(o.nrecv) + " nafter=" + strconv.Itoa(o.nafter) +
			" maxlen=" + strconv.Itoa(o.maxLen)
	}
	if o.nrecv > p.count {
		attemptMonitor(h, "more than count values received: %s", desc())
	}
	if o.maxLen > 1 {
		attemptMonitor(h, "more than one value buffered (len(c)=%d): %s", o.maxLen, desc())
	}
	if !o.closedSeen {
		attemptMonitor(h, "channel not closed (next receive did not complete within %v): %s", p.deadline, desc())
	}
	if o.nafter > 2 {
		attemptMonitor(h, "more than two values received by receives begun after the context was done: %s", desc())
	}
	if !pre && !o.firstImm {
		attemptMonitor(h, "first value not available immediately after LinearAttempt returned: %s", desc())
	}
	if pre && o.nrecv > 0 {
		attemptMonitor(h, "values delivered although the context was cancelled before the call: %s", desc())
	}
	if o.zero {
		attemptMonitor(h, "a zero time.Time was delivered: %s", desc())
		o.sorted = false
	}
	if !o.sorted && !o.zero {
		attemptMonitor(h, "timestamps decreased by more than half a period, reproducibly: %s", desc())
	}
	if !o.exited {
		attemptMonitor(h, "producer goroutine still alive %v after cancel: %s", p.deadline, desc())
	}
	if o.closedSeen && !o.cancelledBeforeClose && o.nrecv != p.count {
		attemptMonitor(h, "closed without cancellation after %d of %d values: %s", o.nrecv, p.count, desc())
	}
	h.line("F attempt_obs %s %d %d %d %d %d %d %d %d %d %d | 1", caseid, p.count, o.nrecv, o.maxLen, o.nafter, attemptB2i(pre),
		attemptB2i(o.cancelledBeforeClose), attemptB2i(o.closedSeen), attemptB2i(o.firstImm), attemptB2i(o.sorted), attemptB2i(o.exited))
}

// attemptRunTimed uses one channel of LinearAttempt from the call to the close, as laid out by p, and reports what it saw.
func attemptRunTimed(p attemptParams) (o attemptObs) {
	var ctx context.Context
	var cancel func()
	timerEnds := false // the context ends by its own deadline: no canceller needed
	if p.endKind == 4 {
		var cf context.CancelFunc
		switch p.plan {
		case 1:
			if p.off%2 == 0 {
				ctx, cf = context.WithTimeout(context.Background(), p.off)
			} else {
				ctx, cf = context.WithDeadline(context.Background(), time.Now().Add(p.off))
			}
			timerEnds = true
		case 4:
			ctx, cf = context.WithDeadline(context.Background(), time.Now().Add(-time.Millisecond))
			timerEnds = true
		default:
			ctx, cf = context.WithTimeout(context.Background(), time.Hour)
		}
		cancel = func() { cf() }
	} else {
		ctx, cancel = attemptNewCtx(p.endKind)
	}
	var cancelOnce sync.Once
	doCancel := func() { cancelOnce.Do(cancel) }
	defer cancel()
	// "the context is done" as any party can observe it: Err() != nil (it implies that Done is closed)
	ctxDone := func() bool { return ctx.Err() != nil }
	base, _ := attemptProducers()
	if p.plan == 4 {
		if timerEnds {
			<-ctx.Done()
		} else {
			doCancel()
		}
	}
	doneBefore := ctxDone()
	c := LinearAttempt(ctx, p.rate, p.count)
	doneAfter := ctxDone()
	firstLen := len(c)
	// a deadline may expire while LinearAttempt runs: then either outcome of its check is right, and what it returned tells which
	o.pre = doneBefore || (doneAfter && firstLen == 0)

	// len(c) sampler
	var maxLen atomic.Int32
	sample := func() {
		l := int32(len(c))
		for {
			m := maxLen.Load()
			if l <= m || maxLen.CompareAndSwap(m, l) {
				return
			}
		}
	}
	sample()
	stop := make(chan struct{})
	var wg sync.WaitGroup
	wg.Add(1)
	go func() {
		defer wg.Done()
		for {
			select {
			case <-stop:
				return
			default:
			}
			sample()
			time.Sleep(40 * time.Microsecond)
		}
	}()
	if p.plan == 1 && !timerEnds {
		wg.Add(1)
		go func() {
			defer wg.Done()
			t := time.NewTimer(p.off)
			defer t.Stop()
			select {
			case <-t.C:
				doCancel()
			case <-stop:
			}
		}()
	}

	o.sorted = true
	timedOut := false
	var last time.Time
	got := func(v time.Time, after bool) {
		o.nrecv++
		if after {
			o.nafter++
		}
		if v.IsZero() {
			o.zero = true
		} else if o.nrecv > 1 && p.rate >= time.Millisecond && last.Sub(v) > p.rate/2 {
			o.sorted = false
		}
		last = v
		if p.plan == 2 && o.nrecv == p.j {
			doCancel()
		}
	}
	if p.plan == 3 && p.cancelBeforeFirst {
		doCancel()
	}
	// the first value must be there without waiting
	{
		f := ctxDone()
		select {
		case v, ok := <-c:
			if ok {
				o.firstImm = true
				got(v, f)
			} else {
				o.closedSeen = true
			}
		default:
		}
	}
	if p.plan == 3 {
		doCancel()
	}
	if p.pace == 2 && !o.closedSeen {
		// absent: the producer keeps retrying into a full or empty buffer meanwhile
		d := time.Duration(p.count+2) * p.rate
		if d < 2*time.Millisecond {
			d = 2 * time.Millisecond
		}
		time.Sleep(d)
	}
	for !o.closedSeen && !timedOut && o.nrecv <= p.count+3 {
		if p.pace == 1 {
			time.Sleep(time.Duration(p.slowK) * p.rate)
		}
		sample()
		if p.race {
			// spin: every attempt is a receive of its own, begun after reading the flag
			start := time.Now()
			for spins := 1; ; spins++ {
				f := ctxDone()
				select {
				case v, ok := <-c:
					if ok {
						got(v, f)
					} else {
						o.closedSeen = true
					}
				default:
					if spins&1023 == 0 && time.Since(start) > p.deadline {
						timedOut = true
					} else {
						continue
					}
				}
				break
			}
			continue
		}
		f := ctxDone()
		t := time.NewTimer(p.deadline)
		select {
		case v, ok := <-c:
			if ok {
				got(v, f)
			} else {
				o.closedSeen = true
			}
		case <-t.C:
			timedOut = true
		}
		t.Stop()
	}
	o.cancelledBeforeClose = ctxDone()
	doCancel()
	o.exited = attemptWaitGone(base, p.deadline)
	close(stop)
	wg.Wait()
	sample()
	o.maxLen = int(maxLen.Load())
	return
}

// ---------------------------------------------------------------------------------------------------------------------
// promptness: "closed promptly after the context is cancelled ... the producing goroutine always exits" must not depend
// on the rate. A batch of channels with a LARGE rate (300-500 ms) and an absent receiver (the buffer stays full, so the
// first tick cannot be forwarded); a few milliseconds after that tick was due every context is ended; a bound far below
// the rate (40 ms) later no producer goroutine may be left. To be immune to machine load a failing batch is re-run and
// reported only if three consecutive runs fail.
// ---------------------------------------------------------------------------------------------------------------------
type attemptPromptCase struct {
	count, kind int
	lead        time.Duration
	firstLen    int
	c           <-chan time.Time
	cancelledAt time.Time
}

func attemptPromptness(h *hctx) {
	n := h.pi("prompt", 6)
	if n <= 0 {
		return
	}
	const bound = 40 * time.Millisecond
	rate := time.Duration(300+h.rng.Intn(201)) * time.Millisecond
	cases := make([]*attemptPromptCase, n)
	for i := range cases {
		cases[i] = &attemptPromptCase{count: 2 + h.rng.Intn(5), kind: h.rng.Intn(4), lead: time.Duration(4+h.rng.Intn(12)) * time.Millisecond}
	}
	var alive int
	ok := false
	for try := 1; try <= 3 && !ok; try++ {
		base, _ := attemptProducers()
		var wg sync.WaitGroup
		var cancels []func()
		var mu sync.Mutex
		for _, pc := range cases {
			wg.Add(1)
			go func(pc *attemptPromptCase) {
				defer wg.Done()
				ctx, cancel := attemptNewCtx(pc.kind)
				mu.Lock()
				cancels = append(cancels, cancel)
				mu.Unlock()
				t0 := time.Now()
				pc.c = LinearAttempt(ctx, rate, pc.count)
				pc.firstLen = len(pc.c)
				time.Sleep(time.Until(t0.Add(rate + pc.lead)))
				cancel()
				pc.cancelledAt = time.Now()
			}(pc)
		}
		wg.Wait()
		last := cases[0].cancelledAt
		for _, pc := range cases {
			if pc.cancelledAt.After(last) {
				last = pc.cancelledAt
			}
		}
		time.Sleep(time.Until(last.Add(bound)))
		m, _ := attemptProducers()
		alive = m - base
		ok = alive <= 0
		h.count("p_batches", 1)
		if !ok {
			h.count("p_batches_failed", 1)
		}
		// let the stragglers finish so that the drain below is deterministic and nothing leaks into the next cases
		attemptWaitGone(base, 2*time.Second)
		for _, cf := range cancels {
			cf()
		}
	}
	if !ok {
		attemptMonitor(h, "%d producer goroutine(s) still alive %v after their contexts ended (rate=%v, absent receiver, context ended %v..%v after "+
			"the first tick was due), in 3 consecutive runs: the close must be prompt whatever the rate", alive, bound, rate,
			4*time.Millisecond, 16*time.Millisecond)
	}
	for i, pc := range cases {
		nvals, closed := 0, false
	drain:
		for k := 0; k < pc.count+4; k++ {
			select {
			case _, o := <-pc.c:
				if !o {
					closed = true
					break drain
				}
				nvals++
			default:
				break drain
			}
		}
		if !closed {
			attemptMonitor(h, "promptness case %d: channel not closed although the context ended more than %v ago (rate=%v count=%d ctxkind=%d)",
				i, bound, rate, pc.count, pc.kind)
		}
		h.line("F attempt_obs p-%d-%d %d %d %d %d 0 1 %d %d 1 %d | 1", h.seed, i, pc.count, nvals, pc.firstLen, nvals, attemptB2i(closed),
			attemptB2i(pc.firstLen == 1), attemptB2i(ok))
	}
}
