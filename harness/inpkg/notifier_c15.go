//go:build verif

package bigbuff

import (
	"context"
	"errors"
	"fmt"
	"reflect"
	"sort"
	"sync"
	"time"
)

// C15 - Notifier.  Records (decided by checker/ad_notifier.ml with the extracted Model/Notifier.v):
//
//	F notifier_publish <id> <pubctx> <n> (<sid> <has_ctx> <cancelled0> <compat>)*n <nev> (<kind> <sid>)*nev | <returned> <ndelivered> <sid>*
//	    kind: 0 EvReady (the harness receives from that target)  1 EvCancel (cancels that subscription's context)
//	          2 EvExit (cancels the publish context; sid is 0)
//	    decided by run_publish AND spec_publish.
//	F notifier_registry <id> <nops> (<op> <key> <target>)*nops | <outs, concatenated>
//	    op: 0 Subscribe (no context)  4 SubscribeContext(live)  5 SubscribeContext(already cancelled)
//	        1 Unsubscribe               -> out 1 (ok) / 0 (panicked)
//	        2 Publish                   -> out <count> <sorted target ids that received>
//	        3 Lookup (n.subscribers[key] read in-package) -> out <count> <sorted target ids>
//	    decided by subscribe_ctx / unsubscribe_ctx / publish_ready / lookup.

const (
	c15VInt = iota
	c15VString
	c15VPtr
	c15VErr
	c15VNil // untyped nil (a nil error-typed variable passed as `any` is the same thing)
	// typed nils: ordinary values of their static type, NOT untyped nil
	c15VNilPtr
	c15VNilSlice
	c15VNilMap
	c15VNilFunc
	c15VNilChan
	c15VNilErrPtr // (*c15Err)(nil): a typed nil pointer whose type implements error
	c15NV
)

var c15VName = [c15NV]string{"int", "string", "*int", "error", "nil", "(*int)(nil)", "([]int)(nil)", "(map[string]int)(nil)",
	"(func())(nil)", "(chan-int)(nil)", "(*c15Err)(nil)"}

type c15Err struct{ s string }

func (e *c15Err) Error() string { return "c15Err" }

// element types of the target channels
var c15Elem = []reflect.Type{
	reflect.TypeOf(int(0)),                     // 0
	reflect.TypeOf((*interface{})(nil)).Elem(), // 1
	reflect.TypeOf(""),                         // 2
	reflect.TypeOf((*int)(nil)),                // 3
	reflect.TypeOf((*error)(nil)).Elem(),       // 4
	reflect.TypeOf([]int(nil)),                 // 5
	reflect.TypeOf((*string)(nil)),             // 6
	reflect.TypeOf(map[string]int(nil)),        // 7
	reflect.TypeOf((func())(nil)),              // 8
	reflect.TypeOf((chan int)(nil)),            // 9
	reflect.TypeOf((*c15Err)(nil)),             // 10
}

// c15Compat[value kind][element type]: may the value be sent on a channel of that element type.  Written out by hand
// (the oracle must not be reflect's AssignableTo).  For untyped nil: the element type can hold nil.  For a typed nil:
// ordinary assignability of its static type (identical type, or an interface it implements).
var c15Compat = [c15NV][]int{
	//                int any str *int err []int *str map func chan *c15Err
	c15VInt:       {1, 1, 0, 0, 0, 0, 0, 0, 0, 0, 0},
	c15VString:    {0, 1, 1, 0, 0, 0, 0, 0, 0, 0, 0},
	c15VPtr:       {0, 1, 0, 1, 0, 0, 0, 0, 0, 0, 0},
	c15VErr:       {0, 1, 0, 0, 1, 0, 0, 0, 0, 0, 0},
	c15VNil:       {0, 1, 0, 1, 1, 1, 1, 1, 1, 1, 1},
	c15VNilPtr:    {0, 1, 0, 1, 0, 0, 0, 0, 0, 0, 0},
	c15VNilSlice:  {0, 1, 0, 0, 0, 1, 0, 0, 0, 0, 0},
	c15VNilMap:    {0, 1, 0, 0, 0, 0, 0, 1, 0, 0, 0},
	c15VNilFunc:   {0, 1, 0, 0, 0, 0, 0, 0, 1, 0, 0},
	c15VNilChan:   {0, 1, 0, 0, 0, 0, 0, 0, 0, 1, 0},
	c15VNilErrPtr: {0, 1, 0, 0, 1, 0, 0, 0, 0, 0, 1},
}

func c15TypedNil(kind int) bool { return kind >= c15VNilPtr && kind <= c15VNilErrPtr }

func c15Value(kind, tag int) interface{} {
	switch kind {
	case c15VInt:
		return tag
	case c15VString:
		return fmt.Sprintf("v%d", tag)
	case c15VPtr:
		p := new(int)
		*p = tag
		return p
	case c15VErr:
		return errors.New(fmt.Sprintf("e%d", tag))
	case c15VNilPtr:
		return (*int)(nil)
	case c15VNilSlice:
		return ([]int)(nil)
	case c15VNilMap:
		return (map[string]int)(nil)
	case c15VNilFunc:
		return (func())(nil)
	case c15VNilChan:
		return (chan int)(nil)
	case c15VNilErrPtr:
		return (*c15Err)(nil)
	}
	var e error // a nil error-typed variable converts to the untyped nil interface
	return e
}

// c15Same: is the received value identical to the published one.  Untyped nil: the nil/zero value of the element type.
// Typed nil: a nil of exactly the published static type; on an interface-typed channel (interface{}, error) the interface
// must HOLD that typed nil (it is not the nil interface, and its dynamic type is preserved).
func c15Same(got reflect.Value, kind int, want interface{}) bool {
	if kind == c15VNil {
		return got.IsZero()
	}
	if c15TypedNil(kind) {
		v := got
		if v.Kind() == reflect.Interface {
			if v.IsNil() {
				return false
			}
			v = v.Elem()
		}
		return v.Type() == reflect.TypeOf(want) && v.IsNil()
	}
	defer func() { _ = recover() }()
	return got.Interface() == want
}

// c15Recv receives from a target of any element type, waiting at most d.  A blocked sender is taken at once by the
// non-blocking attempts before and after the wait, so a descheduled harness goroutine whose timer expires early cannot
// make a pending send look absent.
func c15Recv(target reflect.Value, d time.Duration) (reflect.Value, bool) {
	if v, ok := target.TryRecv(); ok || d <= 0 {
		return v, ok
	}
	t := time.NewTimer(d)
	defer t.Stop()
	i, v, _ := reflect.Select([]reflect.SelectCase{
		{Dir: reflect.SelectRecv, Chan: target},
		{Dir: reflect.SelectRecv, Chan: reflect.ValueOf(t.C)},
	})
	if i == 0 {
		return v, true
	}
	return target.TryRecv()
}

type c15Sub struct {
	sid       int
	elem      int
	target    reflect.Value
	ctx       context.Context
	cancel    context.CancelFunc
	cancelled bool // pre-cancelled
}

func c15b(b bool) int {
	if b {
		return 1
	}
	return 0
}

const c15Gap = 150 * time.Microsecond

func init() {
	register("C15K1", func(h *hctx) {
		for i := 0; i < h.n; i++ {
			if !c15PublishCase(h, i) {
				return // a goroutine is spinning or stuck: later cases could not be observed reliably
			}
		}
	})
	register("C15REG", func(h *hctx) {
		for i := 0; i < h.n; i++ {
			c15RegistryCase(h, i)
		}
		for i := 0; i < 1+h.n/20; i++ {
			c15SubscribeCancelCase(h, i)
		}
	})
	register("C15K2", func(h *hctx) {
		for i := 0; i < h.n; i++ {
			if !c15StressRound(h, i) {
				return
			}
		}
	})
}

// ---------------------------------------------------------------------------------------------------------------
// C15K1: one PublishContext, one ready select case at a time
// ---------------------------------------------------------------------------------------------------------------

func c15PublishCase(h *hctx, id int) (ok bool) {
	rto := time.Duration(h.pi("rto_us", 3000)) * time.Microsecond
	var n Notifier
	key := interface{}(fmt.Sprintf("key-%d", id))
	if id%3 == 1 {
		key = id
	}
	vkind := h.rng.Intn(c15NV)
	if h.rng.Intn(7) == 0 {
		vkind = c15VNil // nil is the interesting value
	}
	value := c15Value(vkind, 1000+id)
	nsub := 1 + h.rng.Intn(5)
	subs := make([]*c15Sub, nsub)
	for i := range subs {
		s := &c15Sub{sid: 10 + i, elem: h.rng.Intn(len(c15Elem))}
		if h.rng.Intn(100) < 45 {
			// bias towards compatible element types so that most cases have something pending
			for k := 0; k < 10 && c15Compat[vkind][s.elem] == 0; k++ {
				s.elem = h.rng.Intn(len(c15Elem))
			}
		}
		s.target = reflect.MakeChan(reflect.ChanOf(reflect.BothDir, c15Elem[s.elem]), 0)
		if h.rng.Intn(100) < 50 {
			s.ctx, s.cancel = context.WithCancel(context.Background())
			if h.rng.Intn(100) < 25 {
				s.cancel()
				s.cancelled = true
			}
		}
		subs[i] = s
	}
	// subscriptions under OTHER keys: must never receive anything
	var others []*c15Sub
	for i := 0; i < h.rng.Intn(3); i++ {
		o := &c15Sub{sid: 90 + i, elem: h.rng.Intn(len(c15Elem))}
		o.target = reflect.MakeChan(reflect.ChanOf(reflect.BothDir, c15Elem[o.elem]), 0)
		others = append(others, o)
	}
	// registration order is shuffled (and the map iterates in its own order anyway)
	for _, i := range h.rng.Perm(nsub) {
		s := subs[i]
		if s.ctx != nil {
			n.SubscribeContext(s.ctx, key, s.target.Interface())
		} else {
			n.Subscribe(key, s.target.Interface())
		}
	}
	for i, o := range others {
		n.Subscribe([2]int{id, i}, o.target.Interface())
	}
	// receivers already parked on targets that must get nothing (already-cancelled or incompatible subscriptions, other
	// keys): if Publish offered them the value, the send would go through at once
	stopEager := make(chan struct{})
	var eagerWG sync.WaitGroup
	var eagerMu sync.Mutex
	var eagerGot []int
	park := func(s *c15Sub) {
		eagerWG.Add(1)
		go func() {
			defer eagerWG.Done()
			i, _, _ := reflect.Select([]reflect.SelectCase{
				{Dir: reflect.SelectRecv, Chan: s.target},
				{Dir: reflect.SelectRecv, Chan: reflect.ValueOf(stopEager)},
			})
			if i == 0 {
				eagerMu.Lock()
				eagerGot = append(eagerGot, s.sid)
				eagerMu.Unlock()
			}
		}()
	}
	for _, s := range subs {
		if (s.cancelled || c15Compat[vkind][s.elem] == 0) && h.rng.Intn(100) < 60 {
			park(s)
			h.count("parked_ineligible", 1)
		}
	}
	for _, o := range others {
		if h.rng.Intn(100) < 50 {
			park(o)
		}
	}
	var pubCtx context.Context
	var pubCancel context.CancelFunc
	hasPub := h.rng.Intn(100) < 45
	if hasPub {
		pubCtx, pubCancel = context.WithCancel(context.Background())
	}

	// the event list: mostly meaningful events in a random order, some repeated, sometimes cut short
	type ev struct{ kind, sid int }
	var evs []ev
	for _, s := range subs {
		r := h.rng.Intn(100)
		switch {
		case r < 55:
			evs = append(evs, ev{0, s.sid})
		case r < 75:
			evs = append(evs, ev{1, s.sid}, ev{0, s.sid})
		case r < 90:
			evs = append(evs, ev{0, s.sid}, ev{0, s.sid})
		default:
			evs = append(evs, ev{1, s.sid})
		}
	}
	if h.rng.Intn(100) < 30 {
		evs = append(evs, ev{2, 0})
	}
	if h.rng.Intn(100) < 10 {
		evs = append(evs, ev{0, 99}) // a sid that does not exist under this key
	}
	h.rng.Shuffle(len(evs), func(i, j int) { evs[i], evs[j] = evs[j], evs[i] })
	if h.rng.Intn(100) < 35 && len(evs) > 0 {
		evs = evs[:h.rng.Intn(len(evs))]
	}
	if len(evs) > 9 {
		evs = evs[:9]
	}
	bySid := map[int]*c15Sub{}
	for _, s := range subs {
		bySid[s.sid] = s
	}

	// a publish context that is already cancelled at the call is the event list starting with EvExit
	preExit := len(evs) > 0 && evs[0].kind == 2 && hasPub && h.rng.Intn(2) == 0
	if preExit {
		pubCancel()
	}

	done := make(chan struct{})
	var panicked interface{}
	go func() {
		defer close(done)
		defer func() { panicked = recover() }()
		if hasPub {
			n.PublishContext(pubCtx, key, value)
		} else if id%2 == 0 {
			n.Publish(key, value)
		} else {
			n.PublishContext(nil, key, value)
		}
	}()
	ok = true
	settle := func(what string) {
		if ok && !quiesce(c15Gap, 3*time.Second) {
			h.line("MONITOR C15 no quiescence %s (case %d, value=%s): a goroutine keeps running", what, id, c15VName[vkind])
			ok = false
		}
	}
	settle("after Publish started")
	checkOthers := func(when string) {
		for _, o := range others {
			if _, ok := o.target.TryRecv(); ok {
				h.line("MONITOR C15 a subscription under ANOTHER key received a value %s (case %d, value=%s)", when, id, c15VName[vkind])
			}
		}
	}
	checkOthers("while Publish was blocked")

	var delivered []int
	for i, e := range evs {
		switch e.kind {
		case 0:
			s := bySid[e.sid]
			if s == nil {
				break
			}
			if got, ok := c15Recv(s.target, rto); ok {
				delivered = append(delivered, s.sid)
				if !c15Same(got, vkind, value) {
					h.line("MONITOR C15 wrong value delivered to sid %d (case %d, value=%s elem=%s)", s.sid, id, c15VName[vkind], c15Elem[s.elem])
				}
			}
		case 1:
			if s := bySid[e.sid]; s != nil && s.cancel != nil {
				s.cancel()
			}
		case 2:
			if hasPub && !(i == 0 && preExit) {
				pubCancel()
			}
		}
		settle("after an event")
	}
	returned := false
	select {
	case <-done:
		returned = true
	default:
	}
	checkOthers("at the end")
	eagerMu.Lock()
	for _, sid := range eagerGot {
		h.line("MONITOR C15 a subscription that must receive nothing (sid %d: already cancelled, incompatible element type, or another key) received the value (case %d, value=%s)", sid, id, c15VName[vkind])
	}
	eagerMu.Unlock()
	if returned && panicked != nil {
		returned = false
		h.line("MONITOR C15 Publish panicked: value=%s case=%d nsub=%d: %.120v", c15VName[vkind], id, nsub, panicked)
		h.count("publish_panicked", 1)
	}

	rec := fmt.Sprintf("F notifier_publish p-%d-%d %d %d", h.seed, id, c15b(hasPub), nsub)
	npending := 0
	for _, s := range subs {
		compat := c15Compat[vkind][s.elem]
		rec += fmt.Sprintf(" %d %d %d %d", s.sid, c15b(s.ctx != nil), c15b(s.cancelled), compat)
		if compat == 1 && !s.cancelled {
			npending++
		}
	}
	rec += fmt.Sprintf(" %d", len(evs))
	for _, e := range evs {
		rec += fmt.Sprintf(" %d %d", e.kind, e.sid)
	}
	h.line("%s | %d %d %s", rec, c15b(returned), len(delivered), ints(delivered))
	h.count("value_"+c15VName[vkind], 1)
	h.count(fmt.Sprintf("pending_%d", npending), 1)
	h.count("events", len(evs))
	h.count("delivered", len(delivered))
	h.count("returned", c15b(returned))
	h.count("pubctx", c15b(hasPub))

	// let the Publish goroutine go: cancel every context and keep receiving from every target
	for _, s := range subs {
		if s.cancel != nil {
			s.cancel()
		}
	}
	end := time.Now().Add(3 * time.Second)
	for fin := false; !fin; {
		select {
		case <-done:
			fin = true
		default:
			for _, s := range subs {
				s.target.TryRecv()
			}
			if time.Now().After(end) {
				h.line("MONITOR C15 Publish did not return after every subscriber was served or cancelled (case %d, value=%s)", id, c15VName[vkind])
				fin = true
				ok = false
			}
			time.Sleep(50 * time.Microsecond)
		}
	}
	if pubCancel != nil {
		pubCancel()
	}
	close(stopEager)
	eagerWG.Wait()
	return ok
}

// ---------------------------------------------------------------------------------------------------------------
// C15REG: registry sequences
// ---------------------------------------------------------------------------------------------------------------

func c15Snapshot(n *Notifier, key interface{}, ids map[uintptr]int) []int {
	notifierMutexOf(n).RLock()
	defer notifierMutexOf(n).RUnlock()
	var l []int
	for p := range (*notifierSubsOf(n))[key] {
		if id, ok := ids[p]; ok {
			l = append(l, id)
		} else {
			l = append(l, -1)
		}
	}
	sort.Ints(l)
	return l
}

// c15Registered: number of (key, target) subscriptions in the registry (whether or not empty keys are cleaned up).
func c15Registered(n *Notifier) int {
	notifierMutexOf(n).RLock()
	defer notifierMutexOf(n).RUnlock()
	c := 0
	for _, m := range *notifierSubsOf(n) {
		c += len(m)
	}
	return c
}

func c15RegistryCase(h *hctx, id int) {
	var n Notifier
	keys := []interface{}{"a", 7}
	targets := make([]chan int, 3)
	ids := map[uintptr]int{}
	for i := range targets {
		targets[i] = make(chan int, 1)
		ids[reflect.ValueOf(targets[i]).Pointer()] = i
	}
	nops := 8 + h.rng.Intn(14)
	var ops []int
	var outs []int
	try := func(f func()) (ok bool) {
		defer func() {
			if recover() != nil {
				ok = false
			}
		}()
		f()
		return true
	}
	liveCtx, stopLive := context.WithCancel(context.Background())
	defer stopLive()
	deadCtx, stopDead := context.WithCancel(context.Background())
	stopDead()
	have := map[[2]int]bool{} // generator-side shadow, only used to bias the choice of (key, target)
	for k := 0; k < nops; k++ {
		ki, ti := h.rng.Intn(2), h.rng.Intn(3)
		r := h.rng.Intn(100)
		if r >= 40 && r < 64 && len(have) > 0 && h.rng.Intn(100) < 65 {
			// mostly unsubscribe something that is subscribed
			pick := h.rng.Intn(len(have))
			for _, kt := range [][2]int{{0, 0}, {0, 1}, {0, 2}, {1, 0}, {1, 1}, {1, 2}} {
				if have[kt] {
					if pick == 0 {
						ki, ti = kt[0], kt[1]
						break
					}
					pick--
				}
			}
		}
		switch {
		case r < 40: // Subscribe
			before := [][]int{c15Snapshot(&n, keys[0], ids), c15Snapshot(&n, keys[1], ids)}
			// the context the call carries: none, live, or already cancelled (a subscription registered with a
			// cancelled context receives nothing; a rejected duplicate must not replace the registered context)
			opc := []int{0, 4, 5}[h.rng.Intn(3)]
			ok := try(func() {
				switch opc {
				case 0:
					n.Subscribe(keys[ki], targets[ti])
				case 4:
					if h.rng.Intn(2) == 0 {
						n.SubscribeContext(context.Background(), keys[ki], targets[ti])
					} else {
						n.SubscribeContext(liveCtx, keys[ki], targets[ti])
					}
				default:
					n.SubscribeContext(deadCtx, keys[ki], targets[ti])
				}
			})
			h.count(fmt.Sprintf("sub_ctx_kind_%d", opc), 1)
			ops = append(ops, opc, ki, ti)
			outs = append(outs, c15b(ok))
			if !ok {
				h.count("sub_panic", 1)
				after := [][]int{c15Snapshot(&n, keys[0], ids), c15Snapshot(&n, keys[1], ids)}
				if !reflect.DeepEqual(before, after) {
					h.line("MONITOR C15 a panicking Subscribe changed the registry (case %d): %v -> %v", id, before, after)
				}
			} else {
				h.count("sub_ok", 1)
				have[[2]int{ki, ti}] = true
			}
		case r < 64: // Unsubscribe
			before := [][]int{c15Snapshot(&n, keys[0], ids), c15Snapshot(&n, keys[1], ids)}
			ok := try(func() { n.Unsubscribe(keys[ki], targets[ti]) })
			ops = append(ops, 1, ki, ti)
			outs = append(outs, c15b(ok))
			if !ok {
				h.count("unsub_panic", 1)
				after := [][]int{c15Snapshot(&n, keys[0], ids), c15Snapshot(&n, keys[1], ids)}
				if !reflect.DeepEqual(before, after) {
					h.line("MONITOR C15 a panicking Unsubscribe changed the registry (case %d): %v -> %v", id, before, after)
				}
			} else {
				h.count("unsub_ok", 1)
				delete(have, [2]int{ki, ti})
			}
		case r < 90: // Publish; buffered targets, drained afterwards, so it never blocks
			v := id*1000 + k
			done := make(chan bool, 1)
			go func() { done <- try(func() { n.Publish(keys[ki], v) }) }()
			select {
			case ok := <-done:
				if !ok {
					h.line("MONITOR C15 Publish panicked: value=int registry case=%d", id)
				}
			case <-time.After(3 * time.Second):
				h.line("MONITOR C15 Publish to buffered targets did not return (registry case %d)", id)
				return
			}
			var got []int
			for i, t := range targets {
				select {
				case x := <-t:
					got = append(got, i)
					if x != v {
						h.line("MONITOR C15 wrong value delivered (registry case %d): %d for %d", id, x, v)
					}
				default:
				}
			}
			ops = append(ops, 2, ki, 0)
			outs = append(outs, len(got))
			outs = append(outs, got...)
			h.count("publish", 1)
			h.count("publish_delivered", len(got))
		default: // Lookup
			l := c15Snapshot(&n, keys[ki], ids)
			ops = append(ops, 3, ki, 0)
			outs = append(outs, len(l))
			outs = append(outs, l...)
		}
	}
	h.line("F notifier_registry r-%d-%d %d %s | %s", h.seed, id, len(ops)/3, ints(ops), ints(outs))
}

// SubscribeCancel: after cancel() and quiescence the subscription is gone, its goroutine too.
func c15SubscribeCancelCase(h *hctx, id int) {
	var n Notifier
	if !quiesce(c15Gap, 3*time.Second) {
		return
	}
	base := libGoroutineCount()
	m := 1 + h.rng.Intn(3)
	targets := make([]chan int, m)
	cancels := make([]context.CancelFunc, m)
	for i := range targets {
		targets[i] = make(chan int, 1)
		var parent context.Context
		if h.rng.Intn(2) == 0 {
			parent = context.Background()
		}
		cancels[i] = n.SubscribeCancel(parent, "k", targets[i])
	}
	n.Publish("k", 1)
	for i, t := range targets {
		select {
		case v := <-t:
			if v != 1 {
				h.line("MONITOR C15 SubscribeCancel subscriber %d got %d, want 1", i, v)
			}
		default:
			h.line("MONITOR C15 SubscribeCancel subscriber %d missed a publish (case %d)", i, id)
		}
	}
	gone := h.rng.Intn(m)
	cancels[gone]()
	if !quiesce(c15Gap, 3*time.Second) {
		h.line("MONITOR C15 no quiescence after SubscribeCancel's cancel (case %d)", id)
	}
	n.Publish("k", 2)
	for i, t := range targets {
		select {
		case v := <-t:
			if i == gone {
				h.line("MONITOR C15 target received %d from a publish after its SubscribeCancel was cancelled (case %d)", v, id)
			}
		default:
			if i != gone {
				h.line("MONITOR C15 SubscribeCancel subscriber %d missed the second publish (case %d)", i, id)
			}
		}
	}
	// a publish blocked on the (full) targets of the remaining subscriptions returns once the functions returned by
	// SubscribeCancel have been called: they cancel the very context the subscription was registered with
	{
		n.Publish("k", 3) // fills every remaining target's buffer
		blocked := make(chan struct{})
		go func() { defer close(blocked); n.Publish("k", 4) }()
		parked := quiesce(c15Gap, 3*time.Second)
		stillBlocked := false
		select {
		case <-blocked:
		default:
			stillBlocked = true
		}
		if m > 1 && parked && !stillBlocked {
			h.line("MONITOR C15 a publish to full targets returned before anybody received or cancelled (case %d)", id)
		}
		for _, c := range cancels {
			c()
		}
		select {
		case <-blocked:
			h.count("subscribecancel_blocked_publish_released", boolInt(stillBlocked))
		case <-time.After(3 * time.Second):
			h.line("MONITOR C15 a publish blocked on SubscribeCancel subscriptions did not return within 3 s of their cancel functions being called (case %d)", id)
			return
		}
		for _, t := range targets {
			select {
			case <-t:
			default:
			}
		}
	}
	for _, c := range cancels {
		c()
	}
	end := time.Now().Add(2 * time.Second)
	for libGoroutineCount() > base && time.Now().Before(end) {
		time.Sleep(200 * time.Microsecond)
	}
	if g := libGoroutineCount(); g > base {
		h.line("MONITOR C15 SubscribeCancel goroutines left after cancel: %d above the baseline (case %d)", g-base, id)
	}
	quiesce(c15Gap, time.Second)
	if left := c15Registered(&n); left != 0 {
		h.line("MONITOR C15 %d subscriptions still registered after every SubscribeCancel was cancelled (case %d)", left, id)
	}
	h.count("subscribecancel_cases", 1)
}

// ---------------------------------------------------------------------------------------------------------------
// C15K2: concurrent publishers on several keys, SubscribeCancel subscribers receiving in goroutines
// ---------------------------------------------------------------------------------------------------------------

func c15StressRound(h *hctx, id int) bool {
	var n Notifier
	nkeys := 2 + h.rng.Intn(2)
	type subT struct {
		key    int
		ch     chan int
		cancel context.CancelFunc
		ctx    context.Context
		mu     sync.Mutex
		got    map[int]int
		stable bool // subscribed for the whole round
		wg     sync.WaitGroup
	}
	var subs []*subT
	start := func(key int, stable bool) *subT {
		s := &subT{key: key, ch: make(chan int), got: map[int]int{}, stable: stable}
		s.ctx, s.cancel = context.WithCancel(context.Background())
		// the receiver watches the same context that SubscribeCancel derives from, so it stops when cancelled
		cancelSub := n.SubscribeCancel(s.ctx, key, s.ch)
		outer := s.cancel
		s.cancel = func() { cancelSub(); outer() }
		s.wg.Add(1)
		go func() {
			defer s.wg.Done()
			for {
				select {
				case v := <-s.ch:
					s.mu.Lock()
					s.got[v]++
					s.mu.Unlock()
				case <-s.ctx.Done():
					return
				}
			}
		}()
		return s
	}
	for k := 0; k < nkeys; k++ {
		for i := 0; i < 1+h.rng.Intn(3); i++ {
			subs = append(subs, start(k, true))
		}
	}
	npub := 1 + h.rng.Intn(3)
	per := 3 + h.rng.Intn(6)
	churn := h.rng.Intn(3)
	churnKeys := make([]int, churn)
	for i := range churnKeys {
		churnKeys[i] = h.rng.Intn(nkeys)
	}
	var pw sync.WaitGroup
	var panics sync.Map
	for k := 0; k < nkeys; k++ {
		for p := 0; p < npub; p++ {
			pw.Add(1)
			go func(k, p int) {
				defer pw.Done()
				defer func() {
					if r := recover(); r != nil {
						panics.Store(fmt.Sprint(r), true)
					}
				}()
				for i := 0; i < per; i++ {
					n.Publish(k, k*100000+p*1000+i)
				}
			}(k, p)
		}
	}
	// churning subscribers come and go while the publishers run
	var cw sync.WaitGroup
	var cmu sync.Mutex
	var churned []*subT
	for _, ck := range churnKeys {
		cw.Add(1)
		go func(ck int) {
			defer cw.Done()
			s := start(ck, false)
			time.Sleep(time.Duration(50+ck*70) * time.Microsecond)
			s.cancel()
			s.wg.Wait()
			cmu.Lock()
			churned = append(churned, s)
			cmu.Unlock()
		}(ck)
	}
	fin := make(chan struct{})
	go func() { pw.Wait(); cw.Wait(); close(fin) }()
	select {
	case <-fin:
	case <-time.After(10 * time.Second):
		h.line("MONITOR C15 concurrent publishers did not finish within 10s (round %d: %d keys, %d publishers/key, %d subscribers)", id, nkeys, npub, len(subs))
		return false
	}
	panics.Range(func(k, _ interface{}) bool {
		h.line("MONITOR C15 Publish panicked: value=int stress round=%d: %.120v", id, k)
		return true
	})
	for _, s := range subs {
		s.cancel()
	}
	for _, s := range subs {
		s.wg.Wait()
	}
	for si, s := range subs {
		for p := 0; p < npub; p++ {
			for i := 0; i < per; i++ {
				v := s.key*100000 + p*1000 + i
				if c := s.got[v]; c != 1 {
					h.line("MONITOR C15 stress round %d: subscriber %d of key %d received value %d %d times (want exactly once)", id, si, s.key, v, c)
				}
			}
		}
		for v, c := range s.got {
			if v/100000 != s.key {
				h.line("MONITOR C15 stress round %d: subscriber %d of key %d received %d (x%d) published under key %d", id, si, s.key, v, c, v/100000)
			}
		}
		h.count("stress_deliveries", len(s.got))
	}
	for _, s := range churned {
		for v, c := range s.got {
			if c != 1 || v/100000 != s.key {
				h.line("MONITOR C15 stress round %d: churning subscriber of key %d received %d %d times", id, s.key, v, c)
			}
		}
		h.count("stress_churn_deliveries", len(s.got))
	}
	// every SubscribeCancel goroutine unsubscribes: the registry drains
	end := time.Now().Add(3 * time.Second)
	for {
		left := c15Registered(&n)
		if left == 0 {
			break
		}
		if time.Now().After(end) {
			h.line("MONITOR C15 stress round %d: %d subscriptions still registered after every subscriber was cancelled", id, left)
			break
		}
		time.Sleep(200 * time.Microsecond)
	}
	h.count("stress_rounds", 1)
	return true
}

// the registry lock (the only sync.RWMutex) and the registry map (the only map of that type) of a Notifier
func notifierMutexOf(n *Notifier) *sync.RWMutex { return fld[sync.RWMutex](n, "mutex") }
func notifierSubsOf(n *Notifier) *map[interface{}]map[uintptr]notifierSubscriber {
	return fld[map[interface{}]map[uintptr]notifierSubscriber](n, "subscribers")
}
