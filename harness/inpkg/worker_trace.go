//go:build verif

package bigbuff

// C17TRACE: trace acceptance for the Worker protocol model (Model/Worker.v, lock-granularity `step`; Model/WorkerWait.v adds the
// Do callers parked on x.mu).  On an INSTRUMENTED build every synchronisation point of worker.go announces itself through verifP;
// while 1-4 holder goroutines make 1-3 Do...done() rounds each on ONE Worker, the scenario logs, in the order they happen and
// with the goroutine that executes them,
//
//	 1 LOCK   about to <x>.mu.Lock()            2 UNLOCK about to <x>.mu.Unlock() (explicit statement; a deferred one is the return)
//	 3 GO     about to execute a go statement   4 ADD    about to wg.Add        5 WAIT about to wg.Wait
//	 6 CLOSE  about to close a channel          7 RECV   about to receive from a channel (statement)
//	 8 DONE   about to wg.Done (only if the library calls it in a statement of its own)
//	 9 SELECT about to select                  10 OTHER op  any other announced operation (Sleep, NewTimer, Err, ...): no model step
//	20 SPAWNED parent        first record of a goroutine: the goroutine that created it (index, -1 unknown)
//	30 DOCALL h quick        the harness is about to make Do call number h
//	31 DORET h               ... Do has returned its done function
//	32 DONECALL h            ... is about to call that done function        33 DONERET h   it has returned
//	34 FNENTER i c           the instance function was entered (i: ordinal of the entry; c: identity of the stop channel it was
//	                         handed - 0 nil, else numbered in order of first appearance in this case)
//	38 FNOF i h              ... and it is the function that was passed to Do call h (logged together with FNENTER)
//	35 SAW i                 ... has observed its stop channel closed        36 FNRET i early   ... is about to return
//	37 HELD h 2*c+closed     holder h, between DORET and DONECALL, found x.stop to be channel c (TryLock peek), closed or not
//	40 END n open            everything has finished, no goroutine of Worker is left; n = how many of stop/done/wg are non-nil,
//	                         open = stop channels handed out or seen in this case that are not closed
//
//	F worker_trace <id> <seed> <case> <ncalls> <nev> (<goroutine> <kind> <a> <b>)*nev | 1
//
// decided by checker/ad_workertrace.ml against the extracted Worker.step / WorkerWait.pstep.  The points are found in the
// instrumenter's table by what they do (operation, callee expression, enclosing function), never by line.
//
// Programs: holds of random length (none at all: w.Do(fn)(), with the holder keeping its processor afterwards so that the freshly
// spawned instance goroutine is scheduled late; a spin; a sleep), a HELD peek in the middle and again at the end of half of the
// holds, Do calls steered into a stop phase (they wait for a close announcement or for an instance to see its stop channel
// closed), instance functions that run until stopped and then wind down for 0-250 us, that return on their own (looking at stop
// or not), or that are slow to start.  Parameters: ptfile (the point table), slow (default 1: in that many cases the first
// instance winds down for slowms = 1150 ms while a second holder's Do arrives - a watcher that stops waiting for the instance
// after a grace period is only seen there).  Every wait of the harness is bounded; a hang is a MONITOR line and the trace up to
// the hang is still written (the adapter then reports where every goroutine of the model stands).

import (
	"bufio"
	"math/rand"
	"os"
	"runtime"
	"strconv"
	"strings"
	"sync"
	"sync/atomic"
	"time"
)

const (
	wtLOCK     = 1
	wtUNLOCK   = 2
	wtGO       = 3
	wtADD      = 4
	wtWAIT     = 5
	wtCLOSE    = 6
	wtRECV     = 7
	wtDONE     = 8
	wtSELECT   = 9
	wtOTHER    = 10
	wtSPAWNED  = 20
	wtDOCALL   = 30
	wtDORET    = 31
	wtDONECALL = 32
	wtDONERET  = 33
	wtFNENTER  = 34
	wtSAW      = 35
	wtFNRET    = 36
	wtHELD     = 37
	wtFNOF     = 38
	wtEND      = 40
)

// wtSources: the instrumented copies of the library's files (they are next to the point table).
func wtSources(ptfile string) map[string]string {
	i := strings.LastIndexByte(ptfile, '/')
	if i < 0 {
		return nil
	}
	ents, err := os.ReadDir(ptfile[:i])
	if err != nil {
		return nil
	}
	out := map[string]string{}
	for _, e := range ents {
		if strings.HasSuffix(e.Name(), ".go") {
			if src, err := os.ReadFile(ptfile[:i+1] + e.Name()); err == nil {
				out[e.Name()] = string(src)
			}
		}
	}
	return out
}

// wtMethod: method name and receiver type (without * and type parameters) of a top-level `func (r *T) Name(...` line.
func wtMethod(ln string) (name, typ string, ok bool) {
	if !strings.HasPrefix(ln, "func (") {
		return "", "", false
	}
	rest := strings.TrimPrefix(ln, "func (")
	cl := strings.IndexByte(rest, ')')
	if cl < 0 {
		return "", "", false
	}
	w := strings.Fields(rest[:cl])
	if len(w) == 0 {
		return "", "", false
	}
	t := strings.TrimPrefix(w[len(w)-1], "*")
	if j := strings.IndexByte(t, '['); j >= 0 {
		t = t[:j]
	}
	name = strings.TrimSpace(rest[cl+1:])
	if j := strings.IndexAny(name, "(["); j >= 0 {
		name = name[:j]
	}
	return name, t, true
}

// wtLoadPoints classifies the points of the Worker protocol by what they do.  A point belongs to the protocol if its enclosing
// function (field fn= of the table) is a method of Worker - whichever file it lives in - or if it lives in worker.go (a helper
// that is a plain function).  problem != "": the protocol lacks an operation the model has a step for, or uses two mutexes.
func wtLoadPoints(path string) (kinds map[int][2]int, problem string) {
	f, err := os.Open(path)
	if err != nil {
		return nil, "no point table"
	}
	defer f.Close()
	kinds = map[int][2]int{}
	have := map[int]int{}
	mutexes := map[string]bool{}
	others := map[string]int{}
	sc := bufio.NewScanner(f)
	for sc.Scan() {
		w := strings.Fields(sc.Text())
		if len(w) < 5 {
			continue
		}
		fn := ""
		for _, x := range w[5:] {
			if strings.HasPrefix(x, "fn=") {
				fn = x[3:]
			}
		}
		if !strings.HasPrefix(fn, "Worker.") && !strings.HasPrefix(w[1], "worker.go:") {
			continue
		}
		id, err := strconv.Atoi(w[0])
		if err != nil {
			continue
		}
		op, expr := w[3], w[4]
		k, a := 0, 0
		switch op {
		case "Lock", "Unlock":
			k = wtLOCK
			if op == "Unlock" {
				k = wtUNLOCK
			}
			m := strings.TrimSuffix(expr, "."+op)
			if j := strings.LastIndexByte(m, '.'); j >= 0 {
				m = m[j+1:]
			}
			mutexes[m] = true
		case "go":
			k = wtGO
		case "Add":
			k = wtADD
		case "Wait":
			k = wtWAIT
		case "close":
			k = wtCLOSE
		case "recv":
			k = wtRECV
		case "Done":
			k = wtDONE
		case "select":
			k = wtSELECT
		default:
			k = wtOTHER
			if _, ok := others[op]; !ok {
				others[op] = len(others) + 1
			}
			a = others[op]
		}
		kinds[id] = [2]int{k, a}
		have[k]++
	}
	if len(kinds) == 0 {
		return nil, "no synchronisation point in a method of Worker"
	}
	if len(mutexes) > 1 {
		names := []string{}
		for m := range mutexes {
			names = append(names, m)
		}
		return nil, "the methods of Worker lock more than one mutex (" + strings.Join(names, ", ") + "); the model has one"
	}
	need := []struct {
		k, n int
		name string
	}{{wtLOCK, 1, "a mutex Lock statement"}, {wtUNLOCK, 1, "an explicit mutex Unlock statement"}, {wtGO, 1, "a go statement"},
		{wtADD, 1, "a WaitGroup Add"}, {wtWAIT, 1, "a WaitGroup Wait"}, {wtCLOSE, 1, "a close statement"}}
	for _, n := range need {
		if have[n.k] < n.n {
			return nil, "worker.go does not have " + n.name
		}
	}
	if have[wtRECV]+have[wtSELECT] == 0 {
		return nil, "worker.go has no channel receive (the watcher's wait for the instance to exit)"
	}
	return kinds, ""
}

// wtDeferred: the instrumenter announces a point before the STATEMENT that performs it; an operation that is the operand of a
// defer statement is executed at the function's return without an announcement.  Do's `defer x.mu.Unlock()` is handled (the end
// of its critical section is its return); any other deferred synchronisation operation cannot be followed point by point.
func wtDeferred(ptfile string) string {
	srcs := wtSources(ptfile)
	if len(srcs) == 0 {
		return "the instrumented copy of the library cannot be read"
	}
	for file, src := range srcs {
		in, isDo := false, false
		for _, ln := range strings.Split(src, "\n") {
			if strings.HasPrefix(ln, "func ") {
				name, typ, ok := wtMethod(ln)
				in = (ok && typ == "Worker") || file == "worker.go"
				isDo = ok && typ == "Worker" && name == "Do"
			}
			t := strings.TrimSpace(ln)
			if !in || !strings.HasPrefix(t, "defer ") || strings.HasPrefix(t, "defer func") {
				continue
			}
			for _, op := range []string{".Lock()", ".Unlock()", ".Wait()", ".Add(", ".Done()", "close("} {
				if strings.Contains(t, op) && !(isDo && op == ".Unlock()") {
					return "a function of the Worker protocol defers a synchronisation operation (`" + t + "`), which is executed without an announcement"
				}
			}
		}
	}
	return ""
}

// wtLive: the number of goroutines (other than the calling one) that are executing, or were created by, a method of Worker.
func wtLive() int {
	buf := make([]byte, 256<<10)
	for {
		n := runtime.Stack(buf, true)
		if n < len(buf) {
			buf = buf[:n]
			break
		}
		buf = make([]byte, 2*len(buf))
	}
	live := 0
	for i, b := range strings.Split(string(buf), "\n\n") {
		if i > 0 && strings.Contains(b, ".(*Worker).") {
			live++
		}
	}
	return live
}

func wtWaitGone(deadline time.Duration) (int, bool) {
	end := time.Now().Add(deadline)
	n := wtLive()
	for n > 0 && time.Now().Before(end) {
		time.Sleep(300 * time.Microsecond)
		n = wtLive()
	}
	return n, n == 0
}

func wtGID(buf []byte) int {
	f := strings.Fields(string(buf))
	if len(f) >= 2 {
		if v, err := strconv.Atoi(f[1]); err == nil {
			return v
		}
	}
	return -1
}

// wtParent: the id of the goroutine that created the current one ("created by ... in goroutine N"), -1 if not printed.
func wtParent() int {
	buf := make([]byte, 16<<10)
	n := runtime.Stack(buf, false)
	s := string(buf[:n])
	i := strings.LastIndex(s, "created by ")
	if i < 0 {
		return -1
	}
	s = s[i:]
	if nl := strings.IndexByte(s, '\n'); nl >= 0 {
		s = s[:nl]
	}
	j := strings.LastIndex(s, " in goroutine ")
	if j < 0 {
		return -1
	}
	v, err := strconv.Atoi(strings.TrimSpace(s[j+len(" in goroutine "):]))
	if err != nil {
		return -1
	}
	return v
}

type wtLog struct {
	mu     sync.Mutex
	kinds  map[int][2]int
	gids   map[int]int
	ev     []int
	rng    *rand.Rand
	noise  int // 0 none | 1 yields | 2 yields and short sleeps
	chans  map[<-chan struct{}]int
	stops  []<-chan struct{}
	ninst  int
	sig    atomic.Int32 // bumped when a stop phase shows (a close is announced, an instance saw its stop channel closed)
	nother int
}

func (l *wtLog) chanID(c <-chan struct{}) int {
	if c == nil {
		return 0
	}
	if id, ok := l.chans[c]; ok {
		return id
	}
	id := len(l.chans) + 1
	l.chans[c] = id
	l.stops = append(l.stops, c)
	return id
}

// put appends one record for the calling goroutine (with lg.mu held by the caller).
func (l *wtLog) put(kind, a, b int) {
	var small [64]byte
	g := wtGID(small[:runtime.Stack(small[:], false)])
	idx, ok := l.gids[g]
	if !ok {
		idx = len(l.gids)
		l.gids[g] = idx
		par := -1
		if p, ok := l.gids[wtParent()]; ok {
			par = p
		}
		l.ev = append(l.ev, idx, wtSPAWNED, par, 0)
	}
	l.ev = append(l.ev, idx, kind, a, b)
}

// add appends one record and then, to diversify the interleavings, yields or sleeps briefly (unless quiet).
func (l *wtLog) add(kind, a, b int, quiet bool) {
	l.mu.Lock()
	l.put(kind, a, b)
	r, d := 8, time.Duration(0)
	if l.noise > 0 && !quiet {
		r = l.rng.Intn(8)
		d = time.Duration(l.rng.Intn(150)) * time.Microsecond
	}
	noise := l.noise
	l.mu.Unlock()
	switch {
	case r < 2 && noise >= 2:
		time.Sleep(d)
	case r < 5:
		runtime.Gosched()
	}
}

func (l *wtLog) at(id int) {
	if k, ok := l.kinds[id]; ok {
		if k[0] == wtCLOSE {
			l.sig.Add(1)
		}
		l.add(k[0], k[1], 0, false)
	}
}

func (l *wtLog) enter(stop <-chan struct{}, h int) int {
	l.mu.Lock()
	i := l.ninst
	l.ninst++
	l.put(wtFNENTER, i, l.chanID(stop))
	l.put(wtFNOF, i, h)
	l.mu.Unlock()
	return i
}

func (l *wtLog) held(h int, stop chan struct{}) {
	closed := 0
	if stop != nil {
		select {
		case <-stop:
			closed = 1
		default:
		}
	}
	l.mu.Lock()
	l.put(wtHELD, h, l.chanID(stop)*2+closed)
	l.mu.Unlock()
}

func wtSpin(d time.Duration) {
	if d <= 0 {
		return
	}
	if d > 60*time.Microsecond {
		time.Sleep(d)
		return
	}
	for t := time.Now(); time.Since(t) < d; {
	}
}

func wtBusy(d time.Duration) { // keeps the processor (no yield): a goroutine in this P's runnext slot stays unscheduled
	for t := time.Now(); time.Since(t) < d; {
	}
}

// instance function behaviours
type wtMode struct {
	early bool          // returns on its own (after `life`), looking at stop meanwhile or not at all
	blind bool          // early only: does not look at its stop channel at all
	late  time.Duration // slow to start: entered this much after its goroutine began to run
	life  time.Duration // early only
	wind  time.Duration // wind-down after seeing stop closed
}

type wtRound struct {
	h     int
	pre   time.Duration
	steer bool // wait (bounded) for a stop phase to show, then call Do
	quick bool // w.Do(fn)(): release at once
	hold  time.Duration
	peek  bool
	after time.Duration // quick rounds: keep the processor this long after done()
}

func init() {
	register("C17TRACE", func(h *hctx) {
		if !instrumented() {
			h.line("STAT c17trace_not_run 1")
			return
		}
		kinds, problem := wtLoadPoints(h.p("ptfile", ""))
		if problem == "" {
			problem = wtDeferred(h.p("ptfile", ""))
		}
		if problem != "" {
			h.line("INCONCLUSIVE C17 trace: %s: the control flow of Worker.Do / wait / do cannot be mapped to the steps of the Worker protocol model", problem)
			return
		}
		quiesce(200*time.Microsecond, 2*time.Second)
		nslow := h.pi("slow", 1)
		slowAt := map[int]bool{}
		for j := 0; j < nslow; j++ {
			slowAt[(j+1)*h.n/(nslow+1)] = true
		}
		for i := 0; i < h.n; i++ {
			slow := time.Duration(0)
			if slowAt[i] {
				slow = time.Duration(h.pi("slowms", 1150)) * time.Millisecond
			}
			if !wtCase(h, i, kinds, slow) {
				return
			}
		}
	})
}

func wtCase(h *hctx, id int, kinds map[int][2]int, slow time.Duration) bool {
	rng := h.rng
	if n, ok := wtWaitGone(2 * time.Second); !ok {
		h.line("STAT c17trace_skipped_library_goroutines_left %d", n)
		return true
	}
	us := func(n int) time.Duration { return time.Duration(rng.Intn(n)) * time.Microsecond }
	// the program
	nh := 1 + rng.Intn(4)
	allQuick := rng.Intn(4) == 0
	noise := []int{0, 1, 2, 2}[rng.Intn(4)]
	if allQuick && rng.Intn(2) == 0 {
		noise = 0
	}
	if slow > 0 && nh < 2 {
		nh = 2
	}
	var progs [][]*wtRound
	ncalls := 0
	for g := 0; g < nh; g++ {
		nr := 1 + rng.Intn(3)
		var p []*wtRound
		for j := 0; j < nr; j++ {
			r := &wtRound{h: ncalls}
			ncalls++
			switch x := rng.Intn(10); {
			case allQuick:
			case x < 4:
			case x < 8:
				r.pre = us(300)
			default:
				r.steer = true
			}
			switch x := rng.Intn(8); {
			case allQuick || x < 2:
				r.quick = true
				if rng.Intn(2) == 0 {
					r.after = us(120)
				}
			case x < 4:
				r.hold = us(50)
			default:
				r.hold = us(500)
			}
			r.peek = !r.quick && rng.Intn(2) == 0
			p = append(p, r)
		}
		progs = append(progs, p)
	}
	if slow > 0 {
		// holder 0 starts the slow instance and releases it; holder 1 arrives while it is winding down
		progs[0][0].pre, progs[0][0].steer, progs[0][0].quick, progs[0][0].hold = 0, false, false, 200*time.Microsecond
		progs[1][0].pre, progs[1][0].steer = 0, true
	}
	modes := make([]wtMode, 12)
	for i := range modes {
		m := wtMode{}
		switch x := rng.Intn(20); {
		case x < 11: // (a) runs until stopped
		case x < 16: // (b) returns on its own
			m.early = true
			m.blind = rng.Intn(2) == 0
			if rng.Intn(3) != 0 {
				m.life = us(400)
			}
		default: // (c) slow to start
			m.late = us(400)
		}
		switch rng.Intn(3) {
		case 1:
			m.wind = us(50)
		case 2:
			m.wind = us(250)
		}
		modes[i] = m
	}
	if slow > 0 {
		modes[0] = wtMode{wind: slow}
	}
	lg := &wtLog{kinds: kinds, gids: map[int]int{}, rng: rand.New(rand.NewSource(rng.Int63())), noise: noise, chans: map[<-chan struct{}]int{}}
	w := new(Worker)
	var nentered, running atomic.Int32
	var monMu sync.Mutex
	var monitors []string
	monitor := func(s string) { monMu.Lock(); monitors = append(monitors, s); monMu.Unlock() }

	fnOf := func(h int) func(stop <-chan struct{}) {
		return func(stop <-chan struct{}) {
			idx := int(nentered.Add(1)) - 1
			m := modes[idx%len(modes)]
			if m.late > 0 {
				time.Sleep(m.late)
			}
			i := lg.enter(stop, h)
			if n := running.Add(1); n > 1 {
				monitor("two instance functions of one Worker running at once")
			}
			defer running.Add(-1)
			switch {
			case stop == nil:
				lg.add(wtFNRET, i, 1, true)
			case m.early && m.blind:
				wtSpin(m.life)
				lg.add(wtFNRET, i, 1, false)
			case m.early:
				t := time.NewTimer(m.life)
				select {
				case <-stop:
					t.Stop()
					lg.sig.Add(1)
					lg.add(wtSAW, i, 0, false)
					wtSpin(m.wind)
					lg.add(wtFNRET, i, 0, false)
				case <-t.C:
					lg.add(wtFNRET, i, 1, false)
				}
			default:
				<-stop
				lg.sig.Add(1)
				lg.add(wtSAW, i, 0, false)
				wtSpin(m.wind)
				lg.add(wtFNRET, i, 0, false)
			}
		}
	}

	mu := fld[sync.Mutex](w, "mu")
	setPolicy(lg)
	var holders sync.WaitGroup
	for _, p := range progs {
		p := p
		holders.Add(1)
		go func() {
			defer holders.Done()
			for _, r := range p {
				if r.steer {
					base := lg.sig.Load()
					for t0 := time.Now(); lg.sig.Load() == base && time.Since(t0) < 3*time.Millisecond; {
						runtime.Gosched()
					}
				} else {
					wtSpin(r.pre)
				}
				lg.add(wtDOCALL, r.h, boolInt(r.quick), r.quick)
				done := w.Do(fnOf(r.h))
				lg.add(wtDORET, r.h, 0, r.quick)
				if !r.quick {
					if r.peek {
						wtSpin(r.hold / 2)
						if mu.TryLock() {
							s := *fld[chan struct{}](w, "stop", 0)
							mu.Unlock()
							lg.held(r.h, s)
							wtSpin(r.hold / 2)
							lg.held(r.h, s) // the same channel, looked at again at the end of the hold: still open
						} else {
							wtSpin(r.hold / 2)
						}
					} else {
						wtSpin(r.hold)
					}
				}
				lg.add(wtDONECALL, r.h, 0, r.quick)
				done()
				lg.add(wtDONERET, r.h, 0, r.quick)
				if r.after > 0 {
					wtBusy(r.after)
				}
			}
		}()
	}
	finished := make(chan struct{})
	go func() {
		holders.Wait()
		close(finished)
	}()
	hung := false
	select {
	case <-finished:
	case <-time.After(4*time.Second + 2*slow):
		hung = true
	}
	left, gone := 0, true
	if !hung {
		left, gone = wtWaitGone(3*time.Second + 2*slow)
	}
	setPolicy(nil)
	lg.mu.Lock()
	if !hung && gone {
		nonnil := 0
		if mu.TryLock() {
			if *fld[chan struct{}](w, "stop", 0) != nil {
				nonnil++
			}
			if *fld[chan struct{}](w, "done", 1) != nil {
				nonnil++
			}
			if *fld[*sync.WaitGroup](w, "wg") != nil {
				nonnil++
			}
			mu.Unlock()
		} else {
			nonnil = 4 // the mutex is still held although no goroutine of Worker is left
		}
		open := 0
		for _, s := range lg.stops {
			select {
			case <-s:
			default:
				open++
			}
		}
		lg.ev = append(lg.ev, 0, wtEND, nonnil, open)
	}
	ev := append([]int(nil), lg.ev...)
	ninst, ngor := lg.ninst, len(lg.gids)
	lg.mu.Unlock()
	args := []int{int(h.seed), id, ncalls, len(ev) / 4}
	args = append(args, ev...)
	h.line("F worker_trace t-%d-%d %s | 1", h.seed, id, ints(args))
	h.count("c17trace_cases", 1)
	h.count("c17trace_events", len(ev)/4)
	h.count("c17trace_do_calls", ncalls)
	h.count("c17trace_instances", ninst)
	h.count("c17trace_goroutines", ngor)
	if slow > 0 {
		h.count("c17trace_slow_wind_down_cases", 1)
	}
	for _, m := range monitors {
		h.line("MONITOR C17 %s (trace case %d)", m, id)
	}
	if hung {
		h.line("MONITOR C17 a Do or done call had not returned %v after the holders started: %d Do...done rounds on one Worker, every instance function returns once its stop channel is closed (trace case %d; the trace up to the hang is in the worker_trace record)", 4*time.Second+2*slow, ncalls, id)
		return false
	}
	if !gone {
		h.line("MONITOR C17 %d goroutine(s) of Worker left %v after every done function was called (trace case %d): an instance that nobody holds was not stopped, or its watcher did not exit", left, 3*time.Second+2*slow, id)
		return false
	}
	return true
}
