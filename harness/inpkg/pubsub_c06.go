//go:build verif

package bigbuff

import (
	"context"
	"fmt"
	"math"
	"math/rand"
	"runtime"
	"strings"
	"sync"
	"sync/atomic"
	"time"
)

// ChanPubSub harness (properties C06 and C07).
//
//   C06K2  free-running concurrent programs: 1-3 senders x 1-4 tagged values (sender*1000+seq), 2-6 subscribers mixing the
//          SubscribeContext iterator and the manual Add/C/Wait style, joining and leaving at seeded random points.
//   C06S   delay-bounded sweep (timedSweep of buffer_t.go) over the instrumentation points of chanpubsub.go/chancaster.go hit
//          by small fixed scenarios (unsubscribe racing a Send in both orders, a late joiner racing a Send), with a slow
//          subscriber in each.
//   C07SAN sanityCheckSubscribersDelta / addSubscribers on boundary values against the extracted model (F records).
//
// Every case is evaluated by the monitors of psEval on the log (global logical clock tick()); a failed monitor is one
// `MONITOR C06 ...` / `MONITOR C07 ...` line.  One `F pubsub_case <id> <summary ints> | 1` marker is written per case.

const (
	psManualQuota       = iota // manual: Add(1); receive/Wait cycles; leaves after `quota` receipts, or on stop
	psManualTimer              // manual: leaves when its timer fires (maybe before ever receiving, maybe in the middle of a Send)
	psIterCancel               // SubscribeContext iterator; leaves by cancelling its context (timer or stop)
	psIterBreak                // iterator; leaves by breaking out after `quota` receipts (cancelled on stop if never reached)
	psIterNeverRun             // iterator created and never run; context cancelled at the timer
	psIterCancelThenRun        // context cancelled at the timer, THEN the iterator is run: must yield nothing, unsubscribe once
	psStayer                   // manual; subscribed before the senders start until after the last Send (the anchor)
	psHolder                   // manual holder of k subscriptions: Add(k); never receives; withdraws all at once, Add(-k), at its timer
	psNewcomer                 // manual; spins until Add(0) reads 0, then Add(1) and receive/Wait cycles with a short receive timeout
	psIterPanic                // iterator; the range-loop body PANICS after `quota` receipts (recovered around the loop)
	psIterGoexit               // iterator; the range-loop body calls runtime.Goexit after `quota` receipts (loop on its own goroutine)
	psNStyles
)

// psIsIter: styles that subscribe through SubscribeContext
func psIsIter(style int) bool {
	return (style >= psIterCancel && style <= psIterCancelThenRun) || style == psIterPanic || style == psIterGoexit
}

// psConsumerPanic is the value a consumer's loop body panics with (an application failure, not a library panic)
type psConsumerPanic struct{}

// recoverConsumer swallows the consumer's own panic and records any other one
func (r *psRun) recoverConsumer(who string) {
	if e := recover(); e != nil {
		if _, own := e.(psConsumerPanic); !own {
			r.mu.Lock()
			r.panics = append(r.panics, fmt.Sprintf("%s: %.120v", who, e))
			r.mu.Unlock()
		}
	}
}

var psStyleName = [psNStyles]string{"manual_quota", "manual_timer", "iter_cancel", "iter_break", "iter_never_run",
	"iter_cancel_then_run", "stayer", "holder", "newcomer", "iter_panic", "iter_goexit"}

type psSubPlan struct {
	style   int
	joinAt  time.Duration // offset from the start barrier; < 0: joins before the barrier
	leaveAt time.Duration // offset from the start barrier of the timer-driven leave (timer styles); 0: none
	quota   int
	proc    time.Duration // "processing" after each receipt (a slow subscriber), still within the contract
	k       int           // holder: number of subscriptions held (|delta| of its Add calls); others: 1
	recvTO  time.Duration // newcomer: leaves when nothing arrived for this long after it subscribed
}

type psSenderPlan struct {
	startAt time.Duration
	gaps    []time.Duration // one per Send: pause after it
}

type psPlan struct {
	senders []psSenderPlan
	subs    []psSubPlan
	slack   time.Duration // extra time allowed (injected delays)
}

type psRecv struct {
	val, tick int
	pre       bool // tick taken between the receive and the call of Wait (manual style); else after Wait returned
}

type psSend struct {
	sender, val int
	inv, ret, n int
	done        bool
}

type psSub struct {
	id             int
	plan           psSubPlan
	addInv, addRet int
	unInv          atomic.Int64 // a tick known to precede the invocation of Add(-1); 0: not invoked
	unRet          atomic.Int64 // a tick known to follow its return; 0: unknown
	recvs          []psRecv
	state          atomic.Int32
	joined, done   chan struct{}
	stop           chan struct{}
	stopOnce       sync.Once
}

var psStateName = []string{"not-started", "Add(+delta)", "receiving", "Wait", "Add(-delta)", "returned", "Send", "waiting-for-cancel",
	"spinning-on-Add(0)"}

type psRun struct {
	h        *hctx
	id       string
	x        *ChanPubSub[chan int, int]
	t0       time.Time
	begin    chan struct{} // closed once t0 is set (after the initial subscriptions)
	mu       sync.Mutex
	sends    []*psSend
	subs     []*psSub
	panics   []string
	sndState []atomic.Int32
	sndDone  []chan struct{}
	failed   int
}

func (r *psRun) mon(prop, format string, args ...interface{}) {
	r.failed++
	if r.failed > 8 {
		return // one broken case must not flood the record file
	}
	r.h.line("MONITOR %s case=%s %s", prop, r.id, fmt.Sprintf(format, args...))
}

// guard recovers a panic of the calling goroutine and records it (property: contract-following use never panics).
func (r *psRun) guard(who string) {
	if e := recover(); e != nil {
		r.mu.Lock()
		r.panics = append(r.panics, fmt.Sprintf("%s: %.120v", who, e))
		r.mu.Unlock()
	}
}

func (r *psRun) until(off time.Duration) {
	if d := time.Until(r.t0.Add(off)); d > 0 {
		time.Sleep(d)
	}
}

func (r *psRun) after(off time.Duration) <-chan time.Time {
	if off <= 0 {
		return nil
	}
	d := time.Until(r.t0.Add(off))
	if d < 0 {
		d = 0
	}
	return time.After(d)
}

func (s *psSub) markUnInv() { s.unInv.CompareAndSwap(0, int64(tick())) }

func (r *psRun) record(s *psSub, v int, pre bool) {
	t := tick()
	r.mu.Lock()
	s.recvs = append(s.recvs, psRecv{val: v, tick: t, pre: pre})
	r.mu.Unlock()
}

func (r *psRun) manual(s *psSub) {
	defer close(s.done)
	defer r.guard(fmt.Sprintf("subscriber %d (%s)", s.id, psStyleName[s.plan.style]))
	if s.plan.joinAt >= 0 {
		r.until(s.plan.joinAt)
	}
	w := 1
	if s.plan.style == psHolder && s.plan.k > 1 {
		w = s.plan.k
	}
	if s.plan.style == psNewcomer {
		// subscribe at the very moment the subscriber count reads 0 (every existing subscription withdrawn, possibly in the
		// middle of a Send whose copies are still being drained)
		s.state.Store(8)
		for r.x.Add(0) != 0 {
			select {
			case <-s.stop:
				s.state.Store(5)
				return // never subscribed
			default:
			}
			runtime.Gosched()
		}
	}
	s.state.Store(1)
	a := tick()
	r.x.Add(w)
	b := tick()
	r.mu.Lock()
	s.addInv, s.addRet = a, b
	r.mu.Unlock()
	close(s.joined)
	<-r.begin
	var timer <-chan time.Time
	if s.plan.style == psManualTimer || s.plan.style == psHolder {
		timer = r.after(s.plan.leaveAt)
		if timer == nil {
			timer = time.After(0)
		}
	}
	if s.plan.style == psNewcomer {
		timer = time.After(s.plan.recvTO)
	}
	var recvC chan int // nil for a holder: it never receives
	n := 0
loop:
	for {
		s.state.Store(2)
		if s.plan.style != psHolder {
			recvC = r.x.C()
		}
		select {
		case v := <-recvC:
			r.record(s, v, true)
			s.state.Store(3)
			r.x.Wait()
			n++
			if s.plan.proc > 0 {
				time.Sleep(s.plan.proc)
			}
			if s.plan.style == psManualQuota && n >= s.plan.quota {
				break loop
			}
		case <-timer:
			break loop
		case <-s.stop:
			break loop
		}
	}
	s.state.Store(4)
	s.markUnInv()
	r.x.Add(-w)
	s.unRet.Store(int64(tick()))
	s.state.Store(5)
}

func (r *psRun) iterator(s *psSub) {
	defer close(s.done)
	who := fmt.Sprintf("subscriber %d (%s)", s.id, psStyleName[s.plan.style])
	defer r.guard(who)
	if s.plan.joinAt >= 0 {
		r.until(s.plan.joinAt)
	}
	ctx, cancel := context.WithCancel(context.Background())
	defer cancel()
	s.state.Store(1)
	a := tick()
	seq := r.x.SubscribeContext(ctx)
	b := tick()
	r.mu.Lock()
	s.addInv, s.addRet = a, b
	r.mu.Unlock()
	close(s.joined)
	<-r.begin
	finished := make(chan struct{})
	cancelled := make(chan struct{})
	var timer <-chan time.Time
	if s.plan.style != psIterBreak && s.plan.style != psIterPanic && s.plan.style != psIterGoexit {
		timer = r.after(s.plan.leaveAt)
		if timer == nil {
			timer = time.After(0)
		}
	}
	go func() {
		defer r.guard(who + " canceller")
		select {
		case <-timer:
		case <-s.stop:
		case <-finished:
			return
		}
		s.markUnInv()
		cancel()
		close(cancelled)
	}()
	defer close(finished)
	switch s.plan.style {
	case psIterNeverRun:
		s.state.Store(7)
		<-cancelled
		s.state.Store(5)
	case psIterCancelThenRun:
		s.state.Store(7)
		<-cancelled
		s.state.Store(2)
		for v := range seq {
			r.record(s, v, false)
		}
		s.state.Store(5)
	case psIterPanic, psIterGoexit:
		// the consumer fails inside the loop body: the iterator is unwound by a panic / by runtime.Goexit and must still
		// withdraw the subscription. The loop runs on its own goroutine, joined here.
		inner := make(chan struct{})
		s.state.Store(2)
		go func() {
			defer close(inner)
			defer r.recoverConsumer(who)
			n := 0
			for v := range seq {
				r.record(s, v, false)
				n++
				if s.plan.proc > 0 {
					time.Sleep(s.plan.proc)
				}
				if n >= s.plan.quota {
					s.markUnInv()
					if s.plan.style == psIterPanic {
						panic(psConsumerPanic{})
					}
					runtime.Goexit()
				}
			}
		}()
		<-inner
		s.unRet.Store(int64(tick()))
		s.state.Store(5)
	default:
		n := 0
		s.state.Store(2)
		for v := range seq {
			r.record(s, v, false)
			n++
			if s.plan.proc > 0 {
				time.Sleep(s.plan.proc)
			}
			if s.plan.style == psIterBreak && n >= s.plan.quota {
				s.markUnInv()
				break
			}
		}
		s.unRet.Store(int64(tick()))
		s.state.Store(5)
	}
}

func (r *psRun) doSend(si, val int) *psSend {
	rec := &psSend{sender: si, val: val}
	r.mu.Lock()
	r.sends = append(r.sends, rec)
	rec.inv = tick()
	r.mu.Unlock()
	n := r.x.Send(val)
	t := tick()
	r.mu.Lock()
	rec.ret, rec.n, rec.done = t, n, true
	r.mu.Unlock()
	return rec
}

func (r *psRun) sender(i int, p psSenderPlan) {
	defer close(r.sndDone[i])
	defer r.guard(fmt.Sprintf("sender %d", i+1))
	r.until(p.startAt)
	for q, gap := range p.gaps {
		r.sndState[i].Store(int32(100 + q))
		r.doSend(i+1, (i+1)*1000+q+1)
		r.sndState[i].Store(0)
		if gap > 0 {
			time.Sleep(gap)
		}
	}
	r.sndState[i].Store(-1)
}

func psWait(chs []chan struct{}, d time.Duration) bool {
	dl := time.After(d)
	for _, c := range chs {
		select {
		case <-c:
		case <-dl:
			return false
		}
	}
	return true
}

// call runs f (a library call) under recover with a deadline; false = did not return in time.
func (r *psRun) call(who string, d time.Duration, f func()) bool {
	done := make(chan struct{})
	go func() {
		defer close(done)
		defer r.guard(who)
		f()
	}()
	return psWait([]chan struct{}{done}, d)
}

func (r *psRun) blockedReport() string {
	var b []string
	for i := range r.sndState {
		if st := r.sndState[i].Load(); st >= 100 {
			b = append(b, fmt.Sprintf("sender%d:Send#%d", i+1, st-100+1))
		}
	}
	for _, s := range r.subs {
		select {
		case <-s.done:
		default:
			b = append(b, fmt.Sprintf("sub%d(%s):%s", s.id, psStyleName[s.plan.style], psStateName[s.state.Load()]))
		}
	}
	return strings.Join(b, " ")
}

// a hanging implementation costs one deadline per case: give up after three
var psHangs atomic.Int32

// psCase runs one program on a fresh instance and evaluates all monitors. Returns false if it hung.
func psCase(h *hctx, id string, plan psPlan) bool {
	deadline := time.Duration(h.pi("deadline_ms", 3000))*time.Millisecond + 4*plan.slack
	if psHangs.Load() >= 3 {
		h.count("cases_skipped_after_3_hangs", 1)
		return false
	}
	r := &psRun{h: h, id: id, x: NewChanPubSub(make(chan int)), begin: make(chan struct{})}
	r.sndState = make([]atomic.Int32, len(plan.senders))
	r.sndDone = make([]chan struct{}, len(plan.senders))
	for i := range r.sndDone {
		r.sndDone[i] = make(chan struct{})
	}
	hung := func(what string) bool {
		r.mon("C07", "hang: %s did not complete within %v; still blocked: %s", what, deadline, r.blockedReport())
		r.mu.Lock()
		r.eval(true)
		r.mu.Unlock()
		h.count("cases_hung", 1)
		psHangs.Add(1)
		return false
	}
	// a Send with nobody subscribed returns 0 without blocking
	var probe *psSend
	if !r.call("probe Send", deadline, func() { probe = r.doSend(0, 1) }) {
		return hung("Send with no subscriber")
	}
	if probe != nil && probe.n != 0 {
		r.mon("C06", "Send with no subscriber returned %d", probe.n)
	}
	for i, sp := range plan.subs {
		s := &psSub{id: i + 1, plan: sp, joined: make(chan struct{}), done: make(chan struct{}), stop: make(chan struct{})}
		r.subs = append(r.subs, s)
	}
	start := func(s *psSub) {
		if psIsIter(s.plan.style) {
			go r.iterator(s)
		} else {
			go r.manual(s)
		}
	}
	var pre []chan struct{}
	for _, s := range r.subs {
		if s.plan.joinAt < 0 {
			start(s)
			pre = append(pre, s.joined)
		}
	}
	if !psWait(pre, deadline) {
		return hung("initial subscriptions")
	}
	r.t0 = time.Now().Add(30 * time.Microsecond)
	close(r.begin)
	for _, s := range r.subs {
		if s.plan.joinAt >= 0 {
			start(s)
		}
	}
	for i, sp := range plan.senders {
		go r.sender(i, sp)
	}
	if !psWait(r.sndDone, deadline) {
		return hung("senders")
	}
	var leavers, stayers []chan struct{}
	nstay := 0
	for _, s := range r.subs {
		if s.plan.style == psStayer {
			nstay++
			stayers = append(stayers, s.done)
		} else {
			close(s.stop)
			leavers = append(leavers, s.done)
		}
	}
	if !psWait(leavers, deadline) {
		return hung("unsubscribing subscribers")
	}
	// when all calls have returned the count is subscriptions minus unsubscriptions (the AfterFunc of a never-run iterator
	// unsubscribes on its own goroutine: poll)
	count := func(want int, when string) bool {
		end := time.Now().Add(deadline)
		for int(psSubscribersOf(r.x).Load()) != want && time.Now().Before(end) {
			time.Sleep(50 * time.Microsecond)
		}
		got := math.MinInt32
		if !r.call("Add(0)", deadline, func() { got = r.x.Add(0) }) {
			return hung("Add(0) " + when)
		}
		if got != want {
			r.mon("C07", "final count %s: Add(0) = %d, subscriptions minus unsubscriptions = %d", when, got, want)
		}
		return true
	}
	if !count(nstay, "with the standing subscribers") {
		return false
	}
	// the instance still works: one more Send reaches exactly the standing subscribers
	if !r.call("final Send", deadline, func() { r.doSend(0, 9001) }) {
		return hung("Send after all leavers left")
	}
	for _, s := range r.subs {
		if s.plan.style == psStayer {
			close(s.stop)
		}
	}
	if !psWait(stayers, deadline) {
		return hung("standing subscribers leaving")
	}
	if !count(0, "after everybody left") {
		return false
	}
	var last *psSend
	if !r.call("last Send", deadline, func() { last = r.doSend(0, 2) }) {
		return hung("Send after everybody left")
	}
	if last != nil && last.n != 0 {
		r.mon("C06", "Send after everybody left returned %d", last.n)
	}
	select {
	case <-*psBrokenOf(r.x):
		r.mon("C07", "instance is broken after a contract-following run")
	default:
	}
	r.mu.Lock()
	r.eval(false)
	r.mu.Unlock()
	return true
}

// eval evaluates the monitors on the log; r.mu is held. After a hang only the clauses about completed calls are checked.
func (r *psRun) eval(hung bool) {
	h := r.h
	for _, p := range r.panics {
		r.mon("C07", "false panic under contract-following use: %s", p)
	}
	sendOf := map[int]*psSend{}
	for _, s := range r.sends {
		sendOf[s.val] = s
	}
	got := map[int][]int{} // value -> subscriptions that received it
	nrecv := 0
	for _, s := range r.subs {
		seen := map[int]bool{}
		for _, rc := range s.recvs {
			nrecv++
			if seen[rc.val] {
				r.mon("C06", "subscription %d (%s) received %d twice", s.id, psStyleName[s.plan.style], rc.val)
			}
			seen[rc.val] = true
			got[rc.val] = append(got[rc.val], s.id)
			snd := sendOf[rc.val]
			if snd == nil {
				r.mon("C06", "subscription %d received %d which was never sent", s.id, rc.val)
				continue
			}
			if rc.tick < snd.inv {
				r.mon("C06", "subscription %d received %d before its Send was invoked", s.id, rc.val)
			}
			if snd.done && rc.pre && rc.tick > snd.ret {
				r.mon("C06", "Send(%d) returned (tick %d) before subscription %d had received it and called Wait (tick %d)",
					rc.val, snd.ret, s.id, rc.tick)
			}
			if snd.done && snd.ret < s.addInv {
				r.mon("C06", "subscription %d (Add(+1) invoked at %d) received %d whose Send had returned at %d", s.id, s.addInv,
					rc.val, snd.ret)
			}
		}
	}
	for _, snd := range r.sends {
		if !snd.done {
			continue
		}
		if !hung && len(got[snd.val]) != snd.n {
			r.mon("C06", "Send(%d) returned %d but the value was received %d times (by %v)", snd.val, snd.n, len(got[snd.val]),
				got[snd.val])
		}
		if hung && len(got[snd.val]) > snd.n {
			r.mon("C06", "Send(%d) returned %d but the value was received %d times (by %v)", snd.val, snd.n, len(got[snd.val]),
				got[snd.val])
		}
		// every subscription established before the Send began and not withdrawn before it returned is among the receivers
		for _, s := range r.subs {
			if s.addRet == 0 || s.addRet >= snd.inv {
				continue
			}
			if u := int(s.unInv.Load()); u != 0 && u < snd.ret {
				continue
			}
			if hung && s.unInv.Load() == 0 {
				continue // the log of a hung case is incomplete
			}
			found := false
			for _, id := range got[snd.val] {
				if id == s.id {
					found = true
				}
			}
			if !found {
				r.mon("C06", "standing subscription %d (%s; Add(+1) returned %d, Add(-1) not before %d) did not receive %d (Send %d..%d returned %d)",
					s.id, psStyleName[s.plan.style], s.addRet, s.unInv.Load(), snd.val, snd.inv, snd.ret, snd.n)
			}
		}
	}
	// one global order
	var anchor *psSub
	for _, s := range r.subs {
		if s.plan.style == psStayer {
			anchor = s
			break
		}
	}
	if anchor != nil && !hung {
		pos := map[int]int{}
		lastSeq := map[int]int{}
		for i, rc := range anchor.recvs {
			pos[rc.val] = i
			snd := sendOf[rc.val]
			if snd != nil && snd.sender > 0 {
				if rc.val <= lastSeq[snd.sender] {
					r.mon("C06", "global order (subscription %d) does not extend sender %d's program order: %d after %d", anchor.id,
						snd.sender, rc.val, lastSeq[snd.sender])
				}
				lastSeq[snd.sender] = rc.val
			}
		}
		for _, s := range r.subs {
			for i := 1; i < len(s.recvs); i++ {
				pa, oka := pos[s.recvs[i-1].val]
				pb, okb := pos[s.recvs[i].val]
				if oka && okb && pb != pa+1 {
					r.mon("C06", "subscription %d saw %d then %d, not a contiguous run of the global order (positions %d, %d)", s.id,
						s.recvs[i-1].val, s.recvs[i].val, pa, pb)
				}
			}
		}
	}
	// without (and with) an anchor: the union of every subscription's order, every sender's program order and real-time
	// precedence must be acyclic (one global order exists), and no subscription skips a Send that lies between two of its
	// consecutive receipts in real time
	edges := map[int][]int{}
	indeg := map[int]int{}
	var nodes []*psSend
	for _, s := range r.sends {
		if s.done && s.n > 0 {
			nodes = append(nodes, s)
			indeg[s.val] += 0
		}
	}
	add := func(a, b int) {
		if _, ok := indeg[a]; !ok {
			return
		}
		if _, ok := indeg[b]; !ok {
			return
		}
		edges[a] = append(edges[a], b)
		indeg[b]++
	}
	for _, a := range nodes {
		for _, b := range nodes {
			if a.ret < b.inv {
				add(a.val, b.val)
			}
		}
	}
	for _, s := range r.subs {
		for i := 1; i < len(s.recvs); i++ {
			add(s.recvs[i-1].val, s.recvs[i].val)
			a, b := sendOf[s.recvs[i-1].val], sendOf[s.recvs[i].val]
			if a == nil || b == nil || !a.done || !b.done {
				continue
			}
			for _, c := range nodes {
				if a.ret < c.inv && c.ret < b.inv {
					r.mon("C06", "subscription %d saw %d then %d but Send(%d), which returned %d, lies between them", s.id, a.val, b.val,
						c.val, c.n)
				}
			}
		}
	}
	var queue []int
	for v, d := range indeg {
		if d == 0 {
			queue = append(queue, v)
		}
	}
	visited := 0
	for len(queue) > 0 {
		v := queue[0]
		queue = queue[1:]
		visited++
		for _, w := range edges[v] {
			indeg[w]--
			if indeg[w] == 0 {
				queue = append(queue, w)
			}
		}
	}
	if visited != len(indeg) {
		r.mon("C06", "no single global order: subscription orders, program orders and real-time order form a cycle")
	}
	// ---- input distribution and the evaluation marker ----
	nit, mid, before, conc := 0, 0, 0, 0
	for _, s := range r.subs {
		h.count("style_"+psStyleName[s.plan.style], 1)
		if psIsIter(s.plan.style) {
			nit++
		}
		u := int(s.unInv.Load())
		if u != 0 && len(s.recvs) == 0 {
			before++
		}
		for _, snd := range r.sends {
			if u != 0 && snd.done && snd.inv < u && u < snd.ret {
				mid++
				break
			}
		}
	}
	for i, a := range r.sends {
		for _, b := range r.sends[i+1:] {
			if a.sender != b.sender && a.done && b.done && a.inv < b.ret && b.inv < a.ret {
				conc++
			}
		}
	}
	zero := 0
	for _, s := range r.sends {
		if s.done && s.n == 0 {
			zero++
		}
	}
	h.count("leaves_mid_send", mid)
	h.count("leaves_before_receiving", before)
	h.count("overlapping_send_pairs", conc)
	h.count("sends", len(r.sends))
	h.count("sends_returning_0", zero)
	h.count("receipts", nrecv)
	h.count("cases", 1)
	if anchor != nil {
		h.count("cases_with_anchor", 1)
	}
	nsnd := 0
	for _, s := range r.sends {
		if s.sender > 0 {
			nsnd++
		}
	}
	h.line("F pubsub_case %s %d %d %d %d %d %d %d | 1", r.id, len(r.sndDone), len(r.subs), nit, nsnd, nrecv, mid, conc)
}

// ---- C06K2: random programs ---------------------------------------------------------------------------------------

// psAllLeavePlan: every existing subscription (one or two multi-delta holders) is withdrawn at once in the middle of a Send,
// while newcomers subscribe as soon as the count reads 0 and then receive eagerly. No anchor: the count must reach 0.
func psAllLeavePlan(rng *rand.Rand) psPlan {
	var p psPlan
	us := func(n int) time.Duration { return time.Duration(rng.Intn(n+1)) * time.Microsecond }
	ns := 1 + rng.Intn(2)
	for i := 0; i < ns; i++ {
		sp := psSenderPlan{startAt: us(60)}
		for q := 0; q < 1+rng.Intn(2); q++ {
			sp.gaps = append(sp.gaps, time.Duration(0))
		}
		p.senders = append(p.senders, sp)
	}
	leave := 80*time.Microsecond + us(300)
	for i := 0; i < 1+rng.Intn(2); i++ {
		p.subs = append(p.subs, psSubPlan{style: psHolder, joinAt: -1, k: 2 + rng.Intn(63), leaveAt: leave + us(3)})
	}
	for i := 0; i < 1+rng.Intn(2); i++ {
		p.subs = append(p.subs, psSubPlan{style: psNewcomer, joinAt: us(50), recvTO: time.Millisecond + us(1500)})
	}
	return p
}

func psRandomPlan(rng *rand.Rand) psPlan {
	if rng.Intn(6) == 0 {
		return psAllLeavePlan(rng)
	}
	var p psPlan
	us := func(n int) time.Duration { return time.Duration(rng.Intn(n+1)) * time.Microsecond }
	ns := 1 + rng.Intn(3)
	total := 0
	for i := 0; i < ns; i++ {
		sp := psSenderPlan{startAt: us(150)}
		k := 1 + rng.Intn(4)
		for q := 0; q < k; q++ {
			g := time.Duration(0)
			if rng.Intn(3) == 0 {
				g = us(200)
			}
			sp.gaps = append(sp.gaps, g)
		}
		total += k
		p.senders = append(p.senders, sp)
	}
	span := 150 + 120*total // microseconds: rough duration of the sending phase
	nsub := 2 + rng.Intn(5)
	for i := 0; i < nsub; i++ {
		var sp psSubPlan
		if i == 0 && rng.Intn(5) != 0 {
			sp.style = psStayer
			sp.joinAt = -1
		} else {
			sp.style = rng.Intn(psStayer) // one of the six leaving styles ...
			if rng.Intn(5) == 0 {
				sp.style = psIterPanic + rng.Intn(2) // ... or an iterator whose consumer panics / Goexits in the loop body
			}
			if rng.Intn(12) == 0 {
				sp.style = psHolder // ... or a holder of several subscriptions that never receives
				sp.k = 2 + rng.Intn(63)
			}
			if rng.Intn(5) < 2 {
				sp.joinAt = -1
			} else {
				sp.joinAt = us(span)
			}
			base := sp.joinAt
			if base < 0 {
				base = 0
			}
			sp.leaveAt = base + 1 + us(span)
			if rng.Intn(6) == 0 {
				sp.leaveAt = base + 1 // leaves at once: before ever receiving
			}
			sp.quota = 1 + rng.Intn(3)
		}
		if rng.Intn(10) < 3 {
			sp.proc = us(250) + 20*time.Microsecond
		}
		p.subs = append(p.subs, sp)
	}
	return p
}

// ---- C06S: fixed scenarios for the delay-bounded sweep ---------------------------------------------------------------

func psSweepCases(h *hctx) []timedCase {
	delay := time.Duration(h.pi("delay_us", 1500)) * time.Microsecond
	us := func(n int) time.Duration { return time.Duration(n) * time.Microsecond }
	rng := rand.New(rand.NewSource(h.seed + int64(h.pi("salt", 0))*1000003))
	jit := func(n int) time.Duration { return time.Duration(rng.Intn(n+1)) * time.Microsecond }
	mk := func(name string, plan func() psPlan) timedCase {
		return timedCase{name: name, delay: delay, hits: h.pi("hits", 3), run: func(h *hctx, id string, inject time.Duration) {
			p := plan()
			p.slack = inject
			psCase(h, id, p)
		}}
	}
	two := func(at time.Duration) []psSenderPlan {
		return []psSenderPlan{{startAt: at, gaps: []time.Duration{0, 0}}}
	}
	return []timedCase{
		// three subscribers (one slow), one of them unsubscribes shortly AFTER the Send started: with a delay injected at a
		// point of Send the unsubscribe lands exactly there
		mk("leave-in-send", func() psPlan {
			return psPlan{senders: two(0), subs: []psSubPlan{
				{style: psStayer, joinAt: -1},
				{style: psManualQuota, joinAt: -1, quota: 9, proc: us(400)},
				{style: psManualTimer, joinAt: -1, leaveAt: us(250) + jit(100)}}}
		}),
		// the unsubscribe starts first, the Send shortly after: a delay at a point of Add(-1) holds it there during the Send
		mk("send-in-leave", func() psPlan {
			return psPlan{senders: two(us(250) + jit(100)), subs: []psSubPlan{
				{style: psStayer, joinAt: -1},
				{style: psManualQuota, joinAt: -1, quota: 9, proc: us(400)},
				{style: psManualTimer, joinAt: -1, leaveAt: us(1)}}}
		}),
		// the same with an iterator subscriber leaving by cancellation
		mk("cancel-in-send", func() psPlan {
			return psPlan{senders: two(0), subs: []psSubPlan{
				{style: psStayer, joinAt: -1},
				{style: psIterBreak, joinAt: -1, quota: 9, proc: us(400)},
				{style: psIterCancel, joinAt: -1, leaveAt: us(250) + jit(100)}}}
		}),
		// a late subscriber joins during a Send and receives eagerly
		mk("join-in-send", func() psPlan {
			return psPlan{senders: two(0), subs: []psSubPlan{
				{style: psStayer, joinAt: -1},
				{style: psManualQuota, joinAt: -1, quota: 9, proc: us(400)},
				{style: psManualQuota, joinAt: us(250) + jit(100), quota: 9}}}
		}),
		// EVERY existing subscription (a holder of k) is withdrawn in the middle of the Send, and a newcomer subscribes as soon
		// as the count reads 0, i.e. while the holder is still draining its k copies through the caster, then receives eagerly
		mk("all-leave-in-send+newcomer", func() psPlan {
			ks := []int{1, 2, 3, 8, 64, 2 + rng.Intn(63)}
			snd := []psSenderPlan{{startAt: 0, gaps: make([]time.Duration, 1+rng.Intn(2))}}
			return psPlan{senders: snd, subs: []psSubPlan{
				{style: psHolder, joinAt: -1, k: ks[rng.Intn(len(ks))], leaveAt: us(200) + jit(100)},
				{style: psNewcomer, joinAt: us(1), recvTO: 2 * time.Millisecond}}}
		}),
		// the Send starts during the subscribe
		mk("send-in-join", func() psPlan {
			return psPlan{senders: two(us(250) + jit(100)), subs: []psSubPlan{
				{style: psStayer, joinAt: -1},
				{style: psIterCancel, joinAt: -1, leaveAt: us(100000), proc: us(400)},
				{style: psManualQuota, joinAt: us(1), quota: 9}}}
		}),
	}
}

// ---- C07SAN: the int32 sanity check against the extracted model -------------------------------------------------------

func psSanity(h *hctx) {
	const mx = math.MaxInt32
	const mn = math.MinInt32
	subsVals := []int{mn, mn + 1, mn + 2, -mx, -3, -2, -1, 0, 1, 2, 3, mx / 2, mx - 2, mx - 1, mx}
	deltaVals := []int{-mx, -mx + 1, -mx + 2, -mx / 2, -3, -2, -1, 0, 1, 2, 3, mx / 2, mx - 2, mx - 1, mx}
	id := 0
	one := func(subs, delta int) {
		id++
		x := NewChanPubSub(make(chan int))
		fired := 0
		func() {
			defer func() {
				if recover() != nil {
					fired = 1
				}
			}()
			x.sanityCheckSubscribersDelta(subs, delta)
		}()
		broken := 0
		select {
		case <-*psBrokenOf(x):
			broken = 1
		default:
		}
		if broken != fired {
			h.line("MONITOR C07 sanityCheckSubscribersDelta(%d, %d): panicked=%d but broken=%d", subs, delta, fired, broken)
		}
		h.line("F pubsub_sanity san%d %d %d | %d", id, subs, delta, fired)
		h.count("sanity_fired", fired)
		h.count("sanity_cases", 1)
	}
	add := func(old, delta int) {
		id++
		x := NewChanPubSub(make(chan int))
		psSubscribersOf(x).Store(int32(old))
		nw := x.addSubscribers(delta)
		h.line("F pubsub_addsub add%d %d %d | %d", id, old, delta, nw)
		// and the composition the code performs: add, then check
		one(nw, delta)
		if nw != old+delta {
			h.count("sanity_wrapped", 1)
		}
	}
	for _, s := range subsVals {
		for _, d := range deltaVals {
			one(s, d)
			add(s, d)
		}
	}
	for i := 0; i < h.n; i++ {
		s := int(int32(h.rng.Uint32()))
		d := int(int32(h.rng.Uint32()))
		if d == mn {
			d = -mx
		}
		if h.rng.Intn(2) == 0 {
			s = h.rng.Intn(1 << 20)
			d = h.rng.Intn(1<<21) - 1<<20
		}
		add(s, d)
	}
}

// ---- two-phase context: the non-atomic window of a context's cancellation ---------------------------------------------
//
// Cancelling a std context is not atomic: Err()/Done() report the cancellation first, the registered AfterFuncs (and
// children) are notified afterwards. psCtx puts both phases under harness control. It embeds a Context, hides the std
// cancelCtx key (Value returns nil) and implements `AfterFunc(func()) (stop func() bool)`, which context.AfterFunc uses when
// the parent provides it.

type psCtx struct {
	context.Context
	mu    sync.Mutex
	done  chan struct{}
	err   error
	fns   map[int]func()
	next  int
	fired bool
}

func newPsCtx() *psCtx {
	return &psCtx{Context: context.Background(), done: make(chan struct{}), fns: map[int]func(){}}
}

func (c *psCtx) Done() <-chan struct{}       { return c.done }
func (c *psCtx) Value(any) any               { return nil }
func (c *psCtx) Deadline() (time.Time, bool) { return time.Time{}, false }

func (c *psCtx) Err() error {
	c.mu.Lock()
	defer c.mu.Unlock()
	return c.err
}

func (c *psCtx) AfterFunc(f func()) (stop func() bool) {
	c.mu.Lock()
	defer c.mu.Unlock()
	if c.fired {
		go f()
		return func() bool { return false }
	}
	id := c.next
	c.next++
	c.fns[id] = f
	return func() bool {
		c.mu.Lock()
		defer c.mu.Unlock()
		if _, ok := c.fns[id]; ok {
			delete(c.fns, id)
			return true
		}
		return false
	}
}

// phase1: Err() and Done() report the cancellation; nothing registered has been notified yet.
func (c *psCtx) phase1() {
	c.mu.Lock()
	defer c.mu.Unlock()
	if c.err == nil {
		c.err = context.Canceled
		close(c.done)
	}
}

// phase2: the registered AfterFuncs run, each on its own goroutine (as the std library does).
func (c *psCtx) phase2() int {
	c.mu.Lock()
	fns := c.fns
	c.fns = map[int]func(){}
	c.fired = true
	c.mu.Unlock()
	for _, f := range fns {
		go f()
	}
	return len(fns)
}

const (
	psTPIterInWindow       = iota // phase 1; run the iterator (must return without yielding); phase 2
	psTPIterFirst                 // the iterator is running when phase 1 happens; phase 2 afterwards
	psTPIterFirstFast             // the iterator is running; phase 1 and phase 2 back to back
	psTPIterAfter                 // phase 1; phase 2; then the iterator is run
	psTPNeverRun                  // phase 1; phase 2; the iterator is never run
	psTPBreakThenCancel           // the iterator receives one value and breaks; then phase 1; phase 2
	psTPBreakInWindow             // the iterator receives one value; phase 1; it breaks; phase 2
	psTPNilYield                  // yield == nil before phase 1 (documented panic; must still unsubscribe); then both phases
	psTPNilYieldInWindow          // phase 1; yield == nil; phase 2
	psTPNilYieldAfter             // phase 1; phase 2; yield == nil
	psTPSendBlockedWindow         // a Send is delivering to the not-yet-run iterator; phase 1; run the iterator; phase 2
	psTPSendBlockedNever          // a Send is delivering to the never-run iterator; phase 1; phase 2 (the AfterFunc absorbs the copy)
	psTPPanicBody                 // the loop body panics after the first value (recovered around the loop); then phase 1; phase 2
	psTPGoexitBody                // the loop body calls runtime.Goexit after the first value; then phase 1; phase 2
	psTPPanicBodyInWindow         // the iterator receives one value; phase 1; the loop body panics; phase 2
	psTPGoexitBodyInWindow        // the iterator receives one value; phase 1; the loop body calls runtime.Goexit; phase 2
	psTPN
)

var psTPName = [psTPN]string{"iter_in_window", "iter_first", "iter_first_fast", "iter_after", "never_run", "break_then_cancel",
	"break_in_window", "nil_yield", "nil_yield_in_window", "nil_yield_after", "send_blocked_window", "send_blocked_never",
	"panic_body", "goexit_body", "panic_body_in_window", "goexit_body_in_window"}

// psTwoPhase runs one SubscribeContext life cycle on a two-phase context, in the given order of events, optionally next to a
// standing manual subscriber, and checks: the iterator returns (without yielding once the context reports cancelled), no
// panic, the subscription is released exactly once (Add(0) back to the standing count), later Sends return promptly with
// exactly the standing subscribers, instance not broken.
func psTwoPhase(h *hctx, id string, variant int, withOther bool) bool {
	if psHangs.Load() >= 3 {
		h.count("cases_skipped_after_3_hangs", 1)
		return false
	}
	deadline := time.Duration(h.pi("deadline_ms", 3000)) * time.Millisecond
	r := &psRun{h: h, id: id, x: NewChanPubSub(make(chan int)), begin: make(chan struct{})}
	x := r.x
	sends, receipts := 0, 0
	finish := func() {
		h.count("twophase_"+psTPName[variant], 1)
		h.count("cases", 1)
		h.line("F pubsub_case %s %d %d %d %d %d %d %d | 1", id, 1, 1+boolInt(withOther), 1, sends, receipts, 0, 0)
	}
	hung := func(what string) bool {
		r.mon("C07", "hang (two-phase context, %s): %s did not complete within %v", psTPName[variant], what, deadline)
		for _, p := range r.panics {
			r.mon("C07", "false panic under contract-following use: %s", p)
		}
		h.count("cases_hung", 1)
		psHangs.Add(1)
		finish()
		return false
	}
	// the standing manual subscriber
	stay := 0
	otherStop, otherDone := make(chan struct{}), make(chan struct{})
	var otherGot atomic.Int32
	if withOther {
		stay = 1
		joined := make(chan struct{})
		go func() {
			defer close(otherDone)
			defer r.guard("standing subscriber")
			x.Add(1)
			close(joined)
			for {
				select {
				case <-x.C():
					otherGot.Add(1)
					x.Wait()
				case <-otherStop:
					x.Add(-1)
					return
				}
			}
		}()
		if !psWait([]chan struct{}{joined}, deadline) {
			return hung("Add(+1) of the standing subscriber")
		}
	} else {
		close(otherDone)
	}
	ctx := newPsCtx()
	var seq func(yield func(int) bool)
	if !r.call("SubscribeContext", deadline, func() { seq = x.SubscribeContext(ctx) }) || seq == nil {
		return hung("SubscribeContext")
	}
	// the iterator, on its own goroutine: yields are counted; `breakAt` > 0: break after that many; gate: wait before breaking
	var yields atomic.Int32
	var yieldedAfterCancel atomic.Int32
	iterDone := make(chan struct{})
	gate := make(chan struct{})
	gotOne := make(chan struct{}, 8)
	exitMode := 0 // how the loop body leaves at breakAt: 0 break | 1 panic | 2 runtime.Goexit
	runIter := func(breakAt int, gated bool) {
		go func() {
			defer close(iterDone)
			defer r.recoverConsumer("iterator (two-phase context)")
			for range seq {
				n := int(yields.Add(1))
				gotOne <- struct{}{}
				if breakAt > 0 && n >= breakAt {
					if gated {
						<-gate
					}
					switch exitMode {
					case 1:
						panic(psConsumerPanic{})
					case 2:
						runtime.Goexit()
					}
					break
				}
			}
		}()
	}
	nilYield := func() bool {
		var pv interface{}
		ok := r.call("iterator(nil)", deadline, func() {
			defer func() { pv = recover() }() // the documented misuse panic; anything it leaves behind is checked below
			seq(nil)
		})
		_ = pv
		return ok
	}
	waitIter := func() bool { return psWait([]chan struct{}{iterDone}, deadline) }
	// a Send on its own goroutine
	type sres struct{ n int }
	sendCh := make(chan sres, 4)
	goSend := func(v int) {
		sends++
		go func() {
			defer r.guard("sender (two-phase context)")
			sendCh <- sres{x.Send(v)}
		}()
	}
	waitSend := func(what string, want int) bool {
		select {
		case s := <-sendCh:
			if s.n != want {
				r.mon("C06", "two-phase context (%s): %s returned %d, expected %d", psTPName[variant], what, s.n, want)
			}
			return true
		case <-time.After(deadline):
			return false
		}
	}
	settle := func() { time.Sleep(time.Duration(50+h.rng.Intn(150)) * time.Microsecond) }
	switch variant {
	case psTPIterInWindow:
		ctx.phase1()
		runIter(0, false)
		if !waitIter() {
			return hung("the iterator started after Err()/Done() reported the cancellation")
		}
		yieldedAfterCancel.Store(yields.Load())
		ctx.phase2()
	case psTPIterFirst, psTPIterFirstFast:
		runIter(0, false)
		settle()
		ctx.phase1()
		if variant == psTPIterFirst {
			if !waitIter() {
				return hung("the running iterator after cancellation")
			}
		}
		ctx.phase2()
		if !waitIter() {
			return hung("the running iterator after cancellation")
		}
	case psTPIterAfter:
		ctx.phase1()
		ctx.phase2()
		settle()
		runIter(0, false)
		if !waitIter() {
			return hung("the iterator started after the cancellation completed")
		}
		yieldedAfterCancel.Store(yields.Load())
	case psTPNeverRun:
		ctx.phase1()
		settle()
		ctx.phase2()
	case psTPBreakThenCancel, psTPBreakInWindow, psTPPanicBody, psTPGoexitBody, psTPPanicBodyInWindow, psTPGoexitBodyInWindow:
		inWindow := variant == psTPBreakInWindow || variant == psTPPanicBodyInWindow || variant == psTPGoexitBodyInWindow
		switch variant {
		case psTPPanicBody, psTPPanicBodyInWindow:
			exitMode = 1
		case psTPGoexitBody, psTPGoexitBodyInWindow:
			exitMode = 2
		}
		runIter(1, inWindow)
		settle()
		goSend(7001)
		select {
		case <-gotOne:
			receipts++
		case <-time.After(deadline):
			return hung("delivery to the running iterator")
		}
		if inWindow {
			ctx.phase1()
			close(gate)
		}
		if !waitIter() {
			return hung("the iterator being left by break / panic / Goexit in the loop body")
		}
		if !waitSend("Send to the iterator"+map[bool]string{true: " and the standing subscriber", false: ""}[withOther], 1+stay) {
			return hung("Send to the running iterator")
		}
		ctx.phase1()
		ctx.phase2()
	case psTPNilYield:
		if !nilYield() {
			return hung("iterator(nil)")
		}
		ctx.phase1()
		ctx.phase2()
	case psTPNilYieldInWindow:
		ctx.phase1()
		if !nilYield() {
			return hung("iterator(nil)")
		}
		ctx.phase2()
	case psTPNilYieldAfter:
		ctx.phase1()
		ctx.phase2()
		settle()
		if !nilYield() {
			return hung("iterator(nil)")
		}
	case psTPSendBlockedWindow, psTPSendBlockedNever:
		goSend(7002) // blocks: one copy is for the subscription whose iterator has not been run
		settle()
		ctx.phase1()
		if variant == psTPSendBlockedWindow {
			runIter(0, false)
			if !waitIter() {
				return hung("the iterator started after Err()/Done() reported the cancellation")
			}
			yieldedAfterCancel.Store(yields.Load())
		}
		ctx.phase2()
		if !waitSend("Send overlapping the cancellation", stay) {
			return hung("Send that was delivering to the cancelled subscription")
		}
	}
	if yieldedAfterCancel.Load() != 0 {
		r.mon("C06", "two-phase context (%s): iterator started after the context reported cancelled yielded %d values",
			psTPName[variant], yieldedAfterCancel.Load())
	}
	// released exactly once: the count returns to the standing subscribers (the AfterFunc runs on its own goroutine: poll)
	end := time.Now().Add(deadline)
	for int(psSubscribersOf(x).Load()) != stay && time.Now().Before(end) {
		time.Sleep(50 * time.Microsecond)
	}
	time.Sleep(100 * time.Microsecond) // a second (wrong) unsubscribe would land here
	got := math.MinInt32
	if !r.call("Add(0)", deadline, func() { got = x.Add(0) }) {
		return hung("Add(0)")
	}
	if got != stay {
		r.mon("C07", "two-phase context (%s): after cancellation and the iterator's return Add(0) = %d, subscriptions minus unsubscriptions = %d",
			psTPName[variant], got, stay)
	}
	// a later Send returns promptly, reaching exactly the standing subscriber
	before := otherGot.Load()
	goSend(7003)
	if !waitSend("Send after the cancellation", stay) {
		return hung("Send after the cancelled subscription should be gone")
	}
	if withOther {
		if otherGot.Load() != before+1 {
			r.mon("C06", "two-phase context (%s): the standing subscriber did not receive the later Send", psTPName[variant])
		}
		receipts += int(otherGot.Load())
		close(otherStop)
		if !psWait([]chan struct{}{otherDone}, deadline) {
			return hung("Add(-1) of the standing subscriber")
		}
		goSend(7004)
		if !waitSend("Send after everybody left", 0) {
			return hung("Send after everybody left")
		}
	}
	select {
	case <-*psBrokenOf(x):
		r.mon("C07", "two-phase context (%s): instance is broken", psTPName[variant])
	default:
	}
	r.mu.Lock()
	for _, p := range r.panics {
		r.mon("C07", "false panic under contract-following use: %s", p)
	}
	r.mu.Unlock()
	finish()
	return true
}

func init() {
	register("C06K2", func(h *hctx) {
		hangs := 0
		rng := rand.New(rand.NewSource(h.seed + int64(h.pi("salt", 0))*1000003)) // C06 and C07 explore different programs
		// the SubscribeContext life cycle inside the two phases of a context's cancellation, every order, deterministic
		for rep := 0; rep < h.pi("twophase_reps", 2); rep++ {
			for variant := 0; variant < psTPN; variant++ {
				for _, other := range []bool{false, true} {
					psTwoPhase(h, fmt.Sprintf("k2-%d.%d-ctx%d.%d.%d", h.seed, h.pi("salt", 0), variant, boolInt(other), rep), variant, other)
				}
			}
		}
		for i := 0; i < h.n && hangs < 3; i++ {
			plan := psRandomPlan(rng)
			if !psCase(h, fmt.Sprintf("k2-%d.%d-%d", h.seed, h.pi("salt", 0), i), plan) {
				hangs++
			}
		}
	})
	register("C06S", func(h *hctx) { timedSweep(h, "c06", psSweepCases(h)) })
	register("C07SAN", psSanity)
}

// the subscriber counter (the only atomic.Int32) and the broken channel (the only chan struct{}) of a ChanPubSub
func psSubscribersOf[C chan V, V any](x *ChanPubSub[C, V]) *atomic.Int32 {
	return fld[atomic.Int32](x, "subscribers")
}
func psBrokenOf[C chan V, V any](x *ChanPubSub[C, V]) *chan struct{} {
	return fld[chan struct{}](x, "broken")
}
