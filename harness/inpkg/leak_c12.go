//go:build verif

package bigbuff

import (
	"context"
	"fmt"
	"strings"
	"sync"
	"time"
)

// C12: once every handle is closed, every context cancelled and every call returned, no library goroutine is left.
// Observed through the goroutine dump (frames in library files), polled until it returns to the baseline.

func libGoroutineDump() string {
	st, _ := goroutineStates()
	var b strings.Builder
	for id, s := range st {
		fmt.Fprintf(&b, "%s=%s ", id, s)
	}
	return b.String()
}

func init() {
	register("C12LEAK", func(h *hctx) {
		for i := 0; i < h.n; i++ {
			switch i % 3 {
			case 0, 1:
				leakBufferCase(h, i)
			default:
				leakChannelCase(h, i)
			}
		}
	})
}

func leakBufferCase(h *hctx, id int) {
	rng := h.rng
	base, _ := waitLibBaseline(0, 50*time.Millisecond)
	base = libGoroutineCount()
	b := new(Buffer)
	cooldown := time.Duration(rng.Intn(4)) * time.Millisecond
	_ = b.SetCleanerConfig(CleanerConfig{Cleaner: DefaultCleaner, Cooldown: cooldown})
	parent, cancelParent := context.WithCancel(context.Background())
	nc := 1 + rng.Intn(3)
	cons := make([]Consumer, nc)
	for i := range cons {
		c, err := b.NewConsumer()
		if err != nil {
			h.line("MONITOR C12 NewConsumer failed on an open buffer: %v", err)
			return
		}
		cons[i] = c
	}
	_ = b.Put(nil, 1, 2, 3)
	var wg sync.WaitGroup
	var cancels []context.CancelFunc
	results := make(chan string, 64)
	// some reads, some parked Gets, some commits/rollbacks
	for i, c := range cons {
		k := rng.Intn(5)
		for j := 0; j < k && j < 3; j++ {
			if _, err := c.Get(parent); err != nil {
				results <- fmt.Sprintf("get%d-err", i)
			}
		}
		switch rng.Intn(3) {
		case 0:
			_ = c.Commit()
		case 1:
			_ = c.Rollback()
		}
		if k >= 3 && rng.Intn(2) == 0 {
			// drain then park one Get
			for {
				ctx, cancel := context.WithTimeout(parent, 200*time.Microsecond)
				_, err := c.Get(ctx)
				cancel()
				if err != nil {
					break
				}
			}
			ctx, cancel := context.WithCancel(parent)
			cancels = append(cancels, cancel)
			wg.Add(1)
			go func(c Consumer) {
				defer wg.Done()
				_, _ = c.Get(ctx)
			}(c)
		}
	}
	time.Sleep(time.Duration(rng.Intn(300)) * time.Microsecond)
	// shutdown in a random order; parked Gets are released first or by the buffer close (their ctx is not needed then)
	order := rng.Intn(4)
	closeErrs := 0
	release := func() {
		for _, c := range cancels {
			c()
		}
		wg.Wait()
		for _, c := range cons {
			_ = c.Rollback()
		}
	}
	done := make(chan struct{})
	go func() {
		defer close(done)
		switch order {
		case 0: // consumers first, then buffer
			release()
			for _, c := range cons {
				if err := c.Close(); err != nil {
					closeErrs++
				}
			}
			if err := b.Close(); err != nil {
				closeErrs++
			}
		case 1: // buffer first: it closes every consumer; parked Gets return with an error
			go func() { time.Sleep(200 * time.Microsecond); release() }()
			if err := b.Close(); err != nil {
				closeErrs++
			}
			wg.Wait()
		case 2: // cancel the callers' context, then close the buffer
			cancelParent()
			release()
			if err := b.Close(); err != nil {
				closeErrs++
			}
		default: // close one consumer explicitly, the buffer closes the rest
			release()
			if err := cons[0].Close(); err != nil {
				closeErrs++
			}
			if err := b.Close(); err != nil {
				closeErrs++
			}
		}
	}()
	select {
	case <-done:
	case <-time.After(3 * time.Second):
		h.line("MONITOR C12 shutdown did not terminate (order %d, consumers %d): %s", order, nc, libGoroutineDump())
		cancelParent()
		release()
		return
	}
	cancelParent()
	if closeErrs != 0 {
		h.line("MONITOR C12 a first Close returned an error (order %d)", order)
	}
	select {
	case <-b.Done():
	default:
		h.line("MONITOR C12 Buffer.Done not closed after Close returned")
	}
	for i, c := range cons {
		select {
		case <-c.Done():
		default:
			h.line("MONITOR C12 consumer %d Done not closed after the buffer was closed", i)
		}
		if _, err := c.Get(context.Background()); err == nil {
			h.line("MONITOR C12 Get succeeded on a closed consumer")
		}
		if err := c.Commit(); err == nil {
			h.line("MONITOR C12 Commit succeeded on a closed consumer with nothing pending")
		}
		if err := c.Close(); err == nil {
			h.line("MONITOR C12 second consumer Close returned nil")
		}
	}
	if err := b.Put(nil, 9); err == nil {
		h.line("MONITOR C12 Put succeeded on a closed buffer")
	}
	if _, err := b.NewConsumer(); err == nil {
		h.line("MONITOR C12 NewConsumer succeeded on a closed buffer")
	}
	if err := b.Close(); err == nil {
		h.line("MONITOR C12 second Buffer.Close returned nil")
	}
	if got := len(b.Slice()); got != b.Size() {
		h.line("MONITOR C12 contents not readable after close: Slice has %d values, Size says %d", got, b.Size())
	}
	if n, ok := waitLibBaseline(base, 2*time.Second+cooldown*3); !ok {
		h.line("MONITOR C12 %d library goroutine(s) left after everything was closed (buffer case, order %d, cooldown %v): %s",
			n-base, order, cooldown, libGoroutineDump())
	}
	h.line("F c12_buffer_case l%d %d %d | 1", id, order, nc)
	h.count(fmt.Sprintf("buffer_order_%d", order), 1)
}

func leakChannelCase(h *hctx, id int) {
	rng := h.rng
	base := libGoroutineCount()
	src := make(chan int, 8)
	parent, cancelParent := context.WithCancel(context.Background())
	defer cancelParent()
	c, err := NewChannel(parent, time.Millisecond, src)
	if err != nil {
		h.t.Fatal(err)
	}
	src <- 1
	src <- 2
	var wg sync.WaitGroup
	getters := 1 + rng.Intn(3)
	for i := 0; i < getters; i++ {
		wg.Add(1)
		go func() {
			defer wg.Done()
			for {
				if _, err := c.Get(nil); err != nil {
					return
				}
			}
		}()
	}
	time.Sleep(time.Duration(500+rng.Intn(2500)) * time.Microsecond)
	order := rng.Intn(2)
	if order == 0 {
		if err := c.Close(); err != nil {
			h.line("MONITOR C12 first Channel.Close returned an error")
		}
	} else {
		cancelParent()
	}
	fin := make(chan struct{})
	go func() { wg.Wait(); close(fin) }()
	select {
	case <-fin:
	case <-time.After(2 * time.Second):
		h.line("MONITOR C12 Channel.Get still blocked after close (order %d)", order)
		return
	}
	select {
	case <-c.Done():
	case <-time.After(time.Second):
		h.line("MONITOR C12 Channel.Done not closed (order %d)", order)
	}
	if _, err := c.Get(nil); err == nil {
		h.line("MONITOR C12 Channel.Get succeeded after close")
	}
	if err := c.Commit(); err == nil {
		h.line("MONITOR C12 Channel.Commit succeeded after close")
	}
	if err := c.Close(); err == nil {
		h.line("MONITOR C12 second Channel.Close returned nil")
	}
	if n, ok := waitLibBaseline(base, 2*time.Second); !ok {
		h.line("MONITOR C12 %d library goroutine(s) left after the Channel was closed (order %d): %s", n-base, order, libGoroutineDump())
	}
	h.line("F c12_channel_case l%d %d %d | 1", id, order, getters)
	h.count(fmt.Sprintf("channel_order_%d", order), 1)
}
