//go:build verif

package bigbuff

// C19 — Callable, two monitor-only scenarios on compiled functions (the K1 correspondence of callable_c19.go runs made
// functions that always return, and observes result targets by their contents only).
//
// C19PANICS — clause "It never panics on its own account ...; only a panic raised by the called function itself propagates"
// together with "Call ... equals a direct call": a function that is called with VALID arguments and result targets and then
// panics (or ends its goroutine with runtime.Goexit) must behave under Call exactly as under a direct call: Call does not
// return (no error, no nil), the caller's recover() obtains exactly the value the function panicked with (the same pointer /
// an equal comparable value; for values that the runtime or reflect allocate anew at every panic: the same dynamic type and
// equal contents), the function was invoked exactly once with exactly the given arguments, and no result target was touched
// (a direct call that panics assigns nothing). The expected outcome of every case is obtained from a direct Go call of the same
// function under recover, in the same binary — no panic value, type or text is hard-coded. Panic values: string literals,
// fmt.Sprintf strings, error values, *reflect.ValueError and string panics raised by the function's own (mis)use of reflect,
// runtime errors (nil map write, index / slice bounds, nil dereference, division by zero, failed type assertion, close of a
// nil channel), int, struct, pointer, slice, map, func, chan, typed nil pointer, panic(nil), a panic replaced in a deferred
// function, a re-panic, a panic coming out of a nested bigbuff.Call / MustCall made by the function, runtime.Goexit; control:
// a function that recovers its own panic returns normally and its results are stored.
//
// C19UNTOUCHED — clause "... or returns a descriptive error without invoking the function and without touching the result
// targets": for every result-target form (CallResults pointers to the result types or to interface{}; CallResultsSlice to
// *[]T for every admissible T, with a nil, empty non-nil, len<cap, len==cap slice that is a window into a larger witness slice)
// combined with one option that cannot be accepted (CallArgs of the wrong length / a wrong type / untyped nil for a non-nilable
// parameter, CallResults of the wrong length / nil / non-pointer / nil pointer / unassignable pointee, CallResultsSlice of
// nil / non-pointer / nil pointer / non-slice / unassignable element type, an option function that returns an error, or CallArgs
// omitted for a function with mandatory parameters), placed BEFORE and AFTER the valid options in every position: Call returns a
// non-nil error, does not panic, does not invoke the function, and every target handed to any option is bit-for-bit what it
// was: the bytes of the pointee (for a slice: data pointer, len, cap — hence nil-ness and backing-array identity), the bytes
// of the whole backing array as seen through the witness slice (also beyond len), and a write through the witness slice is
// still seen through the target. Control: the same valid options without the unacceptable one give a nil error, one invocation
// and exactly the values of a direct call stored (assigned for CallResults, appended after the old elements for CallResultsSlice).
// Whether an argument list is acceptable is decided by Go's own call rules (c19xArgsValid), not by the library.

import (
	"bytes"
	"errors"
	"fmt"
	"reflect"
	"runtime"
	"strconv"
	"strings"
	"time"
	"unsafe"
)

// ---------------------------------------------------------------------------------------------------------------
// running a call: returned / panicked / goroutine ended (runtime.Goexit) / hang
// ---------------------------------------------------------------------------------------------------------------

type c19xOutcome struct {
	class int // 0 returned, 1 panicked, 2 goroutine ended without return or panic (runtime.Goexit), 3 hang
	err   error
	val   interface{}
}

var c19xClassNames = []string{"returned", "panicked", "ended its goroutine (runtime.Goexit)", "did not end within 10s"}

func c19xRun(f func() error) c19xOutcome {
	ch := make(chan c19xOutcome, 1)
	go func() {
		o := c19xOutcome{class: 2} // stays if the goroutine is unwound by runtime.Goexit
		defer func() { ch <- o }()
		returned := false
		func() {
			defer func() {
				r := recover()
				if !returned {
					o.val = r
				}
			}()
			o.err = f()
			returned = true
		}()
		if returned {
			o.class = 0
		} else {
			o.class = 1
		}
	}()
	select {
	case o := <-ch:
		return o
	case <-time.After(10 * time.Second):
		return c19xOutcome{class: 3}
	}
}

// c19xSamePanic: is got the value want that the function panicked with? ident: the function panics with one and the same
// value every time (pointer identity / equality of comparable values / same slice, map, func); otherwise the value is allocated
// anew by the runtime or reflect at every panic: same dynamic type, equal contents.
func c19xSamePanic(got, want interface{}, ident bool) (same bool) {
	defer func() {
		if recover() != nil {
			same = false
		}
	}()
	if got == nil || want == nil {
		return got == nil && want == nil
	}
	if reflect.TypeOf(got) != reflect.TypeOf(want) {
		return false
	}
	if ident {
		g, w := reflect.ValueOf(got), reflect.ValueOf(want)
		switch w.Kind() {
		case reflect.Slice:
			return g.UnsafePointer() == w.UnsafePointer() && g.Len() == w.Len() && g.Cap() == w.Cap()
		case reflect.Map, reflect.Func:
			return g.UnsafePointer() == w.UnsafePointer()
		}
		return got == want
	}
	return reflect.DeepEqual(got, want)
}

func c19xShow(v interface{}) string {
	s := fmt.Sprintf("(%T) %v", v, v)
	if len(s) > 120 {
		s = s[:120] + "..."
	}
	return s
}

// ---------------------------------------------------------------------------------------------------------------
// snapshots and result targets
// ---------------------------------------------------------------------------------------------------------------

type c19xSnap struct {
	what string
	p    unsafe.Pointer
	n    uintptr
	was  []byte
}

func c19xSnapOf(what string, p unsafe.Pointer, n uintptr) c19xSnap {
	s := c19xSnap{what: what, p: p, n: n}
	if n > 0 && p != nil {
		s.was = append([]byte(nil), unsafe.Slice((*byte)(p), n)...)
	}
	return s
}

func (s c19xSnap) same() bool {
	if s.n == 0 || s.p == nil {
		return true
	}
	return bytes.Equal(unsafe.Slice((*byte)(s.p), s.n), s.was)
}

type c19xCtx struct{ next int }

func (c *c19xCtx) id() int { c.next++; return c.next }

var (
	c19xTInt      = reflect.TypeOf(0)
	c19xTString   = reflect.TypeOf("")
	c19xTIface    = reflect.TypeOf((*interface{})(nil)).Elem()
	c19xTError    = reflect.TypeOf((*error)(nil)).Elem()
	c19xTSliceInt = reflect.TypeOf([]int(nil))
	c19xTPInt     = reflect.TypeOf((*int)(nil))
	c19xTS        = reflect.TypeOf(c19S{})
)

// c19xMk makes a recognisable non-zero value of type t (a Value of exactly that type).
func c19xMk(t reflect.Type, id int) reflect.Value {
	v := reflect.New(t).Elem()
	switch t {
	case c19xTInt:
		v.SetInt(int64(id))
	case c19xTString:
		v.SetString("s" + strconv.Itoa(id))
	case c19xTIface:
		v.Set(reflect.ValueOf(id))
	case c19xTError:
		v.Set(reflect.ValueOf(&c19S{A: id}))
	case c19xTSliceInt:
		v.Set(reflect.ValueOf([]int{id, id + 1}))
	case c19xTPInt:
		p := new(int)
		*p = id
		v.Set(reflect.ValueOf(p))
	case c19xTS:
		v.Field(0).SetInt(int64(id))
	default:
		panic("c19x: cannot make " + t.String())
	}
	return v
}

// c19xTarget is one pointer handed to CallResults / CallResultsSlice, with everything needed to tell whether the memory it
// points to (and, for a slice, the array behind it) was written.
type c19xTarget struct {
	desc    string
	arg     interface{}
	ptr     reflect.Value
	snaps   []c19xSnap
	keep    []interface{} // keeps the original contents reachable (no address can be reused while the case runs)
	isSlice bool
	wasNil  bool
	wasLen  int
	wasCap  int
	wasData unsafe.Pointer
	old     reflect.Value // copy of the original elements (slice pointee)
	wit     reflect.Value // the witness: the whole slice the target was cut from
	off     int           // target[0] is wit[off]
	alias   reflect.Value // a fresh element value for the aliasing test
}

type c19xForm struct {
	name            string
	wl, lo, hi, max int // wl: length of the witness slice; -1: nil target, 0: empty non-nil target without capacity
}

var c19xForms = []c19xForm{
	{"nil", -1, 0, 0, 0},
	{"empty non-nil, cap 0", 0, 0, 0, 0},
	{"len 0 cap 4, window all[0:0:4]", 4, 0, 0, 4},
	{"len 2 cap 6, all[0:2]", 6, 0, 2, 6},
	{"len 2 cap 3 (one spare), window all[1:3:4]", 6, 1, 3, 4},
	{"len 2 cap 5, window all[1:3]", 6, 1, 3, 6},
	{"len 2 = cap, window all[0:2:2]", 4, 0, 2, 2},
	{"len 2 = cap, window all[2:4:4]", 6, 2, 4, 4},
	{"len 3 = cap, the whole array", 3, 0, 3, 3},
	{"len 1 = cap", 1, 0, 1, 1},
}

func c19xSliceTarget(c *c19xCtx, elem reflect.Type, f c19xForm) *c19xTarget {
	st := reflect.SliceOf(elem)
	p := reflect.New(st)
	t := &c19xTarget{desc: fmt.Sprintf("*%v{%s}", st, f.name), arg: p.Interface(), ptr: p, isSlice: true}
	if f.wl >= 0 {
		all := reflect.MakeSlice(st, f.wl, f.wl)
		for i := 0; i < f.wl; i++ {
			all.Index(i).Set(c19xMk(elem, c.id()))
		}
		p.Elem().Set(all.Slice3(f.lo, f.hi, f.max))
		t.wit, t.off = all, f.lo
		if f.wl > 0 {
			t.snaps = append(t.snaps, c19xSnapOf("the backing array (all of the witness slice)", all.UnsafePointer(), uintptr(f.wl)*elem.Size()))
			cp := reflect.MakeSlice(st, f.wl, f.wl)
			reflect.Copy(cp, all)
			t.keep = append(t.keep, cp.Interface())
		}
	}
	t.finishSlice(c, elem)
	return t
}

func (t *c19xTarget) finishSlice(c *c19xCtx, elem reflect.Type) {
	s := t.ptr.Elem()
	t.snaps = append(t.snaps, c19xSnapOf("the slice header (data, len, cap)", t.ptr.UnsafePointer(), s.Type().Size()))
	t.wasNil, t.wasLen, t.wasCap, t.wasData = s.IsNil(), s.Len(), s.Cap(), s.UnsafePointer()
	t.old = reflect.MakeSlice(s.Type(), s.Len(), s.Len())
	reflect.Copy(t.old, s)
	t.alias = c19xMk(elem, c.id())
}

// c19xPtrTarget: a CallResults target *T whose pointee holds a recognisable value.
func c19xPtrTarget(c *c19xCtx, T reflect.Type) *c19xTarget {
	p := reflect.New(T)
	p.Elem().Set(c19xMk(T, c.id()))
	t := &c19xTarget{desc: "*" + T.String(), arg: p.Interface(), ptr: p}
	if T.Kind() == reflect.Slice {
		all := p.Elem()
		t.isSlice, t.wit, t.off = true, reflect.ValueOf(all.Interface()), 0
		t.snaps = append(t.snaps, c19xSnapOf("the backing array", all.UnsafePointer(), uintptr(all.Cap())*T.Elem().Size()))
		t.finishSlice(c, T.Elem())
	} else {
		t.snaps = append(t.snaps, c19xSnapOf("the pointee", p.UnsafePointer(), T.Size()))
		cp := reflect.New(T).Elem()
		cp.Set(p.Elem())
		t.keep = append(t.keep, cp.Interface())
	}
	return t
}

// touched says how the target differs from what it was when it was made ("" if it does not). It ends with the aliasing test,
// which writes through the witness slice: call it once, after everything else.
func (t *c19xTarget) touched() (diff string) {
	defer func() {
		if r := recover(); r != nil {
			diff = fmt.Sprintf("left in a state that cannot be read: %v", r)
		}
	}()
	var d []string
	if t.isSlice {
		s := t.ptr.Elem()
		if s.IsNil() != t.wasNil {
			d = append(d, fmt.Sprintf("nil %v -> %v", t.wasNil, s.IsNil()))
		}
		if s.Len() != t.wasLen {
			d = append(d, fmt.Sprintf("len %d -> %d", t.wasLen, s.Len()))
		}
		if s.Cap() != t.wasCap {
			d = append(d, fmt.Sprintf("cap %d -> %d", t.wasCap, s.Cap()))
		}
		if s.UnsafePointer() != t.wasData {
			d = append(d, "it points to another backing array")
		}
	}
	for _, s := range t.snaps {
		if !s.same() {
			d = append(d, "the bytes of "+s.what+" changed")
		}
	}
	if t.isSlice && t.wit.IsValid() && t.wit.Len() > t.off {
		if s := t.ptr.Elem(); s.Cap() >= 1 {
			t.wit.Index(t.off).Set(t.alias)
			if !reflect.DeepEqual(s.Slice(0, 1).Index(0).Interface(), t.alias.Interface()) {
				d = append(d, "a write through the slice it was cut from is no longer seen through it")
			}
		}
	}
	return strings.Join(d, "; ")
}

// ---------------------------------------------------------------------------------------------------------------
// the called functions
// ---------------------------------------------------------------------------------------------------------------

type c19xFn struct {
	name   string
	fn     interface{}
	direct func()        // the direct Go call with the good arguments
	good   []interface{} // arguments of a legal call (nil: untyped nil)
	recv   []interface{} // what the function then receives (variadic part flattened)
	inv    int
	got    []interface{}
}

func (f *c19xFn) reset() { f.inv, f.got = 0, nil }

func (f *c19xFn) mandatory() bool {
	ft := reflect.TypeOf(f.fn)
	return ft.NumIn() > 1 || (ft.NumIn() == 1 && !ft.IsVariadic())
}

func (f *c19xFn) gotRecv() (ok bool) {
	defer func() {
		if recover() != nil {
			ok = false
		}
	}()
	if len(f.got) != len(f.recv) {
		return false
	}
	for i := range f.got {
		if f.got[i] != f.recv[i] {
			return false
		}
	}
	return true
}

// c19xFuncs: the functions under test; body runs inside every one of them, after the invocation has been recorded.
func c19xFuncs(body func()) []*c19xFn {
	var l []*c19xFn
	{
		f := &c19xFn{name: "func()", recv: []interface{}{}}
		fn := func() { f.inv++; f.got = []interface{}{}; body() }
		f.fn, f.direct = fn, func() { fn() }
		l = append(l, f)
	}
	{
		f := &c19xFn{name: "func(int,int)(int,int)", good: []interface{}{3, 4}, recv: []interface{}{3, 4}}
		fn := func(a, b int) (int, int) { f.inv++; f.got = []interface{}{a, b}; body(); return a + b, a * b }
		f.fn, f.direct = fn, func() { fn(3, 4) }
		l = append(l, f)
	}
	{
		f := &c19xFn{name: "func(string,...int)error", good: []interface{}{"s7", 1, 2, 3}, recv: []interface{}{"s7", 1, 2, 3}}
		fn := func(s string, xs ...int) error {
			f.inv++
			f.got = []interface{}{s}
			for _, x := range xs {
				f.got = append(f.got, x)
			}
			body()
			return &c19S{A: 10 + len(xs)}
		}
		f.fn, f.direct = fn, func() { fn("s7", 1, 2, 3) }
		l = append(l, f)
	}
	{
		f := &c19xFn{name: "func(*int,error)(interface{},error,[]int)", good: []interface{}{nil, nil}, recv: []interface{}{(*int)(nil), nil}}
		fn := func(p *int, e error) (interface{}, error, []int) {
			f.inv++
			f.got = []interface{}{p, e}
			body()
			return "r1", nil, []int{8, 9}
		}
		f.fn, f.direct = fn, func() { fn(nil, nil) }
		l = append(l, f)
	}
	{
		f := &c19xFn{name: "func(...interface{})[]int", good: []interface{}{}, recv: []interface{}{}}
		fn := func(xs ...interface{}) []int {
			f.inv++
			f.got = append([]interface{}{}, xs...)
			body()
			return []int{len(xs), 77}
		}
		f.fn, f.direct = fn, func() { fn() }
		l = append(l, f)
	}
	{
		f := &c19xFn{name: "func(int)", good: []interface{}{5}, recv: []interface{}{5}}
		fn := func(a int) { f.inv++; f.got = []interface{}{a}; body() }
		f.fn, f.direct = fn, func() { fn(5) }
		l = append(l, f)
	}
	{
		f := &c19xFn{name: "func()string", good: []interface{}{}, recv: []interface{}{}}
		fn := func() string { f.inv++; f.got = []interface{}{}; body(); return "r2" }
		f.fn, f.direct = fn, func() { fn() }
		l = append(l, f)
	}
	{
		f := &c19xFn{name: "reflect.MakeFunc func(int,...string)(string,error)", good: []interface{}{1, "a", "b"}, recv: []interface{}{1, "a", "b"}}
		v := reflect.MakeFunc(reflect.TypeOf((func(int, ...string) (string, error))(nil)), func(args []reflect.Value) []reflect.Value {
			f.inv++
			f.got = []interface{}{args[0].Interface()}
			for i := 0; i < args[1].Len(); i++ {
				f.got = append(f.got, args[1].Index(i).Interface())
			}
			body()
			return []reflect.Value{reflect.ValueOf("made"), reflect.Zero(c19xTError)}
		})
		fn := v.Interface().(func(int, ...string) (string, error))
		f.fn, f.direct = fn, func() { fn(1, "a", "b") }
		l = append(l, f)
	}
	return l
}

// c19xArgsValid: would `fn(args...)` be a legal Go call (untyped nil = the literal nil)?
func c19xArgsValid(ft reflect.Type, args []interface{}) bool {
	n := ft.NumIn()
	for i, a := range args {
		var pt reflect.Type
		switch {
		case ft.IsVariadic() && i >= n-1:
			pt = ft.In(n - 1).Elem()
		case i < n:
			pt = ft.In(i)
		default:
			return false
		}
		if a == nil {
			switch pt.Kind() {
			case reflect.Chan, reflect.Func, reflect.Interface, reflect.Map, reflect.Ptr, reflect.Slice, reflect.UnsafePointer:
				continue
			}
			return false
		}
		if !reflect.TypeOf(a).AssignableTo(pt) {
			return false
		}
	}
	if ft.IsVariadic() {
		return len(args) >= n-1
	}
	return len(args) == n
}

// c19xDirect calls fn directly through reflect with args (a legal list) and returns its results.
func c19xDirect(fn interface{}, args []interface{}) []reflect.Value {
	v := reflect.ValueOf(fn)
	ft := v.Type()
	in := make([]reflect.Value, len(args))
	for i, a := range args {
		pt := ft.In(ft.NumIn() - 1)
		if ft.IsVariadic() && i >= ft.NumIn()-1 {
			pt = pt.Elem()
		} else {
			pt = ft.In(i)
		}
		if a == nil {
			in[i] = reflect.Zero(pt)
		} else {
			in[i] = reflect.ValueOf(a)
		}
	}
	return v.Call(in)
}

// ---------------------------------------------------------------------------------------------------------------
// options
// ---------------------------------------------------------------------------------------------------------------

// c19xItem is one option of a Call together with the pointers it was given (all of them are watched).
type c19xItem struct {
	desc    string
	opt     CallOption
	kind    int // 0 CallArgs, 1 CallResults, 2 CallResultsSlice, 3 other
	targets []*c19xTarget
}

type c19xSpec struct {
	desc string
	omit bool // "bad" spec only: no option at all; CallArgs is left out for a function with mandatory parameters
	make func(c *c19xCtx) *c19xItem
}

func c19xArgsItem(desc string, args []interface{}) *c19xItem {
	return &c19xItem{desc: desc, opt: CallArgs(args...), kind: 0}
}

func c19xOuts(ft reflect.Type) []reflect.Type {
	l := make([]reflect.Type, ft.NumOut())
	for i := range l {
		l[i] = ft.Out(i)
	}
	return l
}

// element types T such that CallResultsSlice(*[]T) can take all results of ft
func c19xElemTypes(ft reflect.Type) []reflect.Type {
	if ft.NumOut() == 0 {
		return []reflect.Type{c19xTInt, c19xTIface}
	}
	var l []reflect.Type
	for _, e := range []reflect.Type{c19xTInt, c19xTString, c19xTError, c19xTSliceInt, c19xTIface} {
		ok := true
		for _, o := range c19xOuts(ft) {
			ok = ok && o.AssignableTo(e)
		}
		if ok {
			l = append(l, e)
		}
	}
	return l
}

func c19xSliceSpec(elem reflect.Type, f c19xForm) c19xSpec {
	return c19xSpec{desc: fmt.Sprintf("CallResultsSlice(*[]%v{%s})", elem, f.name), make: func(c *c19xCtx) *c19xItem {
		t := c19xSliceTarget(c, elem, f)
		return &c19xItem{desc: "CallResultsSlice(" + t.desc + ")", opt: CallResultsSlice(t.arg), kind: 2, targets: []*c19xTarget{t}}
	}}
}

// CallResults with pointers to the result types themselves (iface false) or to interface{} (iface true)
func c19xPtrSpec(ft reflect.Type, iface bool) c19xSpec {
	desc := "CallResults(pointers to the result types)"
	if iface {
		desc = "CallResults(pointers to interface{})"
	}
	return c19xSpec{desc: desc, make: func(c *c19xCtx) *c19xItem {
		it := &c19xItem{kind: 1}
		var raw []interface{}
		var names []string
		for _, o := range c19xOuts(ft) {
			T := o
			if iface {
				T = c19xTIface
			}
			t := c19xPtrTarget(c, T)
			it.targets = append(it.targets, t)
			raw = append(raw, t.arg)
			names = append(names, t.desc)
		}
		it.desc = "CallResults(" + strings.Join(names, ",") + ")"
		it.opt = CallResults(raw...)
		return it
	}}
}

func c19xResSpecs(ft reflect.Type) []c19xSpec {
	l := []c19xSpec{c19xPtrSpec(ft, false), c19xPtrSpec(ft, true)}
	for _, e := range c19xElemTypes(ft) {
		for _, f := range c19xForms {
			l = append(l, c19xSliceSpec(e, f))
		}
	}
	return l
}

var c19xErrOption = errors.New("c19x: this option cannot be applied")

// c19xBadSpecs: options that no correct Call can accept for f (every one is checked against Go's call rules / the result
// types of f where that is not evident).
func c19xBadSpecs(f *c19xFn) []c19xSpec {
	ft := reflect.TypeOf(f.fn)
	var l []c19xSpec
	addArgs := func(desc string, args []interface{}) {
		if c19xArgsValid(ft, args) {
			return
		}
		a := append([]interface{}(nil), args...)
		l = append(l, c19xSpec{desc: desc, make: func(*c19xCtx) *c19xItem { return c19xArgsItem(desc, a) }})
	}
	g := f.good
	if len(g) > 0 {
		addArgs("CallArgs(one argument too few)", g[:len(g)-1])
		for _, i := range []int{0, len(g) - 1} {
			a := append([]interface{}(nil), g...)
			a[i] = c19S{A: 1}
			addArgs(fmt.Sprintf("CallArgs(argument %d of an unassignable type)", i), a)
			a = append([]interface{}(nil), g...)
			a[i] = nil
			addArgs(fmt.Sprintf("CallArgs(untyped nil as argument %d, not nilable)", i), a)
		}
	}
	addArgs("CallArgs(one argument too many, of an unassignable type)", append(append([]interface{}(nil), g...), c19S{A: 2}))
	addArgs("CallArgs(one argument too many)", append(append([]interface{}(nil), g...), 9))
	addArgs("CallArgs(two arguments too many)", append(append([]interface{}(nil), g...), "x", "y"))

	outs := c19xOuts(ft)
	// CallResults: valid pointers (watched) with the last one replaced / one appended / one missing
	resVariant := func(desc string, drop int, last func(c *c19xCtx, it *c19xItem) interface{}) {
		l = append(l, c19xSpec{desc: desc, make: func(c *c19xCtx) *c19xItem {
			it := &c19xItem{desc: desc, kind: 1}
			var raw []interface{}
			for _, o := range outs[:len(outs)-drop] {
				t := c19xPtrTarget(c, o)
				it.targets = append(it.targets, t)
				raw = append(raw, t.arg)
			}
			if last != nil {
				raw = append(raw, last(c, it))
			}
			it.opt = CallResults(raw...)
			return it
		}})
	}
	resVariant("CallResults(one pointer too many)", 0, func(c *c19xCtx, it *c19xItem) interface{} {
		t := c19xPtrTarget(c, c19xTIface)
		it.targets = append(it.targets, t)
		return t.arg
	})
	if len(outs) > 0 {
		resVariant("CallResults(one pointer too few)", 1, nil)
		resVariant("CallResults(untyped nil as the last pointer)", 1, func(*c19xCtx, *c19xItem) interface{} { return nil })
		resVariant("CallResults(a non-pointer in the last place)", 1, func(*c19xCtx, *c19xItem) interface{} { return 5 })
		lastT := outs[len(outs)-1]
		resVariant("CallResults(a nil pointer in the last place)", 1, func(*c19xCtx, *c19xItem) interface{} {
			return reflect.Zero(reflect.PointerTo(lastT)).Interface()
		})
		if !lastT.AssignableTo(c19xTS) {
			resVariant("CallResults(a pointer to an unassignable type in the last place)", 1, func(c *c19xCtx, it *c19xItem) interface{} {
				t := c19xPtrTarget(c, c19xTS)
				it.targets = append(it.targets, t)
				return t.arg
			})
		}
	}
	// CallResultsSlice of something that is not a pointer to a slice able to hold the results
	sliceVariant := func(desc string, mk func(c *c19xCtx, it *c19xItem) interface{}) {
		l = append(l, c19xSpec{desc: desc, make: func(c *c19xCtx) *c19xItem {
			it := &c19xItem{desc: desc, kind: 2}
			it.opt = CallResultsSlice(mk(c, it))
			return it
		}})
	}
	sliceVariant("CallResultsSlice(nil)", func(*c19xCtx, *c19xItem) interface{} { return nil })
	sliceVariant("CallResultsSlice(a slice, not a pointer)", func(*c19xCtx, *c19xItem) interface{} { return []interface{}{1} })
	sliceVariant("CallResultsSlice((*[]interface{})(nil))", func(*c19xCtx, *c19xItem) interface{} { return (*[]interface{})(nil) })
	sliceVariant("CallResultsSlice(*int)", func(c *c19xCtx, it *c19xItem) interface{} {
		t := c19xPtrTarget(c, c19xTInt)
		it.targets = append(it.targets, t)
		return t.arg
	})
	if len(outs) > 0 {
		for _, e := range []reflect.Type{c19xTS, c19xTInt, c19xTString} {
			bad := false
			for _, o := range outs {
				bad = bad || !o.AssignableTo(e)
			}
			if !bad {
				continue
			}
			e := e
			for _, f := range []c19xForm{c19xForms[0], c19xForms[3], c19xForms[6]} {
				f := f
				sliceVariant(fmt.Sprintf("CallResultsSlice(*[]%v{%s}, element type cannot hold the results)", e, f.name), func(c *c19xCtx, it *c19xItem) interface{} {
					t := c19xSliceTarget(c, e, f)
					it.targets = append(it.targets, t)
					return t.arg
				})
			}
			break
		}
	}
	l = append(l, c19xSpec{desc: "an option that returns an error", make: func(*c19xCtx) *c19xItem {
		return &c19xItem{desc: "an option that returns an error", kind: 3, opt: func(*callConfig) error { return c19xErrOption }}
	}})
	if f.mandatory() {
		l = append(l, c19xSpec{desc: "CallArgs omitted", omit: true})
	}
	return l
}

func c19xDescribe(f *c19xFn, via string, items []*c19xItem) string {
	var s []string
	for _, it := range items {
		s = append(s, it.desc)
	}
	return via + "(" + f.name + "; " + strings.Join(s, ", ") + ")"
}

func c19xOptions(items []*c19xItem) []CallOption {
	o := make([]CallOption, len(items))
	for i, it := range items {
		o[i] = it.opt
	}
	return o
}

// c19xUntouched emits a MONITOR line for every watched pointer of items that was written.
func c19xUntouched(h *hctx, what string, items []*c19xItem, desc string) {
	for _, it := range items {
		for _, t := range it.targets {
			if d := t.touched(); d != "" {
				h.line("MONITOR C19 %s, but the result target %s given to %s was modified (%s): %s", what, t.desc, it.desc, d, desc)
			}
		}
	}
}

// c19xStored: after a successful Call whose only results option is res: the targets hold what the direct call returned ("" if so).
func c19xStored(res *c19xItem, direct []reflect.Value) (diff string) {
	defer func() {
		if r := recover(); r != nil {
			diff = fmt.Sprintf("targets cannot be read: %v", r)
		}
	}()
	switch res.kind {
	case 1:
		if len(res.targets) != len(direct) {
			return fmt.Sprintf("%d targets for %d results", len(res.targets), len(direct))
		}
		for i, t := range res.targets {
			if got, want := t.ptr.Elem().Interface(), direct[i].Interface(); !reflect.DeepEqual(got, want) {
				return fmt.Sprintf("target %d holds %s, a direct call returns %s", i, c19xShow(got), c19xShow(want))
			}
		}
	case 2:
		t := res.targets[0]
		s := t.ptr.Elem()
		if s.Len() != t.wasLen+len(direct) {
			return fmt.Sprintf("the slice has %d elements, it had %d and the function returns %d", s.Len(), t.wasLen, len(direct))
		}
		for i := 0; i < t.wasLen; i++ {
			if !reflect.DeepEqual(s.Index(i).Interface(), t.old.Index(i).Interface()) {
				return fmt.Sprintf("element %d, present before the call, was replaced", i)
			}
		}
		for i := range direct {
			if got, want := s.Index(t.wasLen+i).Interface(), direct[i].Interface(); !reflect.DeepEqual(got, want) {
				return fmt.Sprintf("appended element %d is %s, a direct call returns %s", i, c19xShow(got), c19xShow(want))
			}
		}
	}
	return ""
}

// ---------------------------------------------------------------------------------------------------------------
// panic kinds
// ---------------------------------------------------------------------------------------------------------------

type c19xPStruct struct {
	A int
	B string
}

type c19xKind struct {
	name    string
	raise   func()
	ident   bool // the same value at every raise
	returns bool // control: the function recovers its own panic and returns normally
}

var (
	c19xSinkInt int
	c19xSinkAny interface{}
)

func c19xKinds() []c19xKind {
	errA := errors.New("c19x: some error")
	errB := fmt.Errorf("c19x: wrapped: %w", errA)
	errLib := fmt.Errorf("bigbuff.callable args error: not func: %v", reflect.Int)
	errPtr := &c19S{A: 41}
	ve := &reflect.ValueError{Method: "c19x.Method", Kind: reflect.Int}
	ps := &c19xPStruct{A: 1, B: "p"}
	pi := new(int)
	sl := []int{1, 2, 3}
	mp := map[string]int{"k": 1}
	fn := func() {}
	ch := make(chan int)
	n := 3
	var nilMap map[string]int
	var nilPtr *c19xPStruct
	var nilChan chan int
	var anyNil interface{}
	var anyStr interface{} = "not an int"
	zero := 0
	idx := 7
	return []c19xKind{
		{name: `panic("literal")`, ident: true, raise: func() { panic("invalid state: 5") }},
		{name: `panic(fmt.Sprintf(...))`, ident: true, raise: func() { panic(fmt.Sprintf("bad value %d", n)) }},
		{name: `panic("")`, ident: true, raise: func() { panic("") }},
		{name: `panic(errors.New)`, ident: true, raise: func() { panic(errA) }},
		{name: `panic(fmt.Errorf %w)`, ident: true, raise: func() { panic(errB) }},
		{name: `panic(an error that reads like the library's own)`, ident: true, raise: func() { panic(errLib) }},
		{name: `panic(*custom error)`, ident: true, raise: func() { panic(errPtr) }},
		{name: `panic(a *reflect.ValueError the function made)`, ident: true, raise: func() { panic(ve) }},
		{name: `reflect.ValueOf(1).Len()`, raise: func() { c19xSinkInt = reflect.ValueOf(1).Len() }},
		{name: `reflect.ValueOf(5).Elem()`, raise: func() { c19xSinkAny = reflect.ValueOf(5).Elem().Interface() }},
		{name: `reflect.Value{}.Type()`, raise: func() { c19xSinkAny = reflect.Value{}.Type() }},
		{name: `reflect Call with too few arguments`, ident: true, raise: func() { reflect.ValueOf(func(int) {}).Call(nil) }},
		{name: `reflect Call with a wrong argument type`, ident: true, raise: func() { reflect.ValueOf(func(int) {}).Call([]reflect.Value{reflect.ValueOf("x")}) }},
		{name: `reflect SetInt on an unaddressable value`, ident: true, raise: func() { reflect.ValueOf(1).SetInt(2) }},
		{name: `reflect.FuncOf(129 parameters)`, ident: true, raise: func() {
			in := make([]reflect.Type, 129)
			for i := range in {
				in[i] = c19xTInt
			}
			c19xSinkAny = reflect.FuncOf(in, nil, false)
		}},
		{name: `write to a nil map`, raise: func() { nilMap["a"] = 1 }},
		{name: `index out of range`, raise: func() { c19xSinkInt = sl[idx] }},
		{name: `slice bounds out of range`, raise: func() { c19xSinkInt = len(sl[:idx]) }},
		{name: `nil pointer dereference`, raise: func() { c19xSinkInt = nilPtr.A }},
		{name: `integer division by zero`, raise: func() { c19xSinkInt = n / zero }},
		{name: `failed type assertion`, raise: func() { c19xSinkInt = anyStr.(int) }},
		{name: `failed type assertion on nil`, raise: func() { c19xSinkInt = anyNil.(int) }},
		{name: `close of a nil channel`, raise: func() { close(nilChan) }},
		{name: `panic(int)`, ident: true, raise: func() { panic(42) }},
		{name: `panic(0)`, ident: true, raise: func() { panic(0) }},
		{name: `panic(false)`, ident: true, raise: func() { panic(false) }},
		{name: `panic(struct)`, ident: true, raise: func() { panic(c19xPStruct{A: 7, B: "x"}) }},
		{name: `panic(*struct)`, ident: true, raise: func() { panic(ps) }},
		{name: `panic(*int)`, ident: true, raise: func() { panic(pi) }},
		{name: `panic((*int)(nil))`, ident: true, raise: func() { panic((*int)(nil)) }},
		{name: `panic([]int)`, ident: true, raise: func() { panic(sl) }},
		{name: `panic(map)`, ident: true, raise: func() { panic(mp) }},
		{name: `panic(func)`, ident: true, raise: func() { panic(fn) }},
		{name: `panic(chan)`, ident: true, raise: func() { panic(ch) }},
		{name: `panic(nil)`, raise: func() { panic(anyNil) }},
		{name: `panic(1) replaced by a deferred panic(error)`, ident: true, raise: func() {
			defer func() { panic(errB) }()
			panic(1)
		}},
		{name: `recover and re-panic`, ident: true, raise: func() {
			defer func() { panic(recover()) }()
			panic(errA)
		}},
		{name: `panic("...") out of a nested bigbuff.Call`, ident: true, raise: func() {
			_ = Call(NewCallable(func() { panic("inner: bad state") }))
		}},
		{name: `reflect misuse inside a nested bigbuff.Call`, raise: func() {
			_ = Call(NewCallable(func(v reflect.Value) { c19xSinkInt = v.Len() }), CallArgs(reflect.ValueOf(1)))
		}},
		{name: `MustCall of a function without its arguments`, raise: func() { MustCall(NewCallable(func(int) {})) }},
		{name: `runtime.Goexit`, raise: func() { runtime.Goexit() }},
		{name: `runtime.Goexit in a deferred function while panicking`, raise: func() {
			defer runtime.Goexit()
			panic("superseded by Goexit")
		}},
		{name: `control: the function recovers its own panic("...")`, returns: true, raise: func() {
			defer func() { _ = recover() }()
			panic("recovered by the function itself")
		}},
		{name: `control: the function recovers its own reflect panic`, returns: true, raise: func() {
			defer func() { _ = recover() }()
			c19xSinkInt = reflect.ValueOf(1).Len()
		}},
	}
}

// ---------------------------------------------------------------------------------------------------------------
// scenarios
// ---------------------------------------------------------------------------------------------------------------

func init() {
	register("C19PANICS", func(h *hctx) {
		var body func()
		fns := c19xFuncs(func() { body() })
		c := &c19xCtx{}

		// one case: the direct call gives the expected outcome; then the library call built by mk
		runCase := func(f *c19xFn, k c19xKind, desc string, items []*c19xItem, res *c19xItem, call func() error) {
			h.count("cases", 1)
			body = k.raise
			f.reset()
			d := c19xRun(func() error { f.direct(); return nil })
			if (d.class == 0) != k.returns || d.class == 3 || f.inv != 1 {
				// not the library's Call proper — unless the function makes a nested library call, whose panic did not come out
				h.line("MONITOR C19 a DIRECT call of a function that ends with %s %s after %d invocation(s) (a nested Call inside it did not let its function's panic out?): %s",
					k.name, c19xClassNames[d.class], f.inv, desc)
				return
			}
			f.reset()
			o := c19xRun(call)
			h.count("direct_"+[]string{"returned", "panicked", "goexit"}[d.class], 1)
			switch {
			case o.class == 3:
				h.line("MONITOR C19 the call did not end within 10s (called function: %s): %s", k.name, desc)
				return
			case o.class != d.class && o.class == 0:
				h.line("MONITOR C19 the called function %s (%s) but Call returned (err=%v) instead of propagating it: %s", c19xClassNames[d.class], c19xShow(d.val), o.err, desc)
			case o.class != d.class:
				h.line("MONITOR C19 the called function %s (%s: %s) but the call %s (%s): %s", c19xClassNames[d.class], k.name, c19xShow(d.val), c19xClassNames[o.class], c19xShow(o.val), desc)
			case o.class == 1 && !c19xSamePanic(o.val, d.val, k.ident):
				h.line("MONITOR C19 the called function panicked with %s (%s) but the panic out of Call carries %s: %s", c19xShow(d.val), k.name, c19xShow(o.val), desc)
			case o.class == 0 && o.err != nil:
				h.line("MONITOR C19 the called function returned normally (%s) but Call returned an error: %s", k.name, desc)
			}
			if f.inv != 1 {
				h.line("MONITOR C19 valid arguments and targets, but the function (%s) was invoked %d time(s): %s", k.name, f.inv, desc)
			} else if !f.gotRecv() {
				h.line("MONITOR C19 the function did not receive exactly the given arguments (got %v, given %v): %s", f.got, f.recv, desc)
			}
			if o.class == 0 && o.err == nil && res != nil {
				body = func() {}
				if diff := c19xStored(res, c19xDirect(f.fn, f.good)); diff != "" {
					h.line("MONITOR C19 nil error but the stored results are not those of a direct call (%s): %s", diff, desc)
				}
				return
			}
			if d.class != 0 {
				c19xUntouched(h, "the called function did not return ("+k.name+")", items, desc)
			}
		}

		variants := func(f *c19xFn, k c19xKind, specs []c19xSpec, musts bool) {
			for si, sp := range specs {
				for order := 0; order < 2; order++ {
					var res *c19xItem
					var items []*c19xItem
					args := c19xArgsItem("CallArgs(valid)", f.good)
					if sp.make != nil {
						res = sp.make(c)
						if order == 0 {
							items = []*c19xItem{args, res}
						} else {
							items = []*c19xItem{res, args}
						}
					} else {
						if order == 1 {
							continue
						}
						items = []*c19xItem{args}
					}
					opts := c19xOptions(items)
					cb := NewCallable(f.fn)
					if musts && si%3 == order {
						runCase(f, k, c19xDescribe(f, "MustCall", items), items, res, func() error { MustCall(cb, opts...); return nil })
					} else {
						runCase(f, k, c19xDescribe(f, "Call", items), items, res, func() error { return Call(cb, opts...) })
					}
				}
			}
			if !f.mandatory() {
				cb := NewCallable(f.fn)
				runCase(f, k, c19xDescribe(f, "Callable.Call(nil, nil)", nil), nil, nil, func() error { return cb.Call(nil, nil) })
				runCase(f, k, c19xDescribe(f, "Call without options", nil), nil, nil, func() error { return Call(cb) })
			}
		}
		// result options used here: none, CallResults (both pointee choices), CallResultsSlice to *[]interface{} in the
		// forms nil / one spare / full window / spare
		small := func(ft reflect.Type) []c19xSpec {
			l := []c19xSpec{{desc: "no results option"}, c19xPtrSpec(ft, false), c19xPtrSpec(ft, true)}
			for _, fi := range []int{0, 1, 3, 4, 7, 8} {
				l = append(l, c19xSliceSpec(c19xTIface, c19xForms[fi]))
			}
			if e := c19xElemTypes(ft); len(e) > 0 && e[0] != c19xTIface {
				l = append(l, c19xSliceSpec(e[0], c19xForms[0]), c19xSliceSpec(e[0], c19xForms[6]))
			}
			return l
		}
		kinds := c19xKinds()
		for _, f := range fns {
			specs := small(reflect.TypeOf(f.fn))
			for _, k := range kinds {
				variants(f, k, specs, true)
			}
		}
		// seeded: panic values drawn anew for every case (string, int, error, struct, pointer), every function, one random option list
		r := h.rng
		for i := 0; i < h.n; i++ {
			f := fns[r.Intn(len(fns))]
			v := r.Intn(1 << 30)
			var k c19xKind
			switch r.Intn(6) {
			case 0:
				s := fmt.Sprintf("invalid state: %d", v)
				k = c19xKind{name: "panic(random string)", ident: true, raise: func() { panic(s) }}
			case 1:
				k = c19xKind{name: "panic(fmt.Sprintf(random))", ident: true, raise: func() { panic(fmt.Sprintf("%d is not a valid thing", v)) }}
			case 2:
				k = c19xKind{name: "panic(random int)", ident: true, raise: func() { panic(v) }}
			case 3:
				e := fmt.Errorf("c19x: error %d", v)
				k = c19xKind{name: "panic(random error)", ident: true, raise: func() { panic(e) }}
			case 4:
				k = c19xKind{name: "panic(random struct)", ident: true, raise: func() { panic(c19xPStruct{A: v, B: "r"}) }}
			default:
				p := &reflect.ValueError{Method: "m" + strconv.Itoa(v), Kind: reflect.Kind(v % 20)}
				k = c19xKind{name: "panic(random *reflect.ValueError)", ident: true, raise: func() { panic(p) }}
			}
			specs := c19xResSpecs(reflect.TypeOf(f.fn))
			variants(f, k, []c19xSpec{specs[r.Intn(len(specs))]}, r.Intn(4) == 0)
		}
	})

	register("C19UNTOUCHED", func(h *hctx) {
		fns := c19xFuncs(func() {})
		c := &c19xCtx{}

		// a Call that cannot be accepted
		failing := func(f *c19xFn, items []*c19xItem, why string) {
			h.count("cases_error", 1)
			desc := c19xDescribe(f, "Call", items) + " [" + why + "]"
			opts := c19xOptions(items)
			f.reset()
			o := c19xRun(func() error { return Call(NewCallable(f.fn), opts...) })
			what := "an error was returned"
			switch o.class {
			case 0:
				if o.err == nil {
					h.line("MONITOR C19 nil error for a call that cannot be made as given (function invoked %d time(s)): %s", f.inv, desc)
					return
				} else if o.err.Error() == "" {
					h.line("MONITOR C19 error without description: %s", desc)
				}
			case 1:
				what = "Call panicked"
				h.line("MONITOR C19 panic on the library's own account (%s): %s", c19xShow(o.val), desc)
			default:
				what = "Call " + c19xClassNames[o.class]
				h.line("MONITOR C19 Call %s: %s", c19xClassNames[o.class], desc)
				return
			}
			if f.inv != 0 {
				h.line("MONITOR C19 %s but the function was invoked %d time(s): %s", what, f.inv, desc)
			}
			c19xUntouched(h, what, items, desc)
		}
		// a Call with valid options, at most one results option
		succeeding := func(f *c19xFn, items []*c19xItem, res *c19xItem) {
			h.count("cases_ok", 1)
			desc := c19xDescribe(f, "Call", items)
			opts := c19xOptions(items)
			f.reset()
			o := c19xRun(func() error { return Call(NewCallable(f.fn), opts...) })
			if o.class != 0 || o.err != nil {
				h.line("MONITOR C19 valid arguments and result targets but Call %s (err=%v, %s): %s", c19xClassNames[o.class], o.err, c19xShow(o.val), desc)
				return
			}
			if f.inv != 1 {
				h.line("MONITOR C19 nil error but the function was invoked %d time(s): %s", f.inv, desc)
				return
			}
			if !f.gotRecv() {
				h.line("MONITOR C19 the function did not receive exactly the given arguments (got %v, given %v): %s", f.got, f.recv, desc)
			}
			if res != nil {
				if diff := c19xStored(res, c19xDirect(f.fn, f.good)); diff != "" {
					h.line("MONITOR C19 nil error but the stored results are not those of a direct call (%s): %s", diff, desc)
				}
			}
		}
		insert := func(g []*c19xItem, pos int, b *c19xItem) []*c19xItem {
			l := append([]*c19xItem(nil), g[:pos]...)
			l = append(l, b)
			return append(l, g[pos:]...)
		}
		// the valid part of an option list: arrangement 0: R; 1: A R; 2: R A
		valid := func(f *c19xFn, rs c19xSpec, arr int) ([]*c19xItem, *c19xItem) {
			res := rs.make(c)
			args := c19xArgsItem("CallArgs(valid)", f.good)
			switch arr {
			case 0:
				return []*c19xItem{res}, res
			case 1:
				return []*c19xItem{args, res}, res
			}
			return []*c19xItem{res, args}, res
		}

		for _, f := range fns {
			ft := reflect.TypeOf(f.fn)
			resSpecs := c19xResSpecs(ft)
			badSpecs := c19xBadSpecs(f)
			h.count("result_target_forms", len(resSpecs))
			h.count("unacceptable_options", len(badSpecs))
			for _, rs := range resSpecs {
				// control: the valid options alone
				for arr := 0; arr < 3; arr++ {
					if arr == 0 && f.mandatory() {
						continue
					}
					items, res := valid(f, rs, arr)
					succeeding(f, items, res)
				}
				for _, bs := range badSpecs {
					if bs.omit {
						items, _ := valid(f, rs, 0)
						failing(f, items, bs.desc)
						continue
					}
					for arr := 0; arr < 3; arr++ {
						for pos := 0; pos <= 2; pos++ {
							items, _ := valid(f, rs, arr)
							if pos > len(items) {
								continue
							}
							failing(f, insert(items, pos, bs.make(c)), bs.desc+" in position "+strconv.Itoa(pos))
						}
					}
				}
			}
		}
		h.line("EXHAUSTIVE every function x result-target form x unacceptable option x position among the valid options")

		// seeded: longer option lists: 1-3 results options, 0-2 valid CallArgs, 1-2 unacceptable options anywhere
		r := h.rng
		for i := 0; i < h.n; i++ {
			f := fns[r.Intn(len(fns))]
			resSpecs := c19xResSpecs(reflect.TypeOf(f.fn))
			badSpecs := c19xBadSpecs(f)
			var items []*c19xItem
			for j, n := 0, 1+r.Intn(3); j < n; j++ {
				items = append(items, resSpecs[r.Intn(len(resSpecs))].make(c))
			}
			nargs := r.Intn(3)
			for j := 0; j < nargs; j++ {
				items = insert(items, r.Intn(len(items)+1), c19xArgsItem("CallArgs(valid)", f.good))
			}
			why := ""
			for j, n := 0, 1+r.Intn(2); j < n; j++ {
				bs := badSpecs[r.Intn(len(badSpecs))]
				if bs.omit {
					if nargs > 0 || j > 0 {
						continue
					}
					why = bs.desc
					break
				}
				items = insert(items, r.Intn(len(items)+1), bs.make(c))
				why += bs.desc + "; "
			}
			if why == "" {
				bs := badSpecs[0]
				items = insert(items, r.Intn(len(items)+1), bs.make(c))
				why = bs.desc
			}
			failing(f, items, why)
		}
	})
}
