//go:build verif

package bigbuff

import (
	"fmt"
	"math"
	"runtime"
	"sort"
	"sync"
	"sync/atomic"
	"time"
)

// C08 — ChanCaster.
//
//	C08F   sequential, word level: Add / Send on hand-set state words, decided by the extracted Model/Caster.v
//	         F caster_add  <id> whi wlo dkind delta | panicked newhi newlo ret absorbed
//	             dkind 0: delta is literal; 1: math.MinInt64; 2: math.MaxInt64
//	         F caster_send <id> whi wlo mut w2hi w2lo | panicked ret newhi newlo sent
//	             mut 1: the word is overwritten with w2 between the first and the second channel send (so that the
//	             final load/validate/CAS of Send is exercised on arbitrary words)
//	C08K2  concurrent, contract-following use of UNBUFFERED casters + misuse sequences; property monitors, and for the
//	       phase-separated cases
//	         F caster_round <id> R D | ret finalhi finallo      (R registered, D of them deregister during the Send)
//	C08S   delay-bounded sweep over the instrumentation points of chancaster.go with the same monitors; and (instrumented
//	       build only) Send's final load / CAS taken apart by a hook at the instrumentation point between them
//	         F caster_send_cas <id> r mut2 w2hi w2lo mut3 w3hi w3lo | panicked ret newhi newlo
//	             Send on the idle word (r, r); mut2: the word is w2 when Send loads it; mut3: it is w3 when Send CASes it

const (
	casterMaxI    = math.MaxInt32
	casterFill    = 64 // copies pre-filled into the buffered channel of the word-level Add cases
	casterHangDur = 2 * time.Second
)

func init() {
	register("C08F", casterF)
	register("C08K2", func(h *hctx) {
		casterMisuse(h)
		for i := 0; i < h.n; i++ {
			casterK2Case(h, fmt.Sprintf("k%d-%d", h.seed, i), i%2 == 0, nil)
		}
	})
	register("C08S", func(h *hctx) {
		if h.pi("shard", 0) == 0 {
			casterCasCases(h)
		}
		timedSweep(h, "c08", casterSweepCases(h))
	})
}

// ---------------------------------------------------------------------------------------------------------------
// calls under recover
// ---------------------------------------------------------------------------------------------------------------

func casterSafeAdd(x *ChanCaster[chan int, int], delta int) (ret int, panicked bool) {
	defer func() {
		if r := recover(); r != nil {
			ret, panicked = 0, true
		}
	}()
	return x.Add(delta), false
}

func casterSafeSend(x *ChanCaster[chan int, int], v int) (ret int, panicked bool) {
	defer func() {
		if r := recover(); r != nil {
			ret, panicked = 0, true
		}
	}()
	return x.Send(v), false
}

func casterWord(hi, lo uint32) uint64 { return uint64(hi)<<32 | uint64(lo) }

// ---------------------------------------------------------------------------------------------------------------
// C08F
// ---------------------------------------------------------------------------------------------------------------

func casterF(h *hctx) {
	id := 0
	his := []uint32{0, 1, 2, casterMaxI - 1, casterMaxI, casterMaxI + 1, math.MaxUint32 - 1, math.MaxUint32}
	los := func(hi uint32) []uint32 {
		return []uint32{hi, hi + casterMaxI, hi + 1, hi - 1, 0, casterMaxI, hi + casterMaxI + 1, h.rng.Uint32()}
	}
	type dl struct {
		kind  int
		delta int
	}
	deltas := []dl{{0, 0}, {0, 1}, {0, -1}, {0, 2}, {0, -2}, {0, casterMaxI}, {0, -casterMaxI}, {0, casterMaxI + 1},
		{0, -casterMaxI - 1}, {0, casterMaxI - 1}, {0, -casterMaxI + 1}, {1, math.MinInt64}, {2, math.MaxInt64},
		{0, 64}, {0, -64}, {0, 65}, {0, -65}, {0, -100000}, {0, 1 << 32}, {0, -(1 << 32)}, {0, 1<<32 + 1}, {0, 1 << 61}, {0, -(1 << 61)}}

	doAdd := func(hi, lo uint32, d dl) {
		w := casterWord(hi, lo)
		// would the call absorb more copies than the channel holds? decided on the word the atomic add will produce
		if d.delta < -casterFill && d.delta >= -casterMaxI {
			m := uint64(-d.delta)
			w2 := w - (m<<32 | m)
			h2, l2 := uint32(w2>>32), uint32(w2)
			if h2 <= casterMaxI && casterMaxI-h2 >= uint32(m) && l2 == h2+casterMaxI && l2 != h2 {
				h.count("add_skipped_large_absorb", 1)
				return
			}
		}
		x := NewChanCaster(make(chan int, casterFill))
		for i := 0; i < casterFill; i++ {
			x.C <- i
		}
		casterStateOf(x).Store(w)
		type res struct {
			ret int
			p   bool
		}
		done := make(chan res, 1)
		go func() {
			r, p := casterSafeAdd(x, d.delta)
			done <- res{r, p}
		}()
		var r res
		select {
		case r = <-done:
		case <-time.After(casterHangDur):
			h.line("MONITOR C08 word-level Add blocked: hi=%d lo=%d dkind=%d delta=%d", hi, lo, d.kind, d.delta)
			return
		}
		nw := casterStateOf(x).Load()
		lit := d.delta
		if d.kind != 0 {
			lit = 0
		}
		h.line("F caster_add a%d %d %d %d %d | %d %d %d %d %d", id, hi, lo, d.kind, lit,
			boolInt(r.p), uint32(nw>>32), uint32(nw), r.ret, casterFill-len(x.C))
		id++
		switch {
		case r.p:
			h.count("add_panicked", 1)
		case casterFill-len(x.C) > 0:
			h.count("add_absorbed", 1)
		default:
			h.count("add_returned", 1)
		}
	}

	for _, hi := range his {
		for _, lo := range los(hi) {
			for _, d := range deltas {
				doAdd(hi, lo, d)
			}
			for k := 0; k < 3; k++ {
				doAdd(hi, lo, dl{0, h.rng.Intn(129) - 64})
			}
		}
	}
	// seeded: valid words (idle / armed) with deltas that mostly keep them valid, and arbitrary 64-bit words
	for i := 0; i < h.n; i++ {
		var hi uint32
		switch h.rng.Intn(4) {
		case 0:
			hi = uint32(h.rng.Intn(200))
		case 1:
			hi = casterMaxI - uint32(h.rng.Intn(200))
		default:
			hi = uint32(h.rng.Int63n(casterMaxI + 1))
		}
		lo := hi
		if h.rng.Intn(2) == 0 {
			lo = hi + casterMaxI
		}
		var d int
		switch h.rng.Intn(6) {
		case 0:
			d = 0
		case 1:
			d = -h.rng.Intn(casterFill + 1)
		case 2:
			d = h.rng.Intn(200)
		case 3:
			d = -int(hi) + h.rng.Intn(5) - 2
		case 4:
			d = casterMaxI - int(hi) + h.rng.Intn(5) - 2
		default:
			d = int(h.rng.Int63n(2*casterMaxI+5)) - casterMaxI - 2
		}
		doAdd(hi, lo, dl{0, d})
		switch i % 3 {
		case 0: // arbitrary 64-bit word
			w := h.rng.Uint64()
			doAdd(uint32(w>>32), uint32(w), dl{0, h.rng.Intn(9) - 4})
		case 1: // both halves wrap to the same small value: only `receivers >= uint32(delta)` notices
			a := uint32(1 + h.rng.Intn(100))
			doAdd(math.MaxUint32-a, math.MaxUint32-a+1, dl{0, int(a) + h.rng.Intn(3)})
		default: // small valid idle word, small in-range delta
			c := uint32(h.rng.Intn(20))
			doAdd(c, c, dl{0, h.rng.Intn(30) - 10})
		}
	}

	// Send
	sid := 0
	doSend := func(hi, lo uint32, mut bool, hi2, lo2 uint32) {
		armable := lo == hi && hi >= 1 && hi <= casterMaxI
		if armable && hi > 8 {
			h.count("send_skipped_many_receivers", 1)
			return
		}
		if mut && !(armable && hi >= 2) {
			mut = false
		}
		var x *ChanCaster[chan int, int]
		var helper sync.WaitGroup
		if mut {
			x = NewChanCaster(make(chan int))
			helper.Add(1)
			go func() {
				defer helper.Done()
				<-x.C // Send is now blocked in (or on its way to) its second channel send: the store below is
				// ordered before Send's final load by the next receive
				casterStateOf(x).Store(casterWord(hi2, lo2))
				for i := uint32(1); i < hi; i++ {
					<-x.C
				}
			}()
		} else {
			x = NewChanCaster(make(chan int, 8))
		}
		casterStateOf(x).Store(casterWord(hi, lo))
		type res struct {
			ret int
			p   bool
		}
		done := make(chan res, 1)
		go func() {
			r, p := casterSafeSend(x, 7)
			done <- res{r, p}
		}()
		var r res
		select {
		case r = <-done:
		case <-time.After(casterHangDur):
			h.line("MONITOR C08 word-level Send blocked: hi=%d lo=%d mut=%v w2=(%d,%d)", hi, lo, mut, hi2, lo2)
			return
		}
		sent := len(x.C)
		if mut {
			helper.Wait()
			sent = int(hi)
		}
		nw := casterStateOf(x).Load()
		h.line("F caster_send s%d %d %d %d %d %d | %d %d %d %d %d", sid, hi, lo, boolInt(mut), hi2, lo2,
			boolInt(r.p), r.ret, uint32(nw>>32), uint32(nw), sent)
		sid++
		switch {
		case r.p:
			h.count("send_panicked", 1)
		case sent > 0:
			h.count("send_delivered", 1)
		default:
			h.count("send_zero", 1)
		}
	}
	for _, hi := range his {
		for _, lo := range los(hi) {
			doSend(hi, lo, false, 0, 0)
		}
	}
	for r := uint32(1); r <= 8; r++ {
		doSend(r, r, false, 0, 0)
		if r < 2 {
			continue
		}
		// the word Send finds at its final load: every count around r, armed / idle / garbage
		for _, hi2 := range []uint32{0, 1, r - 1, r, r + 1, casterMaxI, casterMaxI + 1, casterMaxI + 2, math.MaxUint32} {
			for _, lo2 := range []uint32{hi2 + casterMaxI, hi2, hi2 + casterMaxI + 1, hi2 + casterMaxI - 1, 0} {
				doSend(r, r, true, hi2, lo2)
			}
		}
		for k := 0; k < 4; k++ {
			w := h.rng.Uint64()
			doSend(r, r, true, uint32(w>>32), uint32(w))
		}
	}
}

// ---------------------------------------------------------------------------------------------------------------
// misuse: must be reported by a panic
// ---------------------------------------------------------------------------------------------------------------

// casterTimed runs one library call in its own goroutine; blocked = it had not returned after casterHangDur (the
// goroutine is then abandoned together with its caster).
type casterCallRes struct {
	ret               int
	panicked, blocked bool
}

func casterTimed(f func() (int, bool)) casterCallRes {
	done := make(chan casterCallRes, 1)
	go func() {
		r, p := f()
		done <- casterCallRes{ret: r, panicked: p}
	}()
	select {
	case r := <-done:
		return r
	case <-time.After(casterHangDur):
		return casterCallRes{blocked: true}
	}
}

type casterCall struct {
	send  bool
	delta int
}

func (c casterCall) String() string {
	if c.send {
		return "Send"
	}
	switch c.delta {
	case math.MinInt64:
		return "Add(MinInt64)"
	case math.MaxInt64:
		return "Add(MaxInt64)"
	}
	return fmt.Sprintf("Add(%d)", c.delta)
}

func casterSeqString(calls []casterCall) string {
	s := ""
	for i, c := range calls {
		if i > 0 {
			s += ";"
		}
		s += c.String()
	}
	return s
}

func casterValidWord(w uint64) bool {
	hi, lo := uint32(w>>32), uint32(w)
	return hi <= casterMaxI && (lo == hi || lo == hi+casterMaxI)
}

var casterMisuseBlocked int

// casterMisuseSeq: [pre] are contract-following Adds (must return), [bad] must panic, then the tails Add(0) and Send are
// called. Every call runs under a deadline. After the panicking call the word decides what the tails must do (the model:
// Proofs/Caster.v sticky_while_invalid): on an invalid word both must panic; on a valid word Add(0) must return the count
// and, once the count has been brought back to 0 by a balanced Add, Send must return 0. None may block.
func casterMisuseSeq(h *hctx, pre []int, bad int) {
	if casterMisuseBlocked >= 4 {
		h.count("misuse_skipped_after_blocked_calls", 1)
		return
	}
	x := NewChanCaster(make(chan int))
	var calls []casterCall
	lastPanic := ""
	do := func(c casterCall) (casterCallRes, bool) {
		calls = append(calls, c)
		r := casterTimed(func() (int, bool) {
			if c.send {
				return casterSafeSend(x, 1)
			}
			return casterSafeAdd(x, c.delta)
		})
		if r.blocked {
			casterMisuseBlocked++
			if lastPanic != "" {
				h.line("MONITOR C08 misuse: %s blocked for 2 s after a panicking %s (sequence %s)", c, lastPanic, casterSeqString(calls))
			} else {
				h.line("MONITOR C08 misuse: %s blocked for 2 s (sequence %s)", c, casterSeqString(calls))
			}
			return r, false
		}
		if r.panicked && lastPanic == "" {
			lastPanic = c.String() // the first call that panicked
		}
		return r, true
	}
	for _, d := range pre {
		r, ok := do(casterCall{delta: d})
		if !ok {
			return
		}
		if r.panicked {
			h.line("MONITOR C08 contract-following %s panicked (sequence %s)", casterCall{delta: d}, casterSeqString(calls))
			return
		}
	}
	r, ok := do(casterCall{delta: bad})
	if !ok {
		return
	}
	h.count("misuse_cases", 1)
	if !r.panicked {
		h.line("MONITOR C08 misuse went unreported: %s returned %d instead of panicking (sequence %s)", casterCall{delta: bad}, r.ret,
			casterSeqString(calls))
		return
	}
	// tails
	w := casterStateOf(x).Load()
	valid := casterValidWord(w)
	r, ok = do(casterCall{delta: 0})
	if !ok {
		return
	}
	switch {
	case !valid && !r.panicked:
		h.line("MONITOR C08 misuse went unreported: Add(0) returned %d on the invalid word %#x left by a panicking call (sequence %s)",
			r.ret, w, casterSeqString(calls))
	case valid && r.panicked:
		h.line("MONITOR C08 Add(0) panicked on the valid word %#x (sequence %s)", w, casterSeqString(calls))
	case valid && r.ret != int(uint32(w>>32)):
		h.line("MONITOR C08 Add(0) returned %d on the word %#x (sequence %s)", r.ret, w, casterSeqString(calls))
	}
	if valid && uint32(w) == uint32(w>>32) && w != 0 {
		// nobody listens on this caster: deregister everybody so that the Send has nothing to hand out
		r, ok = do(casterCall{delta: -int(uint32(w >> 32))})
		if !ok {
			return
		}
		if r.panicked || r.ret != 0 {
			h.line("MONITOR C08 balanced %s on the valid word %#x: panicked=%v ret=%d (sequence %s)", calls[len(calls)-1], w, r.panicked,
				r.ret, casterSeqString(calls))
			return
		}
	} else if valid && w != 0 {
		return // armed word: not reachable here
	}
	r, ok = do(casterCall{send: true})
	if !ok {
		return
	}
	switch {
	case !valid && !r.panicked:
		h.line("MONITOR C08 misuse went unreported: Send returned %d on the invalid word %#x left by a panicking call (sequence %s)",
			r.ret, w, casterSeqString(calls))
	case valid && (r.panicked || r.ret != 0):
		h.line("MONITOR C08 Send on an empty caster: panicked=%v ret=%d (sequence %s)", r.panicked, r.ret, casterSeqString(calls))
	}
	if !valid {
		// a panicking Send must not keep anything locked: whatever later calls do on the invalid word (the property wants a
		// panic), they must not block ("neither call can block forever"); `do` reports a call that is still blocked after 2 s
		for _, c := range []casterCall{{send: true}, {delta: 1}, {delta: 0}, {send: true}} {
			if _, ok = do(c); !ok {
				return
			}
		}
		h.count("misuse_calls_after_panicking_send", 4)
	}
	h.count("misuse_tails", 1)
}

func casterMisuse(h *hctx) {
	casterMisuseBlocked = 0
	// negative underflow
	casterMisuseSeq(h, nil, -1)
	casterMisuseSeq(h, nil, -2)
	casterMisuseSeq(h, []int{2}, -3)
	casterMisuseSeq(h, []int{1, -1}, -1)
	casterMisuseSeq(h, []int{3, -2}, -2)
	casterMisuseSeq(h, nil, -casterMaxI)
	// positive overflow
	casterMisuseSeq(h, []int{casterMaxI}, 1)
	casterMisuseSeq(h, []int{casterMaxI - 1}, 2)
	casterMisuseSeq(h, []int{1}, casterMaxI)
	casterMisuseSeq(h, []int{casterMaxI, -1, 1}, 1)
	// out-of-range deltas (the word must stay untouched), including deltas >= 2^32 whose low 32 bits are small
	for _, pre := range [][]int{nil, {5}} {
		for _, d := range []int{casterMaxI + 1, -casterMaxI - 1, math.MinInt64, math.MaxInt64, 1 << 32, 1<<32 + 1, 1<<32 + 5,
			-(1 << 32), -(1<<32 + 1), 3 << 32, 1<<40 + 2, -(1<<40 + 2)} {
			casterMisuseSeq(h, pre, d)
		}
	}
	for i := 0; i < 8; i++ {
		a := 1 + h.rng.Intn(50)
		casterMisuseSeq(h, []int{a}, -a-1-i)
		casterMisuseSeq(h, []int{casterMaxI - a}, a+1+i)
	}
	// "every later call panics too": after an unbalanced Add that was NOT compensated every later call must panic
	{
		x := NewChanCaster(make(chan int))
		seq := []casterCall{{delta: -2}, {delta: 0}, {delta: 1}, {delta: 0}, {send: true}, {delta: 0}}
		lastPanic := ""
		for i, c := range seq {
			c := c
			r := casterTimed(func() (int, bool) {
				if c.send {
					return casterSafeSend(x, 1)
				}
				return casterSafeAdd(x, c.delta)
			})
			if r.blocked {
				h.line("MONITOR C08 misuse: %s blocked for 2 s after a panicking %s (sequence %s)", c, lastPanic, casterSeqString(seq[:i+1]))
				break
			}
			if !r.panicked {
				h.line("MONITOR C08 misuse went unreported: %s returned %d after an uncompensated Add(-2) (sequence %s)", c, r.ret,
					casterSeqString(seq[:i+1]))
				break
			}
			if lastPanic == "" {
				lastPanic = c.String()
			}
		}
	}
	// the F4 shape: a panicking Add whose successor brings the running sum back into range
	{
		x := NewChanCaster(make(chan int))
		add := func(d int) casterCallRes { return casterTimed(func() (int, bool) { return casterSafeAdd(x, d) }) }
		r := add(-1)
		if r.blocked {
			h.line("MONITOR C08 misuse: Add(-1) blocked for 2 s (sequence Add(-1))")
			return
		}
		if !r.panicked {
			h.line("MONITOR C08 misuse went unreported: Add(-1) on an empty caster returned %d (sticky sequence)", r.ret)
			return
		}
		r = add(1)
		if r.blocked {
			h.line("MONITOR C08 misuse: Add(1) blocked for 2 s after a panicking Add(-1) (sequence Add(-1);Add(1))")
			return
		}
		if !r.panicked {
			h.line("MONITOR C08 sticky: Add(+1) returned %d right after Add(-1) panicked", r.ret)
			return
		}
		r = add(0)
		if r.blocked {
			h.line("MONITOR C08 misuse: Add(0) blocked for 2 s after a panicking Add(1) (sequence Add(-1);Add(1);Add(0))")
			return
		}
		if !r.panicked {
			h.line("MONITOR C08 sticky: later call did not panic after Add(-1) panicked (sequence Add(-1);Add(+1);Add(0))")
		}
		// whatever the verdict on stickiness, no later call may block
		if s := casterTimed(func() (int, bool) { return casterSafeSend(x, 1) }); s.blocked {
			h.line("MONITOR C08 misuse: Send blocked for 2 s after a panicking Add(1) (sequence Add(-1);Add(1);Add(0);Send)")
		}
		h.count("sticky_sequence", 1)
	}
	casterBuffered(h)
}

// casterBuffered: ChanCaster accepts a buffered channel (nothing in its documentation or code excludes one, and the
// repository's own TestChanCaster_Send_multipleRacingSenders uses one), but Send then returns while its copies still sit
// in the buffer.  Two deterministic single-goroutine histories, each following the documented usage pattern
// (Coq: C08_buffered_giveup_panics_refuted, C08_buffered_misdelivery_refuted on Model/CasterBuf.v; the unbuffered
// control of each passes, C08_unbuffered_clean).
func casterBuffered(h *hctx) {
	// (A) registered receiver; Send (returns 1, the copy is buffered); the receiver's select takes another case, so it
	// withdraws with the documented inverse Add
	{
		x := NewChanCaster(make(chan int, 1))
		add := func(d int) casterCallRes { return casterTimed(func() (int, bool) { return casterSafeAdd(x, d) }) }
		r := add(1)
		s := casterTimed(func() (int, bool) { return casterSafeSend(x, 42) })
		if r.panicked || r.blocked || s.panicked || s.blocked || s.ret != 1 {
			h.line("MONITOR C08 buffered(cap=1): unexpected outcome of Add(1);Send: add=%+v send=%+v", r, s)
		} else if g := add(-1); g.blocked {
			h.line("MONITOR C08 buffered(cap=1): Add(-1) blocked for 2 s (sequence Add(1);Send;Add(-1))")
		} else if g.panicked {
			h.line("MONITOR C08 buffered(cap=1): the documented inverse Add(-1) of a registered receiver that has not received panicked after Send returned with its copy still buffered (sequence Add(1);Send;Add(-1))")
		}
		h.count("buffered_giveup_sequence", 1)
	}
	// (B) no withdrawal at all: R1 registers, Send#1, R2 registers after Send#1 returned, R2 receives, Send#2, R1 receives
	{
		x := NewChanCaster(make(chan int, 1))
		recv := func() (int, bool) {
			select {
			case v := <-x.C:
				return v, true
			case <-time.After(casterHangDur):
				return 0, false
			}
		}
		a1, _ := casterSafeAdd(x, 1)
		n1 := casterTimed(func() (int, bool) { return casterSafeSend(x, 1) })
		a2, _ := casterSafeAdd(x, 1)
		v2, ok2 := recv()
		n2 := casterTimed(func() (int, bool) { return casterSafeSend(x, 2) })
		v1, ok1 := recv()
		if a1 != 1 || a2 != 1 || n1.ret != 1 || n2.ret != 1 || n1.panicked || n2.panicked || n1.blocked || n2.blocked || !ok1 || !ok2 {
			h.line("MONITOR C08 buffered(cap=1): unexpected outcome of Add(1);Send(1);Add(1);recv;Send(2);recv: %d %+v %d %+v recv=%v,%v", a1, n1, a2, n2, ok2, ok1)
		} else if v2 == 1 && v1 == 2 {
			h.line("MONITOR C08 buffered(cap=1): the value of Send#1 was received by a receiver registered after Send#1 returned, and the receiver registered before it got Send#2's (sequence Add(1);Send(1);Add(1);recv;Send(2);recv)")
		}
		h.count("buffered_misdelivery_sequence", 1)
	}
}

// ---------------------------------------------------------------------------------------------------------------
// concurrent cases
// ---------------------------------------------------------------------------------------------------------------

type casterRecv struct {
	dereg          bool // plan: Add(1) then Add(-1) instead of receiving
	late           bool // (phased cases) registers concurrently with the Send instead of before it
	a0, a1         int  // ticks around Add(1)
	got            int  // value received (0: none)
	r1             int  // tick after the receive
	d0, d1         int  // ticks around Add(-1) (0: none)
	addRet, subRet int
	panicked       string
	pause          int
}

type casterSend struct {
	val, s0, s1, ret int
	panicked         bool
	pause            int
}

func casterPause(n int) {
	for i := 0; i < n; i++ {
		runtime.Gosched()
	}
}

// casterK2Case runs one concurrent case. phased: every (non-late) receiver has registered before the single Send is
// invoked, so that the number registered at its start is known. shape (optional) fixes R, the plans and S.
var casterHangs int // after a few hangs the remaining cases are skipped (each hang costs the full deadline)

func casterK2Case(h *hctx, id string, phased bool, shape *[3]int) {
	rng := h.rng
	if casterHangs >= 3 {
		h.count("k2_skipped_after_hangs", 1)
		return
	}
	R, S := 1+rng.Intn(5), 1+rng.Intn(2)
	if phased {
		S = 1
	}
	recvs := make([]*casterRecv, R)
	nd, nlate := 0, 0
	for i := range recvs {
		recvs[i] = &casterRecv{dereg: rng.Intn(3) == 0, pause: rng.Intn(40)}
		if phased && !recvs[i].dereg && rng.Intn(5) == 0 {
			recvs[i].late = true
		}
	}
	if shape != nil { // R receivers, the first shape[1] deregister, the last shape[2] register late
		R, S = shape[0], 1
		recvs = recvs[:0]
		for i := 0; i < R; i++ {
			recvs = append(recvs, &casterRecv{dereg: i < shape[1], late: i >= R-shape[2], pause: rng.Intn(10)})
		}
	}
	for _, r := range recvs {
		if r.dereg {
			nd++
		}
		if r.late {
			nlate++
		}
	}
	sends := make([]*casterSend, S)
	base := (int(h.seed%1000)*100000 + rng.Intn(90000) + 1) * 10
	for j := range sends {
		sends[j] = &casterSend{val: base + j + 1, pause: rng.Intn(40)}
	}
	x := NewChanCaster(make(chan int))
	giveUp := make(chan struct{})
	var registered, all, sendersDone sync.WaitGroup
	startSend := make(chan struct{})

	for _, r := range recvs {
		r := r
		all.Add(1)
		if phased && !r.late {
			registered.Add(1)
		}
		go func() {
			defer all.Done()
			regDone := false
			markReg := func() {
				if phased && !r.late && !regDone {
					regDone = true
					registered.Done()
				}
			}
			defer markReg()
			defer func() {
				if e := recover(); e != nil {
					r.panicked = fmt.Sprint(e)
				}
			}()
			if r.late {
				<-startSend
			}
			casterPause(r.pause)
			r.a0 = tick()
			r.addRet = x.Add(1)
			r.a1 = tick()
			markReg()
			if r.dereg {
				if phased {
					<-startSend
				}
				casterPause(r.pause)
				r.d0 = tick()
				r.subRet = x.Add(-1)
				r.d1 = tick()
				return
			}
			select {
			case v := <-x.C:
				r.r1 = tick()
				r.got = v
			case <-giveUp:
				r.d0 = tick()
				r.subRet = x.Add(-1)
				r.d1 = tick()
			}
		}()
	}
	if phased {
		registered.Wait()
	}
	for _, s := range sends {
		s := s
		all.Add(1)
		sendersDone.Add(1)
		go func() {
			defer all.Done()
			defer sendersDone.Done()
			<-startSend
			casterPause(s.pause)
			s.s0 = tick()
			s.ret, s.panicked = casterSafeSend(x, s.val)
			s.s1 = tick()
		}()
	}
	close(startSend)
	go func() { sendersDone.Wait(); close(giveUp) }()

	fin := make(chan struct{})
	go func() { all.Wait(); close(fin) }()
	desc := func() string {
		return fmt.Sprintf("case %s R=%d dereg=%d late=%d S=%d phased=%v", id, R, nd, nlate, S, phased)
	}
	select {
	case <-fin:
	case <-time.After(casterHangDur + time.Duration(h.pi("slack_ms", 0))*time.Millisecond):
		st, _ := goroutineStates()
		keys := make([]string, 0, len(st))
		for g, s := range st {
			keys = append(keys, g+"="+s)
		}
		sort.Strings(keys)
		h.line("MONITOR C08 hang: a Send or Add was still blocked %v after the start (%s; goroutines: %v)", casterHangDur, desc(), keys)
		h.count("k2_hang", 1)
		casterHangs++
		return // the blocked goroutines are abandoned (fresh caster per case)
	}

	// ---- monitors ----
	for i, r := range recvs {
		if r.panicked != "" {
			h.line("MONITOR C08 panic under contract-following use: receiver %d: %s (%s)", i, r.panicked, desc())
		}
	}
	anyPanic := false
	for j, s := range sends {
		if s.panicked {
			anyPanic = true
			h.line("MONITOR C08 panic under contract-following use: Send #%d panicked (%s)", j, desc())
		}
	}
	byVal := map[int]int{}
	for _, r := range recvs {
		if r.got != 0 {
			byVal[r.got]++
		}
	}
	delivered := 0
	for j, s := range sends {
		if s.panicked {
			continue
		}
		if byVal[s.val] != s.ret {
			h.line("MONITOR C08 Send #%d returned %d but %d receivers got its value (%s)", j, s.ret, byVal[s.val], desc())
		}
		delivered += s.ret
		for i, r := range recvs {
			if r.got == s.val && r.a0 > s.s1 {
				h.line("MONITOR C08 receiver %d got the value of Send #%d although its Add(1) was invoked after that Send returned (%s)", i, j, desc())
			}
			// registered before the Send was invoked, never deregistered while it ran, and still got nothing at all
			if !r.dereg && r.got == 0 && r.panicked == "" && r.a1 != 0 && r.a1 < s.s0 {
				h.line("MONITOR C08 receiver %d was registered before Send #%d was invoked and did not deregister, but received nothing (%s)", i, j, desc())
			}
		}
		delete(byVal, s.val)
	}
	for v, n := range byVal {
		h.line("MONITOR C08 %d receivers got value %d that no Send of this caster sent (%s)", n, v, desc())
	}
	fr := casterTimed(func() (int, bool) { return casterSafeAdd(x, 0) })
	if fr.blocked {
		h.line("MONITOR C08 Add(0) blocked for 2 s after all calls returned (%s)", desc())
		casterHangs++
		return
	}
	final, fp := fr.ret, fr.panicked
	if fp {
		h.line("MONITOR C08 Add(0) panicked after all calls returned (%s)", desc())
	} else if final != 0 {
		h.line("MONITOR C08 Add(0) = %d after all calls returned, expected 0 (%s)", final, desc())
	}
	if w := casterStateOf(x).Load(); w != 0 && !fp && final == 0 {
		h.line("MONITOR C08 state word %#x after all calls returned, expected 0 (%s)", w, desc())
	}
	if phased && !anyPanic {
		s := sends[0]
		// registered when the Send started: R - late; each of the D deregistrations either preceded the arming or was
		// absorbed, and a late registration cannot be served by this Send unless it slipped in before the lock
		lo, hi := R-nlate-nd, R-nd
		if s.ret < lo || s.ret > hi {
			h.line("MONITOR C08 Send returned %d, expected between %d and %d: registered at start %d, deregistering %d, late %d (%s)",
				s.ret, lo, hi, R-nlate, nd, nlate, desc())
		}
		if nlate == 0 {
			w := casterStateOf(x).Load()
			h.line("F caster_round %s %d %d | %d %d %d", id, R, nd, s.ret, uint32(w>>32), uint32(w))
			if nd > 0 && nd < R {
				h.count("k2_round_with_racing_dereg", 1)
			}
		}
	}
	h.count("k2_cases", 1)
	h.count(fmt.Sprintf("k2_delivered_%d", minInt(delivered, 3)), 1)
	if nlate > 0 {
		h.count("k2_late_registration", 1)
	}
}

func minInt(a, b int) int {
	if a < b {
		return a
	}
	return b
}

// ---------------------------------------------------------------------------------------------------------------
// C08S: delay-bounded sweep
// ---------------------------------------------------------------------------------------------------------------

func casterSweepCases(h *hctx) []timedCase {
	delay := time.Duration(h.pi("delay_us", 1500)) * time.Microsecond
	mk := func(name string, shape [3]int) timedCase {
		return timedCase{name: name, delay: delay, hits: 2, run: func(h *hctx, id string, inject time.Duration) {
			sh := shape
			casterK2Case(h, id, true, &sh)
		}}
	}
	return []timedCase{
		mk("dereg", [3]int{2, 1, 0}),    // 2 registered, one deregisters while the Send runs
		mk("late", [3]int{2, 0, 1}),     // 1 registered, one registers while the Send runs
		mk("both", [3]int{3, 1, 1}),     // 2 registered (one deregisters), one registers late
		mk("alldereg", [3]int{2, 2, 0}), // both deregister: the Send must return 0 and leave the word 0
	}
}

// ---------------------------------------------------------------------------------------------------------------
// Send's final load and CAS taken apart (instrumented build): a hook runs at the last instrumentation point a Send
// passes, which is the one between `state = x.state.Load()` and the `if` whose last disjunct is the CAS to 0.
// ---------------------------------------------------------------------------------------------------------------

type casterSeqPolicy struct {
	mu  sync.Mutex
	ids []int
}

func (p *casterSeqPolicy) at(id int) {
	p.mu.Lock()
	p.ids = append(p.ids, id)
	p.mu.Unlock()
}

type casterHookPolicy struct {
	id    int
	fn    func()
	fired bool
}

func (p *casterHookPolicy) at(id int) {
	if id == p.id && !p.fired {
		p.fired = true
		p.fn()
	}
}

func casterCasCases(h *hctx) {
	if !instrumented() {
		return
	}
	// which point is it? the last one hit by a plain Send to one receiver
	sp := &casterSeqPolicy{}
	{
		x := NewChanCaster(make(chan int, 1))
		casterStateOf(x).Store(casterWord(1, 1))
		setPolicy(sp)
		casterSafeSend(x, 1)
		setPolicy(nil)
	}
	sp.mu.Lock()
	seen := append([]int(nil), sp.ids...) // a private copy: nothing should announce through sp any more, but be safe
	sp.mu.Unlock()
	sp = &casterSeqPolicy{ids: seen}
	if len(sp.ids) < 3 {
		h.line("MONITOR C08 harness: a Send passed only %d instrumentation points", len(sp.ids))
		return
	}
	// by what it does (the instrumenter's table), not by position: the last CompareAndSwap announced by that Send; without a
	// table (older callers) the last point hit
	pre := sp.ids[len(sp.ids)-1]
	if pts := ctrLoadPoints(h.p("ptfile", "")); pts != nil {
		found := false
		for k := len(sp.ids) - 1; k >= 0; k-- {
			if pt, ok := pts[sp.ids[k]]; ok && pt.op == ctrOpCode["CompareAndSwap"] {
				pre, found = sp.ids[k], true
				break
			}
		}
		if !found {
			h.line("INCONCLUSIVE C08 load/CAS differential: a plain Send to one receiver announced no CompareAndSwap: the point between Send's final load and its CAS cannot be identified in the instrumented source")
			return
		}
	}
	id := 0
	run := func(r uint32, mut2 bool, hi2, lo2 uint32, mut3 bool, hi3, lo3 uint32) {
		x := NewChanCaster(make(chan int))
		casterStateOf(x).Store(casterWord(r, r))
		var helper sync.WaitGroup
		helper.Add(1)
		go func() {
			defer helper.Done()
			<-x.C
			if mut2 {
				casterStateOf(x).Store(casterWord(hi2, lo2))
			}
			for i := uint32(1); i < r; i++ {
				<-x.C
			}
		}()
		hp := &casterHookPolicy{id: pre, fn: func() {
			if mut3 {
				casterStateOf(x).Store(casterWord(hi3, lo3))
			}
		}}
		setPolicy(hp)
		type res struct {
			ret int
			p   bool
		}
		done := make(chan res, 1)
		go func() {
			rr, p := casterSafeSend(x, 7)
			done <- res{rr, p}
		}()
		var rs res
		select {
		case rs = <-done:
		case <-time.After(casterHangDur):
			setPolicy(nil)
			h.line("MONITOR C08 word-level Send (load/CAS apart) blocked: r=%d", r)
			return
		}
		setPolicy(nil)
		helper.Wait()
		if !hp.fired {
			// the Send never reached that point (it panicked in the validation that precedes it): nothing was changed
			mut3 = false
			h.count("cas_hook_not_reached", 1)
		}
		nw := casterStateOf(x).Load()
		h.line("F caster_send_cas c%d %d %d %d %d %d %d %d | %d %d %d %d", id, r, boolInt(mut2), hi2, lo2, boolInt(mut3), hi3, lo3,
			boolInt(rs.p), rs.ret, uint32(nw>>32), uint32(nw))
		id++
		h.count("cas_cases", 1)
		if mut3 {
			h.count("cas_word_changed_between_load_and_cas", 1)
		}
	}
	for r := uint32(2); r <= 4; r++ {
		run(r, false, 0, 0, false, 0, 0)
		armed := func(c uint32) (uint32, uint32) { return c, c + casterMaxI }
		for c := uint32(0); c <= r+1; c++ {
			h2, l2 := armed(c)
			run(r, true, h2, l2, false, 0, 0)
			for c3 := uint32(0); c3 <= r+1; c3++ {
				h3, l3 := armed(c3)
				run(r, true, h2, l2, true, h3, l3) // a deregistration (or a rogue Add) between the load and the CAS
				run(r, false, 0, 0, true, h3, l3)
			}
			run(r, true, h2, l2, true, c, c) // disarmed
			run(r, true, h2, l2, true, 0, 0) // already reset
		}
		for k := 0; k < 4; k++ {
			w := h.rng.Uint64()
			run(r, false, 0, 0, true, uint32(w>>32), uint32(w))
		}
	}
}

// casterStateOf: the packed state word of a ChanCaster (field `state`, the only atomic.Uint64 of the struct)
func casterStateOf[C chan V, V any](x *ChanCaster[C, V]) *atomic.Uint64 {
	return fld[atomic.Uint64](x, "state")
}
