//go:build verif

package bigbuff

// C18ERRS — ExponentialRetry against the whole zoo of error VALUES an operation may return (monitor-only; the model
// correspondence of C18K1 knows two error kinds only: base errors and fatal wrappers of them).
//
// Clauses of C18 checked, for every error kind below used (a) as a plain, NON-fatal error and (b) inside 1-3 FatalError wrappers:
//   * "calls the operation repeatedly until it succeeds, returns an error wrapped by FatalError, or the context is cancelled":
//     while the retry's OWN context is live, an error that is not wrapped by FatalError is followed by another call — whatever its
//     dynamic type is (uncomparable: slice, map, func, array-of-slice, struct holding a slice, comparable struct holding an
//     uncomparable cause; typed nil pointer; empty struct) and whatever it claims to be (it is / wraps / Is-matches
//     context.Canceled or context.DeadlineExceeded of an UNRELATED or per-attempt context, has Is/As/Unwrap/Timeout/Temporary
//     methods, is an errors.Join or a %w wrapper, even of a fatal error);
//   * "it returns the first success's result with a nil error";
//   * "for a fatal error it returns that call's result together with the fully unwrapped error (no fatal wrapper...)": the very
//     error value that was handed to the innermost FatalError, not a fatal wrapper, not something unwrapped further;
//   * "once the context is cancelled it never starts another call and, unless the call in flight ends the loop by succeeding or
//     failing fatally, returns the context's error with a nil result" — here: also when the in-flight call's plain error looks
//     like a context error itself;
//   * "returns": a panic out of the closure caused by the error value (e.g. comparing two interface values of an uncomparable
//     dynamic type) is a violation; it is recovered here and reported as a MONITOR line.
// Errors are identified by dynamic type and tag (or pointer identity for pointer kinds), never by text; no error value is ever
// compared with == unless its dynamic type is known to be comparable.  Real seams (waitDuration, calcExponentialRetry) at a
// rate of 1ns: at most 8 retries per case, so every delay is below 256ns.

import (
	"context"
	"errors"
	"fmt"
	"time"
)

type retryValErr struct{ id int } // comparable struct, value receiver

func (e retryValErr) Error() string { return "val" }

type retrySliceErr []int // uncomparable: slice ("multi error")

func (e retrySliceErr) Error() string { return "slice" }

type retryMapErr map[string]int // uncomparable: map ("field errors")

func (e retryMapErr) Error() string { return "map" }

type retryFuncErr func() int // uncomparable: func

func (e retryFuncErr) Error() string { return "func" }

type retryArrErr [1][]int // uncomparable: array of slices

func (e retryArrErr) Error() string { return "arr" }

type retryStructSliceErr struct { // uncomparable: struct holding a slice
	id    int
	parts []string
}

func (e retryStructSliceErr) Error() string { return "structslice" }

// retryCauseErr's type IS comparable for the compiler (interface field), but comparing two of them panics at run time when the
// cause's dynamic type is uncomparable.
type retryCauseErr struct {
	id    int
	cause error
}

func (e retryCauseErr) Error() string { return "cause" }
func (e retryCauseErr) Unwrap() error { return e.cause }

// retryNilPtrErr is used as a typed nil pointer: a non-nil error whose methods are all safe on the nil receiver.
type retryNilPtrErr struct{ id int }

func (e *retryNilPtrErr) Error() string              { return "nilptr" }
func (e *retryNilPtrErr) Is(target error) bool       { return false }
func (e *retryNilPtrErr) Unwrap() error              { return nil }
func (e *retryNilPtrErr) As(target interface{}) bool { return false }

type retryEmptyErr struct{}

func (retryEmptyErr) Error() string { return "empty" }

// retryIsAnyErr matches every target ("errors.Is(err, context.Canceled)" and every other sentinel is true).
type retryIsAnyErr struct{ id int }

func (e *retryIsAnyErr) Error() string        { return "isany" }
func (e *retryIsAnyErr) Is(target error) bool { return true }

// retryIsCtxErr says it is both context errors, without wrapping them.
type retryIsCtxErr struct{ id int }

func (e retryIsCtxErr) Error() string { return "isctx" }
func (e retryIsCtxErr) Is(target error) bool {
	// both sentinels have comparable dynamic types (*errors.errorString, context.deadlineExceededError)
	return target == context.Canceled || target == context.DeadlineExceeded
}

// retryAsErr converts itself to a *retryBaseErr on request.
type retryAsErr struct{ id int }

func (e *retryAsErr) Error() string { return "as" }
func (e *retryAsErr) As(target interface{}) bool {
	if p, ok := target.(**retryBaseErr); ok {
		*p = &retryBaseErr{id: e.id}
		return true
	}
	return false
}

type retryUnwrapErr struct { // Unwrap() error
	id    int
	inner error
}

func (e *retryUnwrapErr) Error() string { return "unwrap" }
func (e *retryUnwrapErr) Unwrap() error { return e.inner }

type retryMultiErr struct { // Unwrap() []error
	id     int
	inners []error
}

func (e *retryMultiErr) Error() string   { return "multi" }
func (e *retryMultiErr) Unwrap() []error { return e.inners }

type retryNetErr struct { // net.Error look-alike
	id      int
	timeout bool
}

func (e *retryNetErr) Error() string   { return "net" }
func (e *retryNetErr) Timeout() bool   { return e.timeout }
func (e *retryNetErr) Temporary() bool { return !e.timeout }

// retrySamePtr: identity for errors whose dynamic type is a pointer (or another comparable type): comparing interface values of
// DIFFERENT dynamic types never panics, and when the types are equal it is want's comparable type.
func retrySamePtr(want error) func(error) bool {
	return func(got error) bool { return got == want }
}

type retryErrKind struct {
	name string
	mk   func(id int, own context.Context) (error, func(error) bool)
}

var retryErrKinds = []retryErrKind{
	{"ptr", func(id int, _ context.Context) (error, func(error) bool) {
		e := &retryBaseErr{id: id}
		return e, retrySamePtr(e)
	}},
	{"valstruct", func(id int, _ context.Context) (error, func(error) bool) {
		return retryValErr{id: id}, func(got error) bool { g, ok := got.(retryValErr); return ok && g.id == id }
	}},
	{"slice", func(id int, _ context.Context) (error, func(error) bool) {
		return retrySliceErr{id, 1, 2}, func(got error) bool { g, ok := got.(retrySliceErr); return ok && len(g) == 3 && g[0] == id }
	}},
	{"emptyslice", func(id int, _ context.Context) (error, func(error) bool) {
		return retrySliceErr{}, func(got error) bool { g, ok := got.(retrySliceErr); return ok && g != nil && len(g) == 0 }
	}},
	{"map", func(id int, _ context.Context) (error, func(error) bool) {
		return retryMapErr{"id": id}, func(got error) bool { g, ok := got.(retryMapErr); return ok && len(g) == 1 && g["id"] == id }
	}},
	{"func", func(id int, _ context.Context) (error, func(error) bool) {
		return retryFuncErr(func() int { return id }), func(got error) bool { g, ok := got.(retryFuncErr); return ok && g != nil && g() == id }
	}},
	{"array", func(id int, _ context.Context) (error, func(error) bool) {
		return retryArrErr{{id}}, func(got error) bool { g, ok := got.(retryArrErr); return ok && len(g[0]) == 1 && g[0][0] == id }
	}},
	{"structslice", func(id int, _ context.Context) (error, func(error) bool) {
		return retryStructSliceErr{id: id, parts: []string{"a", "b"}}, func(got error) bool {
			g, ok := got.(retryStructSliceErr)
			return ok && g.id == id && len(g.parts) == 2
		}
	}},
	{"uncomparablecause", func(id int, _ context.Context) (error, func(error) bool) {
		return retryCauseErr{id: id, cause: retrySliceErr{id}}, func(got error) bool {
			g, ok := got.(retryCauseErr)
			if !ok || g.id != id {
				return false
			}
			c, ok := g.cause.(retrySliceErr)
			return ok && len(c) == 1 && c[0] == id
		}
	}},
	{"nilptr", func(id int, _ context.Context) (error, func(error) bool) {
		var e *retryNilPtrErr
		return e, func(got error) bool { g, ok := got.(*retryNilPtrErr); return ok && g == nil }
	}},
	{"emptystruct", func(id int, _ context.Context) (error, func(error) bool) {
		return retryEmptyErr{}, func(got error) bool { _, ok := got.(retryEmptyErr); return ok }
	}},
	{"canceled", func(id int, _ context.Context) (error, func(error) bool) {
		return context.Canceled, retrySamePtr(context.Canceled)
	}},
	{"deadline", func(id int, _ context.Context) (error, func(error) bool) {
		return context.DeadlineExceeded, retrySamePtr(context.DeadlineExceeded)
	}},
	{"unrelatedctxerr", func(id int, _ context.Context) (error, func(error) bool) {
		// the Err() of an unrelated, really cancelled context, as is
		c, cancel := context.WithCancel(context.Background())
		cancel()
		e := c.Err()
		return e, retrySamePtr(e)
	}},
	{"wrapcanceled", func(id int, _ context.Context) (error, func(error) bool) {
		c, cancel := context.WithCancel(context.Background())
		cancel()
		e := fmt.Errorf("attempt %d: %w", id, c.Err())
		return e, retrySamePtr(e)
	}},
	{"wrapattemptdeadline", func(id int, own context.Context) (error, func(error) bool) {
		// a per-attempt deadline derived from the retry's own context has expired; the retry's context has not
		c, cancel := context.WithDeadline(own, time.Now().Add(-time.Hour))
		defer cancel()
		e := fmt.Errorf("attempt %d: %w", id, c.Err())
		return e, retrySamePtr(e)
	}},
	{"wrapcause", func(id int, _ context.Context) (error, func(error) bool) {
		c, cancel := context.WithCancelCause(context.Background())
		cancel(&retryBaseErr{id: -id})
		e := fmt.Errorf("%w (%w)", c.Err(), context.Cause(c))
		return e, retrySamePtr(e)
	}},
	{"isany", func(id int, _ context.Context) (error, func(error) bool) {
		e := &retryIsAnyErr{id: id}
		return e, retrySamePtr(e)
	}},
	{"isctx", func(id int, _ context.Context) (error, func(error) bool) {
		return retryIsCtxErr{id: id}, func(got error) bool { g, ok := got.(retryIsCtxErr); return ok && g.id == id }
	}},
	{"as", func(id int, _ context.Context) (error, func(error) bool) {
		e := &retryAsErr{id: id}
		return e, retrySamePtr(e)
	}},
	{"unwrapdeadline", func(id int, _ context.Context) (error, func(error) bool) {
		e := &retryUnwrapErr{id: id, inner: context.DeadlineExceeded}
		return e, retrySamePtr(e)
	}},
	{"unwrapuncomparable", func(id int, _ context.Context) (error, func(error) bool) {
		e := &retryUnwrapErr{id: id, inner: retryMapErr{"id": id}}
		return e, retrySamePtr(e)
	}},
	{"multi", func(id int, _ context.Context) (error, func(error) bool) {
		e := &retryMultiErr{id: id, inners: []error{&retryBaseErr{id: -id}, context.Canceled, retrySliceErr{id}}}
		return e, retrySamePtr(e)
	}},
	{"join", func(id int, _ context.Context) (error, func(error) bool) {
		e := errors.Join(&retryBaseErr{id: -id}, retrySliceErr{id}, retryValErr{id: id})
		return e, retrySamePtr(e)
	}},
	{"joinctx", func(id int, _ context.Context) (error, func(error) bool) {
		e := errors.Join(context.Canceled, &retryBaseErr{id: -id}, context.DeadlineExceeded)
		return e, retrySamePtr(e)
	}},
	{"joinfatal", func(id int, _ context.Context) (error, func(error) bool) {
		// not "an error wrapped by FatalError": a join that merely contains one (cf. retryWrapErr in retry_c18.go)
		e := errors.Join(&retryBaseErr{id: -id}, FatalError(&retryBaseErr{id: -id - 1}))
		return e, retrySamePtr(e)
	}},
	{"wrapfatal", func(id int, _ context.Context) (error, func(error) bool) {
		e := fmt.Errorf("attempt %d: %w", id, FatalError(retrySliceErr{id}))
		return e, retrySamePtr(e)
	}},
	{"nettimeout", func(id int, _ context.Context) (error, func(error) bool) {
		e := &retryNetErr{id: id, timeout: true}
		return e, retrySamePtr(e)
	}},
	{"netpermanent", func(id int, _ context.Context) (error, func(error) bool) {
		e := &retryNetErr{id: id, timeout: false}
		return e, retrySamePtr(e)
	}},
}

type retryErrsStep struct {
	depth int // -1 success, 0 plain error, >= 1 fatal wrappers around the error
	kind  int
	res   interface{}
	err   error            // what value() returns (wrappers included)
	same  func(error) bool // is this the error inside the wrappers?
}

// retryErrsCase: script = 0..8 plain errors, then a success or a fatal error; focus kind = id mod #kinds is always used (as the
// terminal fatal error's inner error when fatalFocus, else as one of the plain errors), the other errors' kinds are random.
func retryErrsCase(h *hctx, id int) {
	nk := len(retryErrKinds)
	focus := id % nk
	fatalFocus := (id/nk)%3 == 2

	// the retry's own context: hand-made (unique error value) or the standard library's
	var (
		ctx    context.Context
		cancel func()
		ctxErr func() error
	)
	ctxKind := "custom"
	if h.rng.Intn(2) == 0 {
		rc := newRetryCtx(id)
		ce := &retryCtxErr{n: id}
		ctx, cancel, ctxErr = rc, func() { rc.cancel(ce) }, func() error { return ce }
	} else {
		c, cf := context.WithCancel(context.Background())
		ctx, cancel, ctxErr, ctxKind = c, cf, func() error { return context.Canceled }, "std"
	}
	defer cancel()

	nplain := h.rng.Intn(9)
	if !fatalFocus && nplain == 0 {
		nplain = 1
	}
	focusAt := h.rng.Intn(nplain + 1) // index of the plain step with the focus kind (unused when fatalFocus)
	if focusAt == nplain {
		focusAt = 0
	}
	var script []retryErrsStep
	for k := 0; k < nplain; k++ {
		s := retryErrsStep{depth: 0, kind: h.rng.Intn(nk)}
		if !fatalFocus && k == focusAt {
			s.kind = focus
		}
		s.err, s.same = retryErrKinds[s.kind].mk(id*100+k, ctx)
		if h.rng.Intn(4) == 0 {
			s.res = -(id*100 + k + 1) // a failure's result: never to be returned
		}
		script = append(script, s)
	}
	term := retryErrsStep{depth: -1}
	if h.rng.Intn(3) != 0 {
		term.res = id*100 + 99
	}
	if fatalFocus || h.rng.Intn(2) == 0 {
		term.depth = 1 + h.rng.Intn(3)
		term.kind = h.rng.Intn(nk)
		if fatalFocus {
			term.kind = focus
		}
		term.err, term.same = retryErrKinds[term.kind].mk(id*100+90, ctx)
		for i := 0; i < term.depth; i++ {
			term.err = FatalError(term.err)
		}
	}
	script = append(script, term)

	// cancellation of the retry's own context: never (mostly), before the invocation, or during the k-th call (1-based)
	cancelCall := -1
	switch r := h.rng.Intn(100); {
	case r < 70:
	case r < 73:
		cancelCall = 0
	case r < 80:
		cancelCall = len(script) // in flight: the terminal call, which ends the loop itself
	default:
		cancelCall = 1 + h.rng.Intn(len(script))
	}

	calls, overrun, afterCancel := 0, 0, 0
	cancelled := false
	fn := ExponentialRetry(ctx, time.Nanosecond, func() (interface{}, error) {
		if cancelled {
			afterCancel++
		}
		if calls >= len(script) {
			if overrun++; overrun > retryOverrunLimit {
				panic(retryAbort{})
			}
			cancel()
			return nil, FatalError(retryOverrun{})
		}
		s := script[calls]
		calls++
		if cancelCall == calls {
			cancel()
			cancelled = true
		}
		return s.res, s.err
	})
	if cancelCall == 0 {
		cancel()
		cancelled = true
	}

	var (
		res      interface{}
		err      error
		panicked interface{}
	)
	el, ok := retryTimed(h, "closure (C18ERRS)", 20*time.Second, func() {
		defer func() { panicked = recover() }()
		res, err = fn()
	})

	where := func() string {
		at := calls - 1
		if at < 0 || at >= len(script) {
			return fmt.Sprintf("calls=%d of a script of %d ctx=%s case=e%d", calls+overrun, len(script), ctxKind, id)
		}
		s := script[at]
		what := "a success"
		switch {
		case s.depth == 0:
			what = "a NON-fatal error of kind " + retryErrKinds[s.kind].name
		case s.depth > 0:
			what = fmt.Sprintf("FatalError^%d of an error of kind %s", s.depth, retryErrKinds[s.kind].name)
		}
		own := "live"
		if cancelled {
			own = "cancelled"
		}
		return fmt.Sprintf("last call %d of a script of %d returned %s; own context %s (%s) case=e%d", calls+overrun, len(script), what, own, ctxKind, id)
	}

	h.count("errs_cases", 1)
	for _, s := range script[:len(script)-1] {
		h.count("errs_plain_"+retryErrKinds[s.kind].name, 1)
	}
	if term.depth > 0 {
		h.count("errs_fatal_"+retryErrKinds[term.kind].name, 1)
	}
	switch {
	case cancelCall < 0:
		h.count("errs_cancel_never", 1)
	case cancelCall == 0:
		h.count("errs_cancel_before", 1)
	default:
		h.count("errs_cancel_in_call", 1)
	}

	switch {
	case !ok && panicked == nil:
		h.line("MONITOR C18 the closure did not return within %v: %s", el, where())
		cancel()
		return
	case panicked != nil:
		if _, abort := panicked.(retryAbort); abort {
			h.line("MONITOR C18 the closure keeps calling the operation after a fatal error and cancellation: %s", where())
		} else {
			h.line("MONITOR C18 the closure panicked instead of returning (%v): %s", panicked, where())
		}
		return
	}

	// what the property demands
	wantCalls, wantKind := 0, "ctx" // "ctx": (nil, the context's error); "ok": (res, nil); "fatal": (res, inner error)
	if cancelCall != 0 {
		for k := 1; k <= len(script); k++ {
			wantCalls = k
			s := script[k-1]
			if s.depth < 0 {
				wantKind = "ok"
				break
			}
			if s.depth > 0 {
				wantKind = "fatal"
				break
			}
			if cancelCall == k {
				break
			}
		}
	}
	if afterCancel != 0 {
		h.line("MONITOR C18 %d operation calls started after the context was cancelled: %s", afterCancel, where())
		return
	}
	if calls+overrun != wantCalls {
		if calls < wantCalls {
			h.line("MONITOR C18 the loop ended after %d calls although call %d neither succeeded nor failed fatally and the context was not cancelled (want %d calls): %s",
				calls, calls, wantCalls, where())
		} else {
			h.line("MONITOR C18 the operation was called %d times, want %d: %s", calls+overrun, wantCalls, where())
		}
		return
	}
	_, gotFatal := err.(fatalError)
	last := script[wantCalls-1+retryB2i(wantCalls == 0)]
	switch wantKind {
	case "ok":
		if err != nil || res != last.res {
			h.line("MONITOR C18 the first success's result with a nil error was not returned (nil error: %v, result as returned by the call: %v): %s",
				err == nil, res == last.res, where())
		}
	case "fatal":
		switch {
		case err == nil:
			h.line("MONITOR C18 a fatal error ended the loop but a nil error was returned: %s", where())
		case gotFatal:
			h.line("MONITOR C18 a fatal wrapper was returned: %s", where())
		case !last.same(err):
			h.line("MONITOR C18 the error returned for a fatal error is not the error inside the FatalError wrappers: %s", where())
		case res != last.res:
			h.line("MONITOR C18 a fatal error's call result was not returned with it: %s", where())
		}
	default:
		switch {
		case err == nil || gotFatal || err != ctxErr(): // ctxErr() has a comparable (pointer) dynamic type
			h.line("MONITOR C18 the context was cancelled (before call %d ended) but the context's error was not returned: %s", cancelCall, where())
		case res != nil:
			h.line("MONITOR C18 the context's error was returned with a non-nil result: %s", where())
		}
	}
}

func retryB2i(b bool) int {
	if b {
		return 1
	}
	return 0
}

func init() {
	register("C18ERRS", func(h *hctx) {
		for i := 0; i < h.n; i++ {
			retryErrsCase(h, i)
		}
	})
}
