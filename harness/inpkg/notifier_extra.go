//go:build verif

package bigbuff

// Standalone monitor scenario for the Notifier prompted by a seeded "plausible improvement" change (PublishContext releasing
// the read lock before its delivery loop): an Unsubscribe that overlaps a publish IN FLIGHT, which the sequential registry
// cases of C15REG and the SubscribeCancel churn of C15K2 (whose Unsubscribe runs in a library goroutine: its return is not
// observable) never construct.

import (
	"context"
	"fmt"
	"sync"
	"sync/atomic"
	"time"
)

// C15UNSUB checks the clauses "Publish(key, v) delivers v [only] to every subscription that exists for that key THROUGHOUT the
// call ... no one else" and "After Unsubscribe returns the target receives nothing":
//
//	once Unsubscribe(key, target) has RETURNED, no value is delivered to target any more - neither by a publish started later
//	nor by one that was already in flight (the subscription did not exist throughout that call, so it is not eligible).
//
// What is observed: the return of Unsubscribe (a tick of the logical clock, taken after the call returned) and receives from the
// target made by the harness, which is the target's only receiver.  A value is a violation only if it was obtained by a receive
// that STARTED after Unsubscribe had returned and it cannot have been in the target's buffer at that moment:
//   - unbuffered target: a send completes together with the receive, so a receive that started after the return and yields a
//     value is a delivery after the return;
//   - buffered target: when the harness first sees that Unsubscribe has returned it samples len(target) (the "credit": values
//     that may have been sent before the return; they are legitimate and taken without complaint); any value beyond the credit
//     entered the buffer after that sample, hence after the return.
//
// NOT demanded (and not checked): that Unsubscribe waits for the publishes in flight (the current code does, because the
// publish holds the read lock; an implementation whose Unsubscribe returns at once and makes the publishes in flight drop the
// target is just as good); that the target receives the value of the overlapping publish at all (both outcomes are fine before
// the return).  Demanded in addition (liveness, "returns ... when each of them has either received v or had its context
// cancelled"): once every subscription other than the removed one has been served, or the publish context / the target's
// context has been cancelled, the publishes and Unsubscribe return (3 s = hang); a subscription that no longer exists must not
// be waited for.
func init() {
	register("C15UNSUB", func(h *hctx) {
		hangs := 0
		for i := 0; i < h.n; i++ {
			if !c15UnsubCase(h, i) {
				// a hang was reported (3 s each): go on after the first one if its goroutines could be freed, to see what else there is
				if hangs++; hangs >= 2 || !quiesce(c15Gap, 3*time.Second) || libGoroutineCount() > 0 {
					return
				}
			}
		}
	})
}

const c15uSentinel = -1

// c15uTarget: the harness side of the target that is unsubscribed while publishes are in flight.
type c15uTarget struct {
	ch        chan int
	unsubDone chan struct{} // closed after Unsubscribe returned
	uTick     atomic.Int64  // logical time of that return (0: not yet)
	observed  bool          // the harness has seen unsubDone closed
	credit    int           // values that were in the buffer when it saw that
	late      int           // values obtained beyond the credit by receives started after the return
}

// observe: has Unsubscribe returned (as far as the harness has seen); the first time it has, the buffer is sampled.
func (t *c15uTarget) observe() bool {
	if !t.observed {
		select {
		case <-t.unsubDone:
			t.observed = true
			t.credit = len(t.ch)
		default:
		}
	}
	return t.observed
}

func c15uRecv(ch chan int, d time.Duration) (int, bool) {
	select {
	case v := <-ch:
		return v, true
	default:
	}
	if d <= 0 {
		return 0, false
	}
	tm := time.NewTimer(d)
	defer tm.Stop()
	select {
	case v := <-ch:
		return v, true
	case <-tm.C:
	}
	select {
	case v := <-ch:
		return v, true
	default:
	}
	return 0, false
}

// recv makes one receive attempt (waiting at most d) and classifies what it yields; it returns whether a value was obtained.
func (t *c15uTarget) recv(d time.Duration) bool {
	if t.observe() {
		if t.credit > 0 {
			// in the buffer when the return was observed: possibly sent before the return
			t.credit--
			_, ok := c15uRecv(t.ch, 0)
			return ok
		}
		if _, ok := c15uRecv(t.ch, d); ok {
			t.late++
			return true
		}
		return false
	}
	r0 := int64(tick())
	v, ok := c15uRecv(t.ch, d)
	if ok && v != c15uSentinel && cap(t.ch) == 0 {
		// the return was not seen before this receive started, but the clock may still order them
		if u := t.uTick.Load(); u != 0 && u < r0 {
			t.late++
		}
	}
	return ok
}

type c15uOther struct {
	ch     chan int
	cancel context.CancelFunc
	ready  bool // a receiver is parked on it from the start
}

func c15UnsubCase(h *hctx, id int) (ok bool) {
	var n Notifier
	key := interface{}(fmt.Sprintf("ukey-%d", id))
	if id%3 == 1 {
		key = id
	}
	// shape of the target: unbuffered / cap 1 and empty / cap 1 and full (a sentinel the harness put there)
	shape := []int{0, 0, 0, 1, 2}[h.rng.Intn(5)]
	tg := &c15uTarget{unsubDone: make(chan struct{})}
	if shape == 0 {
		tg.ch = make(chan int)
	} else {
		tg.ch = make(chan int, 1)
		if shape == 2 {
			tg.ch <- c15uSentinel
		}
	}
	var cancels []context.CancelFunc
	defer func() {
		for _, c := range cancels {
			c()
		}
	}()
	var tgCancel context.CancelFunc
	if h.rng.Intn(100) < 40 {
		var ctx context.Context
		ctx, tgCancel = context.WithCancel(context.Background())
		cancels = append(cancels, tgCancel)
		n.SubscribeContext(ctx, key, tg.ch)
	} else {
		n.Subscribe(key, tg.ch)
	}
	nother := h.rng.Intn(3)
	if shape == 1 && nother == 0 {
		nother = 1 // something else has to keep the publish in flight
	}
	others := make([]*c15uOther, nother)
	for i := range others {
		o := &c15uOther{ch: make(chan int), ready: h.rng.Intn(2) == 0}
		if shape == 1 && i == 0 {
			o.ready = false
		}
		if h.rng.Intn(2) == 0 {
			var ctx context.Context
			ctx, o.cancel = context.WithCancel(context.Background())
			cancels = append(cancels, o.cancel)
			n.SubscribeContext(ctx, key, o.ch)
		} else {
			n.Subscribe(key, o.ch)
		}
		others[i] = o
	}
	// a subscription of the same target under ANOTHER key stays: nothing is ever published there
	if h.rng.Intn(4) == 0 {
		n.Subscribe([2]int{id, 0}, tg.ch)
	}
	stop := make(chan struct{})
	var wg sync.WaitGroup
	drain := func(ch chan int) {
		wg.Add(1)
		go func() {
			defer wg.Done()
			for {
				select {
				case <-ch:
				case <-stop:
					return
				}
			}
		}()
	}
	for _, o := range others {
		if o.ready {
			drain(o.ch)
		}
	}
	defer func() { close(stop); wg.Wait() }()

	// the publishes in flight
	npub := 1 + h.rng.Intn(2)
	var pubCancel context.CancelFunc
	var pubCtx context.Context
	if h.rng.Intn(100) < 35 {
		pubCtx, pubCancel = context.WithCancel(context.Background())
		cancels = append(cancels, pubCancel)
	}
	var pubPanic atomic.Value
	pubDone := make([]chan struct{}, npub)
	for p := range pubDone {
		pubDone[p] = make(chan struct{})
		go func(p int) {
			defer close(pubDone[p])
			defer func() {
				if r := recover(); r != nil {
					pubPanic.Store(fmt.Sprint(r))
				}
			}()
			if pubCtx != nil {
				n.PublishContext(pubCtx, key, id*10+p)
			} else {
				n.Publish(key, id*10+p)
			}
		}(p)
	}
	allPubDone := func() bool {
		for _, d := range pubDone {
			select {
			case <-d:
			default:
				return false
			}
		}
		return true
	}
	settled := quiesce(c15Gap, 3*time.Second) // every publish is parked in its delivery loop
	h.count("settled_before_unsubscribe", c15b(settled))
	inflight := !allPubDone()

	// Unsubscribe in its own goroutine; its return is stamped
	var unsubPanic atomic.Value
	go func() {
		defer close(tg.unsubDone)
		defer func() {
			if r := recover(); r != nil {
				unsubPanic.Store(fmt.Sprint(r))
			}
			tg.uTick.Store(int64(tick()))
		}()
		n.Unsubscribe(key, tg.ch)
	}()
	if !quiesce(c15Gap, 3*time.Second) {
		time.Sleep(2 * time.Millisecond)
	}

	desc := fmt.Sprintf("case %d: target cap %d%s, ctx=%d, %d other subscribers, %d publishes, publish ctx=%d", id, cap(tg.ch),
		map[int]string{0: "", 1: " empty", 2: " full"}[shape], c15b(tgCancel != nil), nother, npub, c15b(pubCtx != nil))
	reported := false
	reportLate := func(when string) {
		if tg.late > 0 && !reported {
			reported = true
			h.line("MONITOR C15 the target received a value AFTER Unsubscribe(key, target) had returned (%s; the receive started after the return and the value was not in the target's buffer at the return): a delivery to a subscription that no longer exists (%s)", when, desc)
			h.count("late_delivery", 1)
		}
	}

	// Phase A: Unsubscribe has returned although publishes are still in flight (never the case while the publish holds the read
	// lock; legitimate for an implementation that makes them drop the target): from now on nothing may arrive.  In some cases
	// the harness does not receive from the target at all any more: the publishes must then finish without it.
	skipTarget := false
	if tg.observe() && inflight && !allPubDone() {
		h.count("unsubscribe_returned_with_publish_in_flight", 1)
		if id%4 == 3 {
			skipTarget = true
			h.count("target_left_alone_after_return", 1)
		} else {
			for tg.credit > 0 {
				tg.recv(0)
			}
			tg.recv(100 * time.Millisecond)
			reportLate("while a publish that overlapped the Unsubscribe was still blocked on it")
		}
	} else if !tg.observed {
		h.count("unsubscribe_waited_for_publish", 1)
	}

	// release: one of the ways a publish is allowed to end - the publish context, the target's context, or everybody receives
	way := 2
	if r := h.rng.Intn(100); r < 25 && pubCancel != nil {
		way = 0
		pubCancel()
	} else if r < 50 && tgCancel != nil {
		way = 1
		tgCancel()
	}
	h.count(fmt.Sprintf("release_way_%d", way), 1)
	h.count(fmt.Sprintf("target_shape_%d", shape), 1)
	finished := func() bool {
		if !allPubDone() {
			return false
		}
		select {
		case <-tg.unsubDone:
			return true
		default:
			return false
		}
	}
	pump := func(withTarget bool, d time.Duration) bool {
		end := time.Now().Add(d)
		for !finished() {
			if time.Now().After(end) {
				return false
			}
			if withTarget && !(skipTarget && tg.observe()) {
				tg.recv(0)
			}
			for _, o := range others {
				if !o.ready {
					select {
					case <-o.ch:
					default:
					}
				}
			}
			time.Sleep(50 * time.Microsecond)
		}
		return true
	}
	ok = pump(true, 3*time.Second)
	reportLate("while the overlapping publishes were being served")
	if !ok {
		pubs, uns := allPubDone(), tg.observe()
		switch {
		case !pubs && uns:
			h.line("MONITOR C15 a publish did not return within 3 s although Unsubscribe(key, target) had returned and every remaining subscriber was being received from (release way %d): it waits for a subscription that no longer exists (%s)", way, desc)
		case !pubs:
			h.line("MONITOR C15 neither the publish nor the overlapping Unsubscribe returned within 3 s although every subscriber was being received from (release way %d; %s)", way, desc)
		default:
			h.line("MONITOR C15 Unsubscribe did not return within 3 s of the last overlapping publish returning (%s)", desc)
		}
		h.count("hang", 1)
		// free the goroutines
		skipTarget = false
		tg.observed, tg.credit = true, 1<<30
		pump(true, 3*time.Second)
		return false
	}
	if p := pubPanic.Load(); p != nil {
		h.line("MONITOR C15 Publish panicked: value=int while an Unsubscribe overlapped it: %.120v (%s)", p, desc)
	}
	if p := unsubPanic.Load(); p != nil {
		h.line("MONITOR C15 Unsubscribe of an existing subscription panicked (overlapping a publish): %.120v (%s)", p, desc)
		return true // the subscription may still be there: what follows does not apply
	}

	// everything has returned.  Buffered target: nothing may have been added beyond what was there at the return
	tg.observe()
	if len(tg.ch) > tg.credit {
		tg.late++
		reportLate("the target's buffer grew after the return")
	}
	for tg.credit = 0; len(tg.ch) > 0; {
		<-tg.ch // the harness is the only receiver; no publish is in flight
	}

	// a publish that starts after the return: the target, with a receiver parked on it, gets nothing; everybody else is served,
	// so the publish returns, and it could not have returned without sending to a parked receiver it had a case for
	for _, o := range others {
		if !o.ready {
			drain(o.ch)
		}
	}
	stopT := make(chan struct{})
	gotT := make(chan int, 1)
	go func() {
		select {
		case v := <-tg.ch:
			gotT <- v
		case <-stopT:
		}
		close(gotT)
	}()
	fresh := make(chan struct{})
	go func() {
		defer close(fresh)
		defer func() { _ = recover() }()
		n.Publish(key, id*10+9)
	}()
	select {
	case <-fresh:
	case <-time.After(3 * time.Second):
		h.line("MONITOR C15 a publish started after Unsubscribe(key, target) returned did not return within 3 s although every remaining subscriber receives (%s)", desc)
		h.count("hang", 1)
		ok = false
	}
	close(stopT)
	if _, got := <-gotT; got {
		h.line("MONITOR C15 the target received a value from a publish that started after Unsubscribe(key, target) had returned (%s)", desc)
		h.count("late_delivery", 1)
	}
	h.count("cases", 1)
	return ok
}
