//go:build verif

package bigbuff

// Standalone monitor scenarios for Exclusive prompted by seeded "plausible improvement" changes.
//
// C10SHAREDOPT: ExclusiveOption VALUES are reused.  An option is a plain value, nothing says it may be used for one call
// only, and the natural way to configure "this kind of call" is to build the options once (one ExclusiveRateLimit, one
// ExclusiveWait, one ExclusiveStart, one ExclusiveKey per key, one pass-through ExclusiveWrapper, one ExclusiveValue) and
// hand them to every CallWithOptions - for several keys and for several Exclusive instances.  Work under different keys (and
// on different instances) may run at the same time, so whatever an option keeps between calls is shared by executions that
// overlap.  The scenario makes the cool-downs of the rate limiter of 3-4 lanes (lane = instance x key) overlap (the second
// lane's starts while the first lane's is still in progress, offsets from h.rng), makes follow-up calls on every lane
// during and after the resolve-to-return gap of the rate-limited work functions, and in half of the cases holds the work
// function of one lane on a gate while the other lanes' calls must be answered.
//
// Clauses checked (all from the property texts, on logical ticks; the only durations are hang bounds of 3 s):
//   C10  every blocking/async call receives exactly one outcome (within 3 s: otherwise "never answered"; no second value);
//   C10  the outcome is the (token, nil) resolved by an execution OF ITS LANE (same instance, same key) that BEGAN AFTER the
//        call was made - every execution resolves with a token that is unique in the run, so a result computed earlier, a
//        result of another key, or an outcome that no supplied work function produced (e.g. an error made up by a wrapper
//        whose context is live) is told apart;
//   C10  every call, start-style included, is followed by an execution of its lane that begins after it;
//   C10  executions never outnumber calls (per lane), no supplied work function is executed twice;
//   C10  once all calls are answered and all work has finished no per-key state remains (the key map of both instances empties);
//   C09  two executions of one lane never overlap (the next begins after the previous work function - the outermost wrapper -
//        has returned);
//   C09  keys are independent: while the work function of one lane is held (before or after it resolved) the calls of the
//        other lanes, made with the same option values, are answered (only a hang is flagged, never a delay).

import (
	"context"
	"reflect"
	"sync"
	"time"
)

const soHang = 3 * time.Second

type soLane struct {
	inst, key int
	running   int
	calls     []*soCall
	execs     []*soExec
}

type soCall struct {
	id    int
	lane  *soLane
	tick  int // logical time just before the call was made
	start bool
	what  string
	ch    <-chan *ExclusiveOutcome
	got   bool
	out   *ExclusiveOutcome
	execs []*soExec // executions of the work function supplied by this call
}

type soExec struct {
	lane       *soLane
	owner      *soCall
	begin, end int
}

type soEnv struct {
	h     *hctx
	cas   int
	mu    sync.Mutex
	e     [2]*Exclusive
	keys  []interface{}
	lanes []*soLane
	calls []*soCall
	byTok map[int]*soExec // token -> the execution whose work function resolved with it (first one wins)
	bad   bool
	nmon  int
}

func (env *soEnv) monitor(prop, format string, args ...interface{}) {
	env.bad = true
	if env.nmon++; env.nmon > 4 { // a few lines per case are enough
		return
	}
	env.h.line("MONITOR "+prop+" shared-options case %d: "+format, append([]interface{}{env.cas}, args...)...)
}

func (env *soEnv) begin(c *soCall) *soExec {
	env.mu.Lock()
	defer env.mu.Unlock()
	x := &soExec{lane: c.lane, owner: c, begin: tick()}
	c.lane.running++
	if c.lane.running > 1 {
		env.monitor("C09", "overlap: an execution began on instance %d key %d while the previous work function of that key had not returned", c.lane.inst, c.lane.key)
	}
	c.execs = append(c.execs, x)
	c.lane.execs = append(c.lane.execs, x)
	return x
}

func (env *soEnv) finish(x *soExec) {
	env.mu.Lock()
	x.end = tick()
	x.lane.running--
	env.mu.Unlock()
}

func (env *soEnv) resolved(c *soCall, r interface{}, err error) {
	env.mu.Lock()
	defer env.mu.Unlock()
	tok, ok := r.(int)
	if !ok || err != nil || len(c.execs) == 0 {
		return
	}
	if _, dup := env.byTok[tok]; !dup {
		env.byTok[tok] = c.execs[len(c.execs)-1]
	}
}

func soMapLen(e *Exclusive) int {
	mu := fld[sync.Mutex](e, "mutex")
	mu.Lock()
	n := fldLen(e, "work", reflect.Map)
	mu.Unlock()
	return n
}

type soShared struct {
	key      []ExclusiveOption // one ExclusiveKey value per key, used on both instances
	limit    ExclusiveOption   // ONE ExclusiveRateLimit
	wait     ExclusiveOption   // ONE ExclusiveWait
	startT   ExclusiveOption   // ONE ExclusiveStart(true)
	startF   ExclusiveOption   // ONE ExclusiveStart(false)
	pass     ExclusiveOption   // ONE pass-through ExclusiveWrapper
	value    ExclusiveOption   // ONE ExclusiveValue (its function returns a fresh token every time)
	useWait  bool
	passUses int
}

// call makes one CallWithOptions call on the lane.  work == nil: the shared ExclusiveValue option supplies the function.
func (env *soEnv) call(sh *soShared, lane *soLane, what string, start bool, work WorkFunc) *soCall {
	h := env.h
	c := &soCall{lane: lane, start: start, what: what}
	// harness probes, per call: the inner one sees what the supplied function resolves with, the outer one sees the begin and
	// the return of the whole (wrapped) work function
	inner := ExclusiveWrapper(func(value WorkFunc) WorkFunc {
		return func(resolve func(interface{}, error)) {
			value(func(r interface{}, err error) {
				env.resolved(c, r, err)
				resolve(r, err)
			})
		}
	})
	outer := ExclusiveWrapper(func(value WorkFunc) WorkFunc {
		return func(resolve func(interface{}, error)) {
			x := env.begin(c)
			value(resolve)
			env.finish(x)
		}
	})
	wrappers := []ExclusiveOption{inner, sh.pass, sh.limit, outer} // left -> right is inner -> outer
	var others []ExclusiveOption
	others = append(others, sh.key[lane.key])
	if work != nil {
		others = append(others, ExclusiveWork(work))
	} else {
		others = append(others, sh.value)
	}
	if sh.useWait {
		others = append(others, sh.wait)
	}
	if start {
		others = append(others, sh.startT)
	} else if h.rng.Intn(2) == 0 {
		others = append(others, sh.startF)
	}
	// key, work, wait and start may be given in any position relative to the wrappers
	opts := append([]ExclusiveOption(nil), wrappers...)
	for _, o := range others {
		at := h.rng.Intn(len(opts) + 1)
		opts = append(opts, nil)
		copy(opts[at+1:], opts[at:])
		opts[at] = o
	}
	env.mu.Lock()
	c.id = len(env.calls)
	env.calls = append(env.calls, c)
	lane.calls = append(lane.calls, c)
	c.tick = tick()
	env.mu.Unlock()
	c.ch = env.e[lane.inst].CallWithOptions(opts...)
	return c
}

// await: the call's outcome within the hang bound.
func (env *soEnv) await(c *soCall, held *soLane) bool {
	if c.start || c.got {
		return true
	}
	if c.ch == nil {
		env.monitor("C10", "call %d (%s, instance %d key %d) returned no outcome channel", c.id, c.what, c.lane.inst, c.lane.key)
		return false
	}
	t := time.NewTimer(soHang)
	defer t.Stop()
	select {
	case o := <-c.ch:
		env.mu.Lock()
		c.got, c.out = true, o
		env.mu.Unlock()
		return true
	case <-t.C:
		if held != nil && held != c.lane {
			env.monitor("C09", "independence: call %d (%s, instance %d key %d) was not answered within 3 s while the work function of instance %d key %d (another key / instance, same option values) was still running",
				c.id, c.what, c.lane.inst, c.lane.key, held.inst, held.key)
		} else {
			env.monitor("C10", "never answered: call %d (%s, instance %d key %d) received no outcome within 3 s; the option values (one ExclusiveRateLimit, ExclusiveWait, ...) are shared by calls under %d instance x key pairs whose cool-downs overlapped",
				c.id, c.what, c.lane.inst, c.lane.key, len(env.lanes))
		}
		return false
	}
}

func soCase(h *hctx, cas int) bool {
	rng := h.rng
	env := &soEnv{h: h, cas: cas, byTok: map[int]*soExec{}}
	env.e[0], env.e[1] = new(Exclusive), new(Exclusive)
	type sk struct{ a, b int }
	keyPool := [][]interface{}{{1, 2}, {"a", "b"}, {sk{1, 2}, sk{2, 1}}, {new(int), new(int)}, {nil, "nil"}, {1, "1"}}
	env.keys = keyPool[rng.Intn(len(keyPool))]
	var grid []*soLane
	for inst := 0; inst < 2; inst++ {
		for k := range env.keys {
			grid = append(grid, &soLane{inst: inst, key: k})
		}
	}
	rng.Shuffle(len(grid), func(i, j int) { grid[i], grid[j] = grid[j], grid[i] })
	env.lanes = grid[:3+rng.Intn(2)] // 3 or 4 of the 4 pairs: both keys and both instances are always among them

	ctx, cancel := context.WithCancel(context.Background())
	defer cancel()
	rate := time.Duration(20+rng.Intn(26)) * time.Millisecond
	sh := &soShared{}
	for _, k := range env.keys {
		sh.key = append(sh.key, ExclusiveKey(k))
	}
	sh.limit = ExclusiveRateLimit(ctx, rate)
	sh.useWait = rng.Intn(3) > 0
	sh.wait = ExclusiveWait(time.Duration(rng.Intn(3)) * time.Millisecond) // 0 (ignored), 1 or 2 ms
	sh.startT, sh.startF = ExclusiveStart(true), ExclusiveStart(false)
	sh.pass = ExclusiveWrapper(func(value WorkFunc) WorkFunc {
		env.mu.Lock()
		sh.passUses++
		env.mu.Unlock()
		return value
	})
	sh.value = ExclusiveValue(func() (interface{}, error) { return tick(), nil })
	plain := func() WorkFunc {
		gap := time.Duration(rng.Intn(3)) * 300 * time.Microsecond
		return func(resolve func(interface{}, error)) {
			resolve(tick(), nil)
			if gap > 0 {
				time.Sleep(gap) // resolved, not yet returned
			}
		}
	}
	randWork := func() WorkFunc {
		if rng.Intn(3) == 0 {
			return nil // the shared ExclusiveValue
		}
		return plain()
	}
	fail := func() bool {
		cancel() // lets whatever waits on the rate limiter's context go
		return false
	}

	// round 1: the first call of every lane, each lane's cool-down starting while the previous lane's is in progress; right
	// after a first call was answered (its work function is in the resolve-to-return gap) follow-up calls on that lane
	var followUps []*soCall
	during := func(lane *soLane) {
		n := 1 + rng.Intn(2)
		for k := 0; k < n; k++ {
			// the first follow-up always has an outcome channel, the second may be start-style
			start := k > 0 && rng.Intn(2) == 0
			followUps = append(followUps, env.call(sh, lane, "follow-up during the gap", start, randWork()))
		}
	}
	var (
		heldLane *soLane
		heldCall *soCall
		gate     = make(chan struct{})
	)
	hold := rng.Intn(2) == 0
	for j, lane := range env.lanes {
		if j > 0 {
			time.Sleep(rate/6 + time.Duration(rng.Int63n(int64(rate/2))))
		}
		if j == 0 && hold {
			pre := rng.Intn(2) == 0
			heldLane = lane
			heldCall = env.call(sh, lane, "first call, work function held", false, func(resolve func(interface{}, error)) {
				if pre {
					resolve(tick(), nil)
				}
				<-gate
				if !pre {
					resolve(tick(), nil)
				}
			})
			continue
		}
		c := env.call(sh, lane, "first call", false, randWork())
		if !env.await(c, heldLane) {
			close(gate)
			return fail()
		}
		during(lane)
	}
	if hold {
		// every other lane's first call was answered while this work function was running
		close(gate)
		if !env.await(heldCall, nil) {
			return fail()
		}
		during(heldLane)
	}
	heldLane = nil
	for _, c := range followUps {
		if !env.await(c, nil) {
			return fail()
		}
	}

	// round 2: one more call per lane, somewhere during or after the gap of the execution that answered the follow-ups
	var later []*soCall
	order := rng.Perm(len(env.lanes))
	for _, li := range order {
		time.Sleep(time.Duration(rng.Int63n(int64(rate * 3 / 4))))
		later = append(later, env.call(sh, env.lanes[li], "call during or after the gap", rng.Intn(4) == 0, randWork()))
	}
	for _, c := range later {
		if !env.await(c, nil) {
			return fail()
		}
	}

	// all calls are answered; all work finishes (last cool-downs) and nothing remains in either key map
	end := time.Now().Add(soHang)
	for {
		n0, n1 := soMapLen(env.e[0]), soMapLen(env.e[1])
		env.mu.Lock()
		running := 0
		for _, l := range env.lanes {
			running += l.running
		}
		env.mu.Unlock()
		if n0 == 0 && n1 == 0 && running == 0 {
			break
		}
		if time.Now().After(end) {
			// work functions that the harness supplied have returned long ago, yet their keys are still held: a further call
			// on such a lane tells "later calls for the key are never answered" from mere left-over state
			// (one lane only: nothing else is going on meanwhile)
			for _, l := range env.lanes {
				env.mu.Lock()
				stuck := l.running > 0
				env.mu.Unlock()
				if stuck {
					if !env.await(env.call(sh, l, "call made after all others were answered", false, plain()), nil) {
						return fail()
					}
					break
				}
			}
			env.monitor("C10", "residue: 3 s after every call was answered the key maps hold %d and %d entries, %d work functions have not returned (rate limit %v)", n0, n1, running, rate)
			return fail()
		}
		time.Sleep(500 * time.Microsecond)
	}

	env.mu.Lock()
	defer env.mu.Unlock()
	for _, c := range env.calls {
		l := c.lane
		if !c.start {
			// exactly one outcome: nothing but the close may follow it
			select {
			case o, ok := <-c.ch:
				if ok && o != nil {
					env.monitor("C10", "call %d (%s) received a second outcome", c.id, c.what)
				}
			default:
			}
			switch o := c.out; {
			case o == nil:
				env.monitor("C10", "call %d (%s, instance %d key %d): the outcome channel was closed without an outcome", c.id, c.what, l.inst, l.key)
			default:
				tok, isTok := o.Result.(int)
				x := env.byTok[tok]
				switch {
				case o.Error != nil || !isTok || x == nil:
					env.monitor("C10", "call %d (%s, instance %d key %d): outcome (result of type %T, error set: %v) is not what any execution of a supplied work function resolved with (the rate limiter's context is live)",
						c.id, c.what, l.inst, l.key, o.Result, o.Error != nil)
				case x.lane != l:
					env.monitor("C10", "cross-key: call %d (%s) on instance %d key %d got the result of an execution on instance %d key %d", c.id, c.what, l.inst, l.key, x.lane.inst, x.lane.key)
				case x.begin <= c.tick:
					env.monitor("C10", "stale result: call %d (%s, instance %d key %d) made at tick %d got the result of an execution begun at tick %d", c.id, c.what, l.inst, l.key, c.tick, x.begin)
				}
			}
		} else if c.ch != nil {
			env.monitor("C10", "start-style call %d got an outcome channel", c.id)
		}
		followed := false
		for _, x := range l.execs {
			if x.begin > c.tick {
				followed = true
			}
		}
		if !followed {
			env.monitor("C10", "call %d (%s, start-style: %v, instance %d key %d) was not followed by an execution beginning after it", c.id, c.what, c.start, l.inst, l.key)
		}
		if len(c.execs) > 1 {
			env.monitor("C10", "the work function supplied by call %d (%s) was executed %d times", c.id, c.what, len(c.execs))
		}
	}
	coalesced := 0
	for _, l := range env.lanes {
		if len(l.execs) > len(l.calls) {
			env.monitor("C10", "executions outnumber calls on instance %d key %d: %d > %d", l.inst, l.key, len(l.execs), len(l.calls))
		}
		coalesced += len(l.calls) - len(l.execs)
	}
	h.count("c10sharedopt_pass_wrapper_applied", sh.passUses) // (when a wrapper is applied is the library's business)
	h.count("c10sharedopt_cases", 1)
	h.count("c10sharedopt_calls", len(env.calls))
	h.count("c10sharedopt_coalesced_calls", coalesced)
	if hold {
		h.count("c10sharedopt_held_cases", 1)
	}
	return !env.bad
}

func init() {
	register("C10SHAREDOPT", func(h *hctx) {
		for i := 0; i < h.n; i++ {
			if !soCase(h, i) {
				return
			}
		}
	})
}
