//go:build verif

package bigbuff

// Two more standalone monitor scenarios for Exclusive (C09 / C10), prompted by seeded changes at the edges of the input
// space: WHICH values are "different keys", and WHICH waits are "ignored".
//
// C09KEYS: key sets made of values that LOOK alike but are distinct comparable values - typed nil pointers / channels of
// different types next to the untyped nil, the zero of every numeric type, "" / nil / struct{}{} / [0]int{}, equal-looking
// structs and arrays of different types, 1 / int64(1) / "1" / '1' / true, pointers to distinct variables with equal contents
// next to the same pointer boxed as unsafe.Pointer - together with values that ARE equal although they were built separately
// ((*int)(nil) twice, nil and error(nil), int32(0) and rune(0), +0.0 and -0.0, the same pointer twice).  The oracle for
// "same key / different keys" is Go's own equality of interface values (a == b, which is also what a map[interface{}] uses),
// computed by the harness on the very values it passes: the values of a case are partitioned into classes, a class is a KEY.
// Uncomparable key values, NaN and pointers to zero-size variables are not used.
//
// Clauses checked (logical ticks; the only durations are hang bounds of 3 s):
//   C09  "a long-running work function for one key does not delay calls for another key": with the work function of one key
//        held on a gate, calls (all 8 styles) under every value that is a different key are answered (only a hang is flagged);
//   C09  "work submitted under different keys is not serialised against each other": calls under all values are made at the
//        same time, each work function waits until an execution is in progress for EVERY key of the case - a key whose
//        execution has not begun 3 s later was serialised behind another key;
//   C09  "two executions of work functions submitted under [one] key never overlap": per class; in particular the calls made
//        under a separately built but EQUAL value while that key's work function is held must not begin;
//   C10  every call receives exactly one outcome, it is the (token, nil) resolved by an execution of ITS key (tokens are
//        unique in the run: a result of another key is told apart) begun after the call; every call is followed by an
//        execution of its key; executions never outnumber calls; afterwards no per-key state remains.
//
// C10WAITS: CallAfter / CallAfterAsync / StartAfter / CallWithOptions(ExclusiveWait(d), ...) with waits at the edges of
// time.Duration - 0, -1, math.MinInt64 (also as time.Until(time.Time{}), "the time until a deadline that was never set"),
// math.MinInt64 + 1, math.MinInt64 + up to a millisecond, -1<<62, -time.Hour, small negative ones - which the documentation
// says are ignored ("if wait is <= 0 it will be ignored"), and small positive ones (1 ns .. 20 ms), on an idle key, behind a
// work function that is held (with any of these waits itself), inside the CallAfter window of a small positive wait, and as
// the last of several coalesced callers.  Large positive waits are not used (they cannot be cancelled).
// Clauses checked (C10, hang bound 3 s, nothing else is timed): every blocking/async call receives exactly one outcome, the
// (token, nil) of an execution of its key begun after the call; every call, start-style included, is followed by an
// execution of its key beginning after it; calls made later on the key are answered too; executions never outnumber calls;
// once everything was answered no per-key state remains.  (C09: executions of one key never overlap.)

import (
	"math"
	"math/rand"
	"sync"
	"time"
	"unsafe"
)

const x2Hang = 3 * time.Second

type (
	x2A     struct{ a, b int }
	x2B     struct{ a, b int }
	x2Int   int
	x2Str   string
	x2Empty struct{}
	x2Other struct{ _ int }
	x2Box   struct{ k interface{} }
)

type x2Lane struct {
	id      int // class number: a key of the case
	running int
	calls   []*x2Call
	execs   []*x2Exec
}

type x2Call struct {
	id     int
	lane   *x2Lane
	val    int // index of the key VALUE used (C09KEYS), -1 otherwise
	tick   int // logical time just before the call was made
	start  bool
	what   string
	ch     <-chan *ExclusiveOutcome
	got    bool
	out    *ExclusiveOutcome
	execs  []*x2Exec // executions of the function supplied by this call
	noChan bool      // a non-start call returned a nil channel
}

type x2Exec struct {
	lane       *x2Lane
	owner      *x2Call
	begin, end int
}

type x2Env struct {
	h     *hctx
	scen  string
	cas   int
	mu    sync.Mutex
	e     *Exclusive
	lanes []*x2Lane
	calls []*x2Call
	byTok map[int]*x2Exec
	monMu sync.Mutex
	bad   bool
	nmon  int
	desc  func(c *x2Call) string // how a call's key is described in a monitor line
}

func (env *x2Env) monitor(prop, format string, args ...interface{}) {
	env.monMu.Lock()
	env.bad = true
	env.nmon++
	n := env.nmon
	env.monMu.Unlock()
	if n > 4 {
		return
	}
	env.h.line("MONITOR "+prop+" "+env.scen+" case %d: "+format, append([]interface{}{env.cas}, args...)...)
}

func (env *x2Env) begin(c *x2Call) *x2Exec {
	env.mu.Lock()
	defer env.mu.Unlock()
	x := &x2Exec{lane: c.lane, owner: c, begin: tick()}
	c.lane.running++
	if c.lane.running > 1 {
		env.monitor("C09", "overlap: an execution began under %s while the previous work function submitted under an EQUAL key had not returned", env.desc(c))
	}
	c.execs = append(c.execs, x)
	c.lane.execs = append(c.lane.execs, x)
	return x
}

// token: the value the execution resolves with, unique in the run.
func (env *x2Env) token(x *x2Exec) int {
	env.mu.Lock()
	defer env.mu.Unlock()
	tok := tick()
	env.byTok[tok] = x
	return tok
}

func (env *x2Env) finish(x *x2Exec) {
	env.mu.Lock()
	x.end = tick()
	x.lane.running--
	env.mu.Unlock()
}

const (
	x2Call_ = iota
	x2CallAfter
	x2CallAsync
	x2CallAfterAsync
	x2Start
	x2StartAfter
	x2Opt
	x2OptStart
	x2NStyles
)

var x2StyleName = [...]string{"Call", "CallAfter", "CallAsync", "CallAfterAsync", "Start", "StartAfter", "CallWithOptions", "CallWithOptions+ExclusiveStart"}

func x2IsStart(style int) bool {
	return style == x2Start || style == x2StartAfter || style == x2OptStart
}

// x2WaitStyles: the styles that take a wait.
var x2WaitStyles = []int{x2CallAfter, x2CallAfterAsync, x2StartAfter, x2Opt, x2OptStart}

// issue makes one call under key (a value of the lane's class).  body, if not nil, runs inside the work function, before it
// resolves (pre == false) or after it resolved (pre == true, work-style calls only; value-style functions resolve by returning).
// hasWait == false: the style's wait argument, if it has one, is 0 / the option is not given.
// r: the source of the random option order (h.rng, or a private one when calls are made from several goroutines).
func (env *x2Env) issue(r *rand.Rand, lane *x2Lane, val int, key interface{}, style int, hasWait bool, wait time.Duration, what string, pre bool, body func()) *x2Call {
	c := &x2Call{lane: lane, val: val, start: x2IsStart(style), what: x2StyleName[style] + ", " + what}
	value := func() (interface{}, error) {
		x := env.begin(c)
		if body != nil {
			body()
		}
		tok := env.token(x)
		env.finish(x) // (the function returns right after: marking the return early can only hide an overlap, never invent one)
		return tok, nil
	}
	work := func(resolve func(interface{}, error)) {
		x := env.begin(c)
		if pre {
			resolve(env.token(x), nil)
		}
		if body != nil {
			body()
		}
		if !pre {
			resolve(env.token(x), nil)
		}
		env.finish(x)
	}
	if !hasWait {
		wait = 0
	}
	env.mu.Lock()
	c.id = len(env.calls)
	env.calls = append(env.calls, c)
	lane.calls = append(lane.calls, c)
	c.tick = tick()
	env.mu.Unlock()
	blocking := func(f func() (interface{}, error)) {
		ch := make(chan *ExclusiveOutcome, 1)
		c.ch = ch
		go func() {
			r, err := f()
			ch <- &ExclusiveOutcome{Result: r, Error: err}
			close(ch)
		}()
	}
	switch style {
	case x2Call_:
		blocking(func() (interface{}, error) { return env.e.Call(key, value) })
	case x2CallAfter:
		blocking(func() (interface{}, error) { return env.e.CallAfter(key, value, wait) })
	case x2CallAsync:
		c.ch = env.e.CallAsync(key, value)
	case x2CallAfterAsync:
		c.ch = env.e.CallAfterAsync(key, value, wait)
	case x2Start:
		env.e.Start(key, value)
	case x2StartAfter:
		env.e.StartAfter(key, value, wait)
	case x2Opt, x2OptStart:
		opts := []ExclusiveOption{ExclusiveKey(key)}
		if r.Intn(2) == 0 {
			opts = append(opts, ExclusiveWork(work))
		} else {
			opts = append(opts, ExclusiveValue(value))
		}
		if hasWait || r.Intn(2) == 0 {
			opts = append(opts, ExclusiveWait(wait))
		}
		if style == x2OptStart {
			opts = append(opts, ExclusiveStart(true))
		} else if r.Intn(2) == 0 {
			opts = append(opts, ExclusiveStart(false))
		}
		r.Shuffle(len(opts), func(i, j int) { opts[i], opts[j] = opts[j], opts[i] })
		ch := env.e.CallWithOptions(opts...)
		if style == x2OptStart {
			if ch != nil {
				env.monitor("C10", "start-style call %d (%s) got an outcome channel", c.id, c.what)
			}
		} else {
			c.ch = ch
		}
	}
	if !c.start && c.ch == nil {
		c.noChan = true
		env.monitor("C10", "call %d (%s, %s) returned no outcome channel", c.id, c.what, env.desc(c))
	}
	return c
}

// await: the call's outcome within the hang bound; why (a format with the call's description filled in by the caller) says
// what a hang means at this point.  Start-style calls: an execution of the key that began after the call, within the bound.
func (env *x2Env) await(c *x2Call, prop, why string) bool {
	if c.got {
		return true
	}
	if c.noChan {
		return false
	}
	if c.start {
		end := time.Now().Add(x2Hang)
		for {
			env.mu.Lock()
			ok := false
			for _, x := range c.lane.execs {
				if x.begin > c.tick {
					ok = true
				}
			}
			env.mu.Unlock()
			if ok {
				c.got = true
				return true
			}
			if time.Now().After(end) {
				env.monitor(prop, "not followed: no execution began within 3 s after start-style call %d (%s, %s); %s", c.id, c.what, env.desc(c), why)
				return false
			}
			time.Sleep(200 * time.Microsecond)
		}
	}
	t := time.NewTimer(x2Hang)
	defer t.Stop()
	select {
	case o := <-c.ch:
		env.mu.Lock()
		c.got, c.out = true, o
		env.mu.Unlock()
		return true
	case <-t.C:
		env.monitor(prop, "never answered: call %d (%s, %s) received no outcome within 3 s; %s", c.id, c.what, env.desc(c), why)
		return false
	}
}

func x2MapLen(e *Exclusive) int { return soMapLen(e) }

// settle: all calls were answered; all work returns and the key map empties.
func (env *x2Env) settle() bool {
	end := time.Now().Add(x2Hang)
	for {
		n := x2MapLen(env.e)
		env.mu.Lock()
		running := 0
		for _, l := range env.lanes {
			running += l.running
		}
		env.mu.Unlock()
		if n == 0 && running == 0 {
			return true
		}
		if time.Now().After(end) {
			env.monitor("C10", "residue: 3 s after every call was answered the key map holds %d entries (%d keys were used) and %d work functions have not returned", n, len(env.lanes), running)
			return false
		}
		time.Sleep(300 * time.Microsecond)
	}
}

// evaluate: the per-call and per-key clauses of C10, on ticks.
func (env *x2Env) evaluate() {
	env.mu.Lock()
	defer env.mu.Unlock()
	for _, c := range env.calls {
		l := c.lane
		if !c.start && !c.noChan {
			select {
			case o, ok := <-c.ch:
				if ok && o != nil {
					env.monitor("C10", "call %d (%s) received a second outcome", c.id, c.what)
				}
			default:
				// blocking styles: the harness closes its own channel; async styles: a channel that is still open is not an
				// outcome (the close is checked by C09K1)
			}
			switch o := c.out; {
			case o == nil:
				env.monitor("C10", "call %d (%s, %s): the outcome channel was closed without an outcome", c.id, c.what, env.desc(c))
			default:
				tok, isTok := o.Result.(int)
				x := env.byTok[tok]
				switch {
				case o.Error != nil || !isTok || x == nil:
					env.monitor("C10", "call %d (%s, %s): outcome (result of type %T, error set: %v) is not what any execution of a supplied work function resolved with",
						c.id, c.what, env.desc(c), o.Result, o.Error != nil)
				case x.lane != l:
					env.monitor("C10", "cross-key: call %d (%s) under %s got the result of an execution of a function submitted under %s, a DIFFERENT key", c.id, c.what, env.desc(c), env.desc(x.owner))
				case x.begin <= c.tick:
					env.monitor("C10", "stale result: call %d (%s, %s) made at tick %d got the result of an execution begun at tick %d", c.id, c.what, env.desc(c), c.tick, x.begin)
				}
			}
		}
		followed := false
		for _, x := range l.execs {
			if x.begin > c.tick {
				followed = true
			}
		}
		if !followed {
			env.monitor("C10", "call %d (%s, %s) was not followed by an execution of its key beginning after it", c.id, c.what, env.desc(c))
		}
		if len(c.execs) > 1 {
			env.monitor("C10", "the work function supplied by call %d (%s) was executed %d times", c.id, c.what, len(c.execs))
		}
	}
	for _, l := range env.lanes {
		if len(l.execs) > len(l.calls) {
			env.monitor("C10", "executions outnumber calls on key class %d: %d > %d", l.id, len(l.execs), len(l.calls))
		}
	}
}

// ---------------------------------------------------------------------------------------------------------------------
// C09KEYS

type x2KeyVal struct {
	v    interface{}
	name string
}

// x2Families: look-alike key values; built per case (fresh pointers and channels).
func x2Families() [][]x2KeyVal {
	p, q := new(int), new(int) // distinct variables (not zero-size), equal contents
	sa, sb := &x2A{1, 2}, &x2A{1, 2}
	c1, c2 := make(chan int), make(chan int)
	var noErr error
	negZero := math.Copysign(0, -1)
	kv := func(v interface{}, name string) x2KeyVal { return x2KeyVal{v, name} }
	return [][]x2KeyVal{
		{ // typed nils and the untyped nil
			kv((*int)(nil), "(*int)(nil)"), kv((*x2A)(nil), "(*x2A)(nil)"), kv((*Exclusive)(nil), "(*Exclusive)(nil)"),
			kv((chan int)(nil), "(chan int)(nil)"), kv((<-chan int)(nil), "(<-chan int)(nil)"), kv((chan string)(nil), "(chan string)(nil)"),
			kv(nil, "nil"), kv((*struct{})(nil), "(*struct{})(nil)"), kv(unsafe.Pointer(nil), "unsafe.Pointer(nil)"),
			kv((*int)(nil), "(*int)(nil) [again]"), kv(noErr, "error(nil)"), kv((**int)(nil), "(**int)(nil)"),
			kv((*[0]int)(nil), "(*[0]int)(nil)"), kv((*x2Other)(nil), "(*x2Other)(nil)"), kv((*x2B)(nil), "(*x2B)(nil)"),
			kv((chan<- int)(nil), "(chan<- int)(nil)"), kv((*interface{})(nil), "(*interface{})(nil)"),
		},
		{ // the same, fewer exotic ones: nil pointers of several struct types, a nil channel, nil
			kv((*x2A)(nil), "(*x2A)(nil)"), kv((*x2B)(nil), "(*x2B)(nil)"), kv((*x2Other)(nil), "(*x2Other)(nil)"), kv(nil, "nil"),
			kv((chan int)(nil), "(chan int)(nil)"), kv((*int)(nil), "(*int)(nil)"), kv((*x2A)(nil), "(*x2A)(nil) [again]"),
			kv((*x2Int)(nil), "(*x2Int)(nil)"), kv((chan struct{})(nil), "(chan struct{})(nil)"),
		},
		{ // zero of every numeric type (and what prints like it)
			kv(int(0), "int(0)"), kv(int8(0), "int8(0)"), kv(int16(0), "int16(0)"), kv(int32(0), "int32(0)"), kv(int64(0), "int64(0)"),
			kv(uint(0), "uint(0)"), kv(uint8(0), "uint8(0)"), kv(uint16(0), "uint16(0)"), kv(uint32(0), "uint32(0)"), kv(uint64(0), "uint64(0)"),
			kv(uintptr(0), "uintptr(0)"), kv(float32(0), "float32(0)"), kv(float64(0), "float64(0)"), kv(complex64(0), "complex64(0)"),
			kv(complex128(0), "complex128(0)"), kv(x2Int(0), "x2Int(0)"), kv(false, "false"), kv("0", `"0"`), kv(nil, "nil"),
			kv(rune(0), "rune(0)"), kv(byte(0), "byte(0)"), kv(negZero, "float64(-0.0)"), kv(time.Duration(0), "time.Duration(0)"),
			kv(int(0), "int(0) [again]"), kv((*int)(nil), "(*int)(nil)"),
		},
		{ // empty things
			kv("", `""`), kv(nil, "nil"), kv(x2Str(""), `x2Str("")`), kv(struct{}{}, "struct{}{}"), kv([0]int{}, "[0]int{}"),
			kv([0]string{}, "[0]string{}"), kv(x2Empty{}, "x2Empty{}"), kv([0]struct{}{}, "[0]struct{}{}"), kv([1]struct{}{}, "[1]struct{}{}"),
			kv((*struct{})(nil), "(*struct{})(nil)"), kv(false, "false"), kv(0, "0"), kv("", `"" [again]`), kv(x2Box{}, "x2Box{nil}"),
			kv([1]interface{}{}, "[1]interface{}{nil}"), kv(x2Other{}, "x2Other{}"),
		},
		{ // equal-looking structs and arrays of different types
			kv(x2A{1, 2}, "x2A{1,2}"), kv(x2B{1, 2}, "x2B{1,2}"), kv(struct{ a, b int }{1, 2}, "struct{a,b int}{1,2}"), kv([2]int{1, 2}, "[2]int{1,2}"),
			kv(x2A{1, 2}, "x2A{1,2} [again]"), kv(x2A{2, 1}, "x2A{2,1}"), kv([2]interface{}{1, 2}, "[2]interface{}{1,2}"),
			kv([2]interface{}{int64(1), 2}, "[2]interface{}{int64(1),2}"), kv("{1 2}", `"{1 2}"`), kv([2]int8{1, 2}, "[2]int8{1,2}"),
			kv(struct {
				a int
				b int
			}{1, 2}, "struct{a int; b int}{1,2}"), kv([2]x2Int{1, 2}, "[2]x2Int{1,2}"), kv("[1 2]", `"[1 2]"`),
		},
		{ // one, in many guises
			kv(1, "1"), kv(int64(1), "int64(1)"), kv("1", `"1"`), kv('1', "'1'"), kv(1.0, "1.0"), kv(float32(1), "float32(1)"), kv(true, "true"),
			kv(uint8(1), "uint8(1)"), kv(x2Int(1), "x2Int(1)"), kv(x2Str("1"), `x2Str("1")`), kv([1]int{1}, "[1]int{1}"),
			kv(struct{ a int }{1}, "struct{a int}{1}"), kv(complex(1, 0), "complex(1,0)"), kv(int32('1'), "int32('1')"), kv(1, "1 [again]"),
			kv(time.Nanosecond, "time.Nanosecond"), kv("true", `"true"`),
		},
		{ // pointers and channels: identity, not contents, and the dynamic type counts
			kv(p, "p (*int)"), kv(q, "q (*int, other variable, equal contents)"), kv(p, "p [again]"), kv(unsafe.Pointer(p), "unsafe.Pointer(p)"),
			kv(sa, "&x2A{1,2}"), kv(sb, "&x2A{1,2} (other variable)"), kv((*int)(nil), "(*int)(nil)"), kv(c1, "c1 (chan int)"),
			kv(c2, "c2 (chan int)"), kv((<-chan int)(c1), "(<-chan int)(c1)"), kv(c1, "c1 [again]"), kv(*sa, "x2A{1,2}"), kv(nil, "nil"),
			kv((*x2B)(unsafe.Pointer(sa)), "(*x2B)(same address as &x2A)"),
		},
		{ // nils boxed one level down
			kv([1]interface{}{nil}, "[1]interface{}{nil}"), kv([1]interface{}{(*int)(nil)}, "[1]interface{}{(*int)(nil)}"),
			kv([1]interface{}{(chan int)(nil)}, "[1]interface{}{(chan int)(nil)}"), kv(x2Box{nil}, "x2Box{nil}"),
			kv(x2Box{(*int)(nil)}, "x2Box{(*int)(nil)}"), kv(nil, "nil"), kv((*int)(nil), "(*int)(nil)"), kv(x2Box{(*int)(nil)}, "x2Box{(*int)(nil)} [again]"),
			kv((*x2Box)(nil), "(*x2Box)(nil)"), kv([1]*int{nil}, "[1]*int{nil}"), kv([1]chan int{nil}, "[1]chan int{nil}"),
		},
	}
}

// x2Same: the oracle.  Go's equality of interface values: same dynamic type and equal values; also what map[interface{}] uses.
func x2Same(a, b interface{}) bool { return a == b }

func keysCase(h *hctx, cas int) bool {
	rng := h.rng
	env := &x2Env{h: h, scen: "keys", cas: cas, e: new(Exclusive), byTok: map[int]*x2Exec{}}
	fams := x2Families()
	fam := fams[(cas+int(h.seed%8+8))%len(fams)]

	// 4-7 values of the family, at least 3 different keys among them
	var (
		vals  []x2KeyVal
		class []int
		m     int
	)
	for try := 0; ; try++ {
		perm := rng.Perm(len(fam))
		n := 4 + rng.Intn(4)
		if n > len(fam) {
			n = len(fam)
		}
		vals = vals[:0]
		for _, i := range perm[:n] {
			vals = append(vals, fam[i])
		}
		if rng.Intn(3) > 0 {
			// a value once more (for pointers: the same pointer): an EQUAL key
			vals = append(vals, vals[rng.Intn(len(vals))])
			rng.Shuffle(len(vals), func(i, j int) { vals[i], vals[j] = vals[j], vals[i] })
		}
		class, m = make([]int, len(vals)), 0
		for i := range vals {
			class[i] = -1
			for j := 0; j < i; j++ {
				if x2Same(vals[i].v, vals[j].v) {
					class[i] = class[j]
					break
				}
			}
			if class[i] < 0 {
				class[i] = m
				m++
			}
		}
		if m >= 3 || try > 20 {
			break
		}
	}
	if m < 2 {
		return true
	}
	for k := 0; k < m; k++ {
		env.lanes = append(env.lanes, &x2Lane{id: k})
	}
	env.desc = func(c *x2Call) string {
		if c.val < 0 {
			return "?"
		}
		return "key " + vals[c.val].name
	}
	issue := func(i, style int, what string, pre bool, body func()) *x2Call {
		var wait time.Duration
		hasWait := rng.Intn(3) == 0
		if hasWait {
			wait = time.Duration(rng.Intn(3)) * 500 * time.Microsecond
		}
		return env.issue(rng, env.lanes[class[i]], i, vals[i].v, style, hasWait, wait, what, pre, body)
	}

	// phase A: the work function of one key is held; every value that is a DIFFERENT key is answered meanwhile; calls under
	// EQUAL values must not begin (overlap) and are answered after the release
	phaseA := func() bool {
		a := rng.Intn(len(vals))
		var (
			gate    = make(chan struct{})
			started = make(chan struct{})
			once    sync.Once
		)
		release := func() { once.Do(func() { close(gate) }) }
		defer release()
		heldStyle := []int{x2CallAsync, x2CallAfterAsync, x2Opt, x2Call_, x2CallAfter}[rng.Intn(5)]
		held := issue(a, heldStyle, "work function held on a gate", heldStyle == x2Opt && rng.Intn(2) == 0, func() {
			close(started)
			<-gate
		})
		t := time.NewTimer(x2Hang)
		select {
		case <-started:
			t.Stop()
		case <-t.C:
			env.monitor("C10", "not followed: the first call of the case (%s, %s) was not followed by an execution within 3 s", held.what, env.desc(held))
			return false
		}
		var same, diff []*x2Call
		allAtOnce := rng.Intn(2) == 0
		for _, j := range rng.Perm(len(vals)) {
			if j == a && rng.Intn(2) == 0 {
				continue // (the held value itself is called again in half of the cases)
			}
			c := issue(j, rng.Intn(x2NStyles), "made while the work function under "+vals[a].name+" is held", false, nil)
			if class[j] == class[a] {
				same = append(same, c)
				continue
			}
			diff = append(diff, c)
			if !allAtOnce {
				if !env.await(c, "C09", "independence: the work function submitted under "+vals[a].name+" (a different key: the two values are not equal) was still running") {
					return false
				}
			}
		}
		for _, c := range diff {
			if !env.await(c, "C09", "independence: the work function submitted under "+vals[a].name+" (a different key: the two values are not equal) was still running") {
				return false
			}
		}
		release()
		if !env.await(held, "C10", "its work function was released") {
			return false
		}
		for _, c := range same {
			if !env.await(c, "C10", "the work function of its key, held meanwhile, was released") {
				return false
			}
		}
		h.count("c09keys_equal_key_calls_behind_held_work", len(same))
		h.count("c09keys_other_key_calls_during_held_work", len(diff))
		return true
	}
	phase := h.pi("phase", 0) // 1 / 2: only phase A / B (to try the harness itself)
	if phase != 2 && !phaseA() {
		return false
	}
	if phase == 1 {
		if !env.settle() {
			return false
		}
		env.evaluate()
		return !env.bad
	}

	// phase B: all values driven at the same time; every work function waits until an execution is in progress for every
	// key of the case (or a shared 3 s deadline passes)
	var (
		bmu     sync.Mutex
		arrived = make([]bool, m)
		narr    int
		all     = make(chan struct{})
		late    = make(chan struct{})
	)
	var (
		lateArrived []bool // what had arrived when the deadline passed
		lateN       int
	)
	timer := time.AfterFunc(x2Hang, func() {
		bmu.Lock()
		lateArrived, lateN = append([]bool(nil), arrived...), narr
		bmu.Unlock()
		close(late)
	})
	defer timer.Stop()
	arrive := func(k int) {
		bmu.Lock()
		if !arrived[k] {
			arrived[k] = true
			if narr++; narr == m {
				close(all)
			}
		}
		bmu.Unlock()
		select {
		case <-all:
		case <-late:
		}
	}
	var (
		wg     sync.WaitGroup
		cmu    sync.Mutex
		second []*x2Call
		firsts = make([]*x2Call, len(vals))
		styles = make([]int, len(vals))
		pres   = make([]bool, len(vals))
	)
	for i := range vals {
		styles[i] = rng.Intn(x2NStyles)
		pres[i] = rng.Intn(2) == 0
	}
	// (h.rng is not safe for concurrent use: everything random is drawn here, each goroutine gets a source of its own for the
	// order of its options)
	type plan struct {
		hasWait bool
		wait    time.Duration
		r       *rand.Rand
	}
	plans := make([]plan, len(vals))
	for i := range plans {
		plans[i].r = rand.New(rand.NewSource(rng.Int63()))
		if rng.Intn(3) == 0 {
			plans[i].hasWait, plans[i].wait = true, time.Duration(rng.Intn(3))*500*time.Microsecond
		}
	}
	startLine := make(chan struct{})
	for i := range vals {
		i := i
		wg.Add(1)
		go func() {
			defer wg.Done()
			<-startLine
			k := class[i]
			c := env.issue(plans[i].r, env.lanes[k], i, vals[i].v, styles[i], plans[i].hasWait, plans[i].wait, "all values at the same time", pres[i], func() { arrive(k) })
			cmu.Lock()
			firsts[i] = c
			cmu.Unlock()
		}()
	}
	close(startLine)
	wg.Wait()
	select {
	case <-all:
	case <-late:
	}
	inTime := true
	select {
	case <-late:
		inTime = lateN == m // (lateN is written before late is closed)
	default:
	}
	if inTime {
		h.count("c09keys_cases_all_keys_in_progress_together", 1)
	} else {
		missing := ""
		for i := range vals {
			if !lateArrived[class[i]] {
				if missing != "" {
					missing += ", "
				}
				missing += vals[i].name
			}
		}
		n := lateN
		env.monitor("C09", "serialised: calls under %d values forming %d different keys were made at the same time and every work function waits for the others to be in progress; 3 s later executions had begun for %d keys only - none under %s",
			len(vals), m, n, missing)
		return false
	}
	for _, c := range firsts {
		if !env.await(c, "C10", "all work functions of the case were released") {
			return false
		}
	}
	// one more call per value, after everything before was answered (the keys may still be in the resolve-to-return gap)
	for _, i := range rng.Perm(len(vals)) {
		second = append(second, issue(i, rng.Intn(x2NStyles), "made after the others were answered", false, nil))
	}
	for _, c := range second {
		if !env.await(c, "C10", "no work function is held") {
			return false
		}
	}
	if !env.settle() {
		return false
	}
	env.evaluate()
	coalesced := 0
	for _, l := range env.lanes {
		coalesced += len(l.calls) - len(l.execs)
	}
	h.count("c09keys_cases", 1)
	h.count("c09keys_values", len(vals))
	h.count("c09keys_different_keys", m)
	h.count("c09keys_equal_values", len(vals)-m)
	h.count("c09keys_calls", len(env.calls))
	h.count("c09keys_coalesced_calls", coalesced)
	return !env.bad
}

// ---------------------------------------------------------------------------------------------------------------------
// C10WAITS

type x2Wait struct {
	d    func() time.Duration
	name string
}

func x2IgnoredWaits(h *hctx) []x2Wait {
	fixed := func(d time.Duration) func() time.Duration { return func() time.Duration { return d } }
	return []x2Wait{
		{fixed(time.Duration(math.MinInt64)), "time.Duration(math.MinInt64)"},
		{func() time.Duration { return time.Until(time.Time{}) }, "time.Until(time.Time{})"},
		{fixed(time.Duration(math.MinInt64 + 1)), "math.MinInt64+1"},
		{fixed(0), "0"},
		{fixed(-1), "-1"},
		{func() time.Duration { return time.Duration(math.MinInt64 + h.rng.Int63n(1000)) }, "math.MinInt64 + less than a microsecond"},
		{fixed(-1 << 62), "-1<<62"},
		{fixed(-time.Hour), "-time.Hour"},
		{func() time.Duration { return time.Duration(math.MinInt64 + h.rng.Int63n(1000000)) }, "math.MinInt64 + less than a millisecond"},
		{func() time.Duration { return -time.Duration(1 + h.rng.Int63n(int64(time.Second))) }, "minus up to a second"},
		{func() time.Duration { return time.Time{}.Sub(time.Now().Add(time.Hour)) }, "time.Time{}.Sub(now+1h)"},
		{fixed(-math.MaxInt64), "-math.MaxInt64"},
		{fixed(-(1<<62 + 1<<61)), "-(1<<62+1<<61)"},
		{fixed(-time.Millisecond), "-time.Millisecond"},
	}
}

func waitsCase(h *hctx, cas int) bool {
	rng := h.rng
	env := &x2Env{h: h, scen: "waits", cas: cas, e: new(Exclusive), byTok: map[int]*x2Exec{}}
	keyPool := [][]interface{}{{"k"}, {"k", 7}, {nil, "nil"}, {x2A{1, 2}}}
	keys := keyPool[rng.Intn(len(keyPool))]
	for k := range keys {
		env.lanes = append(env.lanes, &x2Lane{id: k})
	}
	env.desc = func(c *x2Call) string { return "key #" + string(rune('0'+c.lane.id)) }
	ignored := x2IgnoredWaits(h)
	nextIgnored := cas + int(h.seed%7+7) // the first boundary wait of the case walks through the list, the others are random
	pickIgnored := func() (time.Duration, string) {
		w := ignored[nextIgnored%len(ignored)]
		nextIgnored = rng.Intn(len(ignored))
		return w.d(), "wait " + w.name + " (<= 0: ignored)"
	}
	pickSmall := func() (time.Duration, string) {
		switch rng.Intn(4) {
		case 0:
			return 1, "wait 1ns"
		case 1:
			return time.Microsecond * time.Duration(1+rng.Intn(50)), "wait of some microseconds"
		case 2:
			return time.Millisecond * time.Duration(1+rng.Intn(3)), "wait of 1-3 ms"
		}
		return time.Millisecond * time.Duration(5+rng.Intn(16)), "wait of 5-20 ms"
	}
	waitStyle := func() int { return x2WaitStyles[rng.Intn(len(x2WaitStyles))] }
	call := func(k, style int, d time.Duration, what string, pre bool, body func()) *x2Call {
		return env.issue(rng, env.lanes[k], -1, keys[k], style, true, d, what, pre, body)
	}
	awaitAll := func(cs []*x2Call, why string) bool {
		for _, c := range cs {
			if !env.await(c, "C10", why) {
				return false
			}
		}
		return true
	}
	// a plain call on the key afterwards: "everything later on that key" is answered too
	later := func(k int) bool {
		if rng.Intn(2) == 0 {
			return true
		}
		c := env.issue(rng, env.lanes[k], -1, keys[k], []int{x2Call_, x2CallAsync, x2Opt}[rng.Intn(3)], false, 0, "no wait, made after the calls with waits were answered", false, nil)
		return env.await(c, "C10", "all earlier calls on the key were answered, no work function is held")
	}

	nsit := 2 + rng.Intn(3)
	for s := 0; s < nsit; s++ {
		k := rng.Intn(len(keys))
		sit := rng.Intn(4)
		if s == 0 {
			sit = rng.Intn(3) // the first situation of a case always has an ignored wait as the wait in effect
		}
		switch sit {
		case 0:
			// on a key with nothing pending (work of the previous situation may still be returning)
			d, name := pickIgnored()
			c := call(k, waitStyle(), d, name+", key has no calls pending", false, nil)
			if !env.await(c, "C10", "no work function is held: a wait <= 0 is documented to be ignored") {
				return false
			}
			h.count("c10waits_ignored_wait_idle_key", 1)
		case 1:
			// behind a work function that is held; the last attacher's wait may be any of the ignored ones
			gate, started := make(chan struct{}), make(chan struct{})
			var d0 time.Duration
			name0 := "no wait"
			style0 := []int{x2CallAsync, x2CallAfterAsync, x2Opt}[rng.Intn(3)]
			if style0 != x2CallAsync && rng.Intn(2) == 0 {
				d0, name0 = pickIgnored()
			}
			first := call(k, style0, d0, name0+", work function held on a gate", style0 == x2Opt && rng.Intn(2) == 0, func() {
				close(started)
				<-gate
			})
			t := time.NewTimer(x2Hang)
			select {
			case <-started:
				t.Stop()
			case <-t.C:
				close(gate)
				env.monitor("C10", "not followed: call %d (%s, %s) was not followed by an execution within 3 s; a wait <= 0 is documented to be ignored", first.id, first.what, env.desc(first))
				return false
			}
			var cs []*x2Call
			n := 1 + rng.Intn(3)
			lastName := ""
			for j := 0; j < n; j++ {
				d, name := pickIgnored()
				if j < n-1 && rng.Intn(3) == 0 {
					d, name = pickSmall()
				}
				lastName = name
				cs = append(cs, call(k, waitStyle(), d, name+", made while the previous work function of the key is held", false, nil))
			}
			if rng.Intn(2) == 0 {
				time.Sleep(time.Duration(rng.Intn(2000)) * time.Microsecond)
			}
			close(gate)
			if !env.await(first, "C10", "its work function was released") {
				return false
			}
			if !awaitAll(cs, "the previous work function of the key was released and has been answered; the last of the "+string(rune('0'+n))+" calls made meanwhile had "+lastName+"; a wait <= 0 is documented to be ignored") {
				return false
			}
			h.count("c10waits_ignored_wait_behind_held_work", 1)
		case 2:
			// inside the CallAfter window of a small positive wait: later callers with ignored waits join
			d0, name0 := pickSmall()
			first := call(k, waitStyle(), d0, name0+", opens a batch", false, nil)
			var cs []*x2Call
			n := 1 + rng.Intn(2)
			for j := 0; j < n; j++ {
				d, name := pickIgnored()
				cs = append(cs, call(k, waitStyle(), d, name+", made right after a call with a small positive wait", false, nil))
			}
			if !env.await(first, "C10", "its wait is at most 20 ms") {
				return false
			}
			if !awaitAll(cs, "the call before it (wait of at most 20 ms) has been answered; a wait <= 0 is documented to be ignored") {
				return false
			}
			h.count("c10waits_ignored_wait_in_window", 1)
		case 3:
			// small positive waits only, a few callers
			var cs []*x2Call
			n := 1 + rng.Intn(3)
			for j := 0; j < n; j++ {
				d, name := pickSmall()
				cs = append(cs, call(k, waitStyle(), d, name, false, nil))
			}
			if !awaitAll(cs, "all waits are at most 20 ms") {
				return false
			}
			h.count("c10waits_small_positive_only", 1)
		}
		if !later(k) {
			return false
		}
	}
	if !env.settle() {
		return false
	}
	env.evaluate()
	coalesced := 0
	for _, l := range env.lanes {
		coalesced += len(l.calls) - len(l.execs)
	}
	h.count("c10waits_cases", 1)
	h.count("c10waits_calls", len(env.calls))
	h.count("c10waits_coalesced_calls", coalesced)
	return !env.bad
}

func init() {
	register("C09KEYS", func(h *hctx) {
		for i := 0; i < h.n; i++ {
			if !keysCase(h, i) {
				return
			}
		}
	})
	register("C10WAITS", func(h *hctx) {
		for i := 0; i < h.n; i++ {
			if !waitsCase(h, i) {
				return
			}
		}
	})
}
