//go:build verif

package bigbuff

import (
	"context"
	"sync"
	"sync/atomic"
	"time"
)

// Timed Buffer scenarios with the delay-bounded schedule sweep (properties C04, C05).
// Each scenario is a function of a policy; the sweep runs it once without delay to learn which instrumentation points it
// hits, then once per (point, k-th hit) with a delay injected there. Records are ordinary "K2 buffer" histories.

func init() {
	register("C04T", func(h *hctx) { timedSweep(h, "c04", c04Variants(h)) })
	register("C05S", func(h *hctx) { timedSweep(h, "c05", c05Variants(h)) })
	register("C12S", func(h *hctx) { timedSweep(h, "c12", c12Variants(h)) })
}

// ---- C04: reclamation without further activity -----------------------------------------------------------------

func c04Variants(h *hctx) []timedCase {
	cd := time.Duration(h.pi("cooldown_ms", 12)) * time.Millisecond
	mk := func(name string, kind, mx, tg int, cooldown time.Duration, body func(r *bufRun, gap time.Duration), after ...func(r *bufRun, id string, size int)) timedCase {
		return timedCase{name: name, delay: cooldown*5/2 + 3*time.Millisecond, hits: 3,
			run: func(h *hctx, id string, inject time.Duration) {
				r := newBufRun(h, kind, mx, tg, cooldown)
				gap := time.Duration(h.rng.Intn(int(cooldown/time.Microsecond)+1)) * time.Microsecond
				body(r, gap)
				// go quiet: the prefix must be reclaimed within the cooldown (twice, for a change landing inside a
				// window) plus scheduling latency, with no further operation
				time.Sleep(inject + 2*cooldown + 25*time.Millisecond)
				r.settle()
				var size int
				r.exec([]int{14}, func() []int { size = r.b.Size(); return []int{7, size} })
				r.exec([]int{9}, func() []int { return valsOut(8, r.b.Slice()) })
				r.record(id, []int{kind, mx, tg})
				for _, f := range after {
					f(r, id, size)
				}
				for _, cancel := range r.getStop {
					cancel()
				}
				go func() {
					time.Sleep(5 * time.Millisecond)
					for c := range r.cons {
						_ = r.cons[c].Rollback()
					}
					r.b.Close()
				}()
			}}
	}
	commitN := func(r *bufRun, c, n int) {
		for i := 0; i < n; i++ {
			r.get(c)
		}
		r.exec([]int{5, c}, func() []int { return errOut(r.cons[c].Commit()) })
	}
	return []timedCase{
		mk("one", 0, 0, 0, cd, func(r *bufRun, gap time.Duration) {
			r.newConsumer()
			r.put(3, false)
			commitN(r, 0, 1)
			time.Sleep(gap) // the second commit lands somewhere inside the cooldown window of the first
			commitN(r, 0, 1)
		}),
		mk("two", 0, 0, 0, cd, func(r *bufRun, gap time.Duration) {
			r.newConsumer()
			r.newConsumer()
			r.put(4, false)
			commitN(r, 0, 3)
			time.Sleep(gap)
			commitN(r, 1, 2)
		}),
		mk("closeslow", 0, 0, 0, cd, func(r *bufRun, gap time.Duration) {
			r.newConsumer()
			r.newConsumer()
			r.put(4, false)
			commitN(r, 0, 3)
			time.Sleep(gap)
			// closing the slowest consumer releases its hold
			r.exec([]int{10, 1}, func() []int { return errOut(r.cons[1].Close()) })
		}),
		mk("parked", 0, 0, 0, cd, func(r *bufRun, gap time.Duration) {
			// fast consumers that have committed everything are parked in Get at the tail (waiters on the buffer's cond
			// queued ahead of the cleaner) when the slowest consumer commits: the cleaner must still be woken
			for i := 0; i < 4; i++ {
				r.newConsumer()
			}
			r.put(2, false)
			for c := 0; c < 3; c++ {
				commitN(r, c, 2)
			}
			time.Sleep(gap)
			for c := 0; c < 3; c++ {
				r.get(c) // parks
			}
			commitN(r, 3, 2)
		}),
		mk("closeslow2", 0, 0, 0, cd, func(r *bufRun, gap time.Duration) {
			// a prefix has already been reclaimed (base > 0) when the lagging consumer is closed; a faster one stays open
			r.newConsumer()
			r.newConsumer()
			r.put(5, false)
			commitN(r, 0, 2)
			commitN(r, 1, 2)
			time.Sleep(3*cd + 5*time.Millisecond) // let the cleaner reclaim the first two
			commitN(r, 0, 2)
			time.Sleep(gap)
			r.exec([]int{10, 1}, func() []int { return errOut(r.cons[1].Close()) })
		}),
		mk("fixednocons", 1, 3, 2, cd, func(r *bufRun, gap time.Duration) {
			// no consumer at all: the Put that pushes the size over max lands inside the cooldown window of the first
			r.put(2, false)
			time.Sleep(gap / 2)
			r.put(4, false)
		}),
		mk("cfgswitch", 0, 0, 0, cd, func(r *bufRun, gap time.Duration) {
			// the cooldown is reconfigured to 0 while a window started under the old cooldown is still pending, and the
			// final commit lands inside that same window
			r.newConsumer()
			r.put(3, false)
			commitN(r, 0, 1)
			time.Sleep(gap / 4)
			_ = r.b.SetCleanerConfig(CleanerConfig{Cleaner: DefaultCleaner, Cooldown: 0})
			commitN(r, 0, 1)
		}),
		mk("fixedeq", 1, 3, 3, cd, func(r *bufRun, gap time.Duration) {
			// boundary configuration target == max, stalled consumer
			r.newConsumer()
			r.put(2, false)
			time.Sleep(gap / 2)
			r.put(5, false)
		}),
		mk("fixedeqnocons", 1, 2, 2, 0, func(r *bufRun, gap time.Duration) {
			r.put(2, false)
			r.put(3, false)
		}),
		mk("nocooldown", 0, 0, 0, 0, func(r *bufRun, gap time.Duration) {
			r.newConsumer()
			r.put(3, false)
			commitN(r, 0, 2)
		}),
		func() timedCase {
			// The property's first clause, stated directly (it is not restricted to the default cleaner): one consumer
			// reads and commits everything that was put, all inside the cooldown window opened by NewConsumer, then
			// nothing happens any more.  Every value is a prefix the only open consumer has committed past.
			consumedAll := false
			return mk("fixedconsumed", 1, 2, 2, cd, func(r *bufRun, gap time.Duration) {
				consumedAll = false
				r.newConsumer()
				r.put(10, false)
				for i := 0; i < 10; i++ {
					r.get(0)
				}
				ok := r.delta[0] == 10 && len(r.pendGet) == 0
				c := r.exec([]int{5, 0}, func() []int { return errOut(r.cons[0].Commit()) })
				consumedAll = ok && c.returned() && c.out[0] == 3
			}, func(r *bufRun, id string, size int) {
				if consumedAll && size != 0 {
					h.line("MONITOR C04 FixedBufferCleaner(2,2): %d values that the only open consumer has committed past (10 of 10 read and committed) are still held after the buffer went quiet (%s)", size, id)
				}
				h.count("c04_fixedconsumed_all_consumed", boolInt(consumedAll))
			})
		}(),
		mk("fixedprefix", 1, 3, 1, cd, func(r *bufRun, gap time.Duration) {
			// inside one cooldown window: the slowest consumer commits a short prefix AND Puts push the size over max;
			// the single re-check at the end of the window must apply the forced trim, not just reclaim the prefix
			r.newConsumer()
			r.put(2, false)
			commitN(r, 0, 1)
			r.put(6, false)
		}),
		func() timedCase {
			// sustained traffic: a consumer that keeps up while values keep arriving with gaps shorter than the cooldown.
			// Reclamation is throttled (at most one run per cooldown), not postponed by every change: something must have
			// been reclaimed well before the traffic ends.
			reclaimedDuring, total, dur := false, 0, time.Duration(0)
			return mk("sustained", 0, 0, 0, cd, func(r *bufRun, gap time.Duration) {
				reclaimedDuring, total = false, 0
				r.newConsumer()
				start := time.Now()
				for time.Since(start) < 20*cd && total < 400 {
					r.put(1, false)
					total++
					commitN(r, 0, 1)
					if time.Since(start) > 4*cd && r.b.Size() < total {
						reclaimedDuring = true
					}
					time.Sleep(cd / 6)
				}
				dur = time.Since(start)
			}, func(r *bufRun, id string, size int) {
				if !reclaimedDuring && total >= 30 {
					h.line("MONITOR C04 nothing was reclaimed during %v of continuous traffic by a consumer that keeps up (cooldown %v, %d values, gaps of a sixth of the cooldown): the size stayed equal to everything put (%s)", dur.Round(time.Millisecond), cd, total, id)
				}
				h.count("c04_sustained_reclaimed_during_traffic", boolInt(reclaimedDuring))
			})
		}(),
		mk("fixed", 1, 3, 2, cd, func(r *bufRun, gap time.Duration) {
			r.newConsumer()
			r.put(2, false)
			time.Sleep(gap)
			r.put(4, false)
		}),
	}
}

// ---- C05: a parked Get always wakes ----------------------------------------------------------------------------

func c05Variants(h *hctx) []timedCase {
	mk := func(name string, event func(r *bufRun, cancel context.CancelFunc)) timedCase {
		return timedCase{name: name, delay: 2 * time.Millisecond, hits: 2,
			run: func(h *hctx, id string, inject time.Duration) {
				r := newBufRun(h, 0, 0, 0, 0)
				r.newConsumer()
				if name == "put-second" {
					r.put(1, false)
					r.get(0)
				}
				ctx, cancel := context.WithCancel(context.Background())
				if name == "deadline" {
					cancel()
					ctx, cancel = context.WithTimeout(context.Background(), 1500*time.Microsecond)
				}
				defer cancel()
				var g *bufOp
				g = r.launch([]int{3, 0}, func(o *bufOp) []int {
					v, err := r.cons[0].Get(ctx)
					if err != nil {
						if ctx.Err() != nil && err == ctx.Err() {
							r.mu.Lock()
							o.op = []int{4, 0}
							r.mu.Unlock()
						}
						return []int{2}
					}
					if v == nil {
						return []int{0, -1} // a value that was never put
					}
					return []int{0, v.(int)}
				})
				// the event races with the Get going to sleep
				time.Sleep(time.Duration(h.rng.Intn(300)) * time.Microsecond)
				ev := r.launchWait(func() { event(r, cancel) })
				deadline := time.After(inject + 400*time.Millisecond)
				select {
				case <-g.done:
				case <-deadline:
					// still parked although the event happened: recorded as an observation the model must agree with
					quiesce(200*time.Microsecond, time.Second)
					if !g.returned() {
						r.instant([]int{15, 0}, []int{9, 1})
						// still parked: whatever it is going to do happens after this observation
						r.mu.Lock()
						if g.ret < 0 {
							g.inv = tick()
						}
						r.mu.Unlock()
						h.count("get_never_woke", 1)
						if name == "cancel" || name == "closeb" || name == "deadline" {
							// the model has no caller context: state the lost wake-up directly
							h.line("MONITOR C05 Get still parked %v after its context was cancelled / its buffer closed (%s): lost wake-up", inject+400*time.Millisecond, id)
						}
					}
				}
				select {
				case <-ev:
				case <-time.After(inject + 400*time.Millisecond):
					h.count("event_blocked", 1)
				}
				if g.returned() {
					// a failed Get consumed nothing: the next Get must return what it would have returned
					r.mu.Lock()
					failed := g.out[0] == 2
					r.mu.Unlock()
					if failed && name != "closeb" {
						r.put(1, false)
						r.get(0)
					}
				}
				r.record(id, []int{0, 0, 0})
				cancel()
				go func() { // never wait for the library here: a lost wake-up would otherwise hang the harness itself
					for c := range r.cons {
						_ = r.cons[c].Rollback()
					}
					r.b.Close()
				}()
			}}
	}
	return []timedCase{
		mk("put", func(r *bufRun, _ context.CancelFunc) { r.putAsync(1) }),
		mk("put-second", func(r *bufRun, _ context.CancelFunc) { r.putAsync(2) }),
		mk("cancel", func(r *bufRun, cancel context.CancelFunc) { cancel() }),
		mk("putnil", func(r *bufRun, _ context.CancelFunc) {
			// the value that arrives is nil: a value like any other
			o := r.launch([]int{0, 1, -1}, func(*bufOp) []int { return errOut(r.b.Put(context.Background(), nil)) })
			<-o.done
		}),
		mk("deadline", func(r *bufRun, _ context.CancelFunc) { time.Sleep(2 * time.Millisecond) }),
		mk("closeb", func(r *bufRun, _ context.CancelFunc) {
			o := r.launch([]int{11}, func(*bufOp) []int { return errOut(r.b.Close()) })
			<-o.done
		}),
	}
}

// launch starts a logged operation without waiting for it.
func (r *bufRun) launch(op []int, f func(o *bufOp) []int) *bufOp {
	o := &bufOp{inv: tick(), ret: -1, op: op, done: make(chan struct{})}
	r.mu.Lock()
	r.ops = append(r.ops, o)
	r.mu.Unlock()
	go func() {
		out := f(o)
		r.mu.Lock()
		if !o.frozen {
			o.out = out
			o.ret = tick()
		}
		r.mu.Unlock()
		close(o.done)
	}()
	return o
}

func (r *bufRun) launchWait(f func()) chan struct{} {
	ch := make(chan struct{})
	go func() { f(); close(ch) }()
	return ch
}

// putAsync performs a logged Put of n fresh values from the calling goroutine.
func (r *bufRun) putAsync(n int) {
	vals := make([]interface{}, n)
	op := []int{0, n}
	r.mu.Lock()
	for i := range vals {
		vals[i] = r.nextVal
		op = append(op, r.nextVal)
		r.nextVal++
	}
	r.mu.Unlock()
	o := r.launch(op, func(*bufOp) []int { return errOut(r.b.Put(context.Background(), vals...)) })
	<-o.done
}

// ---- C12: cancelling the context a Buffer was built on shuts it down (delay sweep over the cleaner's WaitCond) ------

func c12Variants(h *hctx) []timedCase {
	mk := func(name string, inCleaner bool) timedCase {
		return timedCase{name: name, delay: 2 * time.Millisecond, hits: 2,
			run: func(h *hctx, id string, inject time.Duration) {
				base := libGoroutineCount()
				parent, cancelParent := context.WithCancel(context.Background())
				defer cancelParent()
				gate := make(chan struct{})
				var once sync.Once
				var armed atomic.Bool
				cl := func(size int, offs []int) int {
					if inCleaner && armed.Load() {
						// the cancellation lands while the user's cleaner callback is running (the cleaner goroutine holds
						// the buffer lock, past its own context check)
						once.Do(func() { cancelParent(); <-gate })
					}
					return DefaultCleaner(size, offs)
				}
				b := &Buffer{ctx: parent, cleaner: &CleanerConfig{Cleaner: cl, Cooldown: 0}}
				c, err := b.NewConsumer()
				if err != nil {
					h.line("MONITOR C12 NewConsumer failed on an open buffer built on a live context")
					return
				}
				if inCleaner {
					// the callback (holding the buffer lock) is released by a timer, not by this goroutine, which may itself
					// be waiting for that lock inside Put
					time.AfterFunc(400*time.Microsecond, func() { close(gate) })
				}
				armed.Store(true)
				_ = b.Put(nil, 1, 2)
				if inCleaner {
					<-gate
				} else {
					time.Sleep(time.Duration(h.rng.Intn(300)) * time.Microsecond)
					cancelParent()
				}
				select {
				case <-b.Done():
				case <-time.After(inject + 2*time.Second):
					h.line("MONITOR C12 Buffer.Done not closed 2 s after the context it was built on was cancelled (%s): %s", id, libGoroutineDump())
					_ = c.Rollback()
					return
				}
				select {
				case <-c.Done():
				case <-time.After(time.Second):
					h.line("MONITOR C12 consumer Done not closed after its buffer's context was cancelled (%s)", id)
				}
				if err := b.Put(nil, 3); err == nil {
					h.line("MONITOR C12 Put succeeded after the buffer's context was cancelled (%s)", id)
				}
				if _, err := b.NewConsumer(); err == nil {
					h.line("MONITOR C12 NewConsumer succeeded after the buffer's context was cancelled (%s)", id)
				}
				if n, ok := waitLibBaseline(base, inject+2*time.Second); !ok {
					h.line("MONITOR C12 %d library goroutine(s) left after the buffer's context was cancelled (%s): %s", n-base, id, libGoroutineDump())
				}
				h.line("F c12_buffer_case %s 9 1 | 1", id)
			}}
	}
	return []timedCase{mk("ctx", false), mk("ctxincleaner", true)}
}
