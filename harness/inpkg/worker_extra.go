//go:build verif

package bigbuff

// Standalone monitor scenario for the Worker prompted by a seeded "plausible improvement" change (a stopping instance is given
// a grace period and is then detached): behaviour that C17K1/C17K2 never reach because their instance functions return
// within microseconds of seeing their stop channel closed.

import (
	"fmt"
	"sync"
	"sync/atomic"
	"time"
)

const (
	wslMaxInst = 64
	wslHang    = 3 * time.Second // "never happens" bound for things that need only a goroutine to be scheduled
)

// wslWind is the spread of wind-down times of the FIRST instance of a case (the time its function needs to return after it
// saw its stop channel closed): both sides of 100 ms, 1 s and 3 s, so that a grace period / give-up timeout of any such
// length, wherever it is implemented (the watcher, Do itself), is exceeded by some case. The cases run concurrently on
// separate Worker values, so the scenario's wall time is about the longest wind-down.
var wslWind = []time.Duration{3600 * time.Millisecond, 1200 * time.Millisecond, 2500 * time.Millisecond, 300 * time.Millisecond, 30 * time.Millisecond}

type wslInst struct {
	stop    <-chan struct{}
	saw     atomic.Bool // the function itself found its stop channel closed
	exited  atomic.Bool // the function is about to return (set before the running count is decremented)
	entered atomic.Bool
}

type wslCase struct {
	h        *hctx
	id       string
	w        *Worker
	wind0    time.Duration   // wind-down of instance 0
	windN    []time.Duration // wind-down of the later instances (short)
	mu       sync.Mutex
	inst     []*wslInst
	running  atomic.Int32
	monitors atomic.Int32
}

func (c *wslCase) monitor(format string, args ...interface{}) {
	if c.monitors.Add(1) > 8 {
		return
	}
	c.h.line("MONITOR C17 case=%s wind-down=%v %s", c.id, c.wind0, fmt.Sprintf(format, args...))
}

func (c *wslCase) snapshot() []*wslInst {
	c.mu.Lock()
	defer c.mu.Unlock()
	return append([]*wslInst(nil), c.inst...)
}

// fn is the instance function: it runs until its stop channel is closed and then takes a while to return.
func (c *wslCase) fn(stop <-chan struct{}) {
	in := &wslInst{stop: stop}
	c.mu.Lock()
	idx := len(c.inst)
	c.inst = append(c.inst, in)
	c.mu.Unlock()
	// clause "never two instances of its function running at once"
	if n := c.running.Add(1); n > 1 {
		c.monitor("two instances of the function running at once: instance %d entered while %d other(s) had not returned", idx, n-1)
	}
	in.entered.Store(true)
	defer func() {
		in.exited.Store(true)
		c.running.Add(-1)
	}()
	if stop == nil {
		c.monitor("instance %d was handed a nil stop channel", idx)
		return
	}
	<-stop
	in.saw.Store(true)
	d := c.wind0
	if idx > 0 {
		d = c.windN[idx%len(c.windN)]
	}
	time.Sleep(d) // flush / wind down
}

// live: the instance is running (entered, not about to return) and its stop channel is open.
func (in *wslInst) live() bool {
	if !in.entered.Load() || in.exited.Load() {
		return false
	}
	select {
	case <-in.stop:
		return false
	default:
		return true
	}
}

// hold performs one Do .. done() on the case's Worker and checks, from the holder's point of view:
//   - "A Do that arrives while an instance is stopping waits for it to exit": every instance whose function had ALREADY seen
//     its stop channel closed when this Do was invoked (so this Do cannot be a holder of it) has exited when Do returns;
//   - "... and then starts a fresh instance" / "From the moment Do returns until the returned done function is called, an
//     instance is running whose stop channel is open": an instance that is running with an open stop channel shows up (only
//     the scheduling of its goroutine may delay that), and it stays running with its stop channel open until done().
//
// It returns false if the case has to be abandoned (a Do hangs).
func (c *wslCase) hold(who string, dur time.Duration) bool {
	var stopping []int
	before := c.snapshot()
	for i, in := range before {
		if in.saw.Load() && !in.exited.Load() {
			stopping = append(stopping, i)
		}
	}
	res := make(chan func(), 1)
	go func() { res <- c.w.Do(c.fn) }()
	var done func()
	select {
	case done = <-res:
	case <-time.After(c.wind0 + 4*wslHang):
		c.monitor("%s: Do did not return within %v (hang)", who, c.wind0+4*wslHang)
		return false
	}
	for _, i := range stopping {
		if !before[i].exited.Load() {
			c.monitor("%s: Do, invoked after instance %d had seen its stop channel closed, returned while that instance was still running (it must wait for the stopping instance to exit)", who, i)
		}
	}
	if len(stopping) > 0 {
		c.h.count("c17slow_do_during_wind_down", 1)
	}
	if done == nil {
		c.monitor("%s: Do returned a nil done function", who)
		return false
	}
	// the instance this holder keeps alive: the one that is running with its stop channel open
	var mine *wslInst
	mineIdx := -1
	for t0 := time.Now(); mine == nil; {
		for i, in := range c.snapshot() {
			if in.live() {
				mine, mineIdx = in, i
			}
		}
		if mine == nil {
			if time.Since(t0) > wslHang {
				c.monitor("%s: Do returned but within %v no instance is running with an open stop channel (no fresh instance was started)", who, wslHang)
				break
			}
			time.Sleep(200 * time.Microsecond)
		}
	}
	if mine != nil {
		check := func(when string) bool {
			if !mine.live() {
				c.monitor("%s: %s, before this holder's done(), instance %d is no longer running with an open stop channel (exited=%v)", who, when, mineIdx, mine.exited.Load())
				return false
			}
			return true
		}
		for t0 := time.Now(); time.Since(t0) < dur; time.Sleep(dur/8 + 50*time.Microsecond) {
			if !check("while held") {
				break
			}
		}
		check("at the end of the hold")
	}
	done()
	return true
}

func wslRun(h *hctx, id int, wg *sync.WaitGroup) {
	defer wg.Done()
	c := &wslCase{h: h, id: fmt.Sprintf("slow-%d-%d", h.seed, id), w: new(Worker)}
	// everything random is drawn here, in the scenario's goroutine (h.rng is not safe for concurrent use)
	c.wind0 = wslWind[id%len(wslWind)]
	c.wind0 += time.Duration(h.rng.Int63n(int64(c.wind0/8) + 1))
	for i := 0; i < 4; i++ {
		c.windN = append(c.windN, time.Duration(2+h.rng.Intn(60))*time.Millisecond)
	}
	firstHold := time.Duration(1+h.rng.Intn(30)) * time.Millisecond
	nlate := 1 + h.rng.Intn(3)
	type late struct {
		offset time.Duration   // how long after instance 0 saw stop the holder's first Do is invoked
		holds  []time.Duration // one or two Do..done rounds
		gaps   []time.Duration
	}
	lates := make([]late, nlate)
	for i := range lates {
		span := c.wind0 / 2
		if i == 0 && span > 150*time.Millisecond {
			span = 150 * time.Millisecond // at least one Do arrives early in the wind-down
		}
		lates[i].offset = time.Duration(h.rng.Int63n(int64(span) + 1))
		for r, rounds := 0, 1+h.rng.Intn(2); r < rounds; r++ {
			lates[i].holds = append(lates[i].holds, time.Duration(5+h.rng.Intn(120))*time.Millisecond)
			lates[i].gaps = append(lates[i].gaps, time.Duration(h.rng.Intn(40))*time.Millisecond)
		}
	}
	wg.Add(1)
	go func() {
		defer wg.Done()
		h.count("c17slow_cases", 1)
		// first holder: starts instance 0, holds it briefly, lets go: instance 0 is told to stop and winds down
		if !c.hold("first holder", firstHold) {
			return
		}
		for t0 := time.Now(); ; time.Sleep(200 * time.Microsecond) {
			if l := c.snapshot(); len(l) > 0 && l[0].saw.Load() {
				break
			}
			// clause "every started instance is stopped once nobody holds it"
			if time.Since(t0) > wslHang {
				c.monitor("nobody holds the worker but the first instance was not told to stop within %v", wslHang)
				return
			}
		}
		// Dos arriving while instance 0 winds down
		var lw sync.WaitGroup
		for i, l := range lates {
			lw.Add(1)
			go func(i int, l late) {
				defer lw.Done()
				time.Sleep(l.offset)
				for r := range l.holds {
					if !c.hold(fmt.Sprintf("late holder %d round %d", i, r), l.holds[r]) {
						return
					}
					time.Sleep(l.gaps[r])
				}
			}(i, l)
		}
		lw.Wait()
		if c.monitors.Load() > 0 {
			return
		}
		// clause "every started instance is stopped once nobody holds it": every done function has been called
		for t0 := time.Now(); ; time.Sleep(500 * time.Microsecond) {
			open := -1
			l := c.snapshot()
			for i, in := range l {
				select {
				case <-in.stop:
				default:
					open = i
				}
			}
			if open < 0 {
				h.count("c17slow_instances", len(l))
				if len(l) >= 2 {
					h.count("c17slow_cases_with_restart", 1)
				}
				break
			}
			if time.Since(t0) > wslHang {
				c.monitor("every done function has been called but the stop channel of instance %d (of %d started) was not closed within %v", open, len(l), wslHang)
				return
			}
		}
		// let the last instance return (the overlap monitor stays armed meanwhile), then the Worker must be usable again
		for t0 := time.Now(); c.running.Load() != 0; time.Sleep(500 * time.Microsecond) {
			if time.Since(t0) > c.wind0+wslHang {
				return
			}
		}
		c.hold("final holder", time.Millisecond)
	}()
}

func init() {
	// C17SLOW (monitor only): instance functions that take 30 ms .. 3.6 s to return after their stop channel is closed, and one to
	// three callers whose Do arrives during that wind-down. Clauses of C17 checked (see hold and fn): never two instances
	// running at once; a Do that arrives while an instance is stopping returns only after that instance exited, and a fresh
	// instance is started; from Do's return until done() an instance is running whose stop channel is open; every started
	// instance is told to stop once every done function has been called.
	register("C17SLOW", func(h *hctx) {
		var wg sync.WaitGroup
		for i := 0; i < h.n && i < wslMaxInst; i++ {
			wg.Add(1)
			wslRun(h, i, &wg)
		}
		wg.Wait()
	})
}
