//go:build verif

package bigbuff

// C15TYPES — Notifier.Publish over a zoo of VALUE TYPES x ELEMENT TYPES (monitor-only).  Prompted by a seeded "cheaper eligibility
// test" change (identical type, or an interface the value implements, instead of assignability): C15K1 knows six plain element
// types and a hand-written compat table in which "eligible" and "identical type or implemented interface" coincide.
//
// Clauses of C15 checked:
//   * "Publish(key, v) delivers v exactly once to every subscription ... whose channel element type accepts v": a channel of
//     element type T accepts v when v can be sent on it, i.e. (Go spec, "Send statements"/"Assignability") when v is assignable to
//     T.  That is more than "same type": a value of an unnamed type is accepted by a named element type with the identical
//     underlying type and vice versa (func() -> chan context.CancelFunc, []byte -> chan json.RawMessage-alikes, struct/map/pointer
//     /array literals), a bidirectional channel value by a directional element type, any value by an interface element type it
//     implements (named, unnamed, with embedded interfaces, any, error — also a typed nil pointer, which stays a typed nil), and
//     the untyped nil by every element type that has a nil (delivered as that type's nil).
//     The oracle is Go's own definition: reflect.TypeOf(v).AssignableTo(T), computed here; a few dozen pairs are ALSO labelled by
//     hand below (c15tKnown, most of them checked by the compiler through the declarations next to them) and the oracle is checked
//     against them first, so a wrong oracle cannot pass silently.
//   * "subscriptions ... with incompatible element types receive nothing": the non-assignable neighbours — a named type to a
//     DIFFERENT named type with the same underlying type, int to int64 (convertible is not assignable), a value that does not
//     implement the interface, a named bidirectional channel to a named directional one, a typed nil to another nilable type.
//   * "delivers v": what arrives is v (same function / channel / map / slice memory / pointer, equal comparable value, dynamic type
//     preserved inside interface element types).
//   * "returns only when each of them has ... received v": every eligible target can take the value (buffered with room, or a
//     receiver is parked on it), so Publish must return (3 s = hang), without panicking.
// Not demanded: any order of delivery.  All deliveries are collected after Publish returned (a correct Publish has completed all
// of its sends by then), so there is no negative waiting.

import (
	"context"
	"errors"
	"fmt"
	"reflect"
	"sync"
	"time"
	"unsafe"
)

type (
	c15tFn     func()
	c15tFn2    func()
	c15tBytes  []byte
	c15tBytes2 []byte
	c15tMap    map[string]int
	c15tMap2   map[string]int
	c15tStruct struct {
		A int
		B string
	}
	c15tStruct2 struct {
		A int
		B string
	}
	c15tIntPtr   *int
	c15tInt      int
	c15tInt2     int
	c15tArr      [2]int
	c15tChan     chan int
	c15tRecvChan <-chan int
	c15tSendChan chan<- int
	c15tStringer interface{ String() string }
	// c15tErrStringer embeds two interfaces
	c15tErrStringer interface {
		error
		c15tStringer
	}
	// c15tTagged: an interface with an unexported method
	c15tTagged interface{ c15tTag() int }
)

// c15tImpl implements error, c15tStringer, c15tErrStringer and c15tTagged with value receivers (so *c15tImpl does, too).
type c15tImpl struct{ id int }

func (v c15tImpl) Error() string  { return "impl" }
func (v c15tImpl) String() string { return "impl" }
func (v c15tImpl) c15tTag() int   { return v.id }

// c15tPErr implements error with a pointer receiver only: *c15tPErr is an error, c15tPErr is not.
type c15tPErr struct{ id int }

func (v *c15tPErr) Error() string { return "perr" }

// c15tStr has String() only: a c15tStringer, not an error.
type c15tStr string

func (v c15tStr) String() string { return string(v) }

// What the compiler says about some of the pairs used below (these declarations would not compile otherwise).
var (
	_ context.CancelFunc = (func())(nil)
	_ func()             = context.CancelFunc(nil)
	_ c15tFn             = (func())(nil)
	_ <-chan int         = (chan int)(nil)
	_ chan<- int         = (chan int)(nil)
	_ c15tRecvChan       = (chan int)(nil)
	_ <-chan int         = c15tChan(nil)
	_ c15tBytes          = []byte(nil)
	_ []byte             = c15tBytes(nil)
	_ c15tMap            = map[string]int(nil)
	_ c15tStruct         = struct {
		A int
		B string
	}{}
	_ struct {
		A int
		B string
	} = c15tStruct{}
	_ c15tIntPtr                   = (*int)(nil)
	_ c15tArr                      = [2]int{}
	_ error                        = (*c15tPErr)(nil)
	_ c15tErrStringer              = c15tImpl{}
	_ interface{ String() string } = c15tStr("")
)

func c15tTypeOf[T any]() reflect.Type { return reflect.TypeOf((*T)(nil)).Elem() }

// element types of the target channels
var c15tElems = []reflect.Type{
	c15tTypeOf[any](),
	c15tTypeOf[error](),
	c15tTypeOf[c15tStringer](),
	c15tTypeOf[interface{ String() string }](),
	c15tTypeOf[c15tErrStringer](),
	c15tTypeOf[c15tTagged](),
	c15tTypeOf[fmt.Stringer](),
	c15tTypeOf[func()](),
	c15tTypeOf[context.CancelFunc](),
	c15tTypeOf[c15tFn](),
	c15tTypeOf[c15tFn2](),
	c15tTypeOf[func() int](),
	c15tTypeOf[chan int](),
	c15tTypeOf[<-chan int](),
	c15tTypeOf[chan<- int](),
	c15tTypeOf[c15tChan](),
	c15tTypeOf[c15tRecvChan](),
	c15tTypeOf[c15tSendChan](),
	c15tTypeOf[<-chan any](),
	c15tTypeOf[[]byte](),
	c15tTypeOf[c15tBytes](),
	c15tTypeOf[c15tBytes2](),
	c15tTypeOf[[]int](),
	c15tTypeOf[map[string]int](),
	c15tTypeOf[c15tMap](),
	c15tTypeOf[c15tMap2](),
	c15tTypeOf[struct {
		A int
		B string
	}](),
	c15tTypeOf[c15tStruct](),
	c15tTypeOf[c15tStruct2](),
	c15tTypeOf[struct {
		A int
		C string
	}](),
	c15tTypeOf[*int](),
	c15tTypeOf[c15tIntPtr](),
	c15tTypeOf[*c15tInt](),
	c15tTypeOf[*c15tStruct](),
	c15tTypeOf[*struct {
		A int
		B string
	}](),
	c15tTypeOf[*c15tPErr](),
	c15tTypeOf[c15tPErr](),
	c15tTypeOf[c15tImpl](),
	c15tTypeOf[*c15tImpl](),
	c15tTypeOf[int](),
	c15tTypeOf[int64](),
	c15tTypeOf[c15tInt](),
	c15tTypeOf[c15tInt2](),
	c15tTypeOf[string](),
	c15tTypeOf[c15tStr](),
	c15tTypeOf[[2]int](),
	c15tTypeOf[c15tArr](),
	c15tTypeOf[[3]int](),
	c15tTypeOf[unsafe.Pointer](),
	c15tTypeOf[uintptr](),
}

// c15tVal: a value to publish; mk makes a fresh one for a tag together with the test "is what arrived (already unwrapped from an
// interface element and of the value's own dynamic type or of an assignable element type) that very value".
type c15tVal struct {
	name string
	mk   func(tag int) (v interface{}, same func(got reflect.Value) bool)
}

// c15tCall: got is a func() of some type; calling it must bump *hit.
func c15tCall(got reflect.Value, hit *int) bool {
	if got.Kind() != reflect.Func || got.IsNil() {
		return false
	}
	before := *hit
	got.Call(nil)
	return *hit == before+1
}

func c15tSamePointer(p uintptr) func(got reflect.Value) bool {
	return func(got reflect.Value) bool {
		switch got.Kind() {
		case reflect.Chan, reflect.Map, reflect.Ptr, reflect.Slice, reflect.UnsafePointer, reflect.Func:
			return got.Pointer() == p
		}
		return false
	}
}

func c15tSameSlice(p uintptr, n int) func(got reflect.Value) bool {
	return func(got reflect.Value) bool {
		return got.Kind() == reflect.Slice && got.Pointer() == p && got.Len() == n
	}
}

// c15tEqual: comparable values; got may have a different (assignable, hence convertible) type.
func c15tEqual(want interface{}) func(got reflect.Value) bool {
	wt := reflect.TypeOf(want)
	return func(got reflect.Value) (ok bool) {
		defer func() {
			if recover() != nil {
				ok = false
			}
		}()
		if !got.Type().ConvertibleTo(wt) {
			return false
		}
		return got.Convert(wt).Interface() == want
	}
}

func c15tNilOf(got reflect.Value) bool {
	switch got.Kind() {
	case reflect.Chan, reflect.Map, reflect.Ptr, reflect.Slice, reflect.UnsafePointer, reflect.Func, reflect.Interface:
		return got.IsNil()
	}
	return false
}

var c15tVals = []c15tVal{
	{"nil", func(tag int) (interface{}, func(reflect.Value) bool) { return nil, c15tNilOf }},
	{"func()", func(tag int) (interface{}, func(reflect.Value) bool) {
		hit := new(int)
		return func() { *hit++ }, func(got reflect.Value) bool { return c15tCall(got, hit) }
	}},
	{"context.CancelFunc", func(tag int) (interface{}, func(reflect.Value) bool) {
		hit := new(int)
		return context.CancelFunc(func() { *hit++ }), func(got reflect.Value) bool { return c15tCall(got, hit) }
	}},
	{"c15tFn", func(tag int) (interface{}, func(reflect.Value) bool) {
		hit := new(int)
		return c15tFn(func() { *hit++ }), func(got reflect.Value) bool { return c15tCall(got, hit) }
	}},
	{"(func())(nil)", func(tag int) (interface{}, func(reflect.Value) bool) { return (func())(nil), c15tNilOf }},
	{"chan int", func(tag int) (interface{}, func(reflect.Value) bool) {
		c := make(chan int)
		return c, c15tSamePointer(reflect.ValueOf(c).Pointer())
	}},
	{"c15tChan", func(tag int) (interface{}, func(reflect.Value) bool) {
		c := make(c15tChan)
		return c, c15tSamePointer(reflect.ValueOf(c).Pointer())
	}},
	{"<-chan int", func(tag int) (interface{}, func(reflect.Value) bool) {
		c := make(chan int)
		return (<-chan int)(c), c15tSamePointer(reflect.ValueOf(c).Pointer())
	}},
	{"chan<- int", func(tag int) (interface{}, func(reflect.Value) bool) {
		c := make(chan int)
		return (chan<- int)(c), c15tSamePointer(reflect.ValueOf(c).Pointer())
	}},
	{"c15tRecvChan", func(tag int) (interface{}, func(reflect.Value) bool) {
		c := make(chan int)
		return c15tRecvChan(c), c15tSamePointer(reflect.ValueOf(c).Pointer())
	}},
	{"[]byte", func(tag int) (interface{}, func(reflect.Value) bool) {
		b := []byte(fmt.Sprintf("{%d}", tag))
		return b, c15tSameSlice(reflect.ValueOf(b).Pointer(), len(b))
	}},
	{"c15tBytes", func(tag int) (interface{}, func(reflect.Value) bool) {
		b := c15tBytes(fmt.Sprintf("[%d]", tag))
		return b, c15tSameSlice(reflect.ValueOf(b).Pointer(), len(b))
	}},
	{"([]byte)(nil)", func(tag int) (interface{}, func(reflect.Value) bool) { return ([]byte)(nil), c15tNilOf }},
	{"map[string]int", func(tag int) (interface{}, func(reflect.Value) bool) {
		m := map[string]int{"t": tag}
		return m, c15tSamePointer(reflect.ValueOf(m).Pointer())
	}},
	{"c15tMap", func(tag int) (interface{}, func(reflect.Value) bool) {
		m := c15tMap{"t": tag}
		return m, c15tSamePointer(reflect.ValueOf(m).Pointer())
	}},
	{"struct{A;B}", func(tag int) (interface{}, func(reflect.Value) bool) {
		v := struct {
			A int
			B string
		}{tag, "u"}
		return v, c15tEqual(v)
	}},
	{"c15tStruct", func(tag int) (interface{}, func(reflect.Value) bool) {
		v := c15tStruct{tag, "n"}
		return v, c15tEqual(v)
	}},
	{"*int", func(tag int) (interface{}, func(reflect.Value) bool) {
		p := new(int)
		return p, c15tSamePointer(reflect.ValueOf(p).Pointer())
	}},
	{"c15tIntPtr", func(tag int) (interface{}, func(reflect.Value) bool) {
		p := new(int)
		return c15tIntPtr(p), c15tSamePointer(reflect.ValueOf(p).Pointer())
	}},
	{"(*int)(nil)", func(tag int) (interface{}, func(reflect.Value) bool) { return (*int)(nil), c15tNilOf }},
	{"*c15tStruct", func(tag int) (interface{}, func(reflect.Value) bool) {
		p := &c15tStruct{A: tag}
		return p, c15tSamePointer(reflect.ValueOf(p).Pointer())
	}},
	{"*struct{A;B}", func(tag int) (interface{}, func(reflect.Value) bool) {
		p := &struct {
			A int
			B string
		}{A: tag}
		return p, c15tSamePointer(reflect.ValueOf(p).Pointer())
	}},
	{"*c15tPErr", func(tag int) (interface{}, func(reflect.Value) bool) {
		p := &c15tPErr{id: tag}
		return p, c15tSamePointer(reflect.ValueOf(p).Pointer())
	}},
	{"(*c15tPErr)(nil)", func(tag int) (interface{}, func(reflect.Value) bool) { return (*c15tPErr)(nil), c15tNilOf }},
	{"c15tPErr", func(tag int) (interface{}, func(reflect.Value) bool) {
		v := c15tPErr{id: tag}
		return v, c15tEqual(v)
	}},
	{"c15tImpl", func(tag int) (interface{}, func(reflect.Value) bool) {
		v := c15tImpl{id: tag}
		return v, c15tEqual(v)
	}},
	{"*c15tImpl", func(tag int) (interface{}, func(reflect.Value) bool) {
		p := &c15tImpl{id: tag}
		return p, c15tSamePointer(reflect.ValueOf(p).Pointer())
	}},
	{"(*c15tImpl)(nil)", func(tag int) (interface{}, func(reflect.Value) bool) { return (*c15tImpl)(nil), c15tNilOf }},
	{"errors.New", func(tag int) (interface{}, func(reflect.Value) bool) {
		e := errors.New("e")
		return e, c15tSamePointer(reflect.ValueOf(e).Pointer())
	}},
	{"int", func(tag int) (interface{}, func(reflect.Value) bool) { return tag, c15tEqual(tag) }},
	{"int64", func(tag int) (interface{}, func(reflect.Value) bool) { return int64(tag), c15tEqual(int64(tag)) }},
	{"c15tInt", func(tag int) (interface{}, func(reflect.Value) bool) { return c15tInt(tag), c15tEqual(c15tInt(tag)) }},
	{"string", func(tag int) (interface{}, func(reflect.Value) bool) {
		s := fmt.Sprint("s", tag)
		return s, c15tEqual(s)
	}},
	{"c15tStr", func(tag int) (interface{}, func(reflect.Value) bool) {
		s := c15tStr(fmt.Sprint("n", tag))
		return s, c15tEqual(s)
	}},
	{"[2]int", func(tag int) (interface{}, func(reflect.Value) bool) {
		return [2]int{tag, 1}, c15tEqual([2]int{tag, 1})
	}},
	{"c15tArr", func(tag int) (interface{}, func(reflect.Value) bool) {
		return c15tArr{tag, 2}, c15tEqual(c15tArr{tag, 2})
	}},
	{"unsafe.Pointer", func(tag int) (interface{}, func(reflect.Value) bool) {
		p := new(int)
		return unsafe.Pointer(p), c15tSamePointer(uintptr(unsafe.Pointer(p)))
	}},
}

// c15tAccepts is the oracle: may v be sent on a channel of element type elem.  Untyped nil: elem has a nil value.
func c15tAccepts(v interface{}, elem reflect.Type) bool {
	if v == nil {
		switch elem.Kind() {
		case reflect.Chan, reflect.Func, reflect.Interface, reflect.Map, reflect.Ptr, reflect.Slice, reflect.UnsafePointer:
			return true
		}
		return false
	}
	return reflect.TypeOf(v).AssignableTo(elem)
}

// c15tKnown: pairs labelled by hand (Go spec, "Assignability"); the `true` ones appear in the compiled declarations above.
var c15tKnown = []struct {
	v    interface{}
	elem reflect.Type
	want bool
}{
	{(func())(nil), c15tTypeOf[context.CancelFunc](), true},
	{context.CancelFunc(nil), c15tTypeOf[func()](), true},
	{(func())(nil), c15tTypeOf[c15tFn](), true},
	{c15tFn(nil), c15tTypeOf[c15tFn2](), false},
	{c15tFn(nil), c15tTypeOf[context.CancelFunc](), false},
	{(func())(nil), c15tTypeOf[func() int](), false},
	{(chan int)(nil), c15tTypeOf[<-chan int](), true},
	{(chan int)(nil), c15tTypeOf[chan<- int](), true},
	{(chan int)(nil), c15tTypeOf[c15tRecvChan](), true},
	{c15tChan(nil), c15tTypeOf[<-chan int](), true},
	{c15tChan(nil), c15tTypeOf[c15tRecvChan](), false},
	{c15tChan(nil), c15tTypeOf[chan int](), true},
	{(<-chan int)(nil), c15tTypeOf[chan int](), false},
	{(<-chan int)(nil), c15tTypeOf[chan<- int](), false},
	{(chan int)(nil), c15tTypeOf[<-chan any](), false},
	{[]byte(nil), c15tTypeOf[c15tBytes](), true},
	{c15tBytes(nil), c15tTypeOf[[]byte](), true},
	{c15tBytes(nil), c15tTypeOf[c15tBytes2](), false},
	{[]byte(nil), c15tTypeOf[[]int](), false},
	{map[string]int(nil), c15tTypeOf[c15tMap](), true},
	{c15tMap(nil), c15tTypeOf[c15tMap2](), false},
	{struct {
		A int
		B string
	}{}, c15tTypeOf[c15tStruct](), true},
	{c15tStruct{}, c15tTypeOf[struct {
		A int
		B string
	}](), true},
	{c15tStruct{}, c15tTypeOf[c15tStruct2](), false},
	{c15tStruct{}, c15tTypeOf[struct {
		A int
		C string
	}](), false},
	{(*int)(nil), c15tTypeOf[c15tIntPtr](), true},
	{(*int)(nil), c15tTypeOf[*c15tInt](), false},
	{(*c15tStruct)(nil), c15tTypeOf[*struct {
		A int
		B string
	}](), false},
	{[2]int{}, c15tTypeOf[c15tArr](), true},
	{[2]int{}, c15tTypeOf[[3]int](), false},
	{0, c15tTypeOf[int64](), false},
	{0, c15tTypeOf[c15tInt](), false},
	{c15tInt(0), c15tTypeOf[c15tInt2](), false},
	{c15tInt(0), c15tTypeOf[int](), false},
	{"", c15tTypeOf[c15tStr](), false},
	{(*c15tPErr)(nil), c15tTypeOf[error](), true},
	{c15tPErr{}, c15tTypeOf[error](), false},
	{c15tImpl{}, c15tTypeOf[c15tErrStringer](), true},
	{c15tImpl{}, c15tTypeOf[c15tTagged](), true},
	{(*c15tImpl)(nil), c15tTypeOf[c15tErrStringer](), true},
	{c15tStr(""), c15tTypeOf[interface{ String() string }](), true},
	{c15tStr(""), c15tTypeOf[fmt.Stringer](), true},
	{c15tStr(""), c15tTypeOf[error](), false},
	{c15tStr(""), c15tTypeOf[c15tErrStringer](), false},
	{"", c15tTypeOf[c15tStringer](), false},
	{0, c15tTypeOf[any](), true},
	{nil, c15tTypeOf[unsafe.Pointer](), true},
	{nil, c15tTypeOf[c15tFn](), true},
	{nil, c15tTypeOf[c15tSendChan](), true},
	{nil, c15tTypeOf[error](), true},
	{nil, c15tTypeOf[uintptr](), false},
	{nil, c15tTypeOf[c15tStruct](), false},
	{nil, c15tTypeOf[[2]int](), false},
	{nil, c15tTypeOf[string](), false},
	{(*int)(nil), c15tTypeOf[[]byte](), false},
	{(*int)(nil), c15tTypeOf[unsafe.Pointer](), false},
	{(*int)(nil), c15tTypeOf[error](), false},
}

type c15tSub struct {
	elem     reflect.Type
	target   reflect.Value
	eligible bool
	parked   bool // unbuffered, with a harness receiver parked on it
	cancel   context.CancelFunc
	got      []reflect.Value
}

func init() {
	register("C15TYPES", func(h *hctx) {
		for _, k := range c15tKnown {
			if c15tAccepts(k.v, k.elem) != k.want {
				// not a property violation: the harness's oracle disagrees with the hand-labelled table
				panic(fmt.Sprintf("C15TYPES oracle: value of type %T accepted by element type %v: oracle says %v, table says %v", k.v, k.elem, !k.want, k.want))
			}
		}
		for i := 0; i < h.n; i++ {
			if !c15TypesCase(h, i) {
				return // a publish is stuck
			}
		}
	})
}

// c15TypesCase: value kind and one element type are enumerated by the case number (every pair is visited every
// len(c15tVals)*len(c15tElems) cases); 0-4 further subscriptions, preferably of element types related to the value.
func c15TypesCase(h *hctx, id int) bool {
	nv, ne := len(c15tVals), len(c15tElems)
	vk := c15tVals[id%nv]
	v, same := vk.mk(id)
	var vt reflect.Type
	if v != nil {
		vt = reflect.TypeOf(v)
	}
	related := func(e reflect.Type) bool {
		if e.Kind() == reflect.Interface {
			return true
		}
		if vt == nil {
			return true
		}
		return e.Kind() == vt.Kind()
	}
	elems := []reflect.Type{c15tElems[(id/nv)%ne]}
	for k := h.rng.Intn(5); k > 0; k-- {
		e := c15tElems[h.rng.Intn(ne)]
		for try := 0; try < 6 && !related(e) && h.rng.Intn(4) != 0; try++ {
			e = c15tElems[h.rng.Intn(ne)]
		}
		elems = append(elems, e)
	}
	h.rng.Shuffle(len(elems), func(a, b int) { elems[a], elems[b] = elems[b], elems[a] })

	var n Notifier
	key := interface{}(id)
	var wg sync.WaitGroup
	var mu sync.Mutex
	stop := make(chan struct{})
	subs := make([]*c15tSub, len(elems))
	for i, e := range elems {
		s := &c15tSub{elem: e, eligible: c15tAccepts(v, e), parked: h.rng.Intn(2) == 0}
		if s.parked {
			s.target = reflect.MakeChan(reflect.ChanOf(reflect.BothDir, e), 0)
			wg.Add(1)
			go func() {
				defer wg.Done()
				cases := []reflect.SelectCase{
					{Dir: reflect.SelectRecv, Chan: s.target},
					{Dir: reflect.SelectRecv, Chan: reflect.ValueOf(stop)},
				}
				for {
					i, rv, _ := reflect.Select(cases)
					if i != 0 {
						return
					}
					mu.Lock()
					s.got = append(s.got, rv)
					mu.Unlock()
				}
			}()
		} else {
			s.target = reflect.MakeChan(reflect.ChanOf(reflect.BothDir, e), 2) // room for a duplicate, so that it shows
		}
		if h.rng.Intn(3) == 0 {
			var ctx context.Context
			ctx, s.cancel = context.WithCancel(context.Background())
			n.SubscribeContext(ctx, key, s.target.Interface())
		} else {
			n.Subscribe(key, s.target.Interface())
		}
		subs[i] = s
	}
	// the same targets' neighbours under another key never get anything (one bystander)
	by := reflect.MakeChan(reflect.ChanOf(reflect.BothDir, elems[0]), 1)
	n.Subscribe([2]int{id, 1}, by.Interface())

	var pubCtx context.Context
	if h.rng.Intn(3) == 0 {
		var cancel context.CancelFunc
		pubCtx, cancel = context.WithCancel(context.Background())
		defer cancel()
	}
	done := make(chan interface{}, 1)
	go func() {
		defer func() { done <- recover() }()
		if pubCtx != nil {
			n.PublishContext(pubCtx, key, v)
		} else {
			n.Publish(key, v)
		}
	}()
	desc := func() string {
		l := ""
		for _, s := range subs {
			l += fmt.Sprintf(" chan %v", s.elem)
			if s.eligible {
				l += "(+)"
			}
		}
		return fmt.Sprintf("case %d: value %s, subscribers (+ = element type accepts the value):%s", id, vk.name, l)
	}
	var panicked interface{}
	select {
	case panicked = <-done:
	case <-time.After(3 * time.Second):
		h.line("MONITOR C15 Publish did not return within 3 s although every subscriber's target was buffered with room or had a receiver parked on it (%s)", desc())
		h.count("hang", 1)
		return false
	}
	close(stop)
	wg.Wait()
	for _, s := range subs {
		if s.cancel != nil {
			s.cancel()
		}
		if !s.parked {
			for {
				rv, ok := s.target.TryRecv()
				if !ok {
					break
				}
				s.got = append(s.got, rv)
			}
		}
	}
	h.count("cases", 1)
	if panicked != nil {
		h.line("MONITOR C15 Publish panicked (%.160v) (%s)", panicked, desc())
		h.count("panic", 1)
		return true
	}
	if _, ok := by.TryRecv(); ok {
		h.line("MONITOR C15 a subscription under another key received a value (%s)", desc())
	}
	for _, s := range subs {
		identical := vt != nil && vt == s.elem
		switch {
		case s.eligible && identical:
			h.count("eligible_identical_type", 1)
		case s.eligible && vt == nil:
			h.count("eligible_untyped_nil", 1)
		case s.eligible && s.elem.Kind() == reflect.Interface:
			h.count("eligible_interface", 1)
		case s.eligible:
			h.count("eligible_assignable_not_identical", 1)
		case vt != nil && vt.ConvertibleTo(s.elem):
			h.count("ineligible_but_convertible", 1)
		default:
			h.count("ineligible", 1)
		}
		how := "buffered target"
		if s.parked {
			how = "unbuffered target with a parked receiver"
		}
		switch {
		case s.eligible && len(s.got) == 0:
			h.line("MONITOR C15 Publish returned but a subscription whose element type accepts the value received nothing: value %s -> chan %v (%s; a %s can be sent on a chan %v: Go assignability) (%s)",
				vk.name, s.elem, how, vk.name, s.elem, desc())
			h.count("missed", 1)
		case s.eligible && len(s.got) > 1:
			h.line("MONITOR C15 a subscription received the value %d times from one publish: value %s -> chan %v (%s) (%s)", len(s.got), vk.name, s.elem, how, desc())
		case !s.eligible && len(s.got) > 0:
			h.line("MONITOR C15 a subscription with an incompatible element type received something: value %s -> chan %v (%s; not assignable) (%s)", vk.name, s.elem, how, desc())
		case s.eligible:
			got := s.got[0]
			if s.elem.Kind() == reflect.Interface && v != nil {
				// the interface holds the value with its own dynamic type (a typed nil stays a typed nil: the interface is not nil)
				if got.IsNil() || got.Elem().Type() != vt {
					h.line("MONITOR C15 the value delivered on a chan %v does not hold the published value's dynamic type %s (%s)", s.elem, vk.name, desc())
					continue
				}
				got = got.Elem()
			}
			ok := func() (ok bool) {
				defer func() {
					if recover() != nil {
						ok = false
					}
				}()
				return same(got)
			}()
			if !ok {
				h.line("MONITOR C15 the value delivered on a chan %v is not the published value %s (%s)", s.elem, vk.name, desc())
			}
		}
	}
	return true
}
