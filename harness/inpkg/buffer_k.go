//go:build verif

package bigbuff

import (
	"context"
	"fmt"
	"runtime"
	"sync"
	"time"
)

// Buffer scenarios (properties C01 C02 C03 C04 C05 C12). Encoding shared with checker/ad_buffer.ml:
//   cfg:  kind max target      kind 0 Default | 1 Fixed(max,target) | 2 "all" (returns size+5) | 3 "none" (returns -3)
//   ops:  0 n v.. Put | 1 n v.. PutCancelled | 2 New | 3 c Get | 4 c GetCancelled | 5 c Commit | 6 c Rollback | 7 c Diff
//         8 Size | 9 Slice | 10 c CloseC | 11 CloseB | 12 c DoneC | 13 DoneB | 14 Settled | 15 c ProbeGet
//         16 c ProbeCloseC | 17 ProbeCloseB | 100 c bounded n script.. Range (script: 0 true | 1 false | 2 panic | 1000+v put v, true)
//   outs: 0 v RVal | 1 REmpty | 2 RErr | 3 ROk | 4 c RId | 5 RBlocked | 6 n ok RDiff | 7 n RInt | 8 n v.. RBuf | 9 b RBool
//         100 end n v..  Range result (end: 0 nil | 1 err | 2 panic)

type bufOp struct {
	inv, ret int
	op, out  []int
	done     chan struct{}
	frozen   bool // the harness has already logged this call as blocked; its late return is not recorded
}

type bufRun struct {
	h         *hctx
	b         *Buffer
	cons      []Consumer
	mu        sync.Mutex
	ops       []*bufOp
	pendGet   map[int]*bufOp // consumer -> pending Get
	getStop   map[int]context.CancelFunc
	pendClC   map[int]*bufOp
	pendOther map[int]int // operations issued on a consumer while one of its Gets is parked (they wait for its mutex)
	pendOps   map[int][]*bufOp
	batch     []interface{} // caller-owned batch slice reused across Puts
	pendClB   *bufOp
	nextVal   int
	delta     []int // harness-side belief of uncommitted reads (heuristic for generation only)
	closedC   []bool
	closedB   bool
	settleMs  int
}

func valsOut(kind int, l []interface{}) []int {
	r := []int{kind, len(l)}
	for _, v := range l {
		if v == nil {
			r = append(r, -1)
			continue
		}
		r = append(r, v.(int))
	}
	return r
}

func newBufRun(h *hctx, kind, mx, tg int, cooldown time.Duration) *bufRun {
	var b *Buffer
	var cl Cleaner
	switch kind {
	case 0:
		cl = DefaultCleaner
	case 1:
		cl = FixedBufferCleaner(mx, tg, nil)
	case 2:
		cl = func(size int, _ []int) int { return size + 5 }
	default:
		cl = func(int, []int) int { return -3 }
	}
	// The configuration is installed before first use (in-package literal), so that the cleaner goroutine never runs a
	// first cycle with the DEFAULT 10 ms cooldown: with new(Buffer) + SetCleanerConfig it may, and then defers all
	// cleaning for 10 ms, which the scenarios (a few ms long) would have to wait out before every settled observation.
	b = new(Buffer) // the configuration is in place before first use (field `cleaner`, the only *CleanerConfig)
	*fld[*CleanerConfig](b, "cleaner") = &CleanerConfig{Cleaner: cl, Cooldown: cooldown}
	if h.rng.Intn(4) == 0 {
		// also exercise the public path
		if err := b.SetCleanerConfig(CleanerConfig{Cleaner: cl, Cooldown: cooldown}); err != nil {
			h.t.Fatal(err)
		}
	}
	return &bufRun{h: h, b: b, pendGet: map[int]*bufOp{}, getStop: map[int]context.CancelFunc{}, pendClC: map[int]*bufOp{},
		pendOther: map[int]int{}, pendOps: map[int][]*bufOp{},
		nextVal: 1}
}

// exec runs f as one logged operation. If it does not return quickly the harness waits for quiescence and, if it is
// still blocked, leaves it pending (ret is filled in by the goroutine when it eventually returns).
func (r *bufRun) exec(op []int, f func() []int) *bufOp {
	return r.execO(op, func(*bufOp) []int { return f() })
}

func (r *bufRun) execO(op []int, f func(o *bufOp) []int) *bufOp {
	o := &bufOp{inv: tick(), ret: -1, op: op, done: make(chan struct{})}
	r.mu.Lock()
	r.ops = append(r.ops, o)
	r.mu.Unlock()
	go func() {
		var out []int
		func() {
			defer func() {
				if p := recover(); p != nil {
					out = []int{98} // a panic escaped the library: no model result is encoded as 98
					r.h.count("library_panic", 1)
				}
			}()
			out = f(o)
		}()
		r.mu.Lock()
		if !o.frozen {
			o.out = out
			o.ret = tick()
		}
		r.mu.Unlock()
		close(o.done)
	}()
	select {
	case <-o.done:
		return o
	case <-time.After(400 * time.Microsecond):
	}
	quiesce(150*time.Microsecond, 2*time.Second)
	return o
}

// freeze logs a call that is still blocked as having produced `out` now; false if it has returned meanwhile.
func (r *bufRun) freeze(o *bufOp, out []int) bool {
	r.mu.Lock()
	defer r.mu.Unlock()
	if o.ret >= 0 {
		return false
	}
	o.out = out
	o.ret = tick()
	o.frozen = true
	return true
}

func (o *bufOp) returned() bool {
	select {
	case <-o.done:
		return true
	default:
		return false
	}
}

func (r *bufRun) instant(op []int, out []int) {
	t := tick()
	r.mu.Lock()
	r.ops = append(r.ops, &bufOp{inv: t, ret: tick(), op: op, out: out})
	r.mu.Unlock()
}

func (r *bufRun) record(id string, cfg []int) {
	r.mu.Lock()
	defer r.mu.Unlock()
	parts := ""
	for i, o := range r.ops {
		if i > 0 {
			parts += " ; "
		}
		out := o.out
		if o.ret < 0 {
			out = []int{-1}
		}
		parts += fmt.Sprintf("%d %d : %s : %s", o.inv, o.ret, ints(o.op), ints(out))
	}
	r.h.line("K2 buffer %s %s # %s", id, ints(cfg), parts)
}

func (r *bufRun) put(n int, cancelled bool) {
	// In a third of the Puts the values are passed as a caller-owned, REUSED slice with spare capacity that is
	// overwritten right after Put returns (legal for a variadic parameter): the library must have copied them.
	reuse := r.h.rng.Intn(3) == 0 && n > 0
	if r.batch == nil {
		r.batch = make([]interface{}, 0, 16)
	}
	vals := make([]interface{}, n)
	if reuse {
		vals = r.batch[:n]
	}
	op := []int{0, n}
	if cancelled {
		op[0] = 1
	}
	for i := range vals {
		if r.h.rng.Intn(12) == 0 {
			vals[i] = nil // a nil value is a value like any other (encoded as -1)
			op = append(op, -1)
			continue
		}
		vals[i] = r.nextVal
		op = append(op, r.nextVal)
		r.nextVal++
	}
	ctx := context.Background()
	if cancelled {
		c, cancel := context.WithCancel(ctx)
		cancel()
		ctx = c
	}
	r.exec(op, func() []int {
		err := r.b.Put(ctx, vals...)
		if reuse {
			for i := range r.batch[:cap(r.batch)] {
				r.batch[:cap(r.batch)][i] = -7 // never a put value: visible if the library kept the caller's memory
			}
		}
		return errOut(err)
	})
	if reuse {
		r.h.count("put_reused_caller_slice", 1)
	}
}

func (r *bufRun) newConsumer() {
	r.exec([]int{2}, func() []int {
		c, err := r.b.NewConsumer()
		if err != nil {
			return []int{2}
		}
		r.mu.Lock()
		r.cons = append(r.cons, c)
		r.delta = append(r.delta, 0)
		r.closedC = append(r.closedC, false)
		id := len(r.cons) - 1
		r.mu.Unlock()
		return []int{4, id}
	})
}

func (r *bufRun) get(c int) {
	ctx, cancel := context.WithCancel(context.Background())
	if r.h.rng.Intn(5) == 0 {
		// a context that ends by DEADLINE while the Get is parked (nobody broadcasts afterwards): it must still return
		cancel()
		ctx, cancel = context.WithTimeout(context.Background(), time.Duration(1+r.h.rng.Intn(3))*time.Millisecond)
		r.h.count("get_with_deadline", 1)
	}
	o := r.execO([]int{3, c}, func(o *bufOp) []int {
		v, err := r.cons[c].Get(ctx)
		if err != nil {
			if ctx.Err() != nil && err == ctx.Err() {
				// the harness cancelled this Get: it is logged as GetCancelled (the model's OGetCancelled)
				r.mu.Lock()
				o.op = []int{4, c}
				r.mu.Unlock()
			}
			return []int{2}
		}
		if v == nil {
			return []int{0, -1} // a value that was never put
		}
		return []int{0, v.(int)}
	})
	if !o.returned() {
		r.pendGet[c] = o
		r.getStop[c] = cancel
		r.instant([]int{15, c}, []int{9, 1}) // observed parked at a quiescent point
		// a Get observed parked has not taken effect yet: its linearization point lies after this observation
		r.mu.Lock()
		if o.ret < 0 {
			o.inv = tick()
		}
		r.mu.Unlock()
		r.h.count("get_parked", 1)
	} else {
		cancel()
		if o.out[0] == 0 {
			r.delta[c]++
			r.h.count("get_val", 1)
		} else {
			r.h.count("get_err", 1)
		}
	}
}

func (r *bufRun) sweepPending() {
	for c, o := range r.pendGet {
		if o.returned() {
			delete(r.pendGet, c)
			delete(r.pendOther, c)
			r.getStop[c]()
			delete(r.getStop, c)
			if o.out[0] == 0 {
				r.delta[c]++
			}
		}
	}
	for c, o := range r.pendClC {
		if o.returned() {
			delete(r.pendClC, c)
		}
	}
	if r.pendClB != nil && r.pendClB.returned() {
		r.pendClB = nil
	}
}

// settle waits until the workload is quiet (and any cooldown has elapsed), for observations that require the cleaner
// and the shutdown watchers to have finished.
func (r *bufRun) settle() {
	if r.settleMs > 0 {
		time.Sleep(time.Duration(r.settleMs) * time.Millisecond)
	}
	quiesce(200*time.Microsecond, 2*time.Second)
	quiesce(200*time.Microsecond, 2*time.Second)
}

func (r *bufRun) rangeOp(c int, bounded bool, script []int) {
	op := []int{100, c, boolInt(bounded), len(script)}
	op = append(op, script...)
	ctx, cancel := context.WithCancel(context.Background())
	defer cancel()
	goexit := r.h.rng.Intn(2) == 0
	o := r.exec(op, func() (out []int) {
		var visited []int
		end := 0
		// The call runs in its own goroutine: a scripted "panic" is either a panic or (half of the time) a
		// runtime.Goexit from inside the callback - the deferred rollback must treat both alike (the model's CbPanic:
		// the in-flight value is rolled back, earlier ones stay committed); with Goexit the call never returns.
		finished := make(chan struct{})
		go func() {
			defer close(finished)
			defer func() {
				if p := recover(); p != nil {
					end = 2
				}
			}()
			completed := false
			defer func() {
				if !completed {
					end = 2
				}
			}()
			fn := func(index int, value interface{}) bool {
				if value == nil {
					visited = append(visited, -1)
				} else {
					visited = append(visited, value.(int))
				}
				k := 0 // script exhausted: stop
				if index < len(script) {
					k = script[index]
				} else {
					k = 1
				}
				switch {
				case k == 0:
					return true
				case k == 1:
					return false
				case k >= 1000:
					// the callback puts a value while it is running for the current one
					_ = r.b.Put(context.Background(), k-1000)
					return true
				default:
					if goexit {
						r.h.count("range_callback_goexit", 1)
						runtime.Goexit()
					}
					panic("verif: scripted callback panic")
				}
			}
			var err error
			if bounded {
				err = r.b.Range(ctx, r.cons[c], fn)
			} else {
				err = Range(ctx, r.cons[c], fn)
			}
			completed = true
			if err != nil {
				end = 1
			}
		}()
		<-finished
		out = []int{100, end, len(visited)}
		return append(out, visited...)
	})
	if !o.returned() {
		// the unbounded form parked at the end of the buffer (observed at a quiescent point): cancel its context
		cancel()
		<-o.done
		r.h.count("range_parked_then_cancelled", 1)
	}
	r.delta[c] = 0
}

func init() {
	register("BUFK1", func(h *hctx) {
		for s := h.pi("salt", 0); s > 0; s-- {
			h.rng.Int63() // different properties explore different programs from the same seed
		}
		for i := 0; i < h.n; i++ {
			bufK1Case(h, i)
		}
	})
}

func bufK1Case(h *hctx, id int) {
	rng := h.rng
	kind, mx, tg := 0, 0, 0
	switch k := rng.Intn(10); {
	case k < 5:
		kind = 0
	case k < 8:
		kind = 1
		mx = 2 + rng.Intn(5)
		tg = rng.Intn(mx + 2)
	case k < 9:
		kind = 2
	default:
		kind = 3
	}
	if f := h.pi("cleaner", -1); f >= 0 {
		kind = f
	}
	if h.pi("cleanermix", 0) == 1 {
		// retention-focused mix: mostly forced trims, including targets below zero and above max (over- and under-asking)
		switch k := rng.Intn(20); {
		case k < 12:
			kind = 1
			mx = 1 + rng.Intn(6)
			tg = rng.Intn(mx+4) - 2
		case k < 16:
			kind = 2
		case k < 17:
			kind = 3
		default:
			kind = 0
		}
	}
	r := newBufRun(h, kind, mx, tg, 0)
	nops := 8 + rng.Intn(28)
	for k := 0; k < nops; k++ {
		r.sweepPending()
		nc := len(r.cons)
		x := rng.Intn(100)
		pick := func() int { return rng.Intn(nc) }
		free := func(c int) bool {
			// no call on this consumer is still in flight (composite operations such as Range must not interleave with
			// a Commit/Rollback that has been waiting for the consumer's mutex)
			keep := r.pendOps[c][:0]
			for _, o := range r.pendOps[c] {
				if !o.returned() {
					keep = append(keep, o)
				}
			}
			r.pendOps[c] = keep
			return r.pendGet[c] == nil && r.pendClC[c] == nil && len(keep) == 0
		}
		switch {
		case x < 20:
			r.put(rng.Intn(4), false)
			h.count("op_put", 1)
		case x < 22:
			r.put(1+rng.Intn(2), true)
		case x < 30 || nc == 0:
			if nc < 4 {
				r.newConsumer()
				h.count("op_new", 1)
			}
		case x < 58:
			c := pick()
			if free(c) {
				r.get(c)
				h.count("op_get", 1)
			}
		case x < 60:
			c := pick()
			if free(c) {
				ctx, cancel := context.WithCancel(context.Background())
				cancel()
				r.exec([]int{4, c}, func() []int { _, err := r.cons[c].Get(ctx); return errOut(err) })
			}
		case x < 70:
			c := pick()
			if r.pendGet[c] == nil || (r.pendOther[c] < 2 && rng.Intn(2) == 0) {
				if r.pendGet[c] != nil {
					r.pendOther[c]++
					h.count("op_on_consumer_with_parked_get", 1)
				}
				o := r.exec([]int{5, c}, func() []int { return errOut(r.cons[c].Commit()) })
				if o.returned() && o.out[0] == 3 {
					r.delta[c] = 0
				}
				if !o.returned() {
					r.pendOps[c] = append(r.pendOps[c], o)
				}
				h.count("op_commit", 1)
			}
		case x < 78:
			c := pick()
			if r.pendGet[c] == nil || (r.pendOther[c] < 2 && rng.Intn(2) == 0) {
				if r.pendGet[c] != nil {
					r.pendOther[c]++
					h.count("op_on_consumer_with_parked_get", 1)
				}
				o := r.exec([]int{6, c}, func() []int { return errOut(r.cons[c].Rollback()) })
				if o.returned() && o.out[0] == 3 {
					r.delta[c] = 0
				}
				if !o.returned() {
					r.pendOps[c] = append(r.pendOps[c], o)
				}
				h.count("op_rollback", 1)
			}
		case x < 82:
			c := pick()
			if free(c) || (r.pendGet[c] != nil && r.pendOther[c] < 2 && rng.Intn(2) == 0) {
				if r.pendGet[c] != nil {
					r.pendOther[c]++
					h.count("op_on_consumer_with_parked_get", 1)
				}
				o := r.exec([]int{7, c}, func() []int {
					n, ok := r.b.Diff(r.cons[c])
					return []int{6, n, boolInt(ok)}
				})
				if !o.returned() {
					r.pendOps[c] = append(r.pendOps[c], o)
				}
			}
		case x < 85:
			r.exec([]int{8}, func() []int { return []int{7, r.b.Size()} })
		case x < 88:
			r.exec([]int{9}, func() []int { return valsOut(8, r.b.Slice()) })
		case x < 91:
			r.settle()
			r.exec([]int{14}, func() []int { return []int{7, r.b.Size()} })
			h.count("op_settled", 1)
		case x < 93:
			// release a parked Get by cancelling its context
			for c, cancel := range r.getStop {
				cancel()
				select {
				case <-r.pendGet[c].done:
				case <-time.After(2 * time.Second):
					h.line("MONITOR C05 a parked Get of consumer %d did not return within 2 s of its context being cancelled (case %d)", c, id)
					r.record(fmt.Sprintf("k1-%d-%d-hung", h.seed, id), []int{kind, mx, tg})
					return
				}
				h.count("get_cancelled_while_parked", 1)
				break
			}
		case x < 96:
			c := pick()
			if free(c) {
				o := r.exec([]int{10, c}, func() []int { return errOut(r.cons[c].Close()) })
				if r.freeze(o, []int{5}) {
					// blocked on uncommitted reads: the model reports RBlocked for the call itself
					r.pendClC[c] = &bufOp{done: o.done}
					r.instant([]int{16, c}, []int{9, 1})
					h.count("closec_blocked", 1)
				}
				h.count("op_closec", 1)
			}
		case x < 97:
			if r.pendClB == nil && !r.closedB && (len(r.pendGet) == 0 || rng.Intn(2) == 0) {
				o := r.exec([]int{11}, func() []int { return errOut(r.b.Close()) })
				r.closedB = true
				// Gets parked on an exhausted buffer are released by the close (and must fail)
				for c, g := range r.pendGet {
					select {
					case <-g.done:
						h.count("get_released_by_closeb", 1)
					case <-time.After(2 * time.Second):
						h.line("MONITOR C05 a parked Get of consumer %d did not return within 2 s of Buffer.Close (case %d)", c, id)
						r.record(fmt.Sprintf("k1-%d-%d-hung", h.seed, id), []int{kind, mx, tg})
						return
					}
				}
				if r.freeze(o, []int{5}) {
					r.pendClB = &bufOp{done: o.done}
					r.instant([]int{17}, []int{9, 1})
					h.count("closeb_blocked", 1)
				}
				h.count("op_closeb", 1)
			}
		default:
			c := pick()
			if free(c) && len(r.pendGet) == 0 {
				n := rng.Intn(5)
				script := make([]int, n)
				for i := range script {
					script[i] = 0
					switch x := rng.Intn(12); {
					case x < 2:
						script[i] = 1 + rng.Intn(2)
					case x < 5:
						script[i] = 1000 + r.nextVal // put-then-continue
						r.nextVal++
					}
				}
				r.rangeOp(c, rng.Intn(3) != 0, script)
				h.count("op_range", 1)
			}
		}
	}
	// wind down: release parked Gets (their contexts are cancelled: they must return), observe final state
	for c, cancel := range r.getStop {
		cancel()
		select {
		case <-r.pendGet[c].done:
		case <-time.After(2 * time.Second):
			h.line("MONITOR C05 a parked Get of consumer %d did not return within 2 s of its context being cancelled (case %d)", c, id)
			r.record(fmt.Sprintf("k1-%d-%d-hung", h.seed, id), []int{kind, mx, tg})
			return
		}
	}
	r.sweepPending()
	r.settle()
	r.exec([]int{14}, func() []int { return []int{7, r.b.Size()} })
	r.exec([]int{9}, func() []int { return valsOut(8, r.b.Slice()) })
	for c := range r.cons {
		if r.pendClC[c] == nil {
			c := c
			r.exec([]int{7, c}, func() []int {
				n, ok := r.b.Diff(r.cons[c])
				return []int{6, n, boolInt(ok)}
			})
			r.exec([]int{12, c}, func() []int {
				select {
				case <-r.cons[c].Done():
					return []int{9, 1}
				default:
					return []int{9, 0}
				}
			})
		}
	}
	r.record(fmt.Sprintf("k1-%d-%d", h.seed, id), []int{kind, mx, tg})
	// cleanup: roll everything back so blocked closes can finish, then close the buffer
	for c := range r.cons {
		if r.pendGet[c] == nil {
			_ = r.cons[c].Rollback()
		}
	}
	if !r.closedB {
		go r.b.Close()
	}
}
