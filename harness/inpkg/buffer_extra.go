//go:build verif

package bigbuff

// Standalone monitor scenarios for the Buffer prompted by seeded "plausible improvement" changes: behaviour that the random
// histories of BUFK1 reach only with negligible probability (batches of thousands of values racing each other, Slice racing
// the cleaner over a large prefix, a Range whose callback uses the consumer or cancels the Range's context).

import (
	"context"
	"sync"
	"time"
)

func init() {
	// C01BIG: several producers Put batches of many thousand values at the same time: each call's values are contiguous and in
	// argument order in the put order (Slice, and what a consumer reads).
	register("C01BIG", func(h *hctx) {
		for i := 0; i < h.n; i++ {
			b := new(Buffer)
			c, err := b.NewConsumer()
			if err != nil {
				h.line("MONITOR C01 big-batch case %d: NewConsumer failed", i)
				return
			}
			nprod, size := 3, 5000+h.rng.Intn(9000)
			var wg sync.WaitGroup
			for p := 0; p < nprod; p++ {
				vals := make([]interface{}, size)
				for k := range vals {
					vals[k] = p*1000000 + k
				}
				wg.Add(1)
				go func() { defer wg.Done(); _ = b.Put(context.Background(), vals...) }()
			}
			wg.Wait()
			check := func(what string, seq []interface{}) {
				if len(seq) != nprod*size {
					h.line("MONITOR C01 big batches: %s has %d values, %d were put (case %d)", what, len(seq), nprod*size, i)
					return
				}
				for at := 0; at < len(seq); at += size {
					first, _ := seq[at].(int)
					for k := 0; k < size; k++ {
						if v, ok := seq[at+k].(int); !ok || v != first+k || first%1000000 != 0 {
							h.line("MONITOR C01 big batches: in %s the values of one Put of %d values are not contiguous and in argument order: position %d holds %v, expected %d (case %d)", what, size, at+k, seq[at+k], first+k, i)
							return
						}
					}
				}
			}
			check("Slice", b.Slice())
			got := make([]interface{}, 0, nprod*size)
			for k := 0; k < nprod*size; k++ {
				v, err := c.Get(context.Background())
				if err != nil {
					break
				}
				got = append(got, v)
			}
			check("the consumer's stream", got)
			_ = c.Rollback()
			_ = c.Close()
			_ = b.Close()
			h.count("c01big_cases", 1)
		}
	})

	// C03SLICE: Slice is a suffix of the put order at some instant, also while the cleaner evicts (and nils) thousands of
	// values at a time: consecutive values, no holes.
	register("C03SLICE", func(h *hctx) {
		for i := 0; i < h.n; i++ {
			b := new(Buffer)
			*fld[*CleanerConfig](b, "cleaner") = &CleanerConfig{Cleaner: DefaultCleaner, Cooldown: 0}
			c, err := b.NewConsumer()
			if err != nil {
				return
			}
			stop := make(chan struct{})
			var bad sync.Once
			var wg sync.WaitGroup
			wg.Add(1)
			go func() {
				defer wg.Done()
				for {
					select {
					case <-stop:
						return
					default:
					}
					s := b.Slice()
					for k := range s {
						v, ok := s[k].(int)
						if !ok || (k > 0 && v != s[k-1].(int)+1) {
							bad.Do(func() {
								h.line("MONITOR C03 Slice returned something that is not a suffix of the put order: position %d of %d holds %v after %v (case %d)", k, len(s), s[k], func() interface{} {
									if k > 0 {
										return s[k-1]
									}
									return "-"
								}(), i)
							})
							return
						}
					}
				}
			}()
			next := 0
			end := time.Now().Add(60 * time.Millisecond)
			for time.Now().Before(end) {
				n := 2000 + h.rng.Intn(6000)
				vals := make([]interface{}, n)
				for k := range vals {
					vals[k] = next
					next++
				}
				_ = b.Put(context.Background(), vals...)
				for k := 0; k < n; k++ {
					if _, err := c.Get(context.Background()); err != nil {
						break
					}
				}
				_ = c.Commit()
			}
			close(stop)
			wg.Wait()
			_ = c.Close()
			_ = b.Close()
			h.count("c03slice_cases", 1)
		}
	})

	// C02SHARED: (a) the callback of Buffer.Range reads from the same consumer itself: Buffer.Range still stops at the end of the
	// buffer without parking, and the values seen by the callback and by its own Gets are the put order, each once;
	// (b) the callback of Range cancels the Range's context and returns true: the value it was handling is committed (it was
	// handled), the next read returns the following value.
	register("C02SHARED", func(h *hctx) {
		for i := 0; i < h.n; i++ {
			b := new(Buffer)
			c, err := b.NewConsumer()
			if err != nil {
				return
			}
			n := 6 + h.rng.Intn(20)
			for k := 0; k < n; k++ {
				_ = b.Put(context.Background(), k)
			}
			if i%2 == 0 {
				steal := 1 + h.rng.Intn(n-2)
				var seen []int
				done := make(chan error, 1)
				go func() {
					done <- b.Range(context.Background(), c, func(index int, value interface{}) bool {
						seen = append(seen, value.(int))
						if value.(int) == steal-1 {
							if v, err := c.Get(context.Background()); err == nil { // the callback uses the consumer too
								seen = append(seen, v.(int))
							}
						}
						return true
					})
				}()
				select {
				case err := <-done:
					if err != nil {
						h.line("MONITOR C02 Buffer.Range whose callback reads from the consumer returned %v (case %d)", err, i)
					}
					for k, v := range seen {
						if v != k {
							h.line("MONITOR C02 Buffer.Range whose callback reads from the consumer: values seen %v are not the put order 0..%d each once (case %d)", seen, n-1, i)
							break
						}
					}
					if len(seen) != n {
						h.line("MONITOR C02 Buffer.Range whose callback reads from the consumer saw %d of %d values (case %d)", len(seen), n, i)
					}
				case <-time.After(2 * time.Second):
					h.line("MONITOR C02 Buffer.Range parked at the end of the buffer instead of returning (its callback had read one value from the same consumer; %d values, case %d)", n, i)
					_ = b.Close()
					continue
				}
			} else {
				at := h.rng.Intn(n - 1)
				ctx, cancel := context.WithCancel(context.Background())
				err := Range(ctx, c, func(index int, value interface{}) bool {
					if value.(int) == at {
						cancel() // stop ranging after this value, which has been handled
					}
					return true
				})
				if err == nil {
					h.line("MONITOR C02 Range returned nil although its context was cancelled by the callback (case %d)", i)
				}
				v, gerr := c.Get(context.Background())
				if gerr != nil || v.(int) != at+1 {
					h.line("MONITOR C02 after a Range whose callback cancelled the context while handling value %d (and returned true) the next read returned (%v, %v), expected %d: the handled value was not committed (case %d)", at, v, gerr, at+1, i)
				}
				cancel()
			}
			_ = c.Rollback()
			_ = c.Close()
			_ = b.Close()
			h.count("c02shared_cases", 1)
		}
	})
	// C12FROZEN: "closing a Buffer ... leaves its contents readable": what Slice/Size return once Close has returned does not
	// change any more - in particular not when a cooldown timer of the cleaner that was pending at Close expires afterwards
	// (changes missed during the cooldown window, forced trims of FixedBufferCleaner included, are not caught up on a closed
	// Buffer).
	register("C12FROZEN", func(h *hctx) {
		for i := 0; i < h.n; i++ {
			d := time.Duration(30+h.rng.Intn(30)) * time.Millisecond
			fixed := i%3 != 2
			b := new(Buffer)
			cfg := &CleanerConfig{Cleaner: DefaultCleaner, Cooldown: d}
			if fixed {
				cfg.Cleaner = FixedBufferCleaner(3, 1+h.rng.Intn(2), nil)
			}
			*fld[*CleanerConfig](b, "cleaner") = cfg
			ncons := h.rng.Intn(3)
			if !fixed && ncons == 0 {
				ncons = 1
			}
			var cs []Consumer
			for k := 0; k < ncons; k++ {
				c, err := b.NewConsumer()
				if err != nil {
					h.line("MONITOR C12 frozen case %d: NewConsumer failed: %v", i, err)
					return
				}
				cs = append(cs, c)
			}
			// the first change runs a cleanup cycle and opens the cooldown window; everything below lands inside it
			_ = b.Put(context.Background(), 0)
			time.Sleep(d / 10) // the cleaner goroutine gets to see each change (it is what records "missed during the cooldown")
			n := 5 + h.rng.Intn(6)
			for k := 1; k <= n; k++ {
				_ = b.Put(context.Background(), k)
			}
			for _, c := range cs {
				m := 1 + h.rng.Intn(n)
				for k := 0; k < m; k++ {
					if _, err := c.Get(context.Background()); err != nil {
						break
					}
				}
				_ = c.Commit()
			}
			time.Sleep(d / 10)
			order := h.rng.Intn(2)
			if order == 0 {
				for _, c := range cs {
					_ = c.Close()
				}
			}
			cerr := make(chan error, 1)
			go func() { cerr <- b.Close() }()
			select {
			case <-cerr:
			case <-time.After(5 * time.Second):
				h.line("MONITOR C12 frozen case %d: Buffer.Close did not return within 5 s (nothing uncommitted, no Get blocked)", i)
				return
			}
			s0 := b.Slice()
			n0 := b.Size()
			time.Sleep(2*d + 40*time.Millisecond)
			s1 := b.Slice()
			n1 := b.Size()
			same := len(s0) == len(s1) && n0 == n1 && n0 == len(s0)
			if same {
				for k := range s0 {
					if s0[k] != s1[k] {
						same = false
					}
				}
			}
			if !same {
				h.line("MONITOR C12 the contents of a closed Buffer changed after Close had returned: Slice %v (Size %d) right after Close, %v (Size %d) %v later (cleaner cooldown %v, fixed=%v, %d consumers, case %d)", s0, n0, s1, n1, 2*d+40*time.Millisecond, d, fixed, ncons, i)
			}
			h.count("c12frozen_cases", 1)
			if fixed {
				h.count("c12frozen_fixed", 1)
			}
		}
	})
	// C04LAG: reclamation after a forced trim that overtook a consumer's COMMITTED position but not its read position.
	// FixedBufferCleaner(max, target); the consumer reads r values without committing; more Puts push the size over max and
	// the forced trim (awaited) moves the start of the buffer past the consumer's committed offset; the consumer then commits,
	// which puts it r - start > 0 values past the start: "every open consumer has committed past a prefix" again, and that
	// prefix must go without any further operation (the Commit is the last state change): Size = values put - r.
	register("C04LAG", func(h *hctx) {
		bad := 0
		for i := 0; i < h.n && bad < 3; i++ {
			d := time.Duration(h.rng.Intn(3)) * 4 * time.Millisecond // 0, 4, 8 ms
			max := 6 + h.rng.Intn(6)
			k := 1 + h.rng.Intn(2)
			target := k + 1 + h.rng.Intn(max-k-2)
			n0 := max                // the buffer is full; the next Put pushes it over max
			shift := n0 + k - target // what the forced trim removes
			if shift < 1 || shift >= n0 {
				continue
			}
			r := shift + 1 + h.rng.Intn(n0-shift) // shift < r <= n0
			b := new(Buffer)
			*fld[*CleanerConfig](b, "cleaner") = &CleanerConfig{Cleaner: FixedBufferCleaner(max, target, nil), Cooldown: d}
			c, err := b.NewConsumer()
			if err != nil {
				return
			}
			for v := 0; v < n0; v++ {
				_ = b.Put(context.Background(), v)
			}
			for v := 0; v < r; v++ {
				if _, err := c.Get(context.Background()); err != nil {
					h.line("MONITOR C04 lag case %d: Get %d failed before any trim: %v", i, v, err)
					return
				}
			}
			for v := 0; v < k; v++ {
				_ = b.Put(context.Background(), n0+v)
			}
			// the forced trim
			end := time.Now().Add(2*d + 3*time.Second)
			for b.Size() != target && time.Now().Before(end) {
				time.Sleep(200 * time.Microsecond)
			}
			if sz := b.Size(); sz != target {
				h.line("MONITOR C04 lag case %d: FixedBufferCleaner(%d, %d): the buffer holds %d values %v after %d Puts and quiescence, expected the forced trim to %d", i, max, target, sz, 2*d+3*time.Second, n0+k, target)
				bad++
				_ = c.Rollback()
				_ = c.Close()
				_ = b.Close()
				continue
			}
			if err := c.Commit(); err != nil {
				h.line("MONITOR C04 lag case %d: Commit of %d reads failed: %v", i, r, err)
				bad++
			}
			want := n0 + k - r
			end = time.Now().Add(2*d + 3*time.Second)
			for b.Size() != want && time.Now().Before(end) {
				time.Sleep(200 * time.Microsecond)
			}
			if sz := b.Size(); sz != want {
				h.line("MONITOR C04 lag case %d: after the forced trim to %d (FixedBufferCleaner(%d, %d), cooldown %v) the only consumer committed its %d reads, which puts it %d past the start of the buffer, and nothing else happened: Size is %d after %v, expected its backlog %d", i, target, max, target, d, r, r-shift, sz, 2*d+3*time.Second, want)
				bad++
			}
			_ = c.Close()
			_ = b.Close()
			h.count("c04lag_cases", 1)
		}
	})
}
